"""C20 — futures deliver exactly one value and never strand a writer.
Proof: coq/theories/Props/C20.v (model Async/FutureOp.v; the per-future state space is finite, computed and
checked in Async/FutureOpReach.v + FutureOpChecks.v, lifted to all traces in Async/FutureOpProofs.v).
Tie (K): harness/crates/rtmock/src/bin/futures.rs drives the REAL FutureWriter / FutureWrite / FutureReader /
FutureRead (future_support.rs on waitable.rs, hook H1) against the mock component-model host on seeded
scenario lines; the extracted model (ocaml/future_driver.ml) must predict the same line (every host call,
ledger event, outcome, final summary).
Search: lib/c20_gen.holds = the property's own predicates evaluated on the REAL output lines."""
import json, os, collections
import vf, rtmock
import c20_gen as g

LEVEL = "proof"
READY = True
TARGETS = ["theories/Props/C20.vo", "theories/Extract/ExFutureOp.vo"]
THEOREMS = ["C20_no_host_trap", "C20_no_trap_token", "C20_only_documented_panics", "C20_exactly_once",
            "C20_cancel_reports_host_code", "C20_read_cancel_reports_host_code", "C20_handles_and_ledger",
            "C20_quiescence"]
CORPUS = os.path.join(vf.ROOT, "corpus", "C20.txt")


def build(ctx=None):
    ok1, exe_r, log1 = rtmock.build("futures")
    ok0, clog = vf.coq_make(TARGETS)
    ok2, exe_m, log2 = vf.ocaml_build("future_driver", ["futureop_model"], ["util.ml", "future_driver.ml"]) if ok0 else (False, None, clog)
    return ok1, exe_r, log1, ok2, exe_m, log2


def setup():
    ok1, _, l1, ok2, _, l2 = build()
    if not ok1: vf.log(l1[-2000:])
    if not ok2: vf.log(l2[-2000:])
    return ok1 and ok2


def real_run(exe_r, cases, shards=None):
    if shards == 1:
        return [rtmock.run(exe_r, [c])[0] for c in cases] if len(cases) == 1 else rtmock.run(exe_r, cases)
    return rtmock.run(exe_r, cases)


def one_real(exe_r, case):
    try:
        return vf.run_filter([exe_r], [case], shards=1)[0]
    except RuntimeError:
        return rtmock.run(exe_r, [case])[0]


def load_corpus():
    out = []
    if os.path.exists(CORPUS):
        for l in open(CORPUS):
            l = l.strip()
            if l and not l.startswith("#"):
                out.append(l)
    return out


def shrink(case, fails):
    """Shrink the action list (the version word stays; a clean-up suffix is re-appended if the case had one)."""
    w = case.split()
    had = g.has_cleanup(case)
    n = sum(1 for a in w[1:] if a[:2] in ("N:", "I:"))
    body = w[1:len(w) - (len(g.cleanup(n)) if had else 0)]

    def mk(acts):
        c = w[0] + " " + " ".join(acts)
        return g.with_cleanup(c) if had else c

    if not fails(mk(body)):
        return case
    small = vf.shrink_list(body, lambda acts: bool(acts) and fails(mk(acts)), max_steps=600)
    return mk(small)


def run(ctx):
    quick = ctx.tier == "quick"
    n_main, n_mis = (7000, 1000) if quick else (1200000, 120000)
    ctx.assumptions += [
        "model: one task (harness-owned wasip3_task, C ABI v1 or v2, registration map + lazily created waitable set exactly as SharedTaskState keeps them); every API call is made inside that task (outside any task FutureWriter::drop with a live, non-reading reader trips register_waker's assert — out of the quantifier)",
        "model: payload values are never inspected, so the per-future core carries them symbolically (user's latest accepted write / default / peer's) and the wrapper resolves them; C20_exactly_once's last clause (a user write is accepted only while nothing has been moved) is what makes the symbol unambiguous; the tie compares the concrete numbers",
        "model: the host answers from its state (no scripted answers): a cancel racing a completion / a reader drop is produced by letting the peer read or drop before the cancel with or without the event having been delivered — every return code future.write/read/cancel-* can give is exercised that way",
        "host future = future part of harness/crates/rtmock/src/host.rs (trusted transcription of CanonicalABI.md: traps are logged as TRAP:<rule>); handles are symbolised as <future index><w|r> by the driver before printing, so LIFO handle reuse is exercised on the real side but is not part of the model",
        "tie: harness/crates/rtmock bin `futures` calls the public future_new / FutureWriter::write / FutureWrite::{poll,cancel,drop} / FutureReader::{new,into_future,take_handle,drop} / FutureRead::{poll,cancel,drop} with vtable entry points = mock host, payloads u32 and a drop-counting heap payload, a watching global allocator for the Cleanup area; OCaml extraction (ExtrOcamlBasic, ExtrOcamlString) of FutureOp.run is the model side",
    ]
    ctx.proof_leg(["theories/Props/C20.vo"], ["Props.C20"], THEOREMS)
    ok1, exe_r, log1, ok2, exe_m, log2 = build(ctx)
    if not ok1:
        ctx.tie_broken("tie", "harness build against the working tree failed:\n" + log1[-3000:]); return
    if not ok2:
        ctx.tie_broken("tie", "model extraction/driver build failed:\n" + log2[-3000:]); return
    rng = ctx.rng
    corpus = load_corpus()
    feat = collections.Counter()
    acts = collections.Counter()
    nontriv = set()
    tot = {"cases": 0, "main": 0, "misuse": 0, "cut": 0, "panic": 0, "mism": 0, "viol": 0}
    first_mism = []
    viols = []
    samples = []
    batch = 60000
    todo = [("corpus", len(corpus))]
    k = n_main
    while k > 0:
        todo.append(("main", min(batch, k))); k -= batch
    k = n_mis
    while k > 0:
        todo.append(("misuse", min(batch, k))); k -= batch
    for kind, n in todo:
        # ---- inputs: corpus / main stream (legal use only: cut right before a misuse panic of the REAL
        #      code, clean-up suffix in 90%) / misuse stream
        if kind == "corpus":
            cases = list(corpus)
        elif kind == "main":
            raw = [g.gen_case(rng, misuse=False, with_cleanup=False) for _ in range(n)]
            raw_out = rtmock.run(exe_r, raw)
            cases = []
            for c, o in zip(raw, raw_out):
                c2 = g.cut_at_panic(c, o)
                tot["cut"] += c2 != c
                if len(c2.split()) < 2:
                    c2 = " ".join(c.split()[:2])
                cases.append(g.with_cleanup(c2) if rng.chance(9, 10) else c2)
        else:
            cases = [g.gen_case(rng, misuse=True) for _ in range(n)]
        if not cases:
            continue
        real = rtmock.run(exe_r, cases)
        model = vf.run_filter([exe_m], cases)
        tot["cases"] += len(cases)
        if kind != "corpus":
            tot[kind] += len(cases)
        # ---- tie
        mism = [(c, r, m) for c, r, m in zip(cases, real, model) if r != m]
        tot["mism"] += len(mism)
        if mism and not first_mism:
            first_mism = mism[:1]
        # ---- search: the property on the real lines
        for c, r in zip(cases, real):
            b = g.holds(c, r)
            if b:
                tot["viol"] += 1
                if len(viols) < 60:
                    viols.append((c, r, b))
            for f in g.features(r):
                feat[f] += 1
            for a in c.split()[1:]:
                acts[a.split(":")[0]] += 1
            if g.nontrivial(r):
                nontriv.add(hash(c))
            tot["panic"] += "=PANIC" in r
        if kind != "corpus" and len(samples) < 3:
            samples.append({"stream": kind, "scenario": cases[0], "real": real[0]})
    reported = set()
    for c, r, b in viols:
        rule = b[0][0]
        if rule in reported:
            continue
        reported.add(rule)
        small = shrink(c, lambda cc: any(x[0] == rule for x in g.holds(cc, one_real(exe_r, cc))))
        rs = one_real(exe_r, small)
        bs = [x for x in g.holds(small, rs) if x[0] == rule] or b
        ctx.violation("c20:%s:%s" % (rule, small.replace(" ", ",")), bs[0][1],
                      {"case": small, "real": rs, "rule": rule, "original": c})
    if first_mism:
        c, r, m = first_mism[0]
        small = shrink(c, lambda cc: one_real(exe_r, cc) != vf.run_filter([exe_m], [cc], shards=1)[0])
        rs, ms = one_real(exe_r, small), vf.run_filter([exe_m], [small], shards=1)[0]
        rt, mt = rs.split(), ms.split()
        k = next((i for i, (a, b) in enumerate(zip(rt, mt)) if a != b), min(len(rt), len(mt)))
        ctx.tie_broken("tie", "model and real runtime disagree on %d/%d scenarios; minimised: %r\n real : %s\n model: %s\n first difference at token %d: real %r, model %r" % (
            tot["mism"], tot["cases"], small, rs, ms, k, rt[k:k + 3], mt[k:k + 3]))
        if not viols:
            ctx.notes.append("tie mismatch without a property violation on the real line: " + small)
    # ---- evidence
    bfs = vf.sh([exe_m, "bfs"], timeout=120)[1].strip()
    st = tr = 0
    for part in bfs.split():
        if ":" not in part:
            continue
        for kv in part.split(":", 1)[1].split(","):
            k, v = kv.split("=")
            if k == "states": st += int(v)
            if k == "transitions": tr += int(v)
    ctx.coverage.update({
        "evaluations": tot["cases"], "distinct_nontrivial": len(nontriv),
        "rule": "seeded scenario lines: 1-3 futures (own / imported, u32 / heap payload), 3-22 actions over write/poll/cancel/drop of ops and ends, transfer, peer read/write/drop, event delivery, plus scripted race patterns (operation in flight, other side moves, cancel/drop/poll with or without delivery), task ABI v1/v2; main stream = legal API use (cut before the first misuse panic of the real code) + clean-up suffix in 90%; misuse stream = polls/cancels of finished operations allowed; non-trivial = an operation blocked, a cancel intrinsic was called or a default value was written; distinct = distinct scenario lines",
        "samples": samples,
        "traces_validated_against_impl": tot["cases"], "model_mismatches": tot["mism"],
        "property_violations_on_real_lines": tot["viol"],
        "states": st, "transitions": tr,
        "distribution": {"corpus": len(corpus), "main": tot["main"], "misuse": tot["misuse"], "main_cut_before_misuse_panic": tot["cut"],
                         "scenarios_ending_in_documented_panic": tot["panic"], "actions": dict(acts), "features": dict(feat),
                         "core_state_space": bfs},
    })


def replay(ctx, path):
    obj = json.load(open(path))
    ok1, exe_r, log1, ok2, exe_m, log2 = build(ctx)
    if not ok1:
        print("harness build failed:\n" + log1[-2000:]); return 1
    case = obj["replay"]["case"] if "replay" in obj else obj["case"]
    rs = one_real(exe_r, case)
    b = g.holds(case, rs)
    print("scenario:", case)
    print("real    :", rs)
    if ok2:
        ms = vf.run_filter([exe_m], [case], shards=1)[0]
        print("model   :", ms if ms != rs else "(identical)")
    for rule, why in b:
        print("VIOLATED [%s]: %s" % (rule, why))
    print("verdict:", "property violated on this scenario" if b else "property holds on this scenario")
    return 1 if b else 0


META = {
    "engine": "coq+rtmock",
    "technique": "Coq proof: executable model of future_support.rs (+ the WaitableOperation contract and the host future) whose per-future state space is finite; reachable set computed by BFS inside Coq and every invariant / transition property discharged by vm_compute over it (sound boolean state equality proved), lifted to all traces and any number of futures by induction; differential correspondence of the model with the real FutureWriter/FutureReader on the native mock host",
    "text": "Unbounded Coq theorems over every trace of future creation / write / read / poll / cancel / drop of ends and of in-progress operations / transfer / peer moves / event deliveries, both task ABI versions, payloads with and without heap data: no host trap (in particular never future.drop-writable on an unwritten end whose reader is alive) and no unreachable panic; at most one value crosses a future and reader side / writer side see exactly that value; cancel answers exactly as the host's code says; every handle end dropped exactly once; ledger (lower/lift/dealloc, Cleanup areas, payload values) never negative and zero at quiescence; after the clean-up suffix every writer has delivered (user or default value, via write_and_forget/DeferredWrite) or observed the reader gone. The model is tied to the real Rust runtime on every run (same output line on thousands of seeded scenarios) and the property's own predicates are evaluated on the real lines.",
    "note": "Trusted: Coq kernel + vm_compute; extraction and ocaml/future_driver.ml; the mock host rtmock (transcription of the CM spec's future rules) and hook H1; the driver's handle symbolisation. Print Assumptions: closed under the global context. Not covered: real TaskState (C22) — the task side is the harness-owned MockTask; a FutureWriter dropped outside any task.",
}
