"""C04 — variant payload slot joining is lossless and matches the spec.
Proof: coq/theories/Props/C04.v (Abi/Cast.v, Abi/CastSem.v, Abi/CastProofs.v).
Tie (K): real abi::cast on all 49 ordered pairs (harness/corelib `cast`) vs the extracted model; real
wit-parser join observed through the flat types the real generator puts into VariantLower/ConstZero/Bitcasts
for crafted variants that realise every (accumulated slot type, case type) pair (absdump vs model).
Search: the property's statement (round trip + zero-extend/wrap rule) evaluated with the REAL Bitcast answers.
Backend half (T): lib/scalar.backend_casts_leg when present (Rust/C/MoonBit emitted cast expressions)."""
import vf, os, json, importlib, itertools
import abitie

LEVEL = "proof"
READY = True
WTS = ["i32", "i64", "f32", "f64", "ptr", "ptr64", "len"]
THEOREMS = ["C04_slot_absorbs_cases", "C04_total", "C04_unreachable_pairs_never_arise", "C04_roundtrip",
            "C04_lower_is_zero_extend", "C04_lift_is_spec_coercion", "C04_join_is_spec_join"]
BITS = lambda pw: {"i32": 32, "f32": 32, "i64": 64, "f64": 64, "ptr64": 64, "ptr": 8 * pw, "len": 8 * pw}
# a WIT payload type whose FIRST flat core type is the given one
FIRST = {"i32": "u32", "i64": "u64", "f32": "f32", "f64": "f64", "ptr": "string"}


def setup():
    ok1, _, l1 = vf.cargo_build("corelib")
    b = abitie.build()
    return ok1 and b[0] and b[3]


def py_join(a, b):
    """the spec's join lifted to the 7 types (used only to pick interesting inputs)"""
    if a == b: return a
    s = {a, b}
    if s == {"i32", "f32"}: return "i32"
    if "ptr64" in s: return "ptr64"
    if "ptr" in s: return "ptr" if s <= {"ptr", "i32", "f32", "len"} else "ptr64"
    if "len" in s: return "len" if s <= {"len", "i32", "f32"} else "i64"
    return "i64"


def cast_sem(pw, c, x):
    c = c.strip()
    if c.startswith("(Seq "):
        inner = c[5:-1]
        depth = 0
        for i, ch in enumerate(inner):
            if ch == "(": depth += 1
            elif ch == ")": depth -= 1
            elif ch == " " and depth == 0:
                return cast_sem(pw, inner[i + 1:], cast_sem(pw, inner[:i], x))
    if c in ("I64ToI32", "I64ToF32", "PToI32", "LToI32"): return x % 2 ** 32
    if c in ("P64ToP", "I64ToL"): return x % 2 ** (8 * pw)
    return x


def join_corpus():
    """variants realising every (accumulated slot type, case type) pair in slot 1 or 2"""
    texts = []
    firsts = list(FIRST.items())
    n = 0
    for (a, ta), (b, tb) in itertools.product(firsts, firsts):
        n += 1
        texts.append("package t:p;\ninterface i {\n  variant v { a(%s), b(%s) }\n  f0: func(x: v) -> v;\n}\n" % (ta, tb))
    for (a, ta) in firsts:                       # len as accumulated / as case type (slot 2)
        texts.append("package t:p;\ninterface i {\n  variant v { a(string), b(tuple<u8, %s>) }\n  f0: func(x: v) -> v;\n}\n" % ta)
        texts.append("package t:p;\ninterface i {\n  variant v { a(tuple<u8, %s>), b(string) }\n  f0: func(x: v) -> v;\n}\n" % ta)
        # ptr64 as accumulated type
        texts.append("package t:p;\ninterface i {\n  variant v { a(string), b(u64), c(%s) }\n  f0: func(x: v) -> v;\n}\n" % ta)
        texts.append("package t:p;\ninterface i {\n  variant v { a(f64), b(string), c(%s), d(tuple<u8, f64>) }\n  f0: func(x: v) -> v;\n}\n" % ta)
    texts.append("package t:p;\ninterface i {\n  variant v { a(string), b(u64), c(tuple<u8, u64>), d(list<u8>) }\n  f0: func(x: v) -> v;\n}\n")
    return texts


def run(ctx):
    ctx.assumptions += [
        "bit-vector semantics of each Bitcast (Abi/CastSem.v): widening = zero-extension/reinterpretation, narrowing = low bits; Pointer/Length are 8*pw bits wide, PointerOrI64 64 bits",
        "tie: real pub fn abi::cast via harness/corelib; wit-parser's private join observed through the flat types in real instruction streams (absdump)",
    ]
    ctx.proof_leg(["theories/Props/C04.vo"], ["Props.C04"], THEOREMS)
    ok1, exe_c, log1 = vf.cargo_build("corelib")
    b = abitie.build()
    if not ok1 or not b[0]:
        ctx.tie_broken("tie", "harness build against /repo failed:\n" + (log1 if not ok1 else b[2])[-3000:]); return
    if not b[3]:
        ctx.tie_broken("tie", "model extraction/driver build failed:\n" + b[5][-3000:]); return
    exe_r, exe_m = b[1], b[4]
    pairs = [(a, c) for a in WTS for c in WTS]
    real = vf.run_filter([exe_c, "cast"], ["%s %s" % p for p in pairs], shards=1)
    model = vf.run_filter([exe_m], ["cast.%s.%s\x1d_" % p for p in pairs], shards=1)
    mism = [(p, r, m) for p, r, m in zip(pairs, real, model) if r != m]
    if mism:
        ctx.tie_broken("tie", "abi::cast differs from the model on %d/49 pairs; first: %s real=%s model=%s" % (len(mism), mism[0][0], mism[0][1], mism[0][2]))
    # search leg on the REAL answers: for every pair with a <= j: both casts exist, round trip is the identity,
    # up-cast is the identity on the bit pattern and down-cast keeps the low bits
    nsem = 0
    realmap = dict(zip(pairs, real))
    samples = []
    for a in WTS:
        for b_ in WTS:
            j = py_join(a, b_)
            up, down = realmap[(a, j)], realmap[(j, a)]
            if up == "PANIC" or down == "PANIC":
                ctx.violation("cast:%s->%s" % (a, j), "abi::cast panics on a pair that join relates (%s joined with %s gives %s)" % (a, b_, j),
                              {"from": a, "to": j, "up": up, "down": down})
                continue
            for pw in (4, 8):
                w = BITS(pw)[a]
                rng = ctx.rng.fork(WTS.index(a) * 100 + WTS.index(b_) * 10 + pw)
                xs = [0, 1, 2 ** (w - 1) - 1, 2 ** (w - 1), 2 ** w - 1, 0x7fffffff % 2 ** w, 0x80000000 % 2 ** w] + [rng.below(2 ** w) for _ in range(8)]
                for x in xs:
                    nsem += 1
                    y = cast_sem(pw, up, x)
                    z = cast_sem(pw, down, y)
                    if y != x or z != x:
                        ctx.violation("castsem:%s->%s" % (a, j), "round trip through the joined slot changes the value",
                                      {"pw": pw, "from": a, "slot": j, "x": x, "in_slot": y, "back": z, "up": up, "down": down})
                        break
            if len(samples) < 4:
                samples.append({"case_type": a, "other": b_, "slot": j, "into_slot": up, "out_of_slot": down})
    # join tie through the real generator's flat types
    texts = join_corpus()
    res = abitie.compare(exe_r, exe_m, texts)
    if res["mismatches"]:
        t, f, sig, label, d, m = res["mismatches"][0]
        ctx.tie_broken("tie", "flat types / casts emitted by the real generator differ from the model on %d dumps; first: %s %s: %s" % (
            len(res["mismatches"]), sig, label, abitie.first_diff(d, m)))
    if res["parse_errors"]:
        ctx.tie_broken("tie", "join corpus no longer parses: %s" % res["parse_errors"][0][1])
    distinct_casts = sorted({d_ for (_, _, _, label, d_) in res["index"] for d_ in [d_] if "Bitcasts" in d_})
    seen_bitcasts = set()
    for (_, _, _, label, d_) in res["index"]:
        for ev in d_.split(" ; "):
            if ev.startswith("e Bitcasts"):
                seen_bitcasts.add(ev.split(" : ")[0])
    # ---- backend half (T): the expression each anchored backend emits for every reachable Bitcast, scraped from the
    # generators' CURRENT output, translated into Scalar/Generated.v and decided for all inputs by the verified
    # normaliser (lib/scalar.py).  False = refuted with a witness input -> violation (known keys: the sign-extending
    # widenings recorded in known-findings.txt); None = not expressible in the model: allowed only for the keys in
    # corpus/C04-unmodelled.txt, anything new there means "no longer shown to hold".
    backend_rows = []
    try:
        scalar = importlib.import_module("scalar")
        backend_rows = scalar.backend_casts_leg(ctx)
    except ModuleNotFoundError:
        ctx.tie_broken("tie", "backend half missing: lib/scalar.py not found")
    unmodelled_ok = set()
    up = os.path.join(vf.ROOT, "corpus", "C04-unmodelled.txt")
    if os.path.exists(up):
        unmodelled_ok = {l.strip() for l in open(up) if l.strip() and not l.startswith("#")}
    nb_proved = 0
    for (lang, cast, ok, det) in backend_rows:
        key = "%s:%s" % (lang, cast)
        if ok is True:
            nb_proved += 1
        elif ok is False:
            ctx.violation(key, "backend %s emits for Bitcast %s an expression that differs from the canonical conversion: %s" % (lang, cast, det[:400]),
                          {"backend": lang, "cast": cast, "detail": det})
        elif key not in unmodelled_ok:
            ctx.tie_broken("tie", "backend cast %s is no longer decided by the normaliser (not in corpus/C04-unmodelled.txt): %s" % (key, det[:300]))
    if backend_rows and len({r[0] for r in backend_rows}) < 3:
        ctx.tie_broken("tie", "backend casts scraped for %s only (expected rust, c, moonbit)" % sorted({r[0] for r in backend_rows}))
    ctx.coverage.update({
        "evaluations": len(pairs) + nsem + res["n"],
        "distinct_nontrivial": len([p for p, r in zip(pairs, real) if r not in ("None", "PANIC")]) + len(seen_bitcasts),
        "exhaustive": True,
        "rule": "all 49 ordered core-type pairs through the real abi::cast (exhaustive); for each pair related by join the real Bitcast answers are evaluated on boundary+random bit patterns at pw=4 and pw=8; %d crafted variants realise every (slot type, case type) pair in the real generator's flat types; non-trivial = a pair needing an actual Bitcast, or a distinct Bitcasts instruction in a real stream" % len(texts),
        "samples": samples,
        "traces_validated_against_impl": len(pairs) + res["n"],
        "model_mismatches": len(mism) + len(res["mismatches"]),
        "backend_cast_classes": {"total": len(backend_rows), "proved_for_all_inputs": nb_proved,
                                 "refuted": [r[0] + ":" + r[1] for r in backend_rows if r[2] is False],
                                 "unmodelled": [r[0] + ":" + r[1] for r in backend_rows if r[2] is None]},
        "distribution": {"cast_pairs": len(pairs), "real_panics_on_unrelated_pairs": real.count("PANIC"),
                         "semantic_evaluations": nsem, "join_corpus_variants": len(texts), "generator_dumps_compared": res["n"],
                         "distinct_Bitcasts_instructions_seen": len(seen_bitcasts)},
    })


def replay(ctx, path):
    obj = json.load(open(path))["replay"]
    if "backend" in obj:
        scalar = importlib.import_module("scalar")
        rows = scalar.backend_casts_leg(ctx)
        for (lang, cast, ok, det) in rows:
            if lang == obj["backend"] and cast == obj["cast"]:
                print(lang, cast, ok, det)
                return 0 if ok is True else 1
        print("cast site no longer emitted")
        return 1
    ok1, exe_c, log1 = vf.cargo_build("corelib")
    a, j = obj["from"], obj.get("to") or obj.get("slot")
    up, down = vf.run_filter([exe_c, "cast"], ["%s %s" % (a, j), "%s %s" % (j, a)], shards=1)
    print("cast(%s,%s)=%s cast(%s,%s)=%s" % (a, j, up, j, a, down))
    if "x" in obj:
        y = cast_sem(obj["pw"], up, obj["x"]); z = cast_sem(obj["pw"], down, y)
        print("x=%d in_slot=%d back=%d" % (obj["x"], y, z))
        return 1 if (y != obj["x"] or z != obj["x"]) else 0
    return 1 if "PANIC" in (up, down) else 0


META = {
    "engine": "coq+absdump",
    "technique": "Coq proof: join is a semilattice agreeing with the spec's join at pw 4/8, cast is total exactly on join-related pairs, round trip and zero-extend/wrap agreement for ALL bit patterns by mod-2^k lemmas; exhaustive correspondence with the real abi::cast (49 pairs) and with real flat types",
    "text": "Unbounded theorems over all core-type pairs and all 32/64-bit patterns at both pointer widths: every slot type absorbs each case type that shares it, both conversions then exist, into-slot is the identity on bits (zero-extend/reinterpret), out-of-slot keeps the low bits (wrap/reinterpret) = the spec's coercion, round trip is the identity. Tied exhaustively to the real abi::cast and, through crafted variants, to wit-parser's join as the real generator uses it.",
    "note": "Trusted: Coq kernel; CastSem.v as the meaning of each Bitcast (this is the contract backends must implement; their emitted expressions are checked by the backend half when lib/scalar.py is present); extraction + ocaml/abi_driver.ml; harness/corelib + absdump printers. Print Assumptions: closed under the global context.",
}
