"""C15 — binding generation is deterministic across processes.                               LEVEL "other" (P/part)

PROVED PART  coq/theories/Props/C15.v over WB.Core.Determinism: every place where a std HashMap/HashSet is iterated on
             the way to output is modelled with the collection as a list in ARBITRARY order; `Permutation es es' ->
             render es = render es'` is proved for the sort / BTreeMap / commutative-merge sites, and REFUTED for the
             sites with no ordering step.
TIE          (T) lib/c15_lib.scan_sites re-scans crates/*/src of the working tree for iteration over hash-typed bindings
                 and the site list must equal corpus/C15-sites.txt (each line names the lemma that covers the site);
             (K) the extracted model's rendering of the MoonBit `moon.pkg.json` import/export lists and of the
                 collect_equal_types merge is compared with what the real code produced, feeding the entries in
                 shuffled orders.
DIFFERENTIAL (carries the whole-generator statement; labelled so) every backend x option variant is run in >= 4 separate
             PROCESSES (fresh RandomState keys, ASLR) on the tests/codegen corpus, directed and seeded random worlds; file
             names and bytes are compared; a difference is a violation whose replay is the shrunk world.
"""
import json, os, re, time
import vf, genlib, witgen
import c16_lib as L
import c16_worlds as W
import c15_lib as C

LEVEL = "other"
READY = True
TARGETS = ["theories/Props/C15.vo", "theories/Extract/ExDeterminism.vo"]
THEOREMS = ["C15_sort_erases_iteration_order", "C15_moonbit_pkg_imports_order_independent",
            "C15_moonbit_pkg_exports_order_independent", "C15_types_merge_order_independent",
            "C15_files_order_independent", "C15_into_hash_collection_order_independent", "C15_unordered_emission_refuted"]
ORDERED_CLASSES = {"sorted", "btree-files", "commutative-merge", "into-hash", "filter-only", "lookup-only", "indexmap-tail"}


def build():
    ok1, exe, log1 = vf.cargo_build("detnp")
    ok0, clog = vf.coq_make(TARGETS)
    ok2, drv, log2 = vf.ocaml_build("determinism_driver", ["determinism_model"], ["util.ml", "determinism_driver.ml"]) if ok0 else (False, None, clog)
    return ok1, exe, log1, ok2, drv, log2


def setup():
    ok1, _, l1, ok2, _, l2 = build()
    if not ok1: vf.log(l1[-2000:])
    if not ok2: vf.log(l2[-2000:])
    return ok1 and ok2


def enc(c):
    return genlib.encode(*c)


def hash_runs(exe, cases, nproc):
    """`nproc` independent passes; every pass = fresh OS processes (16 shards), so every case is generated in `nproc`
    different processes.  Each pass feeds its shards in a different rotation so a case never shares its process
    neighbours twice."""
    lines = [enc(c) for c in cases]
    runs = []
    for p in range(nproc):
        rot = (p * 7919) % max(1, len(lines))
        order = list(range(rot, len(lines))) + list(range(0, rot))
        out = L.run_supervised([exe, "hash"], [lines[i] for i in order], stall=300)
        res = [None] * len(lines)
        for i, o in zip(order, out):
            res[i] = o
        runs.append(res)
    return runs


def files_once(exe, case):
    return genlib.decode(vf.run_filter([exe, "files"], [enc(case)], shards=1)[0])


def world_name(wit):
    m = re.findall(r"(?<![a-z0-9%-])world\s+%?([a-z][a-z0-9-]*)\s*\{", L.strip_wit_comments(wit))
    return m[-1] if m else None


def norm_path(p, world=None):
    """File name with everything that depends on the names chosen in the WIT text abstracted away, so that the key names
    the emission point: the world's name (kebab, snake, UpperCamel, lowerCamel) becomes <world>; interface/package path
    components become **."""
    if world:
        parts = world.split("-")
        variants = {world, "_".join(parts), "".join(x.capitalize() for x in parts), parts[0] + "".join(x.capitalize() for x in parts[1:])}
        for v in sorted(variants, key=len, reverse=True):
            p = re.sub(r"(?<![A-Za-z0-9<])%s(?![a-z0-9>])" % re.escape(v), "<world>", p)
    p = re.sub(r"World\.wit\.(Imports|Exports|imports|exports)\..*?(Interop)?\.cs$", r"World.wit.\1.**\2.cs", p)
    parts = p.split("/")
    if len(parts) > 2:
        return parts[0] + "/**/" + parts[-1]
    return p


def classify(lang, wit, a, b):
    """Stable key(s) for the difference between two outputs ('ok', {name: content}) of the same case."""
    if a[0] != b[0]:
        return ["%s:outcome:%s-vs-%s" % (lang, a[0], b[0])]
    if a[0] != "ok":
        return [] if a[1] == b[1] else ["%s:message-differs" % lang]
    fa, fb = a[1], b[1]
    w = world_name(wit)
    keys = set()
    for n in sorted(set(fa) | set(fb)):
        if n not in fa or n not in fb:
            keys.add("%s:%s:file-set" % (lang, norm_path(n, w)))
        elif fa[n] != fb[n]:
            xa = fa[n] if isinstance(fa[n], str) else fa[n].hex()
            xb = fb[n] if isinstance(fb[n], str) else fb[n].hex()
            kind = "reorder" if sorted(xa.split("\n")) == sorted(xb.split("\n")) else "content"
            keys.add("%s:%s:%s" % (lang, norm_path(n, w), kind))
    return sorted(keys)


def differs(exe, case, tries=8):
    """Generate the case in `tries` fresh processes; returns (keys, two differing outputs) or ([], None)."""
    first = files_once(exe, case)
    for _ in range(tries - 1):
        o = files_once(exe, case)
        k = classify(case[0], case[3], first, o)
        if k:
            return k, (first, o)
    return [], None


def shrink_world(exe, case, key):
    lang, opts, world, text = case

    def fails_text(t):
        if vf.run_filter([exe, "valid"], [enc(("", "", None, t))], shards=1)[0] != "ok":
            return False
        ks, _ = differs(exe, (lang, opts, None, t), tries=8)
        return key in ks
    if not fails_text(text):
        return text
    lines = vf.shrink_list(text.split("\n"), lambda ls: fails_text("\n".join(ls)), max_steps=150)
    return "\n".join(lines)


def first_diff(a, b):
    for i, (x, y) in enumerate(zip(a.split("\n"), b.split("\n"))):
        if x != y:
            return "line %d: %r  vs  %r" % (i + 1, x[:120], y[:120])
    return "lengths differ"


def run(ctx):
    quick = ctx.tier == "quick"
    nproc = 4
    cov = ctx.coverage
    ctx.assumptions += [
        "the only hidden inputs a generator process has are std's RandomState keys and the address layout (no clock, environment, thread or file-system reads on the way to output — not proved; covered by the multi-process leg)",
        "model: a HashMap/HashSet is a list in arbitrary order; Vec::sort is the unique sorted permutation (proved unique for a total antisymmetric order; String order = byte-lexicographic); TypeInfo is an 8-bit mask with |= as bitwise or",
        "hash-iteration site scanner: regexes over comment-stripped sources, names bound to HashMap/HashSet by declaration; IndexMap/BTreeMap are ordered and excluded; #[cfg(test)] modules skipped",
    ]
    proof_ok = ctx.proof_leg(["theories/Props/C15.vo"], ["Props.C15"], THEOREMS)
    ok1, exe, log1, ok2, drv, log2 = build()
    if not ok1:
        ctx.tie_broken("tie", "harness detnp does not build:\n" + log1[-3000:]); return
    if not ok2:
        ctx.tie_broken("tie", "model extraction/driver build failed:\n" + log2[-3000:])

    # ------------------------------------------------------------ tie (T): hash-iteration sites of the current source
    sites, names, ndecl = C.scan_sites()
    committed = C.read_committed()
    new_sites = [s for s in sites if s not in committed]
    gone_sites = [s for s in committed if s not in sites]
    if new_sites or gone_sites:
        ctx.tie_broken("tie-sites", "hash-iteration sites of the working tree differ from corpus/C15-sites.txt: new (unclassified, possibly unordered) %s; gone %s" % (new_sites[:6], gone_sites[:6]))
    unordered_sites = [s for s in sites if s in committed and committed[s][0] not in ORDERED_CLASSES]
    class_hist = {}
    for s in sites:
        k = committed.get(s, ("UNCLASSIFIED", ""))[0]
        class_hist[k] = class_hist.get(k, 0) + 1

    # ------------------------------------------------------------ worlds and configurations
    from checks import c16
    lts, cfgs = c16.lang_configs()
    worlds = []
    cpath = os.path.join(vf.ROOT, "corpus", "C15.txt")
    if os.path.exists(cpath):
        for i, line in enumerate(open(cpath)):
            line = line.rstrip("\n")
            if line and not line.startswith("#"):
                worlds.append(("corpus", "corpus/C15.txt:%d" % (i + 1), line.replace("\\n", "\n")))
    for name, text, path in L.codegen_corpus():
        if not os.path.isdir(path):
            worlds.append(("codegen", name, text))
    for name, text in W.determinism_worlds():
        worlds.append(("directed-hash-sites", name, text))
    directed = W.directed_worlds()
    if quick:
        r2 = ctx.rng.fork(151)
        directed = [directed[r2.below(len(directed))] for _ in range(60)]
    for name, text in directed:
        worlds.append(("directed", name, text))
    rws, rej = witgen.gen_valid_worlds(ctx.rng.fork(15), 60 if quick else 1500, W.random_opts)
    for i, w in enumerate(rws):
        worlds.append(("random", "random:%d" % i, w.text))
    valid = vf.run_filter([exe, "valid"], [enc(("", "", None, t)) for _, _, t in worlds])
    worlds = [w for w, v in zip(worlds, valid) if v == "ok"]

    # ------------------------------------------------------------ tie (K): model vs real at the modelled emission points
    n_pkg = n_pkg_lists = n_merge = n_merge_types = 0
    kmis = []
    if ok2:
        mb = vf.run_filter([exe, "files"], [enc(("moonbit", "", None, t)) for _, _, t in worlds])
        dep_cases, dep_expect, exp_cases, exp_expect = [], [], [], []
        sh = ctx.rng.fork(152)

        def shuffled(xs):
            xs = list(xs)
            for i in range(len(xs) - 1, 0, -1):
                j = sh.below(i + 1)
                xs[i], xs[j] = xs[j], xs[i]
            return xs
        for (o, name, t), line in zip(worlds, mb):
            d = genlib.decode(line)
            if d[0] != "ok":
                continue
            for fn, content in d[1].items():
                if not fn.endswith("moon.pkg.json") or not isinstance(content, str):
                    continue
                n_pkg += 1
                deps = re.findall(r'^\s*(\{ "path" : "([^"]*)", "alias" : "([^"]*)" \}),?\s*$', content, flags=re.M)
                if deps:
                    ents = []
                    for _, pth, al in deps:
                        proj, _, rest = pth.partition("/")
                        ents.append((proj, rest, al))
                    if len({e[0] for e in ents}) == 1:
                        dep_cases.append("\t".join([ents[0][0]] + ["%s\x1d%s" % (k, v) for _, k, v in shuffled(ents)]))
                        dep_expect.append((name, fn, ",\n".join(x[0] for x in deps)))
                m = re.search(r'"exports": \[\n(.*?)\n\s*\]', content, flags=re.S)
                if m:
                    ls = [x.strip().rstrip(",") for x in m.group(1).split("\n")]
                    real = ",\n".join(ls)
                    ents = []
                    realloc = None
                    for x in ls:
                        mm = re.match(r'"([^":]+):(.*)"$', x)
                        if mm.group(1) == "mbt_ffi_cabi_realloc":
                            realloc = mm.group(2)
                        else:
                            ents.append((mm.group(2), mm.group(1)))
                    if realloc is not None:
                        exp_cases.append("\t".join([realloc] + ["%s\x1d%s" % e for e in shuffled(ents)]))
                        exp_expect.append((name, fn, real))
        for mode, cs, exps in (("deps", dep_cases, dep_expect), ("exports", exp_cases, exp_expect)):
            outs = vf.run_filter([drv, mode], cs) if cs else []
            n_pkg_lists += len(cs)
            for o, (name, fn, real) in zip(outs, exps):
                if o.replace("\x1f", "\n") != real:
                    kmis.append(("moonbit %s list of %s in world %s" % (mode, fn, name), o.replace("\x1f", "\n")[:300], real[:300]))
        tm = vf.run_filter([exe, "typesmerge"], [enc(("", "", None, t)) for _, _, t in worlds])
        mcases, mexp = [], []
        for (o, name, t), line in zip(worlds, tm):
            if not line.startswith("ok"):
                continue
            ents = [x.split(":") for x in line.split(" ")[1:]]
            if not ents:
                continue
            n_merge_types += len(ents)
            for _ in range(2):
                mcases.append(" ".join("%s:%s:%s" % (e[0], e[1], e[2]) for e in shuffled(ents)))
                mexp.append((name, " ".join("%s:%s" % (e[0], e[3]) for e in sorted(ents, key=lambda e: int(e[0])))))
        outs = vf.run_filter([drv, "merge"], mcases) if mcases else []
        n_merge = len(mcases)
        for o, (name, real) in zip(outs, mexp):
            if o != real:
                kmis.append(("collect_equal_types merge in world %s" % name, o[:300], real[:300]))
        if kmis:
            ctx.tie_broken("tie", "model and real code disagree at a modelled emission point (%d cases); first: %s" % (len(kmis), kmis[0]))

    # ------------------------------------------------------------ differential leg: >= 4 separate processes
    t0 = time.time()
    cases = []
    for origin, name, text in worlds:
        for (lang, kind, args, xk) in cfgs:
            if kind.startswith("x-") and quick:
                continue
            cases.append((lang, " ".join(args), None, text))
    runs = hash_runs(exe, cases, nproc)
    per = {}
    diff_cases = []
    n_hang = 0
    for i, c in enumerate(cases):
        p = per.setdefault(c[0], {"cases": 0, "identical_in_all_processes": 0, "differing": 0, "panic_or_error_same_everywhere": 0})
        p["cases"] += 1
        outs = [r[i] for r in runs]
        if any(o is None or o.startswith("hang") or o.startswith("crash") for o in outs):
            n_hang += 1
            continue
        norm = {o if o.startswith("ok") else o.split(" ")[0] for o in outs}   # panic locations/messages must agree in kind only
        if len(set(outs)) == 1 or (len(norm) == 1 and not outs[0].startswith("ok")):
            p["identical_in_all_processes"] += 1
            if not outs[0].startswith("ok"):
                p["panic_or_error_same_everywhere"] += 1
        else:
            p["differing"] += 1
            diff_cases.append(i)
    # classify every differing case from the per-file hashes of the bulk passes: which files differ, and whether the
    # difference is a pure reordering of lines (line-multiset hash equal) or a change of content
    def file_table(line):
        tab = {}
        for part in line.split(" ")[1:]:
            f = part.split("\x1d")
            tab[f[0].replace("\x1c", " ")] = (f[1], f[2], f[3], f[4] if len(f) > 4 else "")
        return tab
    classes = {}
    for i in diff_cases:
        lang, wit = cases[i][0], cases[i][3]
        outs = [r[i] for r in runs]
        kinds = {o.split(" ")[0] for o in outs}
        keys = set()
        if kinds != {"ok"}:
            keys.add("%s:outcome:%s" % (lang, "-vs-".join(sorted(kinds))))
        else:
            w = world_name(wit)
            tabs = [file_table(o) for o in outs]
            for n in sorted(set().union(*[set(tb) for tb in tabs])):
                vals = [tb.get(n) for tb in tabs]
                if any(v is None for v in vals):
                    keys.add("%s:%s:file-set" % (lang, norm_path(n, w)))
                elif len(set(vals)) > 1:
                    kind = "reorder" if len({v[3] for v in vals}) == 1 and len({v[0] for v in vals}) == 1 else "content"
                    keys.add("%s:%s:%s" % (lang, norm_path(n, w), kind))
        for k in keys:
            cl = classes.setdefault(k, {"n": 0, "case": None})
            cl["n"] += 1
            if cl["case"] is None or len(wit) < len(cl["case"][3]):
                cl["case"] = cases[i]
    for key in sorted(classes):
        cl = classes[key]
        case = cl["case"]
        known = ctx.known.is_known(ctx.prop, key)
        text, where = case[3], ""
        if not known:       # new class: shrink the world and show the first differing line
            text = shrink_world(exe, case, key)
            ks, pair = differs(exe, (case[0], case[1], None, text), tries=12)
            if pair and pair[0][0] == "ok" and pair[1][0] == "ok":
                for n in sorted(pair[0][1]):
                    if n in pair[1][1] and pair[0][1][n] != pair[1][1][n] and isinstance(pair[0][1][n], str):
                        where = "%s: %s" % (n, first_diff(pair[0][1][n], pair[1][1][n]))
                        break
        ctx.violation(key, "%s generator (options %r) produces different output in different processes for the same world (%d cases in this class this run). %s\nWorld:\n%s"
                      % (case[0], case[1], cl["n"], where, text),
                      {"engine": "hash", "lang": case[0], "opts": case[1], "wit": text, "key": key})
    # an unordered site in the committed list must be backed by an exhibited finding or be explained
    origin_hist = {}
    for w in worlds:
        origin_hist[w[0]] = origin_hist.get(w[0], 0) + 1
    cov.update({
        "evaluations": len(cases) * nproc + n_pkg_lists + n_merge,
        "distinct_nontrivial": len({(c[0], c[1], c[3]) for c in cases}),
        "rule": "one evaluation = one (backend, options, world) generated in one fresh process (differential part: every case in %d processes, outputs compared by file name, length and two independent 64-bit hashes), or one modelled emission point compared with the real text (tie); distinct = distinct (backend, options, WIT text); non-trivial: every generation emits at least one file" % nproc,
        "samples": [{"backend": c[0], "opts": c[1], "wit": c[3][:300], "process_outputs_equal": runs[0][i] == runs[1][i]} for i, c in list(enumerate(cases))[:2]]
                   + [{"class": k, "cases": v["n"]} for k, v in sorted(classes.items())[:4]],
        "traces_validated_against_impl": n_pkg_lists + n_merge,
        "model_mismatches": len(kmis),
        "explanation": "PROVED (Coq, closed under the global context): for each modelled hash-iteration site the emitted text is invariant under permutation of the iteration order (sort uniqueness for any total antisymmetric order; MoonBit moon.pkg.json import and export lists; collect_equal_types merge; Files/BTreeMap), and the line-by-line emission without an ordering step (C# world-level enums and function-less resources; formerly MoonBit builtins / export wrappers, repaired in /repo) is proved order-DEPENDENT. The site list is re-scanned from the source on every run (%d sites, %d HashMap/HashSet mentions) and must equal corpus/C15-sites.txt. DIFFERENTIAL ONLY (not proved): the statement for the 8 whole generators — %d (backend, options, world) cases each generated in %d separate processes and byte-compared via hashes." % (len(sites), ndecl, len(cases), nproc),
        "proved_part": {"theorems": THEOREMS, "sites_scanned": len(sites), "site_classes": class_hist, "new_sites": new_sites, "gone_sites": gone_sites,
                        "sites_without_ordering_step": unordered_sites, "hash_typed_fields_by_crate": names,
                        "moon_pkg_files_seen": n_pkg, "moon_pkg_lists_compared_with_model": n_pkg_lists,
                        "types_merge_runs_compared_with_model": n_merge, "types_in_merge_runs": n_merge_types},
        "differential_part": {"processes_per_case": nproc, "configurations": ["%s[%s] %s" % (l, k or "default", " ".join(a)) for l, k, a, _ in cfgs if not (quick and k.startswith("x-"))],
                              "per_backend": per, "cases_differing": len(diff_cases), "cases_with_hang_or_crash_skipped": n_hang,
                              "classes": {k: v["n"] for k, v in sorted(classes.items())}, "wall_s": round(time.time() - t0, 1)},
        "distribution": {"worlds_by_origin": origin_hist, "witgen_rejected_by_wit_parser": rej, "cases": len(cases)},
    })


def replay(ctx, path):
    obj = json.load(open(path))
    r = obj["replay"]
    ok1, exe, log1 = vf.cargo_build("detnp")
    if not ok1:
        print(log1[-2000:]); return 1
    case = (r["lang"], r["opts"], None, r["wit"])
    ks, pair = differs(exe, case, tries=16)
    print("backend:", r["lang"], "options:", r["opts"]); print(r["wit"])
    if ks:
        print("outputs of two processes differ:", ks)
        if pair[0][0] == "ok" and pair[1][0] == "ok":
            for n in sorted(pair[0][1]):
                if n in pair[1][1] and pair[0][1][n] != pair[1][1][n] and isinstance(pair[0][1][n], str):
                    print(" ", n, first_diff(pair[0][1][n], pair[1][1][n]))
        return 1
    print("verdict: 16 processes produced identical output")
    return 0


META = {
    "engine": "coq+genlib",
    "technique": "Coq proofs of permutation-invariance of every modelled hash-iteration emission site (sort uniqueness, BTreeMap, commutative merge) + refutation for the sites without an ordering step; source scan keeps the site list honest; model/real comparison at the modelled points; whole-generator statement by multi-process differential generation",
    "text": "Proved: the MoonBit moon.pkg.json import/export lists, the collect_equal_types merge and Files iteration do not depend on HashMap iteration order; a hash collection emitted element by element without sorting does (C# world-level enums / function-less resources: findings; the MoonBit instances were repaired in /repo after this check exhibited them). Differential only: each of the 8 generators x option variants generated in 4 separate processes on corpus, directed and random worlds and byte-compared.",
    "note": "Trusted: Coq kernel; extraction + ocaml/determinism_driver.ml; harness detnp (two 64-bit content hashes instead of full bytes in the bulk pass; full bytes for every differing case); regex site scanner in lib/c15_lib.py. The 8 whole generators are NOT modelled.",
}
