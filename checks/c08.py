"""C08 — Rust async imports and exports deliver the same values as sync ones (+ exactly one task.return or one
cancellation; an async import keeps its lowered parameters alive until the callee has started).

Proved part : Props/C08.v RESTATES (closed by `exact`) what C02, C21 and C22 prove about the async paths: canonical core
              signatures of the async ABI variants; parameters released once and only after STARTED, results lifted once after
              RETURNED, subtask dropped once, area freed once (model of subtask.rs); task box freed once.
Validated   : DIFFERENTIAL.  The same random worlds are bound twice by the Rust generator — sync and `--async all` — compiled
              natively (hook H1, linked with the mock async host harness/crates/rtmock) and driven with the same seeded values:
              * async imports awaited under block_on; the host answers RETURNED at once / STARTED…RETURNED / STARTING…STARTED…
                RETURNED; parameters are lifted by the Coq oracle when the call is made AND again when the callee starts;
              * async exports: the host plays the event loop (0-2 suspensions of the implementation, or EVENT_CANCEL at the
                first wait); what leaves through task.return is lifted by the oracle; exactly one task.return xor one task.cancel;
              * value, allocation and completion observations of the two bindings are compared call by call."""
import json, os, time
import vf
import genrun_rust as G
from checks import c05

LEVEL = "translation_validation"
READY = True
TARGETS = ["theories/Props/C08.vo"]
THEOREMS = ["C08_async_core_signature_is_canonical", "C08_async_import_protocol_safe", "C08_async_import_exactly_once", "C08_export_task_box_freed_once"]
FIXED_WORLD_SEED = 80808
BUILD_KW = {"hook": True, "rtmock": True, "extra_features": ["async"]}
FEATURES = ["fixed", "maps"]


def setup():
    t = G.Tools()
    ok, out = vf.coq_make(TARGETS)
    ok2, _, log = vf.cargo_build("rtmock", hook=True, bin="smoke")
    if not ok2:
        vf.log(log[-2000:])
    return t.ok and ok and ok2


def with_async(op):
    d = op.as_dict()
    d["async"] = "all"
    return G.OptSet.from_dict(d)


def plan(ctx, tools):
    quick = ctx.tier == "quick"
    nfixed, nseed, per = (4, 2, 2) if quick else (0, 60, 2)
    limit = 160_000 if quick else 500_000
    fixed = G.pick_worlds(tools, FIXED_WORLD_SEED, nfixed, FEATURES, "ax", limit) if nfixed else []
    seeded = G.pick_worlds(tools, ctx.seed ^ 0xa5, nseed, FEATURES, "ay", limit)
    specs = []
    # raw-strings is left out of the schedule: with it any export returning a string does not compile (reported side finding)
    def sched(rng, n):
        out = []
        for _ in range(n):
            ops = []
            for k in range(per):
                ops.append(G.OptSet(rng.choice(["owning", "borrowing"]), rng.chance(1, 2), rng.chance(1, 2), rng.chance(1, 2), False))
            out.append(ops)
        return out
    for tag, worlds, sch, origin in (("ax", fixed, sched(vf.Rng(FIXED_WORLD_SEED), len(fixed)), "fixed"), ("ay", seeded, sched(vf.Rng(ctx.seed ^ 0x5a), len(seeded)), "seeded")):
        for i, (w, ops) in enumerate(zip(worlds, sch)):
            for j, op in enumerate(ops):
                # the two bindings of one world live in different packages (export symbols must not clash)
                specs.append(("%s%do%ds" % (tag, i, j), w.text, w.world, op, origin, "%s%do%d" % (tag, i, j)))
                specs.append(("%s%do%da" % (tag, i, j), w.text.replace("package %s%d:p;" % (tag, _pkgnum(w.text, tag)), "package %sa%d:p;" % (tag, _pkgnum(w.text, tag))),
                              w.world, with_async(op), origin, "%s%do%d" % (tag, i, j)))
    # the kitchen-sink world of corpus/C05.txt, bound sync and async
    sink = open(os.path.join(G.TEMPL, "sink.wit")).read()
    for j, op in enumerate([G.OptSet(), G.OptSet("borrowing", True, True, True, False)]):
        specs.append(("ak%ds" % j, sink.replace("m0:p", "ks%d:p" % j), "sink", op, "corpus", "ak%d" % j))
        specs.append(("ak%da" % j, sink.replace("m0:p", "ka%d:p" % j), "sink", with_async(op), "corpus", "ak%d" % j))
    return specs


def _pkgnum(text, tag):
    import re
    return int(re.search(r"package %s(\d+):p;" % tag, text).group(1))


def run(ctx):
    ctx.assumptions += [
        "native x86-64 execution (pw = 8); the component-model async host is the mock harness/crates/rtmock linked through hook H1 "
        "(`--cfg bytecodealliance_wit_bindgen_verif`), the canonical-ABI judge is the Coq oracle as in C05",
        "differential leg: sync vs `--async all` bindings of the same worlds on the same seeded values; not a proof about the generator",
        "async exports suspend on a harness-provided subtask (`rt_async::pause`), async imports are awaited under wit_bindgen::block_on; futures/streams/resources "
        "are not part of the generated worlds here; raw-strings left out (an export returning a string does not compile with it)",
        "the proved facts restated in Props/C08.v are about the models of abi.rs (C02), subtask.rs (C21) and the task executor (C22), each tied to the code by its own check",
    ]
    ctx.proof_leg(TARGETS, ["Props.C08"], THEOREMS)
    tools = G.Tools()
    if not tools.ok:
        ctx.tie_broken("tie", "tool build failed: " + tools.log)
        return
    t0 = time.time()
    specs = plan(ctx, tools)
    units = G.prepare_units(tools, [s[:5] for s in specs])
    for u, s in zip(units, specs):
        u.rngkey = s[5]
    groups = {}
    for u in units:
        groups.setdefault("fixed" if u.origin in ("fixed", "corpus") else "seeded", []).append(u)
    records = {}

    def on_call(u, fm, c, args, ret, F, obs, how):
        records[(u.rngkey, u.opt.asyncmode == "all", fm.key().split(":", 1)[0] + ":" + fm.name, c)] = (
            sorted(f.klass for f in F), obs.get("handed"), obs.get("predicted"), G.show(("r", list(args))), G.show(ret) if ret is not None else None)
    failing, stats = [], {}
    for gname, us in groups.items():
        ws, ok, log = G.build_units(us, **BUILD_KW)
        if not ok:
            ctx.tie_broken("tie", "guest crates (%s worlds) do not build:\n%s" % (gname, log[-3000:]))
            return
        f, st = G.run_units(tools, ws, us, 60 if ctx.tier == "quick" else 80, ctx.seed, on_call=on_call)
        failing += f
        for k, v in st.items():
            if isinstance(v, set):
                stats.setdefault(k, set()).update(v)
            elif isinstance(v, dict):
                d = stats.setdefault(k, {})
                for kk, vv in v.items():
                    d[kk] = d.get(kk, 0) + vv
            elif isinstance(v, list):
                stats.setdefault(k, []).extend(v)
            else:
                stats[k] = stats.get(k, 0) + v
    # ---- pairwise comparison sync vs async (same world, options, function, call number => same values)
    pairs = same = 0
    diverge = []
    for (rk, isasync, fk, c), rec in records.items():
        if not isasync:
            continue
        srec = records.get((rk, False, fk, c))
        if srec is None:
            continue
        pairs += 1
        if rec[3] != srec[3] or rec[4] != srec[4]:
            raise RuntimeError("engine: sync and async runs drew different values for %s %s call %d" % (rk, fk, c))
        sync_ok, async_ok = not srec[0], not rec[0]
        if sync_ok and async_ok:
            same += 1
        elif sync_ok and not async_ok:
            diverge.append((rk, fk, c, rec[0]))
    # ---- violations: what goes wrong on the async binding (the sync binding is C05/C06's subject)
    by_class = {}
    for cse in failing:
        if cse.unit.opt.asyncmode != "all":
            continue
        for f in cse.findings:
            by_class.setdefault(f.klass, []).append((cse, f))
    for klass, items in sorted(by_class.items()):
        key = "rust:" + klass
        cse, f = items[0]
        if not ctx.known.is_known(ctx.prop, key) and not klass.startswith("crash"):
            try:
                m = G.minimize(tools, cse, klass, ctx.seed, rounds=2 if ctx.tier == "quick" else 4, log=vf.log, build_kw=BUILD_KW)
                if m is not None:
                    cse = m
                    f = [x for x in m.findings if x.klass == klass][0]
            except Exception as e:
                vf.log("minimisation failed: %s" % e)
        ro = cse.replay_obj()
        ro["class"] = klass
        ro["occurrences_in_this_run"] = len(items)
        ctx.violation(key, "%s [%s, options %s, function %s, %s]" % (f.detail[:1500], klass, cse.unit.opt.tag(), cse.fm.key(), cse.how), ro)
    live = [u for u in units if not u.skip]
    skipped = {}
    for u in units:
        if u.skip:
            k = u.skip.split(":")[0] if not u.skip.startswith("rustc") else "rustc: " + u.skip.split("error", 1)[-1][:110]
            skipped[k] = skipped.get(k, 0) + 1
    ctx.coverage.update({
        "programs": len(live), "disagreements_checked": pairs, "evaluations": stats.get("calls", 0),
        "distinct_nontrivial": len(stats.get("distinct_sigs", ())),
        "rule": "a program = one (world, option set, sync|async) binding compiled natively; an evaluation = one call judged by the oracle (values) and the mock async host "
                "(completion events); disagreements_checked = calls executed on BOTH bindings of the same function with the same values and compared; distinct_nontrivial = "
                "distinct (direction, options, signature) with a value crossing the boundary",
        "samples": stats.get("samples", [])[:3], "traces_validated_against_impl": stats.get("calls", 0),
        "distribution": {
            "worlds": len(set(u.rngkey.split("o")[0] for u in live)), "modules_built": len(live), "async_modules": len([u for u in live if u.opt.asyncmode == "all"]),
            "modules_skipped": skipped, "paired_calls": pairs, "pairs_both_clean": same, "pairs_async_only_failing": len(diverge),
            "host_policies_and_suspensions": {k: v for k, v in stats.get("kinds", {}).items() if k.startswith("async-")},
            "type_constructor_histogram": {k: v for k, v in stats.get("kinds", {}).items() if not k.startswith("async-")},
            "export_calls": stats.get("export_calls", 0), "import_calls": stats.get("import_calls", 0),
            "failing_cases_by_class_async": {k: len(v) for k, v in by_class.items()},
            "timing_s": round(time.time() - t0, 1), "guest_process_deaths": stats.get("guest_deaths", 0),
        },
    })
    G.prune_workspaces(keep=16)


def replay(ctx, path):
    obj = json.load(open(path))
    ro = obj["replay"]
    tools = G.Tools()
    opt = G.OptSet.from_dict(ro["options"])
    fixed = ([G.parse_value(a) for a in ro["args"]], G.parse_value(ro["ret"]) if ro.get("ret") is not None else None)
    cases, u = G.run_single(tools, ro["wit"], ro["world"], opt, ro["function"], 1, ctx.seed, fixed_case=fixed, how=ro.get("how"), **BUILD_KW)
    if cases is None:
        print("cannot build the case:", u.skip)
        return 1
    bad = [f for c in cases for f in c.findings]
    print("wit:", ro["wit"])
    print("options:", opt.tag(), "function:", ro["function"], "how:", ro.get("how"), "args:", ro["args"], "ret:", ro.get("ret"))
    for f in bad:
        print("FINDING", f)
    print("verdict:", "property violated on this input" if bad else "property holds on this input")
    return 1 if bad else 0


META = {
    "engine": "coq+genrun",
    "technique": "restated Coq theorems about the async ABI signatures (C02), the subtask state machine (C21) and the task executor (C22) + differential native execution of "
                 "sync and async Rust bindings of the same worlds against the Coq oracle and the mock async host",
    "text": "Proved (elsewhere, restated): canonical core signatures for the async variants; lowered parameters of an async import released exactly once and only after the "
            "callee started, results lifted once after RETURNED, handle dropped once; task box freed once. Differential (NOT proved): for seeded random worlds and option "
            "sets the generator's sync and `--async all` bindings receive and produce the same values on the same inputs under three host behaviours per import "
            "(returned / started / starting) and 0-2 suspensions or a cancellation per export; a completed export task performs exactly one task.return and no "
            "task.cancel, a cancelled one exactly one task.cancel and no task.return; parameters are still intact when a STARTING callee starts; the guest heap is unchanged afterwards.",
    "note": "Trusted: as C05/C06 plus harness/crates/rtmock (mock async host), harness/genrun_rust/rt_async.rs. Futures, streams, resources and raw-strings are not exercised.",
}
