"""C01 — shared ABI generator encodes/decodes every WIT value per the spec (flat form and memory form, both
list paths, pointer widths 4 and 8).  Proof: Props/C01.v.  Tie: absdump vs extracted Gen model, token for
token.  Search: Abi/Check.v's check_lower_flat / check_lower_to_memory / check_lift_from_memory on the REAL streams."""
import vf, abicheck, abitie

LEVEL = "proof"
READY = True
THEOREMS = ["C01_flat_types_exact", "C01_flatten_is_canonical", "C01_size_is_canonical", "C01_alignment_is_canonical",
            "C01_field_offsets_are_canonical", "C01_payload_offset_is_canonical",
            "C01_memory_lowering_consumes_its_operand", "C01_lower_to_memory_never_panics",
            "C01_memory_lifting_produces_one_operand", "C01_lift_from_memory_never_panics",
            "C01_flat_lowering_produces_flattened_count", "C01_lower_flat_canonical_count",
            "C01_flat_lifting_consumes_flattened_count"]
KINDS = ("lower_flat", "lower_to_memory", "lift_from_memory")


def setup():
    b = abitie.build()
    return b[0] and b[3]


def run(ctx):
    ctx.assumptions += [
        "oracle: Canon/Spec.v transcribes CanonicalABI.md (strings as bytes, floats as bit patterns, unbounded memory, bump/preset allocator)",
        "contract: Abi/Sem.v gives each Instruction the meaning its doc comment promises; backends are judged against it by C04/C14 and the native legs",
        "proved: flat form exact for all types and bounds + resolves to the spec's flatten at pw 4/8; sizes, alignments, field and payload offsets of wit-parser's symbolic SizeAlign = the spec's at pw 4/8 for all types; the value-level equality with Spec.lower_flat/store/load is evaluated on the real streams (statement_evaluations), not proved",
    ]
    ctx.proof_leg(["theories/Props/C01.vo"], ["Props.C01"], THEOREMS)
    abicheck.run(ctx, "C01", KINDS, n_quick=60, n_thorough=3000, nvals_quick=4, nvals_thorough=12)


def replay(ctx, path):
    return abicheck.replay(ctx, path)


META = {
    "engine": "coq+absdump",
    "technique": "Coq model of abi.rs + wit-parser flattening proved exact and equal to the spec's flatten (induction over types, bounded-buffer merge lemma); Hoare-style proofs over the generator's state monad that lower/write/lift/read reach no panic site and keep the operand-stack discipline for every type (flat lowering yields exactly |flatten(t)| values, flat lifting consumes exactly that many); token-for-token correspondence of real instruction streams with the extracted model; Coq-extracted interpreter + canonical-ABI oracle evaluate the value-level statement on every real stream",
    "text": "Theorems (all types, all bounds, pw 4 and 8): flat_types = ideal flattening iff it fits, and = the canonical flatten; the generator's four traversals never panic and obey the stack discipline (memory lowering consumes its operand, memory lifting produces one, flat lowering of a fitting type leaves exactly length(flatten pw t) core values incl. every variant arm after bitcasts and zero padding, flat lifting of a well-formed fitting type consumes exactly that many); every size, alignment, field offset and payload offset the generator uses = the canonical layout at both widths. The Coq model of the generator reproduces every real instruction stream explored token for token (lower_flat / lower_to_memory / lift_from_memory, element-wise and canonical list paths, and the flat lift and offset-carrying paths through call); the value-level statement (stream under Sem = Spec.lower_flat / Spec.store; lifting Spec's encoding returns the value) is executed on the real streams for random values incl. NaN payloads, extremes, empty lists, every variant case.",
    "note": "Proved part: flattening, memory layout, and panic freedom / stack discipline of lower, write, lift, read (partial w.r.t. the full C01 statement, see Props/C01.v header). Trusted: Coq kernel; Spec.v as transcription of the spec; Sem.v as the instruction contract; extraction + ocaml/abi_driver.ml (printer/parser of the dump grammar, value generator); absdump's recording Bindgen.",
}
