"""C22 — Export task executor answers callbacks consistently and frees tasks once.
Proof: coq/theories/Props/C22.v over the executable model Async/Task.v.  Tie (K): the REAL runtime
(start_task / callback / block_on of wit_bindgen::rt::async_support, four feature builds) under the mock
host (harness/crates/rtmock bin `tasks`) vs the extracted model: complete host logs, token for token.
Search: the property's own statement (lib/c22_props.py) evaluated on the REAL logs."""
import os, json, re
import vf, rtmock
import c22_gen as G
import c22_props as P

LEVEL = "proof"
READY = True
PROP = "C22"
TARGETS = ["theories/Props/C22.vo", "theories/Extract/ExTask.vo"]
THEOREMS = ["C22_encode_injective", "C22_exit_iff", "C22_wait_names_own_set", "C22_wait_when_pending",
            "C22_yield_only_when_woken", "C22_context_slot", "C22_slot_null_while_running",
            "C22_spawned_work_finishes", "C22_released_exactly_once", "C22_task_box_freed_once",
            "C22_block_on_yield_refuted"]
FEATS = "dsia"
# panic classes of the model: 1, 2 = documented user errors (outside the quantifier); 8 = the inter-task
# wakeup assert, which belongs to C23 (reported there); 12 = block_on finding
KEY_BLOCKON = "block_on:yield-without-waitable-set"


def setup():
    ok, exe_m, log = G.build_model()
    if not ok:
        vf.log(log[-2000:]); return False
    for f in FEATS:
        ok, exe, log = G.build_real_cached(f)
        if not ok:
            vf.log(log[-2000:]); return False
    return True


def gen_cases(rng, feat, n, big):
    out = []
    for _ in range(n):
        mode = "S" if rng.chance(2, 3) else "B"
        nt = 1 if mode == "B" or rng.chance(4, 5) else 2
        out.append(G.gen_scenario(rng, feat, mode, nt, big=big and rng.chance(1, 3)).line())
    for _ in range(max(20, n // 25)):
        out.append(G.gen_yield_delivery(rng, feat).line())
    return out


def malformed_cases(rng, feat, n):
    """Raw, unguarded events: callback on a task that does not exist / exited, unknown event code,
    event for a waitable that is not registered; second start on a live context slot."""
    out = []
    for _ in range(n):
        sc = G.gen_scenario(rng, feat, "S", 1)
        k = rng.below(4)
        if k == 0:
            sc.actions += ["R0.%d.%d.%d" % (rng.range(1, 5), rng.range(1, 9), rng.below(3))]
        elif k == 1:
            sc.actions += ["R0.%d.0.0" % rng.range(7, 9)]
        elif k == 2:
            sc.actions = ["R0.0.0.0"] + sc.actions
        else:
            sc.actions += ["x0", "R0.0.0.0"]
        out.append(sc.line())
    return out


def classify(case, real, model):
    """-> (tie problem or None, [(key, why)] violations of the property on the real run, stats dict)."""
    sc = G.parse_line(case)
    why = G.agree(real, model)
    mp = G.model_panic(model)
    if real == "ABORT:skipped":
        return "not run: too many scenarios aborted before it", [], mp
    rt = G.norm_real(real)
    viol = []
    raw = any(a.startswith("R") for a in sc.actions)
    if not raw:
        bad, panic = P.check_real(sc, rt, start_mode=(sc.mode == "S"))
        if panic is not None:
            cls = G.panic_class(panic) if panic.startswith("PANIC:") else {15}
            if cls & {1, 2}:
                pass                       # documented user error: outside the quantifier
            elif 12 in cls and mp == 12:
                viol.append((KEY_BLOCKON, "block_on panics (%s) on a body that yields before any waitable set exists" % panic))
            elif cls & {7, 8} and mp in (7, 8):
                pass                       # inter-task wakeup assert: C23's finding
            else:
                viol.append(("panic:" + panic[6:60], "the runtime panicked on a valid scenario: %s" % panic))
        else:
            viol += bad
    return why, viol, mp


def shrink_case(case, exe, still0, budget_s=45):
    """Greedy: drop actions, then steps of bodies, while `still(line, real_out)` holds (within a time budget:
    a broken runtime may make every run end in the watchdog)."""
    import time
    sc = G.parse_line(case)
    deadline = time.time() + budget_s

    def still(s, out):
        return time.time() < deadline and still0(s, out)

    def run1(s):
        if time.time() >= deadline:
            return ""
        return rtmock.run(exe, [s.line()], timeout=60)[0]

    acts = vf.shrink_list(sc.actions, lambda a: still(G.Sc(sc.feat, sc.mode, sc.ops, sc.bodies, sc.roots, a), run1(G.Sc(sc.feat, sc.mode, sc.ops, sc.bodies, sc.roots, a))), max_steps=200) if sc.actions else []
    sc.actions = acts
    for bi in range(len(sc.bodies)):
        def with_steps(st, bi=bi):
            b = list(sc.bodies); b[bi] = st
            return G.Sc(sc.feat, sc.mode, sc.ops, b, sc.roots, sc.actions)
        sc.bodies[bi] = vf.shrink_list(sc.bodies[bi], lambda st: still(with_steps(st), run1(with_steps(st))), max_steps=100)
    return sc.line()


def run(ctx):
    quick = ctx.tier == "quick"
    n_per = 2500 if quick else 250000
    n_mal = 12 if quick else 300
    ctx.assumptions += [
        "model: Async/Task.v transcribes async_support.rs / spawn*.rs / inter_task_wakeup*.rs / waitable.rs (for the five operations of the driver) and futures-util 0.3.32 FuturesUnordered::poll_next; host = Async/Host.v (Coq twin of rtmock)",
        "task bodies are finite scripts interpreted by the harness into real async blocks; Rust future composition beyond await/join/spawn is not modelled",
        "valid = no raw events, no documented user error (sleep on Rust-only events / cross-task wake without inter-task-wakeup), model fuel and block_on deadlock detector do not give up",
        "no-panic is NOT proved (needs C18's registration/host coupling); carried by tie + search: the only panic classes ever seen are the two findings",
        "tie: OCaml extraction (ExtrOcamlBasic, ExtrOcamlString) of Task.run_log; rtmock mock host; Box<TaskState> found by address through a watching allocator",
    ]
    import time; T0 = time.time()
    ctx.proof_leg(["theories/Props/C22.vo"], ["Props.C22"], THEOREMS)
    vf.log('[C22] proof leg %.1fs' % (time.time() - T0))
    ok, exe_m, log = G.build_model()
    if not ok:
        ctx.tie_broken("tie", "model extraction/driver build failed:\n" + log[-3000:]); return
    corpus = G.read_corpus(PROP)
    total = 0; mism = []; dist = {}; distinct = set(); samples = []; viols = {}; reruns = 0
    outcomes = {}
    for feat in FEATS:
        ok, exe, log = G.build_real_cached(feat)
        if not ok:
            ctx.tie_broken("tie", "harness build (%s) against %s failed:\n%s" % (G.FEAT_NAME[feat], vf.REPO, log[-3000:])); return
        rng = ctx.rng.fork(ord(feat))
        cases = [c for c in corpus if c.startswith(feat + " ")] + gen_cases(rng, feat, n_per, not quick)
        mal = malformed_cases(rng, feat, n_mal)
        T1 = time.time()
        real = G.run_real(exe, cases)
        vf.log('[C22] %s real %.1fs' % (feat, time.time() - T1)); T1 = time.time()
        model = vf.run_filter([exe_m], cases + mal, shards=4)
        # malformed stream: its own process (a caught panic may leave runtime-global state behind; every
        # disagreement is re-run alone below before it is reported)
        real_mal = G.run_real(exe, mal, shards=1)
        real += real_mal
        vf.log('[C22] %s model+malformed %.1fs' % (feat, time.time() - T1)); T1 = time.time()
        cases += mal
        for c, r, m in zip(cases, real, model):
            total += 1
            why, viol, mp = classify(c, r, m)
            if why and reruns < 40:
                # confirm alone in a fresh process before reporting (a bounded number of times: a broken
                # runtime disagrees everywhere)
                reruns += 1
                r2 = rtmock.run(exe, [c], timeout=60)[0]
                why2, viol2, _ = classify(c, r2, m)
                if why2:
                    mism.append((c, r2, m, why2))
                viol = viol2
            elif why:
                mism.append((c, r, m, why))
            outcomes[mp] = outcomes.get(mp, 0) + 1
            G.tally(dist, c, r)
            if G.nontrivial(r):
                distinct.add(G.canon(c))
            if len(samples) < 4 and G.nontrivial(r) and len(r) < 700:
                samples.append({"scenario": c, "real_log": r})
            for key, what in viol:
                viols.setdefault(key, (c, what, exe, feat))
    for key, (c, what, exe, feat) in sorted(viols.items())[:6]:
        def still(sc, out, key=key):
            line = sc.line()
            mo = vf.run_filter([exe_m], [line], shards=1)[0]
            _, v, _ = classify(line, out, mo)
            return any(k == key for k, _ in v)
        small = shrink_case(c, exe, still)
        out = rtmock.run(exe, [small], timeout=60)[0]
        ctx.violation(key, what, {"scenario": small, "feature": G.FEAT_NAME[feat], "real_log": out[:3000], "original": c})
    if mism:
        c, r, m, why = mism[0]
        ctx.tie_broken("tie", "model and real runtime disagree on %d/%d scenarios; first: %s\n scenario: %s\n real : %s\n model: %s"
                       % (len(mism), total, why, c, r[:1500], m[:1500]))
        # look for a failing input of the property among the disagreeing scenarios
    dist["model_outcomes"] = {("ok" if k is None else "panic-class-%d" % k): v for k, v in outcomes.items()}
    ctx.coverage.update({
        "evaluations": total, "distinct_nontrivial": len(distinct),
        "rule": "seeded random scenarios per feature build (default, async-spawn, inter-task-wakeup, both): 1-2 tasks, bodies of 0-6 steps over await(import call starting/started/immediate, stream/future read/write blocked or immediate) / yield_async / spawn_local / Rust-only event wait+signal / join / context-slot observation, 2-30 driver actions (start, NONE, host-polled event, CANCEL, resolve/progress/peer-drop of a pending operation, external wake) for start_task mode or 0-6 scripted host actions for block_on; plus a malformed stream (raw events). Non-trivial = the run registered at least one waitable or answered Yield/Wait at least once; distinct = distinct scenario lines up to nothing (ids are canonical by construction)",
        "samples": samples, "traces_validated_against_impl": total, "model_mismatches": len(mism),
        "distribution": dist,
    })


def replay(ctx, path):
    obj = json.load(open(path))
    case = obj["replay"]["scenario"]
    feat = case.split()[0]
    ok, exe, log = G.build_real_cached(feat)
    okm, exe_m, _ = G.build_model()
    out = rtmock.run(exe, [case], timeout=60)[0]
    mo = vf.run_filter([exe_m], [case], shards=1)[0] if okm else ""
    why, viol, mp = classify(case, out, mo)
    print("scenario:", case); print("real :", out); print("model:", mo)
    print("tie:", why or "model and real agree")
    print("verdict:", viol or "property holds on this run")
    return 1 if (viol or why) else 0


META = {
    "engine": "coq+rtmock",
    "technique": "Coq proofs about an executable model of the export task executor (frame/linearity invariants by induction over action lists, generic host-relation lemmas); differential correspondence of complete host logs with the real runtime under a native mock host, for four feature builds",
    "text": "Unbounded Coq theorems over every valid scenario: Exit iff EVENT_CANCEL or no Rust work and no registered waitable; Wait names the task's own set and is the answer whenever something is pending without a wake; Yield only when woken and nothing ready; context slot 0 holds the state exactly between callbacks and reads null while one runs; unfinished bodies are destroyed only by EVENT_CANCEL; no body future or task box is released twice and nothing of a dead task survives; encode injective. The model is tied to the real start_task/callback/block_on on every run (thousands of scenarios per feature build, complete logs) and the statement is re-evaluated on the real logs.",
    "note": "Trusted: Coq kernel; extraction + ocaml/task_driver.ml; rtmock mock host and the tasks driver (script interpreter, Box<TaskState> detection by address); Async/Host.v as transcription of the component-model host. Not proved: absence of runtime panics (full statement in Props/C22.v); known finding: block_on panics on yield before any waitable set exists. Print Assumptions: closed under the global context.",
}
