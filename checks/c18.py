"""C18 — the async runtime registers, delivers and unregisters waitables exactly.
Proof: coq/theories/Props/C18.v (model Async/WaitOp.v over Async/Host.v, proofs Async/WaitOpProofs.v).
Tie (K): the real `WaitableOperation` (waitable.rs) reached through stream reads/writes, future reads and
async import calls, polled/cancelled/dropped under two harness-owned tasks (C ABI v1/v2) against the mock
host (rtmock bin `waitop`, hook H1) vs the extracted model on the same seeded action lists: the complete
log of host calls + task-map operations, the final registration maps, wake counts and clone counts must be
equal (valid stream and a malformed stream; panic classes compared).
Search: C18's statement evaluated on the REAL logs (`holds`)."""
import os, json, re
import vf, rtmock

LEVEL = "proof"
READY = True
TARGETS = ["theories/Props/C18.vo", "theories/Extract/ExWaitOp.vo"]
THEOREMS = ["C18_invariant_one_operation_partial", "C18_v1_move_refuted", "C18_v2_to_v1_move_after_delivery_refuted"]
CORPUS = os.path.join(vf.ROOT, "corpus", "C18.txt")
BLOCKED = 4294967295


def build():
    ok1, exe_r, log1 = rtmock.build("waitop")
    ok0, clog = vf.coq_make(TARGETS)
    ok2, exe_m, log2 = vf.ocaml_build("waitop_driver", ["waitop_model"], ["util.ml", "waitop_driver.ml"]) if ok0 else (False, None, clog)
    return ok1, exe_r, log1, ok2, exe_m, log2


def setup():
    ok1, _, l1, ok2, _, l2 = build()
    if not ok1: vf.log(l1[-2000:])
    if not ok2: vf.log(l2[-2000:])
    return ok1 and ok2


def strip_markers(o):
    if " | " not in o:
        return o
    log, facts = o.split(" | ", 1)
    return " ".join(t for t in log.split(" ") if not t.startswith("@")) + " | " + facts


def same(real, model):
    if real.startswith("ABORT") or model.startswith("ABORT"):
        return real.startswith("ABORT") and model.startswith("ABORT")
    if " PANIC:" in real and " PANIC:" in model:
        rp, mp = real.split(" PANIC:"), model.split(" PANIC:")
        return rp[0] == mp[0] and rp[1].startswith(mp[1])
    return real == model


def split_model(o):
    body, ghost = o.split(" # ")
    valid = body.endswith(" valid")
    body = body[:-6] if valid else body[:-8]
    g = dict(kv.split("=") for kv in ghost.split())
    return body, valid, g


def run_both(exe_r, exe_m, cases):
    real_m = rtmock.run(exe_r, cases, env={"RTMOCK_MARKERS": "1"})
    mod = [split_model(o) for o in vf.run_filter([exe_m], cases)]
    return real_m, mod


def decode_class(kind, code):
    """Result token the operation must report for completion code `code` (None = still in progress)."""
    if kind == "st":
        return {0: None, 1: None, 2: "ok"}.get(code, "cancelled")
    if code == BLOCKED:
        return None
    n, k = code >> 4, code & 0xf
    if kind == "fr":
        return {0: "V", 2: "R"}.get(k, "?")
    wr = kind == "sw"
    if k == 0 or n > 0:
        return "C%d:%d" % (n, 4 - n if wr else n)
    return ("D" if k == 1 else "X") + (":4" if wr else ":0")


def holds(case, real_marked):
    """C18's statement on one REAL run of a valid action list.  None or a (rule, detail) pair."""
    if real_marked.startswith("ABORT"):
        return ("runtime-panic", "process aborted")
    log, facts = real_marked.split(" | ", 1)
    if " PANIC:" in facts:
        return ("runtime-panic", facts.split(" PANIC:")[1])
    kinds = case.split("|")[1].split()
    toks = log.split(" ")
    joined, maps = {}, {0: {}, 1: {}}
    handle = {}                       # op -> waitable
    owner = {}                        # waitable -> op (live)
    lastcode = {}                     # op -> last code handed to it and not yet turned into a result
    nres = {i: 0 for i in range(len(kinds))}
    state = {i: "start" for i in range(len(kinds))}
    created = []
    cur = None                        # (action kind, task, op) of the current action
    pending_event = None
    for tk in toks + ["@end"]:
        if tk.startswith("@"):
            # end of the previous action
            if cur and cur[2] in state:
                o = cur[2]
                if cur[0] == "p" and state[o] == "prog":
                    code = lastcode.get(o)
                    if code and code[1]:
                        if decode_class(kinds[o], code[0]) is None:
                            lastcode[o] = (code[0], False)       # consumed as progress
                        else:
                            return ("completion-not-consumed-by-poll", "%s left code %s unconsumed" % (cur, code))
                    w = handle.get(o)
                    if w not in maps[cur[1]]:
                        return ("not-registered-while-waiting", "after %s operation %d (waitable %s) is not in task %d's map" % (cur, o, w, cur[1]))
                    if joined.get(w) is None:
                        return ("not-joined-while-waiting", "after %s waitable %s is in no set" % (cur, w))
                if cur[0] == "d":
                    state[o] = "gone"
                    w = handle.get(o)
                    for t in maps:
                        if w is not None and maps[t].get(w) == o:
                            return ("dropped-while-registered", "operation %d dropped but waitable %s still in task %d's map" % (o, w, t))
            a = tk[1:]
            m = re.match(r"([pcd])(\d)\.(\d+)", a)
            cur = (m.group(1), int(m.group(2)), int(m.group(3))) if m else None
            continue
        if tk.startswith("TRAP:"):
            return ("host-trap", tk)
        m = re.match(r"(s|f)new=(\d+),(\d+)$", tk)
        if m:
            created.append((int(m.group(2)), int(m.group(3)))); continue
        m = re.match(r"join:(\d+):(\d+)$", tk)
        if m:
            w, s = int(m.group(1)), int(m.group(2))
            if s == 0: joined.pop(w, None)
            else: joined[w] = s
            continue
        m = re.match(r"treg:(\d):(\d+)$", tk)
        if m:
            t, w = int(m.group(1)), int(m.group(2))
            for t2 in maps:
                if t2 != t and w in maps[t2]:
                    return ("registered-in-two-tasks", "waitable %d in maps of task %d and %d" % (w, t2, t))
            maps[t][w] = owner.get(w); continue
        m = re.match(r"(tunreg|tdeliver):(\d):(\d+)", tk)
        if m:
            t, w = int(m.group(2)), int(m.group(3))
            had = maps[t].pop(w, "absent")
            if m.group(1) == "tdeliver":
                code = int(tk.split(":")[3])
                if had == "absent":
                    return ("event-for-unregistered-waitable", tk)
                if pending_event != (w, code):
                    return ("delivered-event-differs-from-host-event", tk)
                pending_event = None
                o = owner.get(w)
                if o is None or state[o] != "prog":
                    return ("event-delivered-to-dead-operation", tk)
                if o in lastcode and lastcode[o][1]:
                    return ("completion-overwritten", tk)
                lastcode[o] = (code, True)
            continue
        m = re.match(r"wspoll:(\d+)=(\d+),(\d+),(\d+)$", tk)
        if m:
            if int(m.group(2)) != 0:
                pending_event = (int(m.group(3)), int(m.group(4)))
            continue
        # start intrinsics
        m = re.match(r"(?:sread|swrite):(\d+):\d+=(\d+)$", tk) or re.match(r"fread:(\d+)=(\d+)$", tk)
        if m:
            w, code = int(m.group(1)), int(m.group(2))
            o = cur[2]; handle[o] = w; owner[w] = o; state[o] = "prog"; lastcode[o] = (code, True); continue
        m = re.match(r"call:(\d+)=(\d+)$", tk)
        if m:
            o, packed = int(m.group(1)), int(m.group(2))
            state[o] = "prog"; lastcode[o] = (packed & 0xf, True)
            if packed >> 4:
                handle[o] = packed >> 4; owner[packed >> 4] = o
            continue
        # cancel intrinsics and handle drops: the waitable must be in no set and in no map
        m = re.match(r"(stcancel|scancelr|scancelw|fcancelr):(\d+)=(\d+)$", tk)
        md = re.match(r"(stdrop|fdropr|sdropr|sdropw):(\d+)$", tk)
        if m or md:
            w = int((m or md).group(2))
            if w in joined:
                return ("cancel-or-drop-while-in-a-set", tk)
            for t in maps:
                if w in maps[t]:
                    return ("cancel-or-drop-while-registered", "%s but waitable %d is in task %d's map" % (tk, w, t))
            if m:
                o = owner.get(w)
                if o is not None:
                    if o in lastcode and lastcode[o][1] and decode_class(kinds[o], lastcode[o][0]) is not None:
                        return ("cancel-after-completion", tk)
                    lastcode[o] = (int(m.group(3)), True)
            else:
                o = owner.pop(w, None)
                if md.group(1) == "stdrop" and o is not None and cur and cur[0] == "d":
                    lastcode[o] = (lastcode.get(o, (0, False))[0], False)   # result discarded by the drop
            continue
        m = re.match(r"res:(\d+)=(.*)$", tk)
        if m:
            o, r = int(m.group(1)), m.group(2)
            nres[o] += 1
            if nres[o] > 1:
                return ("two-results", tk)
            if state[o] == "start":      # cancelled before it started
                state[o] = "done"; continue
            code = lastcode.get(o, (None, False))
            want = decode_class(kinds[o], code[0]) if code[1] else None
            if want != r:
                return ("result-does-not-match-last-completion", "%s but last code handed was %s (=> %s)" % (tk, code, want))
            lastcode[o] = (code[0], False); state[o] = "done"
            continue
    # a code handed to an operation is either consumed (result / progress) or still pending in its slot; at the
    # end, no map entry may belong to a dropped / finished operation
    acts = [t[1:] for t in toks if t.startswith("@")]
    dropped = {int(a.split(".")[1].split("=")[0]) for a in acts if a[0] == "d"}
    for t in maps:
        for w, o in maps[t].items():
            if o is None or o in dropped or state[o] != "prog":
                return ("stale-registration", "task %d's map still has waitable %d (operation %s) at the end" % (t, w, o))
    fm = re.search(r"maps=\[([\d,]*)\];\[([\d,]*)\]", facts)
    real_maps = [sorted(int(x) for x in g.split(",") if x) for g in fm.groups()]
    if real_maps != [sorted(maps[0]), sorted(maps[1])]:
        return ("map-differs-from-register-unregister-history", "%s vs %s" % (real_maps, [sorted(maps[0]), sorted(maps[1])]))
    for t in (0, 1):
        for w in real_maps[t]:
            if w not in joined:
                return ("registered-but-not-joined", "waitable %d" % w)
    if len(dropped) == len(kinds):
        if joined or any(real_maps):
            return ("residue-after-all-dropped", "joined=%s maps=%s" % (joined, real_maps))
        if "clones=0,0" not in facts:
            return ("task-clone-leak", facts)
    return None


def shrink_case(case, fails):
    a, b, c = case.split("|")
    small = vf.shrink_list(c.split(), lambda ts: fails(a.strip() + " | " + b.strip() + " | " + " ".join(ts)))
    return a.strip() + " | " + b.strip() + " | " + " ".join(small)


def run(ctx):
    n_valid, n_mal = (10000, 2500) if ctx.tier == "quick" else (300000, 75000)
    ctx.assumptions += [
        "model: 1-3 operations (async import call, stream read, stream write, future read = the runtime's WaitableOp instances) x two harness-owned wasip3 tasks (C ABI v1 or v2, MockTask mirrors SharedTaskState::{waitable_register,waitable_unregister} and deliver_waitable_event); the theorem covers universes of at most 2 operations, any trace length",
        "validity of an action list = WaitOp.valid_trace: Rust API contract (no poll/cancel after completion, nothing after drop), CM host protocol (completion codes, one completion per outstanding operation, cancel reports an undelivered completion), and the documented v1 assumption (an operation is touched by another task than the one that last polled it only if both are v2)",
        "tie: hook H1 links the runtime's intrinsics to rtmock; wasip3_task_set is owned by the harness",
    ]
    ctx.proof_leg(["theories/Props/C18.vo"], ["Props.C18"], THEOREMS)
    ok1, exe_r, log1, ok2, exe_m, log2 = build()
    if not ok1:
        ctx.tie_broken("tie", "harness build (hook H1) against the repository failed:\n" + log1[-3000:]); return
    if not ok2:
        ctx.tie_broken("tie", "model extraction/driver build failed:\n" + log2[-3000:]); return
    corpus = [l.strip() for l in open(CORPUS) if l.strip() and not l.startswith("#")] if os.path.exists(CORPUS) else []
    rv, rm = ctx.rng.fork(1), ctx.rng.fork(2)
    cases = corpus + [rtmock.gen_waitop_case(rv) for _ in range(n_valid)] + [rtmock.gen_waitop_case(rm, True) for _ in range(n_mal)]
    real_m, mod = run_both(exe_r, exe_m, cases)
    real = [strip_markers(r) for r in real_m]
    mism = [(c, r, m[0]) for c, r, m in zip(cases, real, mod) if not same(r, m[0])]
    if mism:
        c = mism[0][0]
        def differs(x):
            rr, mm = run_both(exe_r, exe_m, [x]); return not same(strip_markers(rr[0]), mm[0][0])
        sc = shrink_case(c, differs)
        rr, mm = run_both(exe_r, exe_m, [sc])
        ctx.tie_broken("tie", "model and real WaitableOperation disagree on %d/%d action lists; minimised: %r\n real : %s\n model: %s" % (len(mism), len(cases), sc, strip_markers(rr[0]), mm[0][0]))
    nvalid, viol = 0, None
    inv_fail = [c for c, m in zip(cases, mod) if m[1] and (m[2].get("inv") != "1" or m[2].get("bad") != "0")]
    if inv_fail:
        ctx.tie_broken("model-invariant", "the model's invariant inv_ok fails at the end of %d valid action lists (beyond the proved one-operation universe?); first: %r" % (len(inv_fail), inv_fail[0]))
    for c, r, m in zip(cases, real_m, mod):
        if m[1]:
            nvalid += 1
            why = holds(c, r)
            if why and viol is None:
                viol = (c, r, why)
    if viol:
        c, r, why = viol
        def fails(x):
            rr, mm = run_both(exe_r, exe_m, [x]); return mm[0][1] and holds(x, rr[0]) is not None
        sc = shrink_case(c, fails)
        rr, _ = run_both(exe_r, exe_m, [sc])
        why = holds(sc, rr[0]) or why
        ctx.violation("c18:%s:%s" % (why[0], sc.replace(" ", ",")), "C18 rule %r violated by the real runtime on the valid action list %r: %s; real: %s" % (why[0], sc, why[1], strip_markers(rr[0])),
                      {"engine": "waitop", "case": sc, "original": c, "rule": why[0]})
    explored = None
    if ctx.tier == "thorough":
        # exhaustive exploration of two-operation universes with the EXTRACTED model (evidence, not a proof)
        kinds = ["st", "sr", "sw", "fr"]
        # (both tasks v2 = the configurations where moves between tasks are valid; 16 kind pairs, 5.7*10^5 states in all,
        #  one configuration per core: a few minutes on an idle machine)
        lines = ["2 2 | %s %s" % (k1, k2) for k1 in kinds for k2 in kinds]
        try:
            outs = vf.run_filter([exe_m, "explore"], lines, shards=16, timeout=5400)
            explored = {"configurations": len(lines), "reachable_states": sum(int(o.split()[1]) for o in outs),
                        "all_satisfy_inv_ok": all(o.startswith("1 ") for o in outs)}
            if not explored["all_satisfy_inv_ok"]:
                bad = [l for l, o in zip(lines, outs) if not o.startswith("1 ")]
                ctx.tie_broken("model-invariant", "inv_ok fails on a reachable state of the two-operation universes %r" % bad[:3])
        except RuntimeError as e:
            explored = {"error": str(e)[:300]}
    # sub-leg: the harness's MockTask behaves like the real SharedTaskState / deliver_waitable_event
    ok3, exe_t, log3 = rtmock.build("taskabi")
    n_abi = 0
    if not ok3:
        ctx.tie_broken("tie-mocktask", "taskabi build failed:\n" + log3[-2000:])
    else:
        rt = ctx.rng.fork(3)
        abi = ["", "r1.5 r2.6 e1=2 r1.7 r1.8 u2 u3 e1=4"] + [rtmock.gen_taskabi_case(rt) for _ in range(1500 if ctx.tier == "quick" else 60000)]
        outs = rtmock.run(exe_t, abi)
        n_abi = len(abi)
        badabi = [(a, o) for a, o in zip(abi, outs) if " ## mock: " not in o or o.split(" ## mock: ")[0][len("real: "):] != o.split(" ## mock: ")[1]]
        trapped = [(a, o) for a, o in zip(abi, outs) if "TRAP" in o.split(" ## mock: ")[0] or o.startswith(("PANIC", "ABORT"))]
        if trapped:
            a, o = trapped[0]
            ctx.violation("c18:task-abi:%s" % a.replace(" ", ","), "the real task (SharedTaskState / deliver_waitable_event) trapped in the host or panicked on the register/unregister/deliver sequence %r: %s" % (a, o[:500]),
                          {"engine": "taskabi", "case": a})
        if badabi:
            ctx.tie_broken("tie-mocktask", "MockTask and the real SharedTaskState differ on %d/%d task-ABI sequences; first: %r -> %s" % (len(badabi), len(abi), badabi[0][0], badabi[0][1][:600]))
    dist = {"total": len(cases), "corpus": len(corpus), "valid": nvalid, "malformed_or_invalid": len(cases) - nvalid,
            "moves_between_tasks": sum(1 for r in real if re.search(r"tclone:(\d) tunreg:(?!\1)\d", r)),
            "cancel_with_event_already_queued": sum(1 for c, r in zip(cases, real) if re.search(r"h\d=\d+ (?:w\d\S* )*[cd]\d\.\d", c.split("|")[2])),
            "delivered_then_cancelled_or_dropped": sum(1 for r in real if re.search(r"tdeliver:\S+ join:\d+:0 (?!treg)\S*(cancel|drop)", r)),
            "partial_progress_subtask": sum(1 for r in real if re.search(r"tdeliver:\d:\d+:1 ", r)),
            "peer_dropped": sum(1 for r in real if re.search(r"=D:", r)),
            "handle_reused": sum(1 for r in real if len(re.findall(r"call:\d+=(\d+)", r)) != len(set(re.findall(r"call:\d+=(\d+)", r)))),
            "two_tasks_used": sum(1 for r in real if "treg:0:" in r and "treg:1:" in r),
            "v1_task_present": sum(1 for c in cases if "1" in c.split("|")[0]),
            "runtime_panic": sum(1 for r in real if "PANIC" in r or r.startswith("ABORT")),
            "ops_histogram": {k: sum(1 for c in cases if len(c.split("|")[1].split()) == k) for k in (1, 2, 3)}}
    distinct = {c for c, r in zip(cases, real) if "treg:" in r}
    ctx.coverage.update({
        "evaluations": len(cases), "distinct_nontrivial": len(distinct),
        "rule": "seeded action lists (1-14 actions + tidy-up drops) over 1-3 operations of kinds {async call, stream read, stream write, future read} and two tasks (C ABI v1/v2 each): poll under a task (with scripted start answer), cancel, drop (with scripted cancel answer), host completion event, task wait+deliver; valid stream + malformed stream; non-trivial = at least one waitable was registered; distinct = distinct lines",
        "samples": [{"scenario": c, "real": r} for c, r in list(zip(cases, real))[len(corpus):len(corpus) + 3]],
        "traces_validated_against_impl": len(cases), "model_mismatches": len(mism),
        "property_evaluated_on_real_logs": nvalid, "model_invariant_evaluated_on_valid_lists": nvalid, "distribution": dist,
        "mocktask_vs_real_task_sequences": n_abi,
        "two_operation_universes_explored": explored if explored is not None else "thorough tier only",
    })


def replay(ctx, path):
    obj = json.load(open(path))
    ok1, exe_r, log1, ok2, exe_m, log2 = build()
    case = obj["replay"]["case"]
    if obj["replay"].get("engine") == "taskabi":
        ok3, exe_t, _ = rtmock.build("taskabi")
        o = rtmock.run(exe_t, [case])[0]
        print("sequence:", case); print(o.replace(" ## ", "\n"))
        bad = "TRAP" in o or o.startswith(("PANIC", "ABORT")) or " ## mock: " not in o or o.split(" ## mock: ")[0][len("real: "):] != o.split(" ## mock: ")[1]
        print("verdict:", "real task misbehaves / differs from MockTask" if bad else "real task == MockTask, no trap")
        return 1 if bad else 0
    real_m, mod = run_both(exe_r, exe_m, [case])
    why = holds(case, real_m[0]) if mod[0][1] else None
    r = strip_markers(real_m[0])
    print("scenario:", case); print("real :", r); print("model:", mod[0][0], "(valid action list)" if mod[0][1] else "(not a valid action list)")
    print("verdict:", ("C18 violated: %s (%s)" % why) if why else ("model/real mismatch" if not same(r, mod[0][0]) else "property holds on this action list"))
    return 1 if (why or not same(r, mod[0][0])) else 0


META = {
    "engine": "coq+rtmock",
    "technique": "Coq proof (reachable set of the model computed and checked closed under every valid action by vm_compute, invariant checked on all of it, lifted to all action lists by induction) + differential run of the real WaitableOperation against a native mock host",
    "text": "For every action list of any length over universes of one or two operations (async call, stream read/write, future read) and two tasks of either C ABI version: a registered waitable is in progress, alive, has no unconsumed code, and is joined to its task's set; nothing is cancelled or dropped while in a set or in a map; completions handed = in_progress_update calls + codes still pending; no map entry points to a dropped operation, including after moves between v2 tasks; no host trap, no panic. The v1 same-task assumption the code documents is a hypothesis, with a proved witness of what breaks without it. The model is tied to waitable.rs on every run by thousands of seeded action lists run natively (hook H1 + rtmock) and through the extracted model, logs compared token for token; C18's rules are also evaluated directly on the real logs.",
    "note": "Trusted: Coq kernel; extraction + ocaml/waitop_driver.ml; rtmock (mock host, MockTask) and hook H1; Async/Host.v as transcription of the CM spec. MockTask re-implements the task side (SharedTaskState's map/join logic); it is compared with the real SharedTaskState::{cabi_waitable_register,cabi_waitable_unregister} and deliver_waitable_event on seeded register/unregister/deliver sequences on every run (rtmock bin `taskabi`). Theorem universe: at most 2 operations (tie: up to 3).",
}
