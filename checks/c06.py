"""C06 — Rust guest bindings neither leak nor double-free heap memory.

Same engine as C05 (lib/genrun_rust.py): every call of every imported/exported function of natively compiled generated
bindings runs under a counting, poisoning, red-zoned global allocator (harness/genrun_rust/rt.rs).  Judged per call:
  * no allocator error: free of a non-live pointer (double free / foreign pointer), free with a size/alignment different
    from the allocation's, bytes next to a block overwritten (out-of-bounds write);
  * buffers the host hands to an export (parameters) or to an import wrapper (results) are released exactly once;
  * the guest allocations alive when an export returns are EXACTLY the multiset of (size, align) the canonical ABI
    prescribes for the returned value (the Coq oracle's ledger);
  * after post-return (exports) / after the result is dropped (imports) the heap is exactly as before the call;
  * the parameter image an import wrapper hands to the host, and the result image an export returns, do not point into
    blocks that were freed before the host reads them (use-after-free probe: lifting again with the freed blocks poisoned).
Thorough tier additionally re-runs a sample of the guest binaries under valgrind memcheck (search aid).
Proved part: Props/C06.v (ledger prediction of the spec host is address-independent and well-formed; post-return exists iff
the result can hold heap data [C03]; Cleanup / cabi_dealloc facts [C24]).  The comparison with the real bindings is differential."""
import json, os, re
import vf
import genrun_rust as G
from checks import c05

LEVEL = "translation_validation"
READY = True
PROP = "C06"
TARGETS = ["theories/Props/C06.vo"]
THEOREMS = ["C06_ledger_prediction_sound", "C06_ledger_protocol_total", "C06_ledger_blocks_wellformed", "C06_post_return_generated_iff_heap",
            "C06_scratch_buffer_freed_exactly_once", "C06_dealloc_frees_iff_nonzero"]
CATS = ("memory", "crash")


def setup():
    ok = c05.setup()
    ok2, out = vf.coq_make(TARGETS)
    if not ok2:
        vf.log(out[-2000:])
    return ok and ok2


def valgrind_leg(ctx, tools, units, stats):
    """thorough tier: a sample of modules again, guest process under valgrind memcheck (our own red zones off so that
    memcheck sees the raw malloc blocks).  Any memcheck error is a finding of class valgrind:<kind>."""
    import shutil
    if not shutil.which("valgrind"):
        ctx.notes.append("valgrind not installed: leg skipped")
        return []
    live = [u for u in units if not u.skip][:24]
    if not live:
        return []
    ws, ok, log = G.build_units(live)
    if not ok:
        return []
    logdir = os.path.join(vf.BUILD, "genrun", "valgrind-%d" % os.getpid())
    os.makedirs(logdir, exist_ok=True)
    wrap = ["valgrind", "-q", "--error-exitcode=0", "--leak-check=no", "--log-file=%s/vg.%%p.log" % logdir]
    failing, st = G.run_units(tools, ws, live, 20, ctx.seed ^ 0x7a1, wrap=wrap, env={"GENRUN_NO_REDZONE": "1"}, workers=8)
    errs = []
    for f in os.listdir(logdir):
        txt = open(os.path.join(logdir, f)).read()
        # one report = a run of `==pid== …` lines up to the next blank `==pid==` line
        for rep in re.split(r"\n==\d+== *\n", txt):
            if not re.search(r"Invalid read|Invalid write|Invalid free|Mismatched free|uninitialised", rep):
                continue
            frames = re.findall(r"(?:at|by) 0x[0-9A-F]+: (\S+)", rep)[:8]
            # reads of padding bytes by the harness's own memory snapshot are not the guest's doing
            if any("::rt::snapshot" in fr or "::rt::hex" in fr or "::rt::check_redzones" in fr for fr in frames):
                continue
            errs.append(rep[:3000])
    import shutil as sh_
    sh_.rmtree(logdir, ignore_errors=True)
    stats["valgrind_calls"] = st.get("calls", 0)
    stats["valgrind_reports"] = len(errs)
    return errs


def run(ctx):
    ctx.assumptions += [
        "native x86-64 execution of the generated bindings (pw = 8 only); the guest heap is the Rust global allocator wrapped by harness/genrun_rust/rt.rs",
        "memory the user code deliberately keeps: none — the generated guest implementation drops every value it receives and every value it built, so "
        "'exactly as before' is checked as equality of the live-block sets",
        "the predicted ledger comes from the Coq oracle (Canon/Spec.v `allocs`); C06_ledger_prediction_sound proves the prediction independent of addresses",
        "out-of-bounds detection = 16-byte red zones around every block + poisoning + (thorough) valgrind memcheck; reads of freed memory by the HOST are detected by "
        "re-lifting with freed blocks poisoned; these are search aids, not proofs",
        "differential leg; same exclusions as C05 (modules rustc rejects, borrowing-duplicate-if-necessary, async)",
    ]
    ctx.proof_leg(TARGETS, ["Props.C06"], THEOREMS)
    r = c05.engine_run(ctx, CATS, PROP)
    if r is None:
        return
    tools, units, failing, stats = r
    if ctx.tier == "thorough":
        try:
            errs = valgrind_leg(ctx, tools, units, stats)
            for e in errs[:3]:
                kind = "invalid-read" if "Invalid read" in e else "invalid-write" if "Invalid write" in e else "invalid-free" if "free" in e else "uninitialised"
                ctx.violation("rust:valgrind:" + kind, e[:1500], {"engine": "genrun-rust-valgrind", "report": e})
        except Exception as e:
            ctx.notes.append("valgrind leg failed to run: %s" % e)
    c05.report(ctx, tools, units, failing, stats, CATS,
               "checked per call: allocator errors, host-given buffers released once, guest allocations alive at return == canonical-ABI ledger, heap after "
               "post-return/drop == heap before, no pointer into freed memory handed to the host.")
    ctx.coverage["distribution"]["valgrind"] = {"calls": stats.get("valgrind_calls", 0), "reports": stats.get("valgrind_reports", 0)}


def replay(ctx, path):
    obj = json.load(open(path))
    ro = obj["replay"]
    if ro.get("engine") == "genrun-rust-valgrind":
        print(ro["report"])
        return 1
    tools = G.Tools()
    if not tools.ok:
        print(tools.log)
        return 1
    opt = G.OptSet.from_dict(ro["options"])
    fixed = ([G.parse_value(a) for a in ro["args"]], G.parse_value(ro["ret"]) if ro.get("ret") is not None else None)
    cases, u = G.run_single(tools, ro["wit"], ro["world"], opt, ro["function"], 1, ctx.seed, fixed_case=fixed)
    if cases is None:
        print("cannot build the case:", u.skip)
        return 1
    bad = [f for c in cases for f in c.findings if f.cat in CATS]
    print("wit:", ro["wit"])
    print("options:", opt.tag(), "function:", ro["function"], "args:", ro["args"], "ret:", ro.get("ret"))
    for f in bad:
        print("FINDING", f)
    print("verdict:", "property violated on this input" if bad else "property holds on this input")
    return 1 if bad else 0


META = {
    "engine": "coq+genrun",
    "technique": "Coq theorems about the spec host's allocation ledger + C03/C24 facts; differential native execution of generated Rust bindings under an "
                 "instrumented allocator, ledger compared with the extracted spec host; valgrind memcheck in the thorough tier",
    "text": "Proved: the oracle's predicted sequence of (size, align) allocations is a function of type and value only and its blocks are aligned, fresh and pairwise "
            "disjoint (Canon/SpecRoundtripLedger*.v); a post-return function exists iff the result type can hold heap data (C03); Cleanup/cabi_dealloc free exactly once (C24). "
            "Differential (NOT proved): every call through natively compiled generated bindings (random worlds × 32 option sets) leaves the instrumented guest heap exactly as "
            "it was, hands the host exactly the predicted buffers, takes over host-given buffers exactly once, with no allocator error and no pointer into freed memory.",
    "note": "Trusted: as C05, plus the instrumented allocator (rt.rs) and valgrind. Memory deliberately kept by user code does not occur in the generated guest.",
}
