"""C05 — Rust guest bindings carry every value across the boundary unchanged.

Proved part : coq/theories/Props/C05.v — C05_spec_host_sound: the spec host (Canon/Spec.v) that judges "arrives as the same
              value" is itself lossless: lift_flat ∘ lower_flat = id and load ∘ store = id for pw ∈ {4,8}.
Validated   : DIFFERENTIAL.  Random worlds (lib/witgen.py) × Rust generator option sets {owning,borrowing} × {std-feature}
              × {merge-structurally-equal-types} × {BTreeMap,HashMap} × {raw-strings}: the generated bindings are compiled
              natively, the extracted Coq oracle (pw = 8) plays the component-model host on both sides of every imported
              and exported function; a bindgen-independent observation log shows what the Rust code received.
Engine      : lib/genrun_rust.py (+ harness/genrun_rust/)."""
import json, os, time
import vf
import genrun_rust as G

LEVEL = "translation_validation"
READY = True
PROP = "C05"
TARGETS = ["theories/Props/C05.vo"]
THEOREMS = ["C05_spec_host_sound"]
FEATURES = ["fixed", "maps"]
CATS = ("value", "crash")
FIXED_WORLD_SEED = 50505          # quick tier: these worlds do not depend on VERIF_SEED, so their build is cached
MAX_SRC_QUICK = 220_000


def setup():
    t = G.Tools()
    if not t.ok:
        vf.log(t.log)
    ok, out = vf.coq_make(TARGETS)
    if not ok:
        vf.log(out[-2000:])
    return t.ok and ok


def corpus_specs():
    """corpus/C05.txt and corpus/C06.txt (the two checks share engine, plan and therefore the cached guest crates)"""
    out = []
    lines = []
    for prop in ("C05", "C06"):
        p = os.path.join(vf.ROOT, "corpus", prop + ".txt")
        if os.path.exists(p):
            lines += [l for l in open(p) if l.strip() and not l.startswith("#")]
    for i, line in enumerate(lines):
        o = json.loads(line)
        out.append(("c%do0" % i, o["wit"].replace("m0:p", "c%d:p" % i), o["world"], G.OptSet.from_dict(o["options"]), "corpus"))
    return out


def plan(ctx, tools, prefix="w"):
    """-> list of unit specs"""
    quick = ctx.tier == "quick"
    specs = corpus_specs()
    if quick:
        nfixed, nseed, per = 7, 3, 4
    else:
        nfixed, nseed, per = 0, 150, 4     # 600 guest modules: about what 16 idle cores compile and run in the thorough budget
    limit = MAX_SRC_QUICK if quick else 600_000
    fixed = G.pick_worlds(tools, FIXED_WORLD_SEED, nfixed, FEATURES, "fx", limit) if nfixed else []
    seeded = G.pick_worlds(tools, ctx.seed, nseed, FEATURES, "sd", limit)
    sched_f = G.optset_schedule(vf.Rng(FIXED_WORLD_SEED), len(fixed), per)
    sched_s = G.optset_schedule(vf.Rng(ctx.seed ^ 0x5eed), len(seeded), per)
    # the fixed schedule covers optsets 0..27 of its permutation; make the seeded worlds start where it stops
    for i, (w, ops) in enumerate(zip(fixed, sched_f)):
        for j, op in enumerate(ops):
            specs.append(("fx%do%d" % (i, j), w.text, w.world, op, "fixed"))
    for i, (w, ops) in enumerate(zip(seeded, sched_s)):
        for j, op in enumerate(ops):
            specs.append(("sd%do%d" % (i, j), w.text, w.world, op, "seeded"))
    return specs


def engine_run(ctx, cats, prop):
    """shared by C05 and C06: returns (tools, units, failing cases, stats) or None if the machinery is broken"""
    tools = G.Tools()
    if not tools.ok:
        ctx.tie_broken("tie", "tool build failed: " + tools.log)
        return None
    t0 = time.time()
    specs = plan(ctx, tools)
    units = G.prepare_units(tools, specs, max_src=MAX_SRC_QUICK if ctx.tier == "quick" else 600_000)
    t1 = time.time()
    groups = {}
    for u in units:
        groups.setdefault("fixed" if u.origin in ("fixed", "corpus") else "seeded", []).append(u)
    failing, stats = [], {}
    for gname, us in groups.items():
        ws, ok, log = G.build_units(us)
        if not ok:
            ctx.tie_broken("tie", "guest crates (%s worlds) do not build:\n%s" % (gname, log[-3000:]))
            return None
        f, st = G.run_units(tools, ws, us, 50 if ctx.tier == "quick" else 60, ctx.seed)
        failing += f
        for k, v in st.items():
            if isinstance(v, set):
                stats.setdefault(k, set()).update(v)
            elif isinstance(v, dict):
                d = stats.setdefault(k, {})
                for kk, vv in v.items():
                    d[kk] = d.get(kk, 0) + vv
            elif isinstance(v, list):
                stats.setdefault(k, []).extend(v)
            else:
                stats[k] = stats.get(k, 0) + v
    stats["t_prepare_s"] = round(t1 - t0, 1)
    stats["t_build_run_s"] = round(time.time() - t1, 1)
    G.prune_workspaces(keep=16)
    return tools, units, failing, stats


def report(ctx, tools, units, failing, stats, cats, what_text):
    """violations (one per class, minimised when the class is new) + coverage"""
    by_class = {}
    for c in failing:
        for f in c.findings:
            if f.cat in cats:
                by_class.setdefault(f.klass, []).append((c, f))
    for klass, items in sorted(by_class.items()):
        key = "rust:" + klass
        c, f = items[0]
        # prefer a corpus case (already minimal) as the exhibit
        for cc, ff in items:
            if cc.unit.origin == "corpus":
                c, f = cc, ff
                break
        if not ctx.known.is_known(ctx.prop, key) and c.unit.origin != "corpus" and not klass.startswith("crash"):
            try:
                m = G.minimize(tools, c, klass, ctx.seed, rounds=3 if ctx.tier == "quick" else 5, log=vf.log)
                if m is not None:
                    c = m
                    f = [x for x in m.findings if x.klass == klass][0]
            except Exception as e:  # minimisation is best effort
                vf.log("minimisation failed: %s" % e)
        ro = c.replay_obj()
        ro["class"] = klass
        ro["occurrences_in_this_run"] = len(items)
        ro["options_seen"] = sorted(set(cc.unit.opt.tag() for cc, _ in items))
        ctx.violation(key, "%s [%s, options %s, function %s]" % (f.detail[:1500], klass, c.unit.opt.tag(), c.fm.key()), ro)
    skipped = {}
    for u in units:
        if u.skip:
            k = u.skip.split(":")[0] if not u.skip.startswith("rustc") else "rustc: " + u.skip.split("error", 1)[-1][:110]
            skipped[k] = skipped.get(k, 0) + 1
    live = [u for u in units if not u.skip]
    opt_hist = {}
    for u in live:
        opt_hist[u.opt.tag()] = opt_hist.get(u.opt.tag(), 0) + 1
    ctx.coverage.update({
        "programs": len(live),
        "disagreements_checked": stats.get("calls", 0),
        "evaluations": stats.get("calls", 0),
        "distinct_nontrivial": len(stats.get("distinct_sigs", ())),
        "rule": "a program = one (random world from lib/witgen.py, Rust generator option set) compiled natively; an evaluation = one call of one imported/exported "
                "function with seeded random arguments/results judged by the Coq oracle; distinct_nontrivial = distinct (direction, option set, parameter types, result type) "
                "signatures with at least one value crossing the boundary; " + what_text,
        "samples": stats.get("samples", [])[:3],
        "traces_validated_against_impl": stats.get("calls", 0),
        "distribution": {
            "worlds": len(set(u.wit for u in live)), "modules_built": len(live), "modules_skipped": skipped,
            "option_sets_exercised": len(opt_hist), "option_set_histogram": opt_hist,
            "functions": stats.get("functions", 0), "export_calls": stats.get("export_calls", 0), "import_calls": stats.get("import_calls", 0),
            "type_constructor_histogram": stats.get("kinds", {}),
            "leaf_values_sent_by_host": stats.get("leaves_sent", 0), "leaf_values_received_by_host": stats.get("leaves_received", 0),
            "heap_buffers_host_to_guest": stats.get("host_buffers", 0), "heap_buffers_guest_to_host": stats.get("guest_buffers", 0),
            "use_after_free_probes": stats.get("uaf_probes", 0), "guest_process_deaths": stats.get("guest_deaths", 0),
            "nontrivial_calls": stats.get("nontrivial", 0),
            "corpus_cases": len([u for u in units if u.origin == "corpus"]),
            "workarounds": {"witmap-use-line-added": len([u for u in live if "witmap-workaround" in u.notes])},
            "timing_s": {"prepare": stats.get("t_prepare_s"), "build_and_run": stats.get("t_build_run_s")},
            "failing_cases_by_class": {k: len(v) for k, v in by_class.items()},
        },
    })


def run(ctx):
    ctx.assumptions += [
        "no wasm engine exists here: the generated Rust runs natively on x86-64, so only the pw = 8 layout is executed (the generated code is pointer-width agnostic by "
        "construction; pw = 4 is covered at instruction level by C01) — stated by DESIGN.md section 5",
        "the component-model host is the Coq canonical-ABI spec (Canon/Spec.v) extracted to OCaml (ocaml/abi_driver.ml SPEC service); C05_spec_host_sound proves it lossless",
        "differential leg: generated bindings vs oracle on seeded random worlds/values; not a proof about crates/rust/src/bindgen.rs",
        "generated non-wasm import shims `{ unreachable!() }` are rewritten (in the generated copy only) to call the mock host; a `use wit_bindgen::rt::WitMap as _;` line is "
        "added to modules whose world-level functions use map<K,V> (the generator forgets that import: such bindings do not compile otherwise; reported as a side finding)",
        "modules rustc rejects are excluded and counted (compile acceptance is C09's subject, not C05's); strings are generated as valid UTF-8; map keys are distinct; maps compare unordered",
        "excluded as in crates/test/src/rust.rs: ownership borrowing-duplicate-if-necessary (declared expected failure) and async (C08)",
    ]
    ctx.proof_leg(TARGETS, ["Props.C05"], THEOREMS)
    r = engine_run(ctx, CATS, PROP)
    if r is None:
        return
    tools, units, failing, stats = r
    report(ctx, tools, units, failing, stats, CATS,
           "checked per call: every leaf the host sent equals what the Rust implementation logged, and every value Rust sent equals what the oracle lifts from the "
           "flat values/memory image Rust produced (both directions, imports and exports).")


def replay(ctx, path):
    obj = json.load(open(path))
    ro = obj["replay"]
    tools = G.Tools()
    if not tools.ok:
        print(tools.log)
        return 1
    opt = G.OptSet.from_dict(ro["options"])
    fixed = ([G.parse_value(a) for a in ro["args"]], G.parse_value(ro["ret"]) if ro.get("ret") is not None else None)
    cases, u = G.run_single(tools, ro["wit"], ro["world"], opt, ro["function"], 1, ctx.seed, fixed_case=fixed)
    if cases is None:
        print("cannot build the case:", u.skip)
        return 1
    bad = [f for c in cases for f in c.findings if f.cat in CATS]
    print("wit:", ro["wit"])
    print("options:", opt.tag(), "function:", ro["function"], "args:", ro["args"], "ret:", ro.get("ret"))
    for f in bad:
        print("FINDING", f)
    print("verdict:", "property violated on this input" if bad else "property holds on this input")
    return 1 if bad else 0


META = {
    "engine": "coq+genrun",
    "technique": "Coq proof that the spec host is lossless (lift∘lower = id, load∘store = id, pw ∈ {4,8}) + differential native execution of generated Rust bindings "
                 "against the extracted spec host",
    "text": "Proved: C05_spec_host_sound (Canon/SpecRoundtrip*.v) — the canonical-ABI oracle that judges 'the same value arrived' round-trips every well-typed value of every "
            "valid type in flat and memory form for both pointer widths. Differential (NOT proved): for seeded random worlds and 32 Rust generator option sets the generated "
            "bindings are compiled natively and every imported/exported function is called with random values; the oracle lowers what the host sends and lifts what Rust "
            "sends, an observation log written by generated walker code shows what the Rust implementation received.",
    "note": "Trusted: Coq kernel; extraction + ocaml/abi_driver.ml; lib/genrun_rust.py (code generator of the guest implementation, comparison, map canonicalisation); "
            "harness/genrun_rust/rt.rs; rustc. Only pw = 8 is executed. Async, resources, futures/streams are outside this check (C07/C08).",
}
