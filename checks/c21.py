"""C21 — async import calls release parameters and results exactly once.
Proof: coq/theories/Props/C21.v (model Async/SubtaskOp.v + monitor Async/SubtaskOpSpec.v, proofs
Async/SubtaskOpProofs.v).  Tie (K): the real `Subtask::call` future (subtask.rs + waitable.rs) driven
natively against the mock host (harness/crates/rtmock bin `subtask`, hook H1) vs the extracted model on
the same seeded scenarios: the complete host-call/instrumentation log and the observable facts must be
equal, on CM-valid histories and on a separate malformed stream (panic classes compared).
Search: C21's own statement (the extracted monitor `c21_check`) evaluated on the REAL logs."""
import os, json, re
import vf, rtmock

LEVEL = "proof"
READY = True
TARGETS = ["theories/Props/C21.vo", "theories/Extract/ExSubtaskOp.vo"]
THEOREMS = ["C21_safety", "C21_exactly_once", "C21_droppable_at_every_point", "C21_counts"]
CORPUS = os.path.join(vf.ROOT, "corpus", "C21.txt")


def build():
    ok1, exe_r, log1 = rtmock.build("subtask")
    ok0, clog = vf.coq_make(TARGETS)
    ok2, exe_m, log2 = vf.ocaml_build("subtask_driver", ["subtask_model"], ["util.ml", "subtask_driver.ml"]) if ok0 else (False, None, clog)
    return ok1, exe_r, log1, ok2, exe_m, log2


def setup():
    ok1, _, l1, ok2, _, l2 = build()
    if not ok1: vf.log(l1[-2000:])
    if not ok2: vf.log(l2[-2000:])
    return ok1 and ok2


def norm_real(o):
    if o.startswith("ABORT"):
        return "ABORT"
    return re.sub(r"PANIC:unknown_code_0x[0-9a-f]+", "PANIC:unknown_code", o)


def split_model(o):
    """-> (comparable line, valid flag or None)"""
    if o.endswith(" valid"):
        return o[:-6], True
    if o.endswith(" invalid"):
        return o[:-8], False
    return o, None


def run_both(exe_r, exe_m, cases):
    real = [norm_real(o) for o in rtmock.run(exe_r, cases)]
    mod = [split_model(o) for o in vf.run_filter([exe_m, "model"], cases)]
    return real, mod


def monitor_many(exe_m, pairs):
    """C21's statement on REAL outputs, batched.  pairs = [(case, real_out)]; returns a list of None | violated rule."""
    res, lines, idx = [None] * len(pairs), [], []
    for i, (case, real_out) in enumerate(pairs):
        if real_out == "ABORT" or " PANIC:" in real_out:
            res[i] = "runtime-panic:" + (real_out.split(" PANIC:")[-1] if " PANIC:" in real_out else "abort")
            continue
        log, facts = real_out.split(" | ")
        size = int(case.split()[1])
        q = "1" if ("res=ok" in facts or "res=gone" in facts) else "0"
        lines.append("%d %s | %s" % (1 if size else 0, q, log)); idx.append(i)
    outs = vf.run_filter([exe_m, "check"], lines) if lines else []
    for i, o in zip(idx, outs):
        res[i] = None if o == "ok" else o.split(":", 1)[1]
    return res


def monitor(exe_m, case, real_out):
    return monitor_many(exe_m, [(case, real_out)])[0]


def shrink_case(case, fails):
    hdr, acts = case.split("|")
    # keep `aN x` pairs together
    toks, cur = [], acts.split()
    i = 0
    while i < len(cur):
        if cur[i].startswith("a") and i + 1 < len(cur) and cur[i + 1] == "x":
            toks.append(cur[i] + " x"); i += 2
        else:
            toks.append(cur[i]); i += 1
    small = vf.shrink_list(toks, lambda ts: fails(hdr.strip() + " | " + " ".join(ts)))
    return hdr.strip() + " | " + " ".join(small)


def run(ctx):
    n_valid, n_mal = (6000, 1500) if ctx.tier == "quick" else (300000, 75000)
    ctx.assumptions += [
        "model: one async import call (Subtask::call) polled under one harness-owned wasip3_task (C ABI v1 or v2); handles, statuses as N",
        "host: scripted mock (rtmock) = Coq Async/Host.v; CM validity of a history = SubtaskOp.valid_trace (call answers STARTING/STARTED with a handle or RETURNED without; events only forward; cancel answers consistent with what the host committed to)",
        "tie: hook H1 (cfg bytecodealliance_wit_bindgen_verif) links the runtime's intrinsics to rtmock; the Subtask trait impl, the allocator watch and the mock task are harness instrumentation",
    ]
    ctx.proof_leg(["theories/Props/C21.vo"], ["Props.C21"], THEOREMS)
    ok1, exe_r, log1, ok2, exe_m, log2 = build()
    if not ok1:
        ctx.tie_broken("tie", "harness build (hook H1) against the repository failed:\n" + log1[-3000:]); return
    if not ok2:
        ctx.tie_broken("tie", "model extraction/driver build failed:\n" + log2[-3000:]); return
    corpus = [l.strip() for l in open(CORPUS) if l.strip() and not l.startswith("#")] if os.path.exists(CORPUS) else []
    rv, rm = ctx.rng.fork(1), ctx.rng.fork(2)
    cases = corpus + [rtmock.gen_subtask_case(rv) for _ in range(n_valid)] + [rtmock.gen_subtask_case(rm, True) for _ in range(n_mal)]
    real, mod = run_both(exe_r, exe_m, cases)
    mism = [(c, r, m[0]) for c, r, m in zip(cases, real, mod) if r != m[0]]
    if mism:
        c, r, m = mism[0]
        def differs(x):
            rr, mm = run_both(exe_r, exe_m, [x]); return rr[0] != mm[0][0]
        sc = shrink_case(c, differs)
        rr, mm = run_both(exe_r, exe_m, [sc])
        ctx.tie_broken("tie", "model and real subtask runtime disagree on %d/%d scenarios; minimised: %r\n real : %s\n model: %s" % (len(mism), len(cases), sc, rr[0], mm[0][0]))
    # search leg: the property itself on the REAL outputs of every CM-valid history
    vidx = [i for i, m in enumerate(mod) if m[1]]
    nvalid = len(vidx)
    verdicts = monitor_many(exe_m, [(cases[i], real[i]) for i in vidx])
    viol = None
    for i, why in zip(vidx, verdicts):
        if why:
            viol = (cases[i], real[i], why); break
    if viol:
        c, r, why = viol
        def fails(x):
            rr, mm = run_both(exe_r, exe_m, [x])
            return bool(mm[0][1]) and monitor(exe_m, x, rr[0]) is not None
        sc = shrink_case(c, fails)
        rr, _ = run_both(exe_r, exe_m, [sc])
        why = monitor(exe_m, sc, rr[0]) or why
        ctx.violation("c21:%s:%s" % (why.split(":")[0], sc.replace(" ", ",")), "C21 rule %r violated by the real runtime on the CM-valid history %r: %s" % (why, sc, rr[0]),
                      {"engine": "subtask", "case": sc, "original": c, "rule": why})
    dist = {"total": len(cases), "corpus": len(corpus), "cm_valid": nvalid, "malformed_or_invalid": len(cases) - nvalid}
    for key, pat in [("never_called", r"^pdrop"), ("returned_immediately", r"call=2 "), ("cancel_before_start", r"stcancel:\d+=3"),
                     ("cancel_after_start", r"stcancel:\d+=4"), ("cancel_lost_race_returned", r"stcancel:\d+=2"),
                     ("event_delivered_then_dropped_unpolled", r"tdeliver[^|]*?(?<!treg:0:1 join:1:2 )stcancel"), ("completed_by_poll", r"res=ok"),
                     ("dropped", r"res=gone"), ("left_pending", r"res=pending"), ("runtime_panic", r"PANIC|ABORT"),
                     ("task_abi_v1", None), ("no_area", None), ("indirect_params", None), ("with_lists", None), ("with_owned_handles", None)]:
        if pat:
            dist[key] = sum(1 for r in real if re.search(pat, r))
    dist["task_abi_v1"] = sum(1 for c in cases if c.split()[0] == "1")
    dist["no_area"] = sum(1 for c in cases if c.split()[1] == "0")
    dist["indirect_params"] = sum(1 for c in cases if c.split()[2] == "1")
    dist["with_lists"] = sum(1 for c in cases if c.split()[3] != "0")
    dist["with_owned_handles"] = sum(1 for c in cases if c.split()[4] != "0")
    distinct = {c for c, r in zip(cases, real) if "call=" in r}
    ctx.coverage.update({
        "evaluations": len(cases), "distinct_nontrivial": len(distinct),
        "rule": "seeded scenarios: header (task ABI v1/v2, area size 0/72, flat/indirect params, 0-5 lists, 0-3 owned handles, call answer) + 0-11 actions from {poll, host status event, task wait+deliver, [cancel answer] drop}; CM-valid stream + separate malformed stream (statuses/answers the CM never gives); non-trivial = the import was actually called; distinct = distinct scenario lines",
        "samples": [{"scenario": c, "real": r} for c, r in list(zip(cases, real))[len(corpus):len(corpus) + 3]],
        "traces_validated_against_impl": len(cases), "model_mismatches": len(mism),
        "property_evaluated_on_real_logs": nvalid, "distribution": dist,
    })


def replay(ctx, path):
    obj = json.load(open(path))
    ok1, exe_r, log1, ok2, exe_m, log2 = build()
    case = obj["replay"]["case"]
    real, mod = run_both(exe_r, exe_m, [case])
    why = monitor(exe_m, case, real[0]) if mod[0][1] else None
    print("scenario:", case); print("real :", real[0]); print("model:", mod[0][0], "(CM-valid history)" if mod[0][1] else "(not a CM-valid history)")
    print("verdict:", ("C21 violated: " + why) if why else ("model/real mismatch" if real[0] != mod[0][0] else "property holds on this history"))
    return 1 if (why or real[0] != mod[0][0]) else 0


META = {
    "engine": "coq+rtmock",
    "technique": "Coq proof (finite reachable product of model and property monitor computed by vm_compute, closed under every valid action, lifted to all histories by induction) + differential run of the real Subtask/WaitableOperation code against a native mock host",
    "text": "Unbounded theorem over every CM-valid status history x a Rust-side drop at any point of an async import call: dealloc_lists exactly once iff the callee started and not before, dealloc_lists_and_own exactly once iff STARTED_CANCELLED, never both, results_lift exactly once iff RETURNED, subtask.drop exactly once iff a handle existed and after resolution, subtask.cancel at most once and only while in progress, the params/results area freed exactly once and after its last use, no host trap, no runtime panic. The model is tied to subtask.rs/waitable.rs on every run: thousands of seeded scenarios run natively through hook H1 against rtmock and through the extracted model, logs compared token for token; the monitor is also evaluated on the real logs.",
    "note": "Trusted: Coq kernel; extraction + ocaml/subtask_driver.ml; rtmock (mock host, MockTask, allocator watch) and hook H1; Async/Host.v as transcription of the CM spec. One call per scenario; flat/indirect and heap-data variants are harness-level (the runtime treats ParamsLower opaquely). Print Assumptions: closed under the global context.",
}
