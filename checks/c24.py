"""C24 — Guest allocation entry points honour size, alignment and contents.
Proof: coq/theories/Props/C24.v (model Core/Realloc.v over an abstract allocator, statements Core/ReallocSpec.v).
Tie (K): harness/crates/realloctie compiles the TEXT of cabi_realloc / Cleanup / cabi_dealloc cut out of the
working tree on every build and runs it natively under a checking global allocator, in the debug AND the
release profile; the extracted model runs over the bump allocator of Core/ReallocBump.v; the two are
compared on observable facts only (null/non-null, ptr mod align, ptr == align for (0,0) requests, result is
a live block of the right layout, old prefix preserved, other blocks untouched, loaded bytes, the
underlying allocator calls with their layouts and results, number of live blocks at the end).
Search: the property's statement (lib/c24_lib.Oracle, independent of the Coq model) on the REAL answers."""
import vf, os, json, re, concurrent.futures
import c24_lib as L

LEVEL = "proof"
READY = True
TARGETS = ["theories/Props/C24.vo", "theories/Extract/ExRealloc.vo"]
THEOREMS = ["C24_realloc_honours_requests", "C24_shrink_to_zero_refuted", "C24_scratch_null_iff_zero_size",
            "C24_scratch_freed_exactly_once", "C24_scratch_forget_keeps_block", "C24_dealloc_frees_iff_nonzero",
            "C24_no_leak_no_double_free", "C24_contract_satisfiable"]
PROFILES = ("debug", "release")
CORPUS = os.path.join(vf.ROOT, "corpus", "C24.txt")
MAX_VIOL = 3   # distinct minimised violations reported per run (each costs a shrinking session)


def build():
    r = {}
    for prof in PROFILES:
        r[prof] = vf.cargo_build("realloctie", release=(prof == "release"))
    ok0, clog = vf.coq_make(TARGETS)
    r["model"] = vf.ocaml_build("realloc_driver", ["realloc_model"], ["util.ml", "realloc_driver.ml"]) if ok0 else (False, None, clog)
    return r


def setup():
    r = build()
    for k, (ok, _, log) in r.items():
        if not ok:
            vf.log(k, log[-2000:])
    return all(ok for ok, _, _ in r.values())


def read_corpus():
    """lines: <class> <case>, class in valid|fail|shrink|malformed"""
    out = []
    if os.path.exists(CORPUS):
        for l in open(CORPUS):
            l = l.strip()
            if l and not l.startswith("#"):
                cls, case = l.split(None, 1)
                out.append((cls, case))
    return out


def run_single(exe, case):
    """One case in its own process (it may abort).  -> result line in the common grammar."""
    rc, out, err = vf.sh2([exe, "--single"], input=case + "\n", timeout=60)
    line = out.split("\n")[0].strip()
    if rc == 0:
        return line
    m = re.search(r"memory allocation of (\d+) bytes failed", err)
    if m:
        return (line + " trap:allocerror(%s)" % m.group(1)).strip()
    return (line + " CRASH(rc=%s,%s)" % (rc, re.sub(r"\s+", "_", err.strip()[-160:]))).strip()


def run_native(exe, cases, abort_idx):
    """Batched run for cases not expected to abort, one process per case for the others.  If a batch dies,
    everything is re-run singly so that the culprit gets its own answer."""
    res = [None] * len(cases)
    batch = [i for i in range(len(cases)) if i not in abort_idx]
    try:
        outs = vf.run_filter([exe], [cases[i] for i in batch])
        for i, o in zip(batch, outs):
            res[i] = o
        singles = sorted(abort_idx)
    except RuntimeError:
        singles = list(range(len(cases)))
    with concurrent.futures.ThreadPoolExecutor(max_workers=vf.NCPU) as ex:
        for i, o in zip(singles, ex.map(lambda i: run_single(exe, cases[i]), singles)):
            res[i] = o
    return res


def norm_model(line):
    """model line -> (consistent?, comparable line).  An allocerror trap aborts the real process: the calls
    of that step and the live count cannot be observed there, so they are dropped from the comparison."""
    toks = line.split()
    c = toks[0] == "c1"
    toks = toks[1:]
    for i, t in enumerate(toks):
        if t.startswith("trap:allocerror("):
            return c, " ".join(toks[:i] + [re.sub(r"\[.*$", "", t)])
    return c, " ".join(toks)


def shrink_case(exe, case, pred):
    """Greedy shrinking of the op list; a candidate counts only if it is still consistent and `pred` holds."""
    f, ops = case.split()[0], case.split()[1:]

    def fails(cand):
        if not cand:
            return False
        c = f + " " + " ".join(cand)
        try:
            line = run_single(exe, c)
        except Exception:
            return False
        return pred(c, line)
    small = vf.shrink_list(ops, fails, max_steps=120)
    return f + " " + " ".join(small)


def run(ctx):
    q = ctx.tier == "quick"
    n_valid, n_fail, n_shrink, n_malf = (1000, 100, 16, 200) if q else (60000, 3000, 400, 6000)
    ctx.assumptions += [
        "abstract allocator: the GlobalAlloc contract (Core/ReallocSpec.contract: alloc returns null or a fresh aligned block disjoint from all live ones; realloc returns null leaving the block valid, or a fresh aligned block holding the first min(old,new) bytes; dealloc removes exactly the block; live blocks keep their bytes) is a HYPOTHESIS of every theorem (not an axiom); it is shown satisfiable by the bump allocator (C24_contract_satisfiable)",
        "usize is modelled as unbounded N (requests in the property's range, sizes <= 2^20 and alignments <= 2^16, are far from isize::MAX, so Layout's overflow precondition is not in play); alignments are powers of two (a Layout cannot hold anything else; from_size_align_unchecked with another value is immediate UB and is an explicit TUB outcome of the model, never run natively)",
        "the loop writing 0xff over the block in Cleanup::drop is modelled as one memset",
        "tie: build.rs of harness/crates/realloctie cuts `pub unsafe fn cabi_realloc`, `pub struct Cleanup`, `impl Cleanup`, `impl Drop for Cleanup` from crates/guest-rust/src/rt/mod.rs and `pub unsafe fn cabi_dealloc` from the string literal in crates/rust/src/lib.rs (build fails if an item is not found exactly once); the text is compiled natively (it is cfg'd to wasm target_env \"\"/p1 in the crate) in the debug and the release profile",
        "the checking allocator (harness) and ocaml/realloc_driver.ml are trusted glue; contents of large blocks are compared completely on the native side (old prefix, every other block: checksum) and on sampled offsets on the model side",
    ]
    proof_ok = ctx.proof_leg(["theories/Props/C24.vo"], ["Props.C24"], THEOREMS)
    b = build()
    for k in PROFILES:
        if not b[k][0]:
            ctx.tie_broken("tie", "harness build (%s) against the working tree failed — the items C24 is about could not be cut out/compiled:\n%s" % (k, b[k][2][-3000:]))
            return
    if not b["model"][0]:
        ctx.tie_broken("tie", "model extraction/driver build failed:\n" + b["model"][2][-3000:])
        return
    exe_m = b["model"][1]
    rc, cut, _ = vf.sh2([b["debug"][1], "--cut"])
    big = True
    rng = ctx.rng
    cases = [(cls, c) for cls, c in read_corpus()]
    ncorpus = len(cases)
    cases += [("valid", "f- " + " ".join(L.gen_valid(rng.fork(i), big=big)[0])) for i in range(n_valid)]
    cases += [("fail", L.gen_fail(rng.fork(i), big=big)) for i in range(n_fail)]
    cases += [("shrink", L.gen_shrink0(rng.fork(i), big=big)) for i in range(n_shrink)]
    cases += [("malformed", L.gen_malformed(rng.fork(i), big=big)) for i in range(n_malf)]
    strs = [c for _, c in cases]
    dist = {"ops": {}, "classes": {}, "align_log2": {}, "size_bucket": {}}
    for cls, c in cases:
        dist["classes"][cls] = dist["classes"].get(cls, 0) + 1
        for op in c.split()[1:]:
            p = op.split(":")
            dist["ops"][p[0]] = dist["ops"].get(p[0], 0) + 1
            if p[0] in ("R", "N"):
                a = int(p[3] if p[0] == "R" else p[2]); s = int(p[4] if p[0] == "R" else p[1])
                dist["align_log2"][str(a.bit_length() - 1)] = dist["align_log2"].get(str(a.bit_length() - 1), 0) + 1
                bk = "0" if s == 0 else "1..64" if s <= 64 else "65..4096" if s <= 4096 else "4097..2^20"
                dist["size_bucket"][bk] = dist["size_bucket"].get(bk, 0) + 1
    ncmp = 0
    mism = []
    malf_mism = []   # disagreements on MALFORMED histories: outside the property (requests inconsistent with earlier
                     # results are UB for the caller); recorded in the evidence, never a broken tie
    viol_done = set()
    nontrivial = set()
    samples = []
    for prof in PROFILES:
        exe_r = b[prof][1]
        # malformed histories are run only in release: in debug the checking allocator's refusal ends in
        # handle_alloc_error (process abort) with nothing to compare
        idx = [i for i, (cls, _) in enumerate(cases) if not (cls == "malformed" and prof == "debug")]
        sub = [strs[i] for i in idx]
        model_raw = vf.run_filter([exe_m, prof], sub)
        model = [norm_model(l) for l in model_raw]
        abort_idx = {j for j, (_, m) in enumerate(model) if "trap:allocerror(" in m}
        try:
            real = run_native(exe_r, sub, abort_idx)
        except Exception as e:
            ctx.tie_broken("tie", "native driver (%s) failed: %s" % (prof, str(e)[-1500:]))
            return
        for j, i in enumerate(idx):
            cls, case = cases[i]
            (mc, mline), rline = model[j], real[j]
            ncmp += 1
            r_cmp = rline
            if "trap:allocerror(" in mline:
                r_cmp = re.sub(r" \| live=\d+$", "", rline)
            if r_cmp != mline:
                (malf_mism if cls == "malformed" else mism).append((prof, cls, case, rline, mline))
            if cls != "malformed":
                st, why, key = L.holds(case, rline)
                if st == "fail" and key not in viol_done and len(ctx.violations) < MAX_VIOL:
                    exe = exe_r
                    small = shrink_case(exe, case, lambda c, l, key=key: L.holds(c, l)[0] == "fail" and
                                        (L.holds(c, l)[2] == key if key == "realloc:shrink-to-zero" else True))
                    sline = run_single(exe, small)
                    st2, why2, key2 = L.holds(small, sline)
                    if st2 != "fail":
                        small, sline, why2, key2 = case, rline, why, key
                    if key2 not in viol_done:
                        viol_done.add(key2); viol_done.add(key)
                        ctx.violation(key2, "[%s profile] %s" % (prof, why2),
                                      {"engine": "realloctie", "profile": prof, "case": small, "real": sline, "original": case})
                elif st == "inconsistent" and cls in ("valid", "fail", "shrink"):
                    ctx.tie_broken("machinery", "generator produced an inconsistent %s history: %s (%s)" % (cls, case, why))
                if cls in ("valid", "fail") and not mc and st != "inconsistent":
                    mism.append((prof, cls, case, "python oracle: consistent", "model: history_consistentb = false"))
            if re.search(r"R:b\d+:[1-9]|D:\d", case):
                nontrivial.add(case)
            if len(samples) < 4 and cls in ("valid", "fail") and prof == "debug" and i >= ncorpus:
                samples.append({"class": cls, "case": case, "real": rline})
    if mism:
        prof, cls, case, r, m = mism[0]
        ctx.tie_broken("tie", "model and real code disagree on %d/%d runs; first (%s profile, %s history):\n case  %s\n real  %s\n model %s"
                       % (len(mism), ncmp, prof, cls, case, r, m))
    ctx.coverage.update({
        "evaluations": ncmp, "distinct_nontrivial": len(nontrivial),
        "rule": "seeded histories of 1..24 requests (cabi_realloc alloc/grow/shrink incl. (0,0) and pointer-ignored forms, byte stores/loads, Cleanup::new/drop/forget, cabi_dealloc incl. size 0), alignments 2^0..2^16, sizes 0..2^20 (zero, small, powers of two +-1, medium, large), each run in the debug and the release profile; classes: valid, fail (one allocator call made to return null), shrink (known class: live block shrunk to 0), malformed (one inconsistent request; release only). non-trivial = reallocates a live non-empty block or drops a Cleanup; distinct = distinct case strings",
        "samples": samples,
        "traces_validated_against_impl": ncmp, "model_mismatches": len(mism), "malformed_history_disagreements": len(malf_mism),
        "malformed_history_disagreement_sample": [list(x) for x in malf_mism[:1]],
        "distribution": dist, "corpus_cases": ncorpus,
        "code_under_test_sha": vf.canon_hash(cut), "code_under_test_lines": len(cut.split("\n")),
    })


def replay(ctx, path):
    obj = json.load(open(path))
    r = obj["replay"]
    prof = r.get("profile", "debug")
    ok, exe, log = vf.cargo_build("realloctie", release=(prof == "release"))
    if not ok:
        print(log[-2000:]); return 1
    case = r["case"]
    line = run_single(exe, case)
    st, why, key = L.holds(case, line)
    print("profile:", prof); print("case:", case); print("real:", line)
    print("verdict:", ("VIOLATED (%s): %s" % (key, why)) if st == "fail" else "property holds on this history" if st == "ok" else "not a consistent history: " + why)
    return 1 if st == "fail" else 0


META = {
    "engine": "coq+realloctie",
    "technique": "Coq proof (invariant over request histories: allocator's live blocks = owned blocks + base, by induction on the history) about an executable model of cabi_realloc/Cleanup/cabi_dealloc over an abstract allocator assumed to meet the GlobalAlloc contract; differential correspondence with the real function text (cut from the working tree, compiled natively, debug+release) under a checking allocator",
    "text": "Unbounded Coq theorems over every history of allocation/reallocation/scratch/deallocation requests consistent with earlier results, for every allocator meeting the GlobalAlloc contract: results are non-null, aligned, content-preserving up to min(old,new), (0,0) returns align with no allocator call, the entry point never returns null (it traps only when the allocator itself reports exhaustion); Cleanup::new is null iff size 0, its drop makes exactly one dealloc of a live block with the same layout, forget makes none; cabi_dealloc frees iff size != 0; no leak / no double free as a permutation equation. Known exception (proved as a refutation witness and exhibited on the real code): shrinking a live block to size 0 traps. The model is tied to the working-tree source text on every run in both build profiles.",
    "note": "Trusted: Coq kernel; the GlobalAlloc contract as a hypothesis (satisfiable: bump allocator); usize as N; extraction and ocaml/realloc_driver.ml; the checking allocator and text cutter of harness/crates/realloctie. Print Assumptions: closed under the global context for all property theorems.",
}
