"""C30 — MoonBit output forms a consistent package graph.
Proof  : coq/theories/Props/C30.v  (model Core/MbtPkg.v of crates/moonbit/src/pkg.rs qualify_package + Ns;
         verified checker Valid/PkgGraph.v with soundness AND completeness).
Tie (K): the real pkg.rs (#[path]-included by harness/crates/mbtpkg) vs the extracted model on seeded call histories.
TV     : the extracted Coq-verified PkgGraph.check on the REAL generator output (lib/genlib.py, language moonbit) for
         random multi-package worlds (lib/c30_gen.py) and witgen worlds x option variants; scraper lib/c30_scrape.py.
Search : the property's statement itself on the real outputs (histories: python predicate; outputs: PkgGraph.check)."""
import vf, os, json, hashlib, re
import genlib, witgen, c30_gen, c30_scrape

LEVEL = "other"
READY = True
TARGETS = ["theories/Props/C30.vo", "theories/Extract/ExMbtPkg.vo", "theories/Extract/ExPkgGraph.vo"]
THEOREMS = ["C30_alias_injective_per_package", "C30_returned_alias_is_recorded", "C30_one_alias_per_reference",
            "C30_path_keeps_name", "C30_checker_sound", "C30_checker_complete"]
OPT_VARIANTS = ["", "--async=all", "--async=-all", "--derive-show --derive-eq --derive-error",
                "--gen-dir my-gen --project-name foo/bar-baz", "--async=all --gen-dir out-gen/sub"]
FEATS = ["resources", "futures", "streams", "async"]
CORPUS = os.path.join(vf.ROOT, "corpus", "C30.txt")


def build():
    """-> dict(ok, log, exe_q (mbtpkg), exe_g (genlib), exe_m (model driver), exe_c (checker driver))"""
    b = {"ok": False, "log": ""}
    ok, b["exe_q"], log = vf.cargo_build("mbtpkg")
    if not ok:
        b["log"] = "cargo build mbtpkg failed:\n" + log[-3000:]; return b
    ok, b["exe_g"], log = genlib.build()
    if not ok:
        b["log"] = "cargo build genlib failed:\n" + log[-3000:]; return b
    ok, log = vf.coq_make(TARGETS)
    if not ok:
        b["log"] = "coq make failed:\n" + log[-3000:]; return b
    ok, b["exe_m"], log = vf.ocaml_build("mbtpkg_driver", ["mbtpkg_model"], ["util.ml", "mbtpkg_driver.ml"])
    if not ok:
        b["log"] = "ocaml mbtpkg_driver failed:\n" + log[-3000:]; return b
    ok, b["exe_c"], log = vf.ocaml_build("pkggraph_driver", ["pkggraph_model"], ["util.ml", "pkggraph_driver.ml"])
    if not ok:
        b["log"] = "ocaml pkggraph_driver failed:\n" + log[-3000:]; return b
    b["ok"] = True
    return b


def setup():
    b = build()
    if not b["ok"]:
        vf.log(b["log"])
    return b["ok"]


# ------------------------------------------------------------------------------ tie: call histories
PREFIX = ["interface.a.b", "interface.c.d", "interface.a.b-c", "gen.interface.a.b", "world", "gen.world", "interface", "gen"]
LAST = ["types", "types0", "types1", "types01", "w", "async-core", "leaf-iface", "a", "a0", "a1", "http-proxy", "0"]
MALFORMED = ["", ".", "a.", "a..", "..types", "types.", "a.b.", ".a", "interface..types", "@x", "a-b."]


def gen_history(rng, malformed=False):
    def name():
        if malformed and rng.chance(1, 3):
            return rng.choice(MALFORMED)
        k = rng.below(10)
        if k == 0:
            return "async-core"
        if k == 1:
            return rng.choice(LAST)
        return rng.choice(PREFIX) + "." + rng.choice(LAST)
    thiss = [name() for _ in range(rng.range(1, 3))]
    names = [name() for _ in range(rng.range(1, 7))] + thiss[:1]
    n = rng.range(1, 30)
    return " ".join("%s|%s" % (rng.choice(thiss), rng.choice(names)) for _ in range(n))


def parse_hist_out(out):
    """`a b c # this:n=a,n=a this:...` -> (answers, {this: {name: alias}}) ; None if unparseable"""
    if " # " not in out:
        return None
    ans, _, dump = out.partition("#")
    answers = ans.split()
    d = {}
    for ent in dump.split():
        this, _, es = ent.partition(":")
        m = {}
        for e in es.split(","):
            if e == "":
                continue
            n, _, a = e.rpartition("=")
            m[n] = a
        d[this] = m
    return answers, d


def hist_holds(case, out):
    """C30's statement on one history of the REAL qualify_package.  None or a description of the failure."""
    calls = [c.split("|", 1) for c in case.split()]
    p = parse_hist_out(out)
    if p is None:
        return "panic or unparseable output: %r" % out[:200]
    answers, d = p
    if len(answers) != len(calls):
        return "wrong number of answers: %r" % out[:200]
    for this, m in d.items():
        al = list(m.values())
        if len(set(al)) != len(al):
            return "package %r declares one alias for two packages: %r" % (this, m)
    for (this, name), a in zip(calls, answers):
        if name == this:
            if a != "_":
                return "self reference %r answered %r" % (this, a)
            continue
        rec = d.get(this, {}).get(name)
        if rec is None or a != "@%s." % rec:
            return "call (%r,%r) answered %r but the final imports of %r record %r" % (this, name, a, this, rec)
        last = name.split(".")[-1]
        if not (rec == last or (rec.startswith(last) and rec[len(last):].isdigit())):
            return "alias %r of %r does not keep the name's last segment %r" % (rec, name, last)
    return None


# ------------------------------------------------------------------------------ TV: real generator output
def gen_dir_of(opts):
    m = re.search(r"--gen-dir[ =](\S+)", opts)
    return m.group(1) if m else "gen"


def make_worlds(rng, n_multi, n_witgen, exe_q):
    """-> list of dict(wit, world, info(worldinfo line), kind, meta)"""
    out, rejected = [], 0
    i = 0
    while len([w for w in out if w["kind"] == "multi"]) < n_multi and i < 6 * n_multi + 20:
        batch = []
        for _ in range(max(16, n_multi)):
            r = rng.fork(i); i += 1
            feats = [f for f in FEATS if r.chance(1, 2)]
            batch.append(c30_gen.gen(r, feats))
        res = vf.run_filter([exe_q, "worldinfo"], [w.world + "\x1e" + w.text.replace("\n", "\x1f") for w in batch])
        for w, info in zip(batch, res):
            if info.startswith("ok ") and len([x for x in out if x["kind"] == "multi"]) < n_multi:
                out.append({"wit": w.text, "world": w.world, "info": info, "kind": "multi", "meta": w.meta})
            elif not info.startswith("ok "):
                rejected += 1
    j = 0
    got = 0
    while got < n_witgen and j < 6 * n_witgen + 20:
        batch = []
        for _ in range(max(16, n_witgen - got)):
            r = rng.fork(1000003 + j); j += 1
            feats = [f for f in FEATS + ["maps"] if r.chance(1, 2)]
            batch.append(witgen.gen_world(r, witgen.Opts(features=feats, docs=r.chance(1, 3), adversarial=r.chance(1, 3),
                                                          inline_ifaces=True, n_ifaces=(1, 4),
                                                          package=r.choice(["t:p", "my-ns:my-pkg", "a:types"]),
                                                          version=r.choice([None, "1.2.0"]))))
        res = vf.run_filter([exe_q, "worldinfo"], [w.world + "\x1e" + w.text.replace("\n", "\x1f") for w in batch])
        for w, info in zip(batch, res):
            if info.startswith("ok ") and got < n_witgen:
                out.append({"wit": w.text, "world": w.world, "info": info, "kind": "witgen", "meta": {}})
                got += 1
            elif not info.startswith("ok "):
                rejected += 1
    return out, rejected


def validate(b, items):
    """items: list of (wit, world, info, opts).  Runs the REAL generator, scrapes, runs the verified checker.
    -> list of dict(status, errors [(kind, ...)], stats) in order."""
    gens = genlib.generate_many([("moonbit", o, w, t) for (t, w, _, o) in items], exe=b["exe_g"])
    lines, where, res = [], [], []
    for (t, w, info, o), (st, files) in zip(items, gens):
        if st != "ok":
            res.append({"status": st, "msg": files[:300], "errors": [], "stats": None})
            continue
        project, pkgs, problems = c30_scrape.scrape(files)
        errs = [("Scrape", p) for p in problems]
        if project is None:
            errs.append(("NoProjectName", "moon.mod.json"))
        for p in pkgs:
            if not p["has_pkg_json"]:
                errs.append(("NoPkgJson", p["dir"]))
        exp = c30_scrape.expected_dirs(info, gen_dir_of(o))
        nrefs = sum(len(set(p["refs"])) for p in pkgs)
        gen_edges = sum(1 for p in pkgs for (pa, _) in p["imports"] if not pa.startswith(tuple(c30_scrape.EXTERNAL)))
        disamb = sum(1 for p in pkgs for (pa, al) in p["imports"] if al != pa.rsplit("/", 1)[-1])
        res.append({"status": "ok", "errors": errs,
                    "stats": {"packages": len(pkgs), "distinct_refs": nrefs, "edges_to_generated": gen_edges,
                              "disambiguated_aliases": disamb, "expected_dirs": len(exp)}})
        lines.append(c30_scrape.encode(project, pkgs, exp)); where.append(len(res) - 1)
    outs = vf.run_filter([b["exe_c"]], lines) if lines else []
    for k, o, ln in zip(where, outs, lines):
        if o.startswith("MODEL-EXN"):
            res[k]["errors"].append(("CheckerCrash", o))
        else:
            res[k]["errors"] += c30_scrape.decode_errors(o)
        res[k]["digest"] = hashlib.sha256(ln.encode()).hexdigest()[:16]
    return res


def err_key(e):
    """stable key of one error class: kind + the alias / last path segments involved (no world-specific directory)"""
    kind = e[0]
    if kind in ("Undeclared", "DupAlias"):
        return "mbt:%s:%s" % (kind, e[2])
    if kind in ("DupPath", "MissingPkg"):
        return "mbt:%s:%s" % (kind, "/".join(e[2].split("/")[-2:]))
    if kind in ("DupDir", "MissingExpected", "NoPkgJson"):
        return "mbt:%s:%s" % (kind, e[1])
    return "mbt:%s" % kind


def shrink_wit(b, item, kind):
    """greedy line deletion keeping 'parses, generates, and an error of the same kind is reported'"""
    t, w, _, o = item

    def fails(lines):
        txt = "\n".join(lines) + "\n"
        info = vf.run_filter([b["exe_q"], "worldinfo"], [w + "\x1e" + txt.replace("\n", "\x1f")], shards=1)[0]
        if not info.startswith("ok "):
            return False
        r = validate(b, [(txt, w, info, o)])[0]
        return any(e[0] == kind for e in r["errors"])
    lines = vf.shrink_list(t.rstrip("\n").split("\n"), fails, max_steps=400)
    txt = "\n".join(lines) + "\n"
    info = vf.run_filter([b["exe_q"], "worldinfo"], [w + "\x1e" + txt.replace("\n", "\x1f")], shards=1)[0]
    return (txt, w, info, o)


def load_corpus():
    out = []
    if os.path.exists(CORPUS):
        for l in open(CORPUS):
            l = l.strip()
            if l and not l.startswith("#"):
                out.append(json.loads(l))
    return out


def run(ctx):
    quick = ctx.tier == "quick"
    n_hist = 4000 if quick else 200000
    n_multi, n_witgen = (140, 50) if quick else (4000, 1200)
    ctx.assumptions += [
        "model: HashMap<String,_> as association lists with set semantics (qualify_package never observes iteration order; write_moon_pkg sorts); Ns as in C26 (usize counter as unbounded N)",
        "proved part covers crates/moonbit/src/pkg.rs qualify_package + the (path, alias) pairs write_moon_pkg derives from an Imports value; that every @alias. in the emitted .mbt text comes from a qualify_package call made BEFORE the package's moon.pkg.json is rendered is NOT modelled: it is what the verified checker validates on the real output",
        "scraper lib/c30_scrape.py is trusted glue: package = directory with moon.pkg.json or *.mbt; @alias. tokens outside //-comments, string/char literals and #| lines; JSON via python json; expected directories from wit-parser's view of the world (harness mbtpkg worldinfo)",
        "import paths starting with moonbitlang/core/ (MoonBit core library, used only by the static async-core runtime package) are external and accepted",
        "a directory 'realises' a WIT name if it equals interface/<ns>/<pkg>/<iface> (resp. <gen>/..., world/<world>) verbatim or with decimal digits appended (the generator's disambiguation of two versions of one package); versions themselves are not part of MoonBit paths",
        "generator options exercised: default, --async=all, --async=-all, derive flags, --gen-dir, --project-name; --ignore-stub/--ignore-module-file (which omit package descriptors on purpose) are out of scope",
        "worlds on which the generator reports an error or panics are counted in the distribution and skipped (other properties cover them)",
    ]
    ctx.proof_leg(["theories/Props/C30.vo"], ["Props.C30"], THEOREMS)
    b = build()
    if not b["ok"]:
        ctx.tie_broken("tie", b["log"]); return
    corpus = load_corpus()

    # ---- tie (K) + search on histories ------------------------------------------------------
    hist = [c["case"] for c in corpus if c.get("engine") == "qualify"]
    n_corpus_h = len(hist)
    hist += [gen_history(ctx.rng.fork(i)) for i in range(n_hist)]
    n_mal = n_hist // 8
    hist += [gen_history(ctx.rng.fork(7000000 + i), malformed=True) for i in range(n_mal)]
    real = vf.run_filter([b["exe_q"], "qualify"], hist)
    model = vf.run_filter([b["exe_m"]], hist)
    mism = [(c, r, m) for c, r, m in zip(hist, real, model) if r != m]
    if mism:
        c, r, m = mism[0]
        small = vf.shrink_list(c.split(), lambda ops: bool(ops) and
                               vf.run_filter([b["exe_q"], "qualify"], [" ".join(ops)], shards=1)[0] !=
                               vf.run_filter([b["exe_m"]], [" ".join(ops)], shards=1)[0])
        sc = " ".join(small)
        ctx.tie_broken("tie", "model and real qualify_package disagree on %d/%d histories; minimised: calls=%r real=%r model=%r"
                       % (len(mism), len(hist), sc, vf.run_filter([b["exe_q"], "qualify"], [sc], shards=1)[0],
                          vf.run_filter([b["exe_m"]], [sc], shards=1)[0]))
    hd = {"histories": len(hist), "malformed_histories": n_mal, "calls": 0, "self_refs": 0, "repeat_questions": 0,
          "disambiguated_aliases": 0, "corpus_histories": n_corpus_h}
    nontriv_h = set()
    for c, r in zip(hist, real):
        calls = c.split()
        hd["calls"] += len(calls)
        hd["self_refs"] += sum(1 for x in calls if x.split("|", 1)[0] == x.split("|", 1)[1])
        hd["repeat_questions"] += len(calls) - len(set(calls))
        p = parse_hist_out(r)
        dis = 0
        if p:
            for this, m in p[1].items():
                dis += sum(1 for n, a in m.items() if a != n.split(".")[-1])
        hd["disambiguated_aliases"] += dis
        if dis:
            nontriv_h.add(c)
    for c, r in zip(hist, real):
        why = hist_holds(c, r)
        if why:
            small = vf.shrink_list(c.split(), lambda ops: bool(ops) and hist_holds(" ".join(ops), vf.run_filter([b["exe_q"], "qualify"], [" ".join(ops)], shards=1)[0]) is not None)
            sc = " ".join(small)
            why = hist_holds(sc, vf.run_filter([b["exe_q"], "qualify"], [sc], shards=1)[0]) or why
            ctx.violation("qualify:" + sc.replace(" ", ","), why, {"engine": "qualify", "case": sc, "original": c})
            break

    # ---- TV + search on real generator output ---------------------------------------------------
    worlds, rejected = make_worlds(ctx.rng.fork(99), n_multi, n_witgen, b["exe_q"])
    items, kinds = [], []
    for c in corpus:
        if c.get("engine") == "tv":
            info = vf.run_filter([b["exe_q"], "worldinfo"], [c["world"] + "\x1e" + c["wit"].replace("\n", "\x1f")], shards=1)[0]
            if info.startswith("ok "):
                items.append((c["wit"], c["world"], info, c.get("opts", ""))); kinds.append("corpus")
            else:
                ctx.notes.append("corpus world no longer parses: %s" % info[:200])
    n_corpus_w = len(items)
    orng = ctx.rng.fork(123)
    for w in worlds:
        variants = [""] + [orng.choice(OPT_VARIANTS[1:])]
        if not quick:
            variants.append(orng.choice(OPT_VARIANTS[1:]))
        for o in dict.fromkeys(variants):
            items.append((w["wit"], w["world"], w["info"], o)); kinds.append(w["kind"])
    res = validate(b, items)
    dist = {"worlds_multi_package": sum(1 for w in worlds if w["kind"] == "multi"),
            "worlds_witgen": sum(1 for w in worlds if w["kind"] == "witgen"), "worlds_rejected_by_wit_parser": rejected,
            "corpus_worlds": n_corpus_w, "generator_runs": len(items), "generator_ok": 0, "generator_err": 0, "generator_panic": 0,
            "packages": 0, "distinct_refs": 0, "edges_to_generated": 0, "disambiguated_aliases": 0, "expected_dirs": 0,
            "by_option": {}, "multi_meta": {"coinciding_last_segments": 0, "kebab_names": 0, "versioned_packages": 0, "multi_version": 0, "packages": 0}}
    for w in worlds:
        if w["kind"] == "multi":
            for k in ("coinciding_last_segments", "kebab_names", "versioned_packages", "multi_version"):
                dist["multi_meta"][k] += w["meta"][k]
            dist["multi_meta"]["packages"] += len(w["meta"]["packages"])
    digests, nontriv = set(), set()
    gen_fail = {}
    reported = set()
    for it, r in zip(items, res):
        dist["by_option"][it[3] or "(default)"] = dist["by_option"].get(it[3] or "(default)", 0) + 1
        if r["status"] != "ok":
            dist["generator_" + r["status"]] += 1
            gen_fail[r["msg"][:80]] = gen_fail.get(r["msg"][:80], 0) + 1
            continue
        dist["generator_ok"] += 1
        for k in ("packages", "distinct_refs", "edges_to_generated", "disambiguated_aliases", "expected_dirs"):
            dist[k] += r["stats"][k]
        if "digest" in r:
            digests.add(r["digest"])
            if r["stats"]["edges_to_generated"] > 0 and r["stats"]["distinct_refs"] > 0:
                nontriv.add(r["digest"])
        for e in r["errors"]:
            k0 = err_key(e)
            if k0 in reported or len(reported) >= 4:
                continue
            small = shrink_wit(b, it, e[0])
            r2 = validate(b, [small])[0]
            e2 = next((x for x in r2["errors"] if x[0] == e[0]), e)
            key = err_key(e2)
            dup = key in reported
            reported.add(k0); reported.add(key)
            if dup:
                continue
            ctx.violation(key, "PkgGraph.check on the real MoonBit output (options %r) reports %s" % (it[3], "|".join(e2)),
                          {"engine": "tv", "wit": small[0], "world": small[1], "opts": small[3], "error": list(e2), "original_wit": it[0]})
    dist["generator_failures"] = dict(sorted(gen_fail.items(), key=lambda kv: -kv[1])[:6])
    ok_runs = dist["generator_ok"]
    ctx.coverage.update({
        "evaluations": len(hist) + len(items),
        "distinct_nontrivial": len(nontriv) + len(nontriv_h),
        "rule": "TV: seeded multi-package worlds (lib/c30_gen.py: 1-4 packages over %d namespaces x %d names x versions, 1-3 interfaces each drawn from a pool with coinciding last segments / kebab-case / generator-like names, `use` chains across packages, world-level use/types/funcs, inline interfaces) and witgen worlds, each under the default options and 1-2 further option variants; non-trivial = the scraped graph has >= 1 import edge to a generated package and >= 1 @alias. reference; distinct = distinct scraped graphs (sha256 of the checker input). Tie: seeded qualify_package histories (1-30 calls over 1-3 packages x 2-8 names) + a malformed-name stream; non-trivial = at least one alias had to be disambiguated" % (len(c30_gen.NS), len(c30_gen.PK)),
        "samples": [{"world": it[1], "opts": it[3], "wit": it[0][:1500], "checker": "OK" if not r["errors"] else r["errors"][:3], "stats": r["stats"]}
                    for it, r in list(zip(items, res))[n_corpus_w:n_corpus_w + 2]] +
                   [{"calls": c, "real": r} for c, r in list(zip(hist, real))[n_corpus_h:n_corpus_h + 2]],
        "traces_validated_against_impl": len(hist), "model_mismatches": len(mism),
        "programs": ok_runs, "disagreements_checked": ok_runs,
        "distinct_outputs": len(digests),
        "distribution": {"histories": hd, "outputs": dist},
        "explanation": "P/part + TV. PROVED (Coq, closed under the global context): for every history of qualify_package calls the per-package alias map is injective, every answer '@a.' is the alias recorded in the final Imports of the asking package (hence in the import list rendered from it, under project/<name with . -> />), equal questions get equal answers, aliases and paths keep the name's last segment verbatim (C30_alias_injective_per_package, C30_returned_alias_is_recorded, C30_one_alias_per_reference, C30_path_keeps_name); the model is tied to the working-tree pkg.rs by a differential run on %d histories. VALIDATED: PkgGraph.check, proved sound and complete w.r.t. the 'consistent' specification (C30_checker_sound/complete), extracted to OCaml and run on %d real outputs of the MoonBit generator; what is carried by validation only: that every reference in the emitted text goes through qualify_package before the descriptor is written, and the naming of package directories." % (len(hist), ok_runs),
    })


def replay(ctx, path):
    obj = json.load(open(path))
    rp = obj["replay"]
    b = build()
    if not b["ok"]:
        print(b["log"]); return 1
    if rp["engine"] == "qualify":
        out = vf.run_filter([b["exe_q"], "qualify"], [rp["case"]], shards=1)[0]
        why = hist_holds(rp["case"], out)
        print("calls:", rp["case"]); print("real :", out); print("verdict:", why or "property holds on this history")
        return 1 if why else 0
    info = vf.run_filter([b["exe_q"], "worldinfo"], [rp["world"] + "\x1e" + rp["wit"].replace("\n", "\x1f")], shards=1)[0]
    print(rp["wit"]); print("options:", repr(rp["opts"])); print("wit-parser:", info)
    if not info.startswith("ok "):
        return 1
    r = validate(b, [(rp["wit"], rp["world"], info, rp["opts"])])[0]
    print("generator:", r["status"], r.get("msg", ""))
    for e in r["errors"]:
        print("checker error:", "|".join(e), " key=" + err_key(e))
    print("verdict:", "VIOLATED" if r["errors"] or r["status"] != "ok" else "property holds on this output")
    return 1 if r["errors"] or r["status"] != "ok" else 0


META = {
    "engine": "coq+mbtpkg+genlib",
    "technique": "Coq proof about an executable model of qualify_package (+C26 Ns) tied to the real pkg.rs by differential runs; Coq-verified (sound+complete) package-graph checker extracted to OCaml and run on the real MoonBit generator output (translation validation)",
    "text": "Proved for all call histories: per package the alias map is injective, every '@alias.' answer is recorded in the imports the descriptor is rendered from, one alias per referenced package, names kept verbatim. Validated on every run on hundreds (quick) / thousands (thorough) of real outputs for random multi-package worlds x option variants by a checker whose soundness and completeness w.r.t. the stated consistency specification are Coq theorems.",
    "note": "Trusted: Coq kernel; extraction + ocaml drivers; scraper lib/c30_scrape.py (tokeniser for @alias., json); wit-parser's view of the world for the expected directories; moonbitlang/core/* imports of the static async-core package are external. Not modelled: the emitters in lib.rs/async_support.rs (covered only by validation). Print Assumptions: closed under the global context.",
}
