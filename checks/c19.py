"""C19 — stream writes and reads transfer each value exactly once, in order.
Proof : coq/theories/Props/C19.v (models Async/AbiBuf.v, Async/StreamOp.v; proofs Async/*Proofs*.v).
Tie   : the REAL StreamWriter/StreamReader/AbiBuffer/write_all/write_one/next/collect/StreamReaderStream
        run natively (hook H1) in harness/crates/rtmock/src/bin/streams.rs against a scripted stream host
        with instrumented payloads; the extracted model (ocaml/stream_driver.ml) must predict the same
        outcome line on every seeded scenario (well-behaved hosts + a malformed-host stream).
Search: the property's own predicates (lib/c19_gen.py `holds`) evaluated on the REAL outcome lines."""
import os, json, collections
import vf, rtmock, c19_gen

LEVEL = "proof"
READY = True
TARGETS = ["theories/Props/C19.vo", "theories/Extract/ExStreamOp.vo"]
THEOREMS = ["C19_exactly_once_in_order", "C19_counts_reported", "C19_values_accounted",
            "C19_ledger_balanced", "C19_completed_run_balanced", "C19_ledger_is_fold_of_trace", "C19_reader_values_accounted", "C19_return_code_roundtrip",
            "C19_decode_total_on_host_codes"]
CORPUS = os.path.join(vf.ROOT, "corpus", "C19.txt")


def build():
    ok0, clog = vf.coq_make(["theories/Extract/ExStreamOp.vo"])
    if not ok0:
        return False, None, None, "coq: " + clog[-3000:]
    ok2, exe_m, log2 = vf.ocaml_build("stream_driver", ["stream_model"], ["util.ml", "stream_driver.ml"])
    if not ok2:
        return False, None, None, "ocaml: " + log2[-3000:]
    ok1, exe_r, log1 = rtmock.build("streams")
    if not ok1:
        return False, None, None, "cargo: " + log1[-3000:]
    return True, exe_r, exe_m, ""


def setup():
    ok, _, _, log = build()
    if not ok:
        vf.log(log)
    return ok


def run_model(exe_m, cases):
    return vf.run_filter([exe_m], cases)


def verdict(exe_r, exe_m, case):
    """(why, real, model) for one scenario: why is None when model == real and the predicates hold."""
    m = vf.run_filter([exe_m], [case], shards=1)[0]
    if "INVALID" in m or "MODEL-EXN" in m:
        return None, None, m
    r = rtmock.run(exe_r, [case])[0]
    why = None
    if case[0] == "s":
        why = c19_gen.holds(case, r)
    if why is None and r != m:
        why = "model and real code disagree"
    return why, r, m


def shrink(exe_r, exe_m, case, same_class):
    toks = case.split()
    head, acts = toks[0], toks[1:]

    def fails(a):
        if not a:
            return False
        why, r, m = verdict(exe_r, exe_m, " ".join([head] + a))
        return why is not None and same_class(why)
    small = vf.shrink_list(acts, fails, max_steps=400)
    return " ".join([head] + small)


def run(ctx):
    n = 8000 if ctx.tier == "quick" else 1000000
    ctx.assumptions += [
        "model: one stream, both ends driven by the real runtime; the host is a FIFO between the ends whose every choice (answer of stream.read/write, resolving event, delivery time, cancel answer) is an input; the host moves exactly the items it reports (a host that reports more than it moved is outside the quantifier)",
        "WaitableOperation (waitable.rs) enters by its contract only: poll = start / take delivered code, cancel = start_cancelled / delivered code / cancel intrinsic, Drop = cancel (its registration protocol is C18)",
        "payload ids are fresh and increasing; Vec growth (RawVec::grow_amortized) is modelled for collect; MAX_LENGTH clamp is in the model but lengths near 2^28 are not run natively",
        "tie: rtmock (hook H1) driver `streams` with local data-moving vtable entry points, instrumented lower/lift/dealloc_lists (registry instead of raw heap so that a double release is observable), Cleanup areas recognised by alignment 64; OCaml extraction (ExtrOcamlBasic, ExtrOcamlString) of StreamOp.run",
    ]
    ctx.proof_leg(["theories/Props/C19.vo"], ["Props.C19"], THEOREMS)
    ok, exe_r, exe_m, log = build()
    if not ok:
        ctx.tie_broken("tie", "build failed: " + log); return
    corpus = [l.strip() for l in open(CORPUS) if l.strip() and not l.startswith("#")] if os.path.exists(CORPUS) else []
    hist = collections.Counter()
    cases = list(corpus)
    for _ in range(n):
        c, st = c19_gen.gen_case(ctx.rng)
        hist.update(st)
        cases.append(c)
    mal_kinds = collections.Counter()
    for _ in range(n // 5):
        c, what = c19_gen.gen_malformed(ctx.rng)
        mal_kinds[what] += 1
        cases.append(c)
    model = run_model(exe_m, cases)
    keep = [i for i, m in enumerate(model) if "INVALID" not in m and "MODEL-EXN" not in m]
    ninvalid = len(cases) - len(keep)
    exn = [cases[i] for i, m in enumerate(model) if "MODEL-EXN" in m]
    if exn:
        ctx.tie_broken("tie", "model driver raised on %d lines, e.g. %r" % (len(exn), exn[0]))
    kept = [cases[i] for i in keep]
    real = rtmock.run(exe_r, kept)
    outcome = collections.Counter()
    kinds = collections.Counter()
    distinct = set()
    mism = []
    viol = None
    nstrict = 0
    ntransferred = 0
    for c, i, r in zip(kept, keep, real):
        m = model[i]
        fin = r.split(" | ")[-1].split()[0]
        outcome[c[0] + ":" + fin] += 1
        kinds[c[1]] += 1
        if r != m:
            mism.append((c, r, m))
        if c[0] == "s":
            nstrict += 1
            why = c19_gen.holds(c, r)
            if why and viol is None:
                viol = (c, r, why)
            if " tw:" in " " + r:
                ntransferred += 1
                if " tr:" in r or "cw=" in r or "cr=" in r:
                    distinct.add(c)
    if viol:
        c, r, why = viol
        cls = why.split(":")[0].split("(")[0][:40]
        sc = shrink(exe_r, exe_m, c, lambda w: w != "model and real code disagree")
        why2, r2, m2 = verdict(exe_r, exe_m, sc)
        ctx.violation("stream:" + sc.replace(" ", ","), why2 or why,
                      {"engine": "streams", "case": sc, "original": c, "real": r2 or r, "model": m2})
    if mism:
        c, r, m = mism[0]
        sc = shrink(exe_r, exe_m, c, lambda w: True)
        why2, r2, m2 = verdict(exe_r, exe_m, sc)
        if viol is None and c[0] == "s" and r2 and c19_gen.holds(sc, r2):
            ctx.violation("stream:" + sc.replace(" ", ","), c19_gen.holds(sc, r2),
                          {"engine": "streams", "case": sc, "original": c, "real": r2, "model": m2})
        ctx.tie_broken("tie", "model and real runtime disagree on %d/%d scenarios; minimised: %r\n real : %s\n model: %s"
                       % (len(mism), len(kept), sc, r2, m2))
    ctx.coverage.update({
        "evaluations": len(kept), "distinct_nontrivial": len(distinct),
        "rule": "seeded scenarios of 3..28 actions (write n / write_buf / write_all / write_one / poll with host answers / host event / deliver / cancel / drop future / into_vec / drop buffer / drop end, and read cap / next / collect / into_stream / poll / event / deliver / cancel / drop / take vec / drop end) x payload kind c|l|h, generated by a state-tracking generator so that host answers stay within bounds; plus a malformed-host stream (unknown code nibble, count beyond the length, CANCELLED outside a cancel). Scenarios the model rejects as INVALID are not run (counted). non-trivial = the host took at least one item from the writer AND (stored one into a reader buffer or a cancel intrinsic ran); distinct = distinct scenario text",
        "samples": [{"scenario": c, "real": r} for c, r in list(zip(kept, real))[len(corpus):len(corpus) + 3]],
        "traces_validated_against_impl": len(kept), "model_mismatches": len(mism),
        "distribution": {"actions": dict(hist), "payload_kind": dict(kinds), "outcome_by_mode": dict(outcome),
                         "malformed_mutations": dict(mal_kinds), "rejected_as_invalid_by_model": ninvalid,
                         "strict_scenarios_checked_by_predicates": nstrict, "scenarios_with_a_transfer": ntransferred,
                         "corpus_cases": len(corpus)},
    })


def replay(ctx, path):
    obj = json.load(open(path))
    ok, exe_r, exe_m, log = build()
    if not ok:
        print("build failed:", log); return 1
    case = obj["replay"]["case"]
    why, r, m = verdict(exe_r, exe_m, case)
    print("case :", case); print("real :", r); print("model:", m)
    print("verdict:", why or "property holds on this scenario and the model predicts it")
    return 1 if why else 0


META = {
    "engine": "coq+rtmock",
    "technique": "Coq proof (invariants over arbitrary action lists, writer end and reader end proved separately and glued by the FIFO) of an executable model of StreamWriteOp/StreamReadOp/AbiBuffer/write_all/write_one/next/collect/StreamReaderStream; differential correspondence of the extracted model with the real runtime running natively against a scripted host; property predicates on the real outcomes",
    "text": "Unbounded theorems over every scenario of a well-behaved host: what entered reader vectors ++ what sits in the reader's buffer ++ what is in flight = what the host took from the writer (exactly once, in order); every resolved operation reports the count the host moved; every handed value is transferred, returned or dropped exactly once; the ledger of lowered heap buffers and Cleanup areas is empty at quiescence and never double-released; ReturnCode::decode inverts the host encoding for counts < 2^28. The model is tied to stream_support.rs/abi_buffer.rs/futures_stream.rs on every run by thousands of seeded scenarios whose full observable outcome (host calls, items seen/stored by the host, lower/lift/dealloc_lists/drop callbacks, area allocations, API results) must be predicted exactly.",
    "note": "Trusted: Coq kernel; extraction + ocaml/stream_driver.ml; rtmock mock host + the local data-moving vtable wrappers and payload instrumentation in streams.rs; WaitableOperation by contract (C18 models it); host model = FIFO pipe that moves what it reports. Print Assumptions: closed under the global context.",
}
