"""C23 — Cross-task wakeups are never lost or duplicated.
Proof: coq/theories/Props/C23.v (per-transition theorems over every state of the executor model
Async/Task.v + the refutation of the full statement by the stale-waker witness).  Tie (K): the REAL runtime
built with inter-task-wakeup (and with async-spawn on top) under the mock host (rtmock bin `wakeups`) vs the
extracted model: complete host logs including every unit-stream call.  Search: the property's own
statement (lib/c23_props.py) on the REAL logs."""
import os, json, re
import vf, rtmock
import c22_gen as G
import c23_gen as G23
import c22_props as P22
import c23_props as P

LEVEL = "proof"
READY = True
PROP = "C23"
THEOREMS = ["C23_wake_while_sleeping_writes_one_unit", "C23_wake_while_polling_or_woken_writes_nothing",
            "C23_repeated_wakes_coalesce", "C23_read_not_restarted", "C23_read_started_once",
            "C23_cancel_leaves_set_then_cancels", "C23_no_read_pending_after_cancel",
            "C23_wakeup_event_consumed", "C23_stale_wake_refuted"]
FEATS = "ia"
BIN = "wakeups"


def setup():
    ok, exe_m, log = G.build_model()
    if not ok:
        vf.log(log[-2000:]); return False
    for f in FEATS:
        ok, exe, log = G.build_real_cached(f, BIN)
        if not ok:
            vf.log(log[-2000:]); return False
    return True


def classify(case, real, model):
    sc = G.parse_line(case)
    why = G.agree(real, model)
    mp = G.model_panic(model)
    rt = G.norm_real(real)
    viol = []
    if real == "ABORT:skipped":
        return "not run: too many scenarios aborted before it", [], mp
    if real.startswith("ABORT"):
        if mp == 8:
            viol.append((P.KEY_STALE, "the process aborted: the runtime's assert on the unit-stream write fired inside an extern \"C\" frame (the model predicts the stale-waker write answered DROPPED)"))
        elif mp not in (1, 2, 15):
            viol.append(("abort", "the process aborted: %s" % real[:100]))
        return why, viol, mp
    bad, panic = P.check_real(sc, rt, start_mode=(sc.mode == "S"))
    keys = [k for k, _ in bad]
    if panic is not None:
        cls = G.panic_class(panic)
        if cls & {1, 2}:
            bad = []
        elif cls & {7, 8}:
            if P.KEY_STALE in keys:
                bad = [(k, w + " -> " + panic) for k, w in bad if k == P.KEY_STALE]
            else:
                bad = bad + [("assert:" + panic[6:60], "a runtime assert on a unit-stream return code fired: %s" % panic)]
        elif 12 in cls and mp == 12:
            bad = []          # block_on/yield: C22's finding
        else:
            bad = bad + [("panic:" + panic[6:60], "the runtime panicked: %s" % panic)]
    viol += bad
    return why, viol, mp


def run(ctx):
    quick = ctx.tier == "quick"
    n_per = 3000 if quick else 150000
    ctx.assumptions += [
        "model: wake_task / itw_wake / read_itw / cancel_itw_read / deliver of Async/Task.v transcribe SharedTaskState::wake_by_ref, WakerState::wake, read_inter_task_stream, cancel_inter_task_stream_read, consume_waitable_event; unit stream = stream of Async/Host.v",
        "theorems are per transition (for every state, hence every interleaving); the run-level statement 'no assert on a unit-stream return code ever fires' is refuted by the stale-waker witness and, outside that class, carried by tie + search only",
        "Rust-only events are a harness device (flag + stored wakers that are not deregistered when the waiting future is dropped, like an external registry)",
        "tie: OCaml extraction of Task.run_log; rtmock mock host logs every unit-stream call",
    ]
    ctx.proof_leg(["theories/Props/C23.vo"], ["Props.C23"], THEOREMS)
    ok, exe_m, log = G.build_model()
    if not ok:
        ctx.tie_broken("tie", "model extraction/driver build failed:\n" + log[-3000:]); return
    corpus = G.read_corpus(PROP)
    total = 0; mism = []; dist = {}; distinct = set(); samples = []; viols = {}; outcomes = {}; reruns = 0
    stats = {"wakes": 0, "wakes_that_wrote": 0, "wakes_coalesced_or_not_sleeping": 0, "unit_read_cancels": 0,
             "wakeup_events_delivered": 0, "wakes_from_body": 0, "wakes_external": 0, "wakes_from_c_abi_callback": 0}
    for feat in FEATS:
        ok, exe, log = G.build_real_cached(feat, BIN)
        if not ok:
            ctx.tie_broken("tie", "harness build (%s) against %s failed:\n%s" % (G.FEAT_NAME[feat], vf.REPO, log[-3000:])); return
        rng = ctx.rng.fork(ord(feat))
        cases = [c for c in corpus if c.startswith(feat + " ")] + [G23.gen_wake_scenario(rng, feat, big=not quick and rng.chance(1, 3)).line() for _ in range(n_per)]
        real = G.run_real(exe, cases)
        model = vf.run_filter([exe_m], cases, shards=4)
        for c, r, m in zip(cases, real, model):
            total += 1
            why, viol, mp = classify(c, r, m)
            if (why or r.startswith("ABORT")) and reruns < 40:
                reruns += 1
                r2 = rtmock.run(exe, [c], timeout=60)[0]
                why, viol, mp = classify(c, r2, m)
                if why:
                    mism.append((c, r2, m, why))
                r = r2
            elif why:
                mism.append((c, r, m, why))
            outcomes[mp] = outcomes.get(mp, 0) + 1
            G.tally(dist, c, r)
            nw = len(re.findall(r"\b(?:wflag|xwake|kwake):", r))
            stats["wakes"] += nw
            stats["wakes_from_body"] += r.count(" wflag:")
            stats["wakes_external"] += r.count(" xwake:")
            stats["wakes_from_c_abi_callback"] += r.count(" kwake:")
            wrote = len(re.findall(r"(?:wflag|xwake|kwake):\d+ swrite:", r))
            stats["wakes_that_wrote"] += wrote
            stats["wakes_coalesced_or_not_sleeping"] += nw - wrote
            stats["unit_read_cancels"] += r.count(" scancelr:")
            stats["wakeup_events_delivered"] += len(re.findall(r"cb:\d+:2,\d+,16=", r))
            if "swrite:" in r and re.search(r"(wflag|xwake|kwake):\d+ swrite:", r):
                distinct.add(c)
                if len(samples) < 4 and len(r) < 900:
                    samples.append({"scenario": c, "real_log": r})
            for key, what in viol:
                viols.setdefault(key, (c, what, exe, feat))
    import checks.c22 as C22
    for key, (c, what, exe, feat) in sorted(viols.items())[:6]:
        def still(sc, out, key=key):
            line = sc.line()
            mo = vf.run_filter([exe_m], [line], shards=1)[0]
            _, v, _ = classify(line, out, mo)
            return any(k == key for k, _ in v)
        small = C22.shrink_case(c, exe, still)
        out = rtmock.run(exe, [small], timeout=60)[0]
        ctx.violation(key, what, {"scenario": small, "feature": G.FEAT_NAME[feat], "real_log": out[:3000], "original": c})
    if mism:
        c, r, m, why = mism[0]
        ctx.tie_broken("tie", "model and real runtime disagree on %d/%d scenarios; first: %s\n scenario: %s\n real : %s\n model: %s"
                       % (len(mism), total, why, c, r[:1500], m[:1500]))
    dist["model_outcomes"] = {("ok" if k is None else "panic-class-%d" % k): v for k, v in outcomes.items()}
    dist["wakeups"] = stats
    ctx.coverage.update({
        "evaluations": total, "distinct_nontrivial": len(distinct),
        "rule": "seeded random scenarios for the builds inter-task-wakeup and async-spawn+inter-task-wakeup: 1-3 tasks (start_task driver) or block_on, bodies of 1-6 steps dominated by waits on / signals of 1-3 Rust-only events plus yield, awaits, joins, spawns; 4-40 driver actions (start, host-polled event, NONE, CANCEL, external wake, wake from a C-ABI callback, resolve) incl. wakes after cancellation/exit. Non-trivial = at least one wake of a SLEEPING task wrote to its unit stream; distinct = distinct scenario lines",
        "samples": samples, "traces_validated_against_impl": total, "model_mismatches": len(mism),
        "distribution": dist,
    })


def replay(ctx, path):
    obj = json.load(open(path))
    case = obj["replay"]["scenario"]
    feat = case.split()[0]
    ok, exe, log = G.build_real_cached(feat, BIN)
    okm, exe_m, _ = G.build_model()
    out = rtmock.run(exe, [case], timeout=60)[0]
    mo = vf.run_filter([exe_m], [case], shards=1)[0] if okm else ""
    why, viol, mp = classify(case, out, mo)
    print("scenario:", case); print("real :", out); print("model:", mo)
    print("tie:", why or "model and real agree")
    print("verdict:", viol or "property holds on this run")
    return 1 if (viol or why) else 0


META = {
    "engine": "coq+rtmock",
    "technique": "Coq theorems about every state of an executable model of the inter-task wakeup machinery, refutation witness by vm_compute; differential correspondence of complete host logs (unit-stream calls included) with the real runtime under a native mock host",
    "text": "For every state: a wake while SLEEPING writes exactly one unit on the task's own stream and leaves WOKEN; wakes while POLLING/WOKEN write nothing (repeated wakes coalesce); a unit read is started only when none is pending; a pending read leaves the set and is then cancelled, which is what every callback and the task destructor do first; the wakeup event is consumed by the runtime. The statement that the asserts on unit-stream return codes never fire is refuted by a machine-checked witness (wake through a waker that outlived a task cancelled while SLEEPING), reproduced on the real code on every run. Model tied to the real code on thousands of interleavings per run; the statement is re-evaluated on the real logs.",
    "note": "Trusted: as C22. Not proved: run-level absence of assert failures outside the known class (needs the reader-state/host coupling invariant). Known finding: itw:wake-after-cancel-while-sleeping.",
}
