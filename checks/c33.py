"""C33 — CLI check mode succeeds exactly when outputs are up to date, reports a line-ending-only
difference as such, and never writes.
Proof: coq/theories/Props/C33.v (model Core/CliCheck.v, proofs Core/CliCheckProofs.v).
Tie (K): the REAL binary (cargo build of the working tree's src/bin/wit-bindgen.rs) generates bindings
for seeded random worlds into temp dirs; the dirs are perturbed (missing / directory-in-place /
altered / CRLF in one, some, all lines / control characters / invalid UTF-8 / final newline / binary
objects ...) and `--check` is run; exit status, message class, reported file and number of files
visited are compared with the extracted model on the same (directory, generated files).
Search: the property's statement on the real runs: exit 0 iff every generated file is present with
identical bytes; a CRLF/LF-only perturbation is reported as such; the tree (names, kinds, bytes,
mtimes) is unchanged by every `--check` run."""
import json, os, shutil, concurrent.futures
import vf, witgen
import c33_lib as L

LEVEL = "proof"
READY = True
TARGETS = ["theories/Props/C33.vo", "theories/Extract/ExCliCheck.vo"]
THEOREMS = ["C33_ok_iff_up_to_date", "C33_outcome_spec", "C33_line_endings_condition",
            "C33_line_ending_only_difference_reported", "C33_line_ending_only_difference_reported_ascii",
            "C33_missing_file_reported", "C33_check_never_writes"]
CORPUS = os.path.join(vf.ROOT, "corpus", "C33.txt")
QUICK_LANGS = ["rust", "c", "markdown", "moonbit"]
THOROUGH_LANGS = QUICK_LANGS + ["go", "csharp", "cpp"]
FIXED_WORLD_EXTRA_LANGS = ["go"]     # quick tier: only the fixed tiny world is run for these
TINY_WIT = "package t:p;\n\nworld w {\n  /// doc\n  import f: func(x: u32) -> string;\n  export g: func();\n}\n"
# documentation with 2-, 3- and 4-byte UTF-8 sequences and a TAB (control characters are rejected by wit-parser)
UNI_WIT = ("package t:p;\n\nworld w {\n  /// caf\u00e9 \u2192 \U0001F600 \u65e5\u672c nbsp\u00a0 ls\u2028 \ud7ff \ufffd \U0010fffd\n  ///\tTab\n"
           "  import f: func(x: u32) -> string;\n  export g: func();\n}\n")


def build_model():
    ok0, clog = vf.coq_make(TARGETS)
    if not ok0:
        return False, None, clog
    return vf.ocaml_build("clicheck_driver", ["clicheck_model"], ["util.ml", "clicheck_driver.ml"])


def setup():
    wd = os.path.join(L.TMP, "c33-setup")
    ok1, _, l1 = L.build_cli(wd)
    shutil.rmtree(wd, ignore_errors=True)
    ok2, _, l2 = build_model()
    if not ok1: vf.log(l1[-2000:])
    if not ok2: vf.log(l2[-2000:])
    return ok1 and ok2


# ------------------------------------------------------------------------------------------ scenarios
def gen_scenario(rng, names, files):
    """A list of perturbations on distinct files (possibly empty = untouched directory)."""
    k = rng.weighted([("none", 1), ("one", 6), ("two", 3), ("three", 1)])
    n = {"none": 0, "one": 1, "two": 2, "three": 3}[k]
    perts = []
    pool = list(names)
    for _ in range(min(n, len(pool))):
        f = pool.pop(rng.below(len(pool)))
        text = L.is_text(files[f])
        kinds = (L.TEXT_KINDS * 2 + L.ANY_KINDS) if text else L.ANY_KINDS + ["crlf_some", "insert_text", "truncate"]
        perts.append({"kind": rng.choice(kinds), "file": f, "a": rng.below(1 << 30), "b": rng.below(1 << 16)})
    if rng.chance(1, 8):
        perts.append({"kind": "extra_file"})
    return perts


def statement(names, files, state, expect, obs, before, after):
    """C33 on one real run.  Returns None or (key suffix, description)."""
    cls, fname, visited = obs
    first = next((n for n in names if state[n] != files[n]), None)
    if before != after:
        return "wrote", "--check changed the output directory (tree hash before %s.. after %s..)" % (before[:12], after[:12])
    if cls == "other":
        return "other", "unexpected failure of --check: %s" % fname
    if (cls == "ok") != (first is None):
        return ("ok-but-stale" if cls == "ok" else "fail-but-fresh"), \
            "--check %s although %s" % ("succeeded" if cls == "ok" else "failed (%s %s)" % (cls, fname),
                                        "every generated file is present with identical bytes" if first is None else "%s is not up to date" % first)
    if first is not None:
        ex = expect.get(first)
        if ex == "eol" and cls != "eol":
            return "eol-not-reported", "%s differs only in CRLF/LF line endings but --check reports %r for %s" % (first, cls, fname)
        if ex in ("diff", "read") and cls == "eol":
            return "eol-misreported", "%s %s but --check reports a line-ending-only difference" % (first, "is missing" if ex == "read" else "differs by more than line endings")
    return None


def unstable_files(exe, lang, wit, d, names, files, disk, tries):
    """Names whose bytes differ when the same world is generated again, by a fresh process, on top of the
    same directory state (a generator that is not deterministic is C15's business; C33's loop can only be
    tied on files whose generated bytes are known).  None = even the file list differs."""
    bad = set()
    for k in range(tries):
        L.restore(os.path.join(d, "out"), disk)
        ok, names2, files2, _ = L.generate(exe, lang, wit, d, fresh=False)
        if not ok or names2 != names:
            return None
        bad |= {n for n in names if files2[n] != files[n]}
    return bad


def run_group(exe, gid, lang, wit, scenarios_fn, workdir):
    """Generate, then run every scenario.  Returns list of records.
    The reference file list is taken from a generation ON TOP of the populated directory, because that is
    what a check run sees (the C++ generator emits `X.h.template` instead of `X.h` when `X.h` exists)."""
    d = os.path.join(workdir, "g%d-%s" % (gid, lang))
    ok, names, files, err = L.generate(exe, lang, wit, d)
    if not ok:
        shutil.rmtree(d, ignore_errors=True)
        return {"gid": gid, "lang": lang, "ok": False, "err": err.strip().split("\n")[-1][:200], "records": [],
                "timeout_wit": wit if err.startswith("TIMEOUT") else None}
    res = {"gid": gid, "lang": lang, "ok": True, "names": names, "records": [], "unstable": [], "skipped_runs": 0,
           "list_depends_on_dir": False}
    ok2, names2, files2, _ = L.generate(exe, lang, wit, d, fresh=False)
    if ok2 and names2 != names:
        res["list_depends_on_dir"] = True
        ok3, names3, files3, _ = L.generate(exe, lang, wit, d, fresh=False)
        bad = {n for n in names3 if files3[n] != files2[n]} if ok3 and names3 == names2 else None
        names, files = names2, files2
    else:
        bad = {n for n in names if files2[n] != files[n]} if ok2 else None
    res["names"] = names
    if bad is None:
        res["unstable"] = ["<file list>"]; shutil.rmtree(d, ignore_errors=True); return res
    disk = L.snapshot(os.path.join(d, "out"))
    res["unstable"] = sorted(bad)
    eff = list(names)                      # prefix of the iteration order whose generated bytes are reproducible
    for i, n in enumerate(names):
        if n in bad:
            eff = names[:i]; break
    recs = res["records"]
    out = os.path.join(d, "out")
    for perts in scenarios_fn(eff, files):
        if not eff:
            res["skipped_runs"] += 1; continue
        expect, state = L.materialize(out, names, files, perts, disk)
        first = next((n for n in eff if state[n] != files[n]), None)
        if first is None and len(eff) < len(names):
            res["skipped_runs"] += 1; continue      # the loop would reach a file with irreproducible bytes
        before, nfiles = L.tree_state(out)
        rc, cerr = L.run_cli(exe, [lang] + L.LANG_ARGS.get(lang, []) + ["w.wit", "--out-dir", "out", "--check"], d)
        after, _ = L.tree_state(out)
        obs = L.parse_check(rc, cerr)
        if obs[0] == "diff" and obs[1] in files and (state.get(obs[1]) == files[obs[1]] or expect.get(obs[1]) != "diff"):
            # reported "not up to date" for a file we did not touch, or for one we changed only in its line
            # endings (or in a way we have no expectation for): is the generator irreproducible on it?
            more = unstable_files(exe, lang, wit, d, names, files, disk, 6)
            if more is None or obs[1] in more:
                res["unstable"] = sorted(set(res["unstable"]) | (more or {obs[1]}))
                eff = eff[:eff.index(obs[1])] if obs[1] in eff else eff
                res["skipped_runs"] += 1
                continue
        recs.append({"perts": perts, "expect": expect, "obs": obs, "before": before, "after": after,
                     "model_line": L.model_line(eff, files, state),
                     "why": statement(eff, files, state, expect, obs, before, after),
                     "first": first, "eff": list(eff),
                     "nfiles": len(eff), "bytes": sum(len(b) for b in files.values()),
                     "binary": sum(1 for b in files.values() if not L.is_text(b))})
    shutil.rmtree(d, ignore_errors=True)
    return res


def model_verdict(obs, names):
    cls, fname, visited = obs
    if cls == "ok":
        return "ok nowrite"
    if cls == "other":
        return "other"
    return "%s %s nowrite" % (cls, fname.encode().hex())


def expected_visited(rec):
    return rec["nfiles"] if rec["first"] is None else None


def load_corpus():
    out = []
    if os.path.exists(CORPUS):
        for l in open(CORPUS):
            l = l.strip()
            if l and not l.startswith("#"):
                out.append(json.loads(l))
    return out


def run(ctx):
    quick = ctx.tier == "quick"
    n_worlds, n_scen, langs = (4, 3, QUICK_LANGS) if quick else (30, 6, THOROUGH_LANGS)
    ctx.assumptions += [
        "model: the file system is what the loop observes: fs p = Some bytes iff std::fs::read(dst) succeeds (missing file, directory in place => None); files = generator output in BTreeMap order",
        "model: str::from_utf8 = well-formed UTF-8 (Unicode table 3-7), char::is_control = category Cc (U+0000-001F, U+007F-009F), str::lines as in Core/Config.v (shared with C34, tied there too)",
        "write mode of the model is an idealisation (create_dir_all/write always succeed); only check mode is tied",
        "line-ending theorem hypothesis (as coded): the existing file has no control character other than LF, CR, TAB; the search leg checks on every run that CRLF-perturbed real generator output IS reported as a line-ending difference",
        "tie: real binary built from the working tree (cargo build --offline --manifest-path <repo>/Cargo.toml --target-dir build/cli-target), hard-linked per run; temp dirs under build/tmp, removed afterwards",
    ]
    proof_ok = ctx.proof_leg(["theories/Props/C33.vo"], ["Props.C33"], THEOREMS)
    workdir = os.path.join(L.TMP, "c33-%d" % os.getpid())
    try:
        _run(ctx, workdir, n_worlds, n_scen, langs)
    finally:
        shutil.rmtree(workdir, ignore_errors=True)


def _run(ctx, workdir, n_worlds, n_scen, langs):
    ok1, exe, log1 = L.build_cli(workdir)
    if not ok1:
        ctx.tie_broken("tie", "cargo build of the working tree's CLI failed:\n" + log1[-3000:]); return
    ok2, exe_m, log2 = build_model()
    if not ok2:
        ctx.tie_broken("tie", "model extraction/driver build failed:\n" + log2[-3000:]); return
    rng = ctx.rng
    groups = []   # (gid, lang, wit, scenarios_fn)
    gid = 0
    for c in load_corpus():
        groups.append((gid, c["lang"], c["wit"], (lambda perts: (lambda names, files: [perts]))(c["perts"]), "corpus")); gid += 1
    # the tiny world, all languages (+ go, whose `empty.s` has no final newline): EVERY text file gets the
    # final-newline perturbations (a byte difference that leaves str::lines unchanged for files ending in
    # exactly one LF / no LF) on every run; every other perturbation kind on every file in the thorough
    # tier, a seeded sample of them in the quick tier.  "exit 0 iff identical bytes" is judged on all of them.
    for lang in list(langs) + [l for l in FIXED_WORLD_EXTRA_LANGS if l not in langs]:
        def all_kinds(names, files, r=rng.fork(gid)):
            always, sc = [[]], []
            for f in names:
                text = L.is_text(files[f])
                if text:
                    for k in ("strip_final_newline", "append_newline"):
                        always.append([{"kind": k, "file": f, "a": 0, "b": 0}])
                kinds = [k for k in L.TEXT_KINDS if k not in ("strip_final_newline", "append_newline")] + L.ANY_KINDS if text \
                    else L.ANY_KINDS + ["crlf_some", "insert_text"]
                for k in kinds:
                    sc.append([{"kind": k, "file": f, "a": r.below(1 << 30), "b": r.below(1 << 16)}])
            return always + (sc if ctx.tier != "quick" else [sc[r.below(len(sc))] for _ in range(4)])
        groups.append((gid, lang, TINY_WIT, all_kinds, "tiny")); gid += 1
        if lang in langs:
          groups.append((gid, lang, UNI_WIT, (lambda r: (lambda names, files: [[]] + [[{"kind": k, "file": f, "a": r.below(1 << 30), "b": r.below(1 << 16)}]
                                                                                   for f in names if L.is_text(files[f]) and any(c > 127 for c in files[f])
                                                                                   for k in ("crlf_all", "crlf_some", "crlf_plus_alter", "insert_nonascii")]))(rng.fork(gid)), "unicode")); gid += 1
    for i in range(n_worlds):
        feats = [f for f in ["resources", "futures", "streams", "async"] if rng.chance(1, 3)] + \
                ([rng.choice(["fixed", "maps", "errctx"])] if rng.chance(1, 6) else [])
        w = witgen.gen_world(rng.fork(1000 + i), witgen.Opts(features=feats, docs=rng.chance(1, 2)))
        for lang in langs:
            r = rng.fork(gid)
            groups.append((gid, lang, w.text, (lambda r: (lambda names, files: [[]] + [gen_scenario(r, names, files) for _ in range(n_scen)]))(r), "random")); gid += 1
    with concurrent.futures.ThreadPoolExecutor(max_workers=min(vf.NCPU, 16)) as ex:
        results = list(ex.map(lambda g: run_group(exe, g[0], g[1], g[2], g[3], workdir), groups))
    dist = {"generation_failed": 0, "runs_skipped_irreproducible_generation": 0}
    recs = []
    unstable = {}
    for g, res in zip(groups, results):
        if res["ok"]:
            dist["runs_skipped_irreproducible_generation"] += res["skipped_runs"]
            if res.get("list_depends_on_dir"):
                dist["groups_whose_file_list_depends_on_out_dir_" + g[1]] = dist.get("groups_whose_file_list_depends_on_out_dir_" + g[1], 0) + 1
            for n in res["unstable"]:
                unstable.setdefault(g[1], set()).add(n)
        if not res["ok"]:
            if res.get("timeout_wit"):
                dist["generation_timeouts"] = dist.get("generation_timeouts", 0) + 1
                if dist["generation_timeouts"] <= 2:
                    ctx.notes.append("generation by the real binary timed out (%ds) for lang=%s world=%r" % (L.TIMEOUT, g[1], res["timeout_wit"][:4000]))
            if res["err"].startswith("TOOBIG"):
                dist["skipped_output_too_large"] = dist.get("skipped_output_too_large", 0) + 1
                continue
            dist["generation_failed"] += 1
            dist["generation_failed_" + g[1]] = dist.get("generation_failed_" + g[1], 0) + 1
            continue
        for r in res["records"]:
            r["lang"], r["wit"], r["names"], r["src"] = g[1], g[2], res["names"], g[4]
            recs.append(r)
    if not recs:
        ctx.tie_broken("tie", "no world could be generated by the real binary"); return
    # the extracted functions are not tail recursive: give the driver an unlimited C stack (files of ~1 MB)
    model = vf.run_filter(["bash", "-c", "ulimit -s unlimited 2>/dev/null || ulimit -s 4000000; exec '%s'" % exe_m],
                          [r["model_line"] for r in recs], shards=min(8, max(1, len(recs) // 8)))
    mism = []
    nontrivial = set()
    first_v = None
    for r, m in zip(recs, model):
        cls, fname, visited = r["obs"]
        want = model_verdict(r["obs"], r["names"])
        # number of files visited = position of the reported file (first mismatch wins)
        pos_ok = True
        if cls in ("read", "eol", "diff") and fname in r["eff"]:
            pos_ok = visited == r["eff"].index(fname) + 1
        elif cls == "ok":
            pos_ok = visited == r["nfiles"]
        if m != want or not pos_ok:
            mism.append((r, m, want, visited))
        for p in r["perts"]:
            dist["pert_" + p["kind"]] = dist.get("pert_" + p["kind"], 0) + 1
        dist["outcome_" + cls] = dist.get("outcome_" + cls, 0) + 1
        dist["lang_" + r["lang"]] = dist.get("lang_" + r["lang"], 0) + 1
        dist["scenario_%d_perturbations" % len([p for p in r["perts"] if p["kind"] != "extra_file"])] = dist.get("scenario_%d_perturbations" % len([p for p in r["perts"] if p["kind"] != "extra_file"]), 0) + 1
        if r["first"] is not None:
            nontrivial.add((r["lang"], r["wit"], json.dumps(r["perts"], sort_keys=True)))
        if r["why"] and first_v is None:
            first_v = r
    if unstable:
        ctx.notes.append("generator output not reproducible across processes (C15's subject; such files and everything after them in iteration order are excluded from this tie): "
                         + "; ".join("%s: %s" % (k, ", ".join(sorted(v)[:6])) for k, v in sorted(unstable.items())))
    dist["files_per_run_max"] = max(r["nfiles"] for r in recs)
    dist["bytes_generated_per_run_max"] = max(r["bytes"] for r in recs)
    dist["runs_with_binary_files"] = sum(1 for r in recs if r["binary"])
    dist["corpus_cases"] = sum(1 for r in recs if r["src"] == "corpus")
    if first_v is not None:
        r = shrink(exe, first_v, workdir)
        kinds = "+".join(p["kind"] for p in r["perts"]) or "none"
        ctx.violation("%s:%s:%s" % (r["lang"], kinds, r["why"][0]), r["why"][1],
                      {"lang": r["lang"], "wit": r["wit"], "perts": r["perts"], "observed": list(r["obs"])})
    if mism:
        r, m, want, visited = mism[0]
        ctx.tie_broken("tie", "model and real --check disagree on %d/%d runs; first: lang=%s perts=%s real=%r (visited %d of %d files) model=%r"
                       % (len(mism), len(recs), r["lang"], json.dumps(r["perts"]), want, visited, r["nfiles"], m))
    ctx.coverage.update({
        "evaluations": len(recs), "distinct_nontrivial": len(nontrivial),
        "rule": "seeded witgen worlds x languages %s (+ a tiny fixed world, also for go, in which EVERY generated text file gets strip_final_newline and append_newline on every run, plus every other perturbation kind in the thorough tier / a sample in quick); each generated directory is checked untouched and under 0-3 perturbations of distinct files (kinds: %s; binary files: %s) plus sometimes an unrelated extra file; non-trivial = at least one generated file is not identical; distinct = distinct (language, world, perturbation list)"
                % (langs, ", ".join(L.TEXT_KINDS + ["delete", "make_dir", "flip_byte", "append_byte"]), ", ".join(L.ANY_KINDS)),
        "samples": [{"lang": r["lang"], "perts": r["perts"], "real": list(r["obs"]), "model": m, "tree_unchanged": r["before"] == r["after"]} for r, m in list(zip(recs, model))[1:6]],
        "traces_validated_against_impl": len(recs), "model_mismatches": len(mism),
        "check_invocations": len(recs), "tree_hash_comparisons": len(recs),
        "distribution": dist,
    })


def rerun(exe, lang, wit, perts, workdir, tag="replay"):
    res = run_group(exe, 0, lang, wit, lambda names, files: [perts], os.path.join(workdir, tag))
    if not res["ok"] or not res["records"]:
        return None
    r = res["records"][0]
    r["lang"], r["wit"], r["names"] = lang, wit, res["names"]
    return r


def shrink(exe, rec, workdir):
    """Fewer perturbations, then the tiny world, as long as the same statement still fails."""
    kind = rec["why"][0]
    best = rec

    def fails(perts, wit=None):
        nonlocal best
        r = rerun(exe, rec["lang"], wit or best["wit"], perts, workdir, "shrink")
        if r is not None and r["why"] and r["why"][0] == kind:
            best = r
            return True
        return False
    perts = vf.shrink_list(rec["perts"], lambda ps: fails(ps), max_steps=20)
    r = rerun(exe, rec["lang"], TINY_WIT, [], workdir, "shrink")
    if r is not None:
        # move the perturbations onto the tiny world's files of the same position, if that still fails
        names_t = r["names"]
        moved = []
        for p in perts:
            if "file" in p and rec["names"]:
                q = dict(p); q["file"] = names_t[min(rec["names"].index(p["file"]) if p["file"] in rec["names"] else 0, len(names_t) - 1)]
                moved.append(q)
            else:
                moved.append(p)
        fails(moved, TINY_WIT)
    return best


def replay(ctx, path):
    obj = json.load(open(path))
    r = obj["replay"]
    workdir = os.path.join(L.TMP, "c33-replay-%d" % os.getpid())
    try:
        ok1, exe, log1 = L.build_cli(workdir)
        if not ok1:
            print(log1[-2000:]); return 1
        rec = rerun(exe, r["lang"], r["wit"], r["perts"], workdir)
        if rec is None:
            print("generation failed for this world/language"); return 1
        print("lang:", r["lang"]); print("perturbations:", json.dumps(r["perts"]))
        print("first non-identical generated file:", rec["first"])
        print("real --check:", rec["obs"]); print("tree unchanged:", rec["before"] == rec["after"])
        print("verdict:", rec["why"][1] if rec["why"] else "property holds on this run")
        return 1 if rec["why"] else 0
    finally:
        shutil.rmtree(workdir, ignore_errors=True)


META = {
    "engine": "coq+cli",
    "technique": "Coq proof (induction over the generated file list) about an executable model of the --check loop incl. UTF-8 validation, control-character test and str::lines; differential correspondence with the real wit-bindgen binary on perturbed output directories via extracted OCaml; before/after tree hashing",
    "text": "Unbounded Coq theorems over every file system and every list of generated files: check mode returns Ok iff every generated file exists with identical bytes; otherwise the first non-identical file is reported as unreadable / differing only in line endings / not up to date, with the exact condition of the line-ending message characterised (both sides UTF-8, same str::lines, no control character other than LF CR TAB in the existing file) and shown to hold for every pair of texts with the same lines and independently chosen LF/CRLF terminators; the loop returns the file system unchanged in check mode. Tied on every run to the binary built from the working tree: exit status, message class, reported file, files visited, and a hash of the tree (names, kinds, bytes, mtimes) before/after each --check.",
    "note": "Trusted: Coq kernel; extraction + ocaml/clicheck_driver.ml; lib/c33_lib.py (perturbations, stderr classification, tree hashing); cargo/rustc building the binary. Print Assumptions: closed under the global context.",
}
