"""C25 — Source buffer preserves text and tracks indentation by brace structure.
Proof: coq/theories/Props/C25.v (text_preserved / indent_follows_braces / balanced_restores_indent are FALSE at
full strength: `_refuted` theorems + proved restrictions; literal_transparent holds at full strength).
Tie: the real pub `wit_bindgen_core::Source` (harness/corelib `source`) vs the extracted Coq model on seeded
random call sequences: final as_str() and every value returned by set_indent (incl. probe calls that make
`indent`, `continuing_line`, `in_line_comment` observable).  Search: the four statements evaluated on the REAL
outputs; failures are classified with the theorems' own (extracted) domain predicates."""
import vf, os, json, sys
sys.path.insert(0, os.path.join(vf.ROOT, "lib"))
import c25_gen as g

LEVEL = "proof"
READY = True
TARGETS = ["theories/Props/C25.vo", "theories/Core/SourceClassify.vo", "theories/Extract/ExSource.vo"]
THEOREMS = ["C25_text_preserved_partial", "C25_text_preserved_whole_lines", "C25_text_preserved_refuted",
            "C25_indent_block", "C25_indent_follows_braces_partial", "C25_indent_follows_braces_layout_partial",
            "C25_inert_piece", "C25_indent_follows_braces_refuted", "C25_literal_transparent",
            "C25_balanced_restores_indent_partial", "C25_balanced_restores_indent_sequence_partial",
            "C25_balanced_restores_indent_refuted"]
ENV = {"RUST_BACKTRACE": "0"}
REASONS = {0: "safe", 1: "carriage-return", 2: "A:multi-line-fragment-trimmed-while-continuing-a-line",
           3: "B:two-spaces-popped-before-closing-brace", 4: "A+B"}

# Witnesses of the `_refuted` theorems (coq/theories/Core/SourceExamples.v), replayed on the real Source every run.
# (statement, case, what)
WITNESSES = [
    ("text_preserved", "p:x\\s\\s p:}", "push_str(\"x  \"); push_str(\"}\") gives \"x}\": the two pops remove spaces that are not indentation"),
    ("text_preserved", "p:a p:\\sb\\nc", "push_str(\"a\"); push_str(\" b\\nc\") gives \"ab\\nc\": trim_start hits the first line of a multi-line fragment that continues a line"),
    ("indent_follows_braces", "p:a\\s{ p:\\sb\\n p:c\\n", "'{' at a fragment end that is not a line end opens a level: \"a { b\\n  c\\n\""),
    ("indent_follows_braces", "p:{\\n p:a p:}\\sb\\n p:c\\n", "'}' at a fragment start that is not a line start closes a level: \"{\\n  a} b\\nc\\n\""),
    ("indent_follows_braces", "p:{\\n p:\\sx\\n", "a one-line fragment keeps its leading white space behind the indentation: \"{\\n   x\\n\""),
    ("indent_follows_braces", "p:x p://\\sc\\s{\\n p:y\\n", "\"//\" at a fragment start inside a line switches brace tracking off: \"x// c {\\ny\\n\""),
    ("indent_follows_braces", "p:/ p:/\\sc\\s{\\n p:y\\n", "\"//\" split over two fragments is not seen as a comment: \"// c {\\n  y\\n\""),
    ("balanced_restores_indent", "q: p:a\\s{\\nb\\s}\\n q:", "character-balanced \"a {\\nb }\\n\" leaves indent 1"),
    ("balanced_restores_indent", "i:1 q: p:if\\sc\\s{\\sy\\n}\\n q:", "character-balanced \"if c { y\\n}\\n\" at indent 1 leaves indent 0"),
    ("append_src", "i:1 a:p:x p:y\\n", "append_src does not update continuing_line: \"x  y\\n\" (indentation inserted inside a line)"),
]


def wkey(stmt, case):
    return stmt + ":" + case.replace(" ", ",")


def build(ctx=None):
    ok1, exe_r, log1 = vf.cargo_build("corelib")
    ok0, clog = vf.coq_make(TARGETS)
    ok2, exe_m, log2 = vf.ocaml_build("source_driver", ["source_model"], ["util.ml", "source_driver.ml"]) if ok0 else (False, None, clog)
    return ok1, exe_r, log1, ok2, exe_m, log2


def setup():
    ok1, _, l1, ok2, _, l2 = build()
    if not ok1: vf.log(l1[-2000:])
    if not ok2: vf.log(l2[-2000:])
    return ok1 and ok2


class Eng:
    def __init__(self, exe_r, exe_m):
        self.r, self.m = exe_r, exe_m

    def real(self, cases, shards=None):
        return vf.run_filter([self.r, "source"], cases, env=ENV, shards=shards)

    def model(self, cases, shards=None):
        return vf.run_filter([self.m], cases, shards=shards)

    def classify(self, cases, shards=None):
        return vf.run_filter([self.m, "classify"], cases, shards=shards)

    def block(self, cases, shards=None):
        return vf.run_filter([self.m, "block"], cases, shards=shards)

    def real1(self, case):
        return self.real([case], shards=1)[0]


def has_append(ops):
    return any(k == "a" for k, _ in ops)


def has_cr(ops):
    return "\r" in g.concat_text(ops)


def has_lit(ops):
    return any(k == "l" or (k == "a" and has_lit(a)) for k, a in ops)


def single_lead_ws(f):
    """a one-line fragment (str::lines gives one line) that starts with white space"""
    body = f[:-1] if f.endswith("\n") else f
    return "\n" not in body and body != "" and body[0] in g.WS


def nontrivial(ops):
    t = g.concat_text(ops)
    return "{" in t or "}" in t or "//" in t


# ---- the statements on one real result -------------------------------------------------------------
def st_text(ops, res):
    """text_preserved on the real buffer; None = holds / not applicable (panic)"""
    if res is None:
        return None
    return None if g.text_preserved(ops, res[0]) else \
        "buffer %r differs from the appended text %r by more than white space at line starts" % (res[0], g.concat_text(ops))


def st_indent(ops, res):
    if res is None or has_append(ops):
        return None
    bad = g.indent_follows_braces(ops, res[0])
    return None if bad is None else "line %d of %r has leading white space %r, nesting depth is %d" % (bad[0], res[0], bad[2], bad[1])


def st_balanced(res):
    """case = pre ; q ; push_str(block) ; q  -> the two last outputs must agree"""
    if res is None:
        return None
    q = res[1]
    return None if q[-1] == q[-2] else "indent %d before the block, %d after it" % (q[-2], q[-1])


def eval_witness(eng, stmt, case):
    ops = g.parse_case(case)
    res = g.parse_out(eng.real1(case))
    if stmt == "text_preserved" or stmt == "append_src":
        return st_text(ops, res), res
    if stmt == "indent_follows_braces":
        return st_indent(ops, res), res
    if stmt == "balanced_restores_indent":
        return st_balanced(res), res
    raise ValueError(stmt)


def shrink_ops(ops, fails):
    small = vf.shrink_list(ops, lambda o: bool(o) and fails(o), max_steps=400)
    # then shrink fragments character-wise (cheap, bounded)
    changed = True
    steps = 0
    while changed and steps < 300:
        changed = False
        for i, (k, a) in enumerate(small):
            if k in ("p", "l", "W") and len(a) > 1:
                for j in range(len(a)):
                    cand = small[:i] + [(k, a[:j] + a[j + 1:])] + small[i + 1:]
                    steps += 1
                    if fails(cand):
                        small = cand; changed = True; break
                if changed: break
    return small


def run(ctx):
    quick = ctx.tier == "quick"
    n_tie = 30000 if quick else 1500000
    n_bal = 5000 if quick else 150000
    n_lit = 4000 if quick else 100000
    ctx.assumptions += [
        "model: ASCII text (Rust's trim/trim_start use Unicode White_Space; its ASCII members \\t \\n \\x0b \\x0c \\r and space are modelled, non-ASCII white space is outside model and tie alphabet); buffer kept reversed; usize indent as nat; deindent underflow = panic (debug build of the harness)",
        "str::lines as in Rust >= 1.77 (split_inclusive('\\n'), strip \\n then \\r); the malformed stream of the tie exercises \\r, \\x0b, \\x0c, control and protocol metacharacters",
        "theorems about text_preserved need '\\r'-free fragments (\"a\\r\\nb\" loses the \\r: documented model hypothesis, outside the property's quantifier)",
        "comment reading: a line comment is a line whose trimmed text starts with // (what the code tracks); a '{' behind a trailing comment counts as a line-end brace (Example trailing_comment_brace_counts)",
        "tie: harness/corelib drives the real pub struct wit_bindgen_core::Source only through its public API (push_str, push_str_literal, write!/writeln!, indent, deindent, set_indent, append_src, as_str, Deref, From<Source> for String); extraction with ExtrOcamlBasic+ExtrOcamlString",
    ]
    proof_ok = ctx.proof_leg(TARGETS[:2], ["Props.C25"], THEOREMS)
    ok1, exe_r, log1, ok2, exe_m, log2 = build(ctx)
    if not ok1:
        ctx.tie_broken("tie", "harness build against the repo failed:\n" + log1[-3000:]); return
    if not ok2:
        ctx.tie_broken("tie", "model extraction/driver build failed:\n" + log2[-3000:]); return
    eng = Eng(exe_r, exe_m)
    dist = {}

    def bump(k, n=1):
        dist[k] = dist.get(k, 0) + n

    # ---- 1. witnesses of the refuted statements, on the real code ------------------------------------
    wit_seen = []
    for stmt, case, what in WITNESSES:
        why, res = eval_witness(eng, stmt, case)
        mres = g.parse_out(eng.model([case], shards=1)[0])
        if mres != res:
            ctx.tie_broken("tie", "witness %r: real %r model %r" % (case, res, mres))
        if why:
            wit_seen.append(wkey(stmt, case))
            ctx.violation(wkey(stmt, case), "%s is false on the real Source: %s -- %s" % (stmt, what, why),
                          {"engine": "source", "kind": stmt, "case": case})
        else:
            ctx.notes.append("witness %s no longer violates %s on the real code (fixed upstream? then the model and the `_refuted` theorem are stale)" % (case, stmt))
    # ---- 2. committed corpus -----------------------------------------------------------------------
    cpath = os.path.join(vf.ROOT, "corpus", "C25.txt")
    corpus = [l.rstrip("\n") for l in open(cpath) if l.strip() and not l.startswith("#")] if os.path.exists(cpath) else []

    # ---- 3. random call sequences: tie + text_preserved + indent_follows_braces -----------------------
    CH = 100000
    total = mism_total = panics = 0
    distinct = set()
    samples = []
    first_mismatch = None
    new_viol = {}       # kind -> (ops, why)   first one per kind; shrunk later
    done = 0
    first = True
    while done < n_tie:
        m = min(CH, n_tie - done)
        batch = []
        if first:
            batch += [("corpus", g.parse_case(c)) for c in corpus]
            first = False
        batch += [g.gen_case(ctx.rng) for _ in range(m)]
        done += m
        raw = [g.show_case(ops) for _, ops in batch]
        probed = [g.show_case(ops + g.PROBES) for _, ops in batch]
        real_p = eng.real(probed)
        model_p = eng.model(probed)
        real_raw = eng.real(raw)
        noapp = [i for i, (_, ops) in enumerate(batch) if not has_append(ops)]
        cls = dict(zip(noapp, eng.classify([raw[i] for i in noapp]))) if noapp else {}
        for i, (mode, ops) in enumerate(batch):
            total += 1
            bump("mode:" + mode)
            for k, _ in ops:
                bump("op:" + k)
            if real_p[i] != model_p[i]:
                mism_total += 1
                if first_mismatch is None:
                    first_mismatch = (ops, real_p[i], model_p[i])
            res = g.parse_out(real_raw[i])
            if res is None:
                panics += 1
                continue
            if model_p[i] == "PANIC":
                continue    # (a mismatch, reported below) the theorems speak about runs of the model that do not panic
            if nontrivial(ops):
                distinct.add(raw[i])
            if len(samples) < 4 and len(raw[i]) < 160:
                samples.append({"mode": mode, "ops": raw[i], "real": real_raw[i]})
            app, cr = has_append(ops), has_cr(ops)
            reason, aligned, spec = (0, False, None)
            if i in cls:
                f = cls[i].split(" ")
                reason, aligned = int(f[0]), f[1] == "1"
                spec = None if f[2] == "none" else ("" if f[2] == "\\e" else g.dec(f[2]))
            # text_preserved
            why = st_text(ops, res)
            if why:
                if app:
                    bump("text_preserved fails: sequence uses append_src")
                elif reason != 0:
                    bump("text_preserved fails: outside run_safe (%s)" % REASONS[reason])
                else:
                    bump("text_preserved fails INSIDE the proved domain")
                    new_viol.setdefault("text_preserved", (ops, why))
            elif not app:
                bump("text_preserved holds" + ("" if reason == 0 else " (although outside run_safe)"))
            # the extracted Gallina layout on the real buffer, inside the proved domain
            if aligned and spec is not None:
                bump("indent: whole-line sequences with a layout")
                if res[0] != spec:
                    bump("indent: real buffer differs from spec_run INSIDE the proved domain")
                    new_viol.setdefault("indent_layout", (ops, "real buffer %r, declarative layout %r" % (res[0], spec)))
            # the Python reading of indent_follows_braces on the real buffer
            if not app and not cr:
                why = st_indent(ops, res)
                col0 = all(not single_lead_ws(e[1]) for e in g.text_events(ops) if e[0] == "t")
                if why:
                    if aligned and col0:
                        bump("indent_follows_braces fails INSIDE the proved domain")
                        new_viol.setdefault("indent_follows_braces", (ops, why))
                    else:
                        bump("indent_follows_braces fails: " + ("one-line fragment with leading white space" if aligned else "fragments that are not whole lines"))
                else:
                    bump("indent_follows_braces holds" + (" (whole-line fragments)" if aligned else " (split lines)"))
    bump("panics (deindent below 0)", panics)

    # ---- 4. literal_transparent (full strength) on the real code ---------------------------------------
    lit_cases = []
    while len(lit_cases) < n_lit:
        mode, ops = g.gen_case(ctx.rng)
        if not has_lit(ops):
            ops.insert(ctx.rng.below(len(ops) + 1), ("l", ctx.rng.choice(["{", "}", "//", "{\n", "}\n}", " // {", "x {\n}\n", "/", "} // {"])))
        lit_cases.append(ops + g.PROBES)
    r1 = eng.real([g.show_case(o) for o in lit_cases])
    r2 = eng.real([g.show_case(g.mask_literals(o)) for o in lit_cases])
    lit_bad = 0
    for ops, a, b in zip(lit_cases, r1, r2):
        if not g.literal_transparent(g.parse_out(a), g.parse_out(b)):
            lit_bad += 1
            new_viol.setdefault("literal_transparent", (ops, "masking the braces/slashes of the literal fragments changes later output: %r vs %r" % (a, b)))
    bump("literal_transparent: sequences compared with their brace-masked twin", len(lit_cases))
    bump("literal_transparent: differences", lit_bad)

    # ---- 5. balanced_restores_indent ---------------------------------------------------------------------
    bal = [g.gen_balanced_case(ctx.rng) for _ in range(n_bal)]
    bal_cases = [g.show_case(pre + [("q", None), ("p", blk), ("q", None)]) for _, pre, blk in bal]
    bal_cls = eng.block([g.show_case(pre + [("p", blk)]) for _, pre, blk in bal])
    bal_real = eng.real(bal_cases)
    for (kind, pre, blk), case, c, r in zip(bal, bal_cases, bal_cls, bal_real):
        res = g.parse_out(r)
        if res is None or c == "PANIC":
            bump("balanced: panic in pre-ops"); continue
        start, linebal, charbal = [x == "1" for x in c.split(" ")]
        why = st_balanced(res)
        tag = "balanced: %s%s%s" % ("line-balanced " if linebal else "", "char-balanced " if charbal else "", "at line start" if start else "mid-line/in comment")
        if why:
            if start and linebal:
                bump("balanced_restores_indent fails INSIDE the proved domain")
                new_viol.setdefault("balanced_restores_indent", (pre + [("q", None), ("p", blk), ("q", None)], why))
            else:
                bump(tag + ": NOT restored")
        else:
            bump(tag + ": restored")

    # ---- report ------------------------------------------------------------------------------------------
    def fails_for(kind):
        def f(ops):
            case = g.show_case(ops)
            res = g.parse_out(eng.real1(case))
            if res is None:
                return False
            if kind == "text_preserved":
                if has_append(ops) or st_text(ops, res) is None: return False
                return eng.classify([case], shards=1)[0].split(" ")[0] == "0"
            if kind == "indent_layout":
                if has_append(ops): return False
                fl = eng.classify([case], shards=1)[0].split(" ")
                return fl[1] == "1" and fl[2] != "none" and res[0] != ("" if fl[2] == "\\e" else g.dec(fl[2]))
            if kind == "indent_follows_braces":
                if has_append(ops) or has_cr(ops) or st_indent(ops, res) is None: return False
                if not all(not single_lead_ws(e[1]) for e in g.text_events(ops) if e[0] == "t"): return False
                return eng.classify([case], shards=1)[0].split(" ")[1] == "1"
            if kind == "literal_transparent":
                r2 = g.parse_out(eng.real1(g.show_case(g.mask_literals(ops))))
                return not g.literal_transparent(res, r2)
            if kind == "balanced_restores_indent":
                if len(ops) < 3 or ops[-1][0] != "q" or ops[-2][0] != "p" or ops[-3][0] != "q" or st_balanced(res) is None: return False
                c = eng.block([g.show_case(ops[:-3] + [ops[-2]])], shards=1)[0]
                return c.startswith("1 1")
            if kind == "mismatch":
                return eng.real1(case) != eng.model([case], shards=1)[0]
            return False
        return f

    for kind, (ops, why) in new_viol.items():
        f = fails_for(kind)
        small = shrink_ops(ops, f) if f(ops) else ops
        sc = g.show_case(small)
        ctx.violation(kind + ":" + sc.replace(" ", ","), "%s violated on the real Source inside the proved domain: %s" % (kind, why),
                      {"engine": "source", "kind": kind, "case": sc, "original": g.show_case(ops)})
    if mism_total:
        ops, r, m = first_mismatch
        f = fails_for("mismatch")
        small = shrink_ops(ops + g.PROBES, f) if f(ops + g.PROBES) else ops + g.PROBES
        sc = g.show_case(small)
        rr, mm = eng.real1(sc), eng.model([sc], shards=1)[0]
        ctx.tie_broken("tie", "model and real Source disagree on %d/%d sequences; minimised: ops=%r real=%r model=%r" % (mism_total, total, sc, rr, mm))
        ctx.violation("model-mismatch:" + sc.replace(" ", ","),
                      "the real Source no longer behaves like the Coq model the theorems are about: real=%r model=%r" % (rr, mm),
                      {"engine": "source", "kind": "mismatch", "case": sc, "model": mm})
    ctx.coverage.update({
        "evaluations": total + len(lit_cases) + len(bal_cases) + len(WITNESSES),
        "distinct_nontrivial": len(distinct),
        "rule": "seeded random call sequences in four streams (aligned: structured code as whole-line fragments; pieces: structured code cut at random offsets; free: random tokens, any shape, with append_src; malformed: \\r, \\x0b, \\x0c, control and protocol metacharacters) over push_str / push_str_literal / write! / writeln! / indent / deindent / set_indent / append_src + probe calls; non-trivial = the appended text holds a brace or a // token; distinct = distinct non-panicking op strings",
        "samples": samples,
        "traces_validated_against_impl": total + len(WITNESSES),
        "model_mismatches": mism_total,
        "distribution": dict(sorted(dist.items())),
        "refuted_witnesses_exhibited_on_real_code": wit_seen,
        "corpus_cases": len(corpus),
    })


def replay(ctx, path):
    obj = json.load(open(path))
    ok1, exe_r, log1, ok2, exe_m, log2 = build(ctx)
    eng = Eng(exe_r, exe_m)
    rp = obj["replay"]
    case, kind = rp["case"], rp.get("kind", "text_preserved")
    ops = g.parse_case(case)
    out = eng.real1(case)
    res = g.parse_out(out)
    print("case :", case)
    print("real :", out)
    mo = eng.model([case], shards=1)[0]
    print("model:", mo)
    why = None
    if kind in ("text_preserved", "append_src"):
        why = st_text(ops, res)
    elif kind == "indent_follows_braces":
        why = st_indent(ops, res)
    elif kind == "indent_layout":
        fl = eng.classify([case], shards=1)[0].split(" ")
        spec = None if fl[2] == "none" else ("" if fl[2] == "\\e" else g.dec(fl[2]))
        print("layout:", repr(spec))
        why = None if (res is None or spec is None or res[0] == spec) else "real buffer %r, declarative layout %r" % (res[0], spec)
    elif kind == "literal_transparent":
        o2 = eng.real1(g.show_case(g.mask_literals(ops)))
        print("masked:", o2)
        why = None if g.literal_transparent(res, g.parse_out(o2)) else "literal text changed later output"
    elif kind == "balanced_restores_indent":
        why = st_balanced(res)
    elif kind == "mismatch":
        why = None if out == mo else "real and model disagree"
    print("verdict:", why or "statement holds on this sequence")
    return 1 if why else 0


META = {
    "engine": "coq+corelib",
    "technique": "Coq proofs over an executable model of Source (simulation invariant between buffer and appended text; per-line layout lemma; bracket-word shift lemma), vm_compute refutation witnesses, differential correspondence with the real Source via extracted OCaml",
    "text": "literal_transparent is proved at full strength for every state and literal. text_preserved, indent_follows_braces and balanced_restores_indent are FALSE on the real code as stated (Coq `_refuted` theorems; every witness is re-exhibited on the real Source each run and listed in known-findings.txt); proved instead, without size bounds: text_preserved for every call sequence outside two exactly characterised fragment shapes (run_safe) and in particular for all whole-line fragments; exact declarative layout (two spaces per open brace level, closers dedented, // lines and literal text inert, blank lines empty) and indentation restoration for whole-line fragments / line-balanced code. The model is tied to crates/core/src/source.rs on every run (tens of thousands of random call sequences incl. split lines, CR, write!, append_src, with probes exposing indent, continuing_line and in_line_comment); the four statements are also evaluated on the real outputs and any failure inside a proved domain, or any model/real disagreement, is a VIOLATION with a minimised replay.",
    "note": "Trusted: Coq kernel (+vm_compute); extraction (ExtrOcamlBasic, ExtrOcamlString) and ocaml/source_driver.ml; harness/corelib line protocol and lib/c25_gen.py predicates; ASCII-only text. Print Assumptions: closed under the global context for all 12 property theorems.",
}
