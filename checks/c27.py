"""C27 — distinct packages get distinct generated module names.
Proof: coq/theories/Props/C27.v (model Core/PkgName.v, classification Core/PkgNameClass.v).
Tie (K): the real wit_bindgen_core::name_package_module on a Resolve built by the real wit-parser from generated
WIT text (harness/corelib `pkgname`) vs the extracted Coq model, on seeded random package sets (valid stream) and on
a malformed stream (validity verdicts compared).
Search: the property's own statement (module names of one namespace pairwise distinct) on the REAL outputs; every
collision found is classified by mechanism with the extracted `classify`; only the registered mechanisms (whose
canonical minimal witnesses are replayed on the real function in every run) are known findings."""
import vf, os, json

LEVEL = "proof"
READY = True
TARGETS = ["theories/Props/C27.vo", "theories/Extract/ExPkgName.vo"]
THEOREMS = ["C27_partial_plain", "C27_partial_prerelease", "C27_refuted", "C27_refuted_each_mechanism",
            "C27_collisions_classified", "C27_dec_injective"]

# canonical minimal witness per mechanism: (package set, index pair)
WITNESS = {
    "sep":       ("foo:a@0.0.0+0 foo:a@0.0.0-0", 0, 1),
    "fold":      ("foo:a@0.0.0 foo:a@0.0.0--", 0, 1),
    "namecase":  ("foo:A foo:a", 0, 1),
    "vercase":   ("foo:a@0.0.0-A foo:a@0.0.0-a", 0, 1),
    "camel":     ("foo:a@0.0.0-a-b foo:a@0.0.0-aB", 0, 1),
    "concat-vv": ("foo:a foo:a@10.0.0 foo:a1 foo:a1@0.0.0", 1, 3),
    "concat-nv": ("foo:a foo:a@0.0.0 foo:a0-0-0", 1, 2),
}
MECH_TEXT = {
    "sep": "'.', '-' and '+' of a version all become '_' (pre-release vs build metadata)",
    "fold": "runs of separators are folded and a trailing one dropped ('0.0.0--' = '0.0.0')",
    "namecase": "package names differing only in letter case",
    "vercase": "versions differing only in letter case",
    "camel": "heck inserts a word boundary inside a version identifier ('aB' = 'a-b')",
    "concat-vv": "name and version are concatenated without a delimiter (a+'10_0_0' = a1+'0_0_0')",
    "concat-nv": "an unversioned-looking name equals another name plus its version (a0-0-0 = a+'0_0_0')",
}

FIRST = ["a", "a", "b", "a1", "a10", "ab", "A", "B", "a0", "x1", "foo"]
LATER = ["b", "1", "0", "10", "0", "B", "a", "c1", "rc", "RC", "1b", "00"]
NUMS = [0, 0, 1, 1, 2, 10, 10, 100, 3, 11, 18446744073709551615]
PRE = ["rc", "1", "0", "a", "b", "a-b", "a--b", "a-", "-", "RC", "aB", "alpha", "beta1", "x-1", "XMLHttp", "12", "rc1", "A", "a1"]
BUILD = PRE + ["001", "sha", "0a"]


def gen_name(rng):
    parts = [rng.choice(FIRST)]
    k = rng.weighted([(0, 6), (1, 3), (2, 2), (3, 1)])
    for _ in range(k):
        parts.append(rng.choice(LATER))
    return "-".join(parts)


def gen_version(rng):
    v = "%d.%d.%d" % (rng.choice(NUMS), rng.choice(NUMS), rng.choice(NUMS))
    if rng.chance(1, 12):
        v = "%d.%d.%d" % (rng.below(1 << 64), rng.below(1000), rng.below(1 << 33))
    if rng.chance(2, 5):
        v += "-" + ".".join(rng.choice(PRE) for _ in range(rng.range(1, 3)))
    if rng.chance(1, 4):
        v += "+" + ".".join(rng.choice(BUILD) for _ in range(rng.range(1, 3)))
    return v


TIGHT_BASES = ["a", "b1", "a-b", "x", "a1"]
TIGHT_SUFFIXES = ["", "", "1", "0", "10", "-0", "-1-0", "-0-0", "-1-0-0", "-rc", "1-0-0-rc", "-1", "-b"]
TIGHT_IDENTS = [["rc", "RC", "rc1", "rc-1", "rc.1", "1", "rc.1.0.0"], ["a-b", "a.b", "aB", "a--b", "a-", "a", "a.B", "A-B", "ab"],
                ["0", "-", "0-", "0.0", "0-0", "1.0.0"], ["x", "X", "x1", "x.1", "x-1", "X1"]]


def gen_tight(rng):
    """package sets drawn from a small family of related names / numbers / identifiers: collisions of every mechanism are frequent"""
    base = rng.choice(TIGHT_BASES)
    fam = [base + s for s in TIGHT_SUFFIXES] + [base.upper(), base.upper() + "1"]
    names = [rng.choice(fam) for _ in range(rng.range(1, 3))]
    nums = [0, 1, 10] if rng.chance(2, 3) else [0, 1]
    group = rng.choice(TIGHT_IDENTS)
    ids = []
    for _ in range(rng.range(2, 7)):
        i = "foo:" + rng.choice(names)
        if rng.chance(5, 6):
            i += "@%d.%d.%d" % (rng.choice(nums), rng.choice(nums), rng.choice(nums))
            k = rng.below(6)
            if k in (0, 1, 4):
                i += "-" + rng.choice(group)
            if k in (2, 4):
                i += "+" + rng.choice(group)
        if i not in ids:
            ids.append(i)
    return " ".join(ids)


def gen_diffuse(rng):
    nss = ["foo"] if rng.chance(3, 4) else ["foo", rng.choice(["bar", "FOO", "foo-b"])]
    names = [gen_name(rng) for _ in range(rng.range(1, 3))]
    ids = []
    for _ in range(rng.range(2, 7)):
        name = rng.choice(names)
        if rng.chance(1, 8):
            name = gen_name(rng)
        i = rng.choice(nss) + ":" + name
        if rng.chance(4, 5):
            i += "@" + gen_version(rng)
        if i not in ids:
            ids.append(i)
    return " ".join(ids)


def gen_concat(rng):
    """two names one of which extends the other by digits / digit fragments, few small version numbers"""
    base = rng.choice(["a", "b1", "a-b"])
    ext = rng.choice(["0", "1", "10", "0-0-0", "1-0-0", "1-0", "0-0", "10-0-0", "-1-0-0", "-1", "0-1"])
    names = [base, base + ext]
    ids = []
    for nm in names:
        if rng.chance(2, 3):
            ids.append("foo:" + nm)
        for _ in range(rng.range(1, 3)):
            nums = [0, 0, 1, 10]
            i = "foo:%s@%d.%d.%d" % (nm, rng.choice(nums), rng.choice([0, 0, 1]), rng.choice([0, 0, 1]))
            if i not in ids:
                ids.append(i)
    return " ".join(ids)


def gen_case(rng):
    k = rng.below(6)
    return gen_concat(rng) if k == 0 else gen_tight(rng) if k <= 3 else gen_diffuse(rng)


BAD_IDS = ["foo:aB", "foo:1a", "foo:a--b", "foo:a-", "foo:-a", "foo:", "foo:a_b", "foo:a@01.0.0", "foo:a@1.0", "foo:a@1.0.0-01",
           "foo:a@1.0.0-a..b", "foo:a@1.0.0-a_b", "foo:a@1.0.0-", "foo:a@1.0.0+", "foo:a@18446744073709551616.0.0",
           "foo:a@1.0.0-a+", "foo:a@1.0.0+a+b", "Fo:a", "foo:a@1.00.0", "foo:a@1.0.0-00", "foo:a@1.0.0+00", "foo:a@1.0.0-0a",
           "foo:a@1.0.0-a.", "foo:a@1..0", "foo:a-bC", "foo:a@0.0.18446744073709551616"]


def gen_malformed(rng):
    ids = gen_case(rng).split(" ")
    k = rng.below(3)
    if k == 0:      # duplicate package
        ids.insert(rng.below(len(ids) + 1), rng.choice(ids))
    else:
        ids.insert(rng.below(len(ids) + 1), rng.choice(BAD_IDS))
    return " ".join(ids)


def norm_real(r):
    """real answer -> the model's vocabulary: a parser error, or an id stored under another spelling, is `invalid`"""
    if r.startswith("err") or "?" in r or r == "PANIC":
        return "invalid" if r != "PANIC" else "PANIC"
    return r


def build(ctx=None):
    ok1, exe_r, log1 = vf.cargo_build("corelib")
    ok0, clog = vf.coq_make(TARGETS)
    ok2, exe_m, log2 = vf.ocaml_build("pkgname_driver", ["pkgname_model"], ["util.ml", "pkgname_driver.ml"]) if ok0 else (False, None, clog)
    return ok1, exe_r, log1, ok2, exe_m, log2


def setup():
    ok1, _, l1, ok2, _, l2 = build()
    if not ok1: vf.log(l1[-2000:])
    if not ok2: vf.log(l2[-2000:])
    return ok1 and ok2


def split_id(i):
    ns, rest = i.split(":", 1)
    return ns, rest


def pair_key(a, b):
    def k(x):
        n, _, v = x.partition("@")
        return (n, v)
    a, b = sorted([split_id(a)[1], split_id(b)[1]], key=k)
    return "pkgname:%s|%s" % (a, b)


def collisions(case, real):
    """C27's statement on one real answer: packages of one namespace with equal module names.  -> [(i, j)]"""
    ids = case.split(" ")
    if not real.startswith("ok") or "?" in real:
        return []
    mods = real.split(" ")[1:]
    if len(mods) != len(ids):
        return []
    out = []
    for i in range(len(ids)):
        for j in range(i + 1, len(ids)):
            if ids[i] != ids[j] and split_id(ids[i])[0] == split_id(ids[j])[0] and mods[i] == mods[j]:
                out.append((i, j))
    return out


def run_real(exe_r, cases, shards=None):
    return vf.run_filter([exe_r, "pkgname"], cases, shards=shards)


def classify(exe_m, items):
    """items: [(case, i, j)] -> mechanism tags by the extracted Coq `classify`"""
    return vf.run_filter([exe_m], ["C %d %d %s" % (i, j, c) for c, i, j in items], shards=1 if len(items) < 200 else None)


def still_collides(exe_r, exe_m, a, b, others, mech):
    ids = others + [a, b]
    case = " ".join(ids)
    r = run_real(exe_r, [case], shards=1)[0]
    n = len(ids)
    if (n - 2, n - 1) not in collisions(case, r):
        return False
    return classify(exe_m, [(case, n - 2, n - 1)])[0] == mech


def run(ctx):
    n = 6000 if ctx.tier == "quick" else 2000000
    nbad = 1500 if ctx.tier == "quick" else 200000
    ctx.assumptions += [
        "model: ASCII only (WIT identifiers and semver strings are ASCII by grammar); heck 0.5 transform transcribed for snake case; u64/semver Display transcribed",
        "model validity = wit-parser validate_id + semver grammar; WIT keywords as names and the WIT lexer's treatment of a dangling '-'/'+' are outside the model (the generator does not emit keywords; dangling separators are stored under another spelling by the parser and count as rejected on both sides)",
        "tie: harness/corelib `pkgname` builds a Resolve with the real wit-parser from generated text (root package + one nested `package <id> { }` block per id) and calls the real name_package_module for every package; model side = OCaml extraction of module_names/valid_set",
    ]
    proof_ok = ctx.proof_leg(["theories/Props/C27.vo"], ["Props.C27"], THEOREMS)
    ok1, exe_r, log1, ok2, exe_m, log2 = build(ctx)
    if not ok1:
        ctx.tie_broken("tie", "harness build against the repo failed:\n" + log1[-3000:]); return
    if not ok2:
        ctx.tie_broken("tie", "model extraction/driver build failed:\n" + log2[-3000:]); return
    cpath = os.path.join(vf.ROOT, "corpus", "C27.txt")
    corpus = [l.strip() for l in open(cpath) if l.strip() and not l.startswith("#")] if os.path.exists(cpath) else []
    valid_cases = corpus + [gen_case(ctx.rng) for _ in range(n)]
    bad_cases = [gen_malformed(ctx.rng) for _ in range(nbad)]
    cases = valid_cases + bad_cases
    real = run_real(exe_r, cases)
    model = vf.run_filter([exe_m], cases)
    mism = [(c, r, m) for c, r, m in zip(cases, real, model) if norm_real(r) != m]
    if mism:
        c, r, m = mism[0]
        small = vf.shrink_list(c.split(" "), lambda ids: bool(ids) and norm_real(run_real(exe_r, [" ".join(ids)], shards=1)[0]) != vf.run_filter([exe_m], [" ".join(ids)], shards=1)[0])
        sc = " ".join(small)
        ctx.tie_broken("tie", "model and real name_package_module disagree on %d/%d package sets; minimised: %r real=%r model=%r (first: %r real=%r model=%r)" % (
            len(mism), len(cases), sc, run_real(exe_r, [sc], shards=1)[0], vf.run_filter([exe_m], [sc], shards=1)[0], c, r, m))

    # ---- search leg: the statement itself on the real outputs
    found = []
    for c, r in zip(cases, real):
        for (i, j) in collisions(c, r):
            found.append((c, i, j))
    tags = classify(exe_m, found) if found else []
    bymech = {}
    for (c, i, j), t in zip(found, tags):
        bymech.setdefault(t, []).append((c, i, j))
    # canonical witnesses are replayed on the real function in every run
    wit_cases = [WITNESS[m][0] for m in sorted(WITNESS)]
    wit_real = run_real(exe_r, wit_cases, shards=1)
    wit_tags = classify(exe_m, [(WITNESS[m][0], WITNESS[m][1], WITNESS[m][2]) for m in sorted(WITNESS)])
    exhibited = {}
    for m, c, r, t in zip(sorted(WITNESS), wit_cases, wit_real, wit_tags):
        _, i, j = WITNESS[m]
        ids = c.split(" ")
        if (i, j) in collisions(c, r) and t == m:
            exhibited[m] = True
            ctx.violation(pair_key(ids[i], ids[j]),
                          "packages %s and %s of one namespace both get module name %r (%s)" % (ids[i], ids[j], r.split(" ")[1 + i], MECH_TEXT[m]),
                          {"engine": "pkgname", "case": c, "pair": [i, j], "mechanism": m})
        elif t != m:
            ctx.tie_broken("classification", "canonical witness of %s is classified %s by the extracted classifier" % (m, t))
    reported = 0
    for t, items in sorted(bymech.items()):
        if t in exhibited:
            continue      # explained by a mechanism whose canonical witness was just exhibited on the real code
        if reported >= 3:
            break
        c, i, j = items[0]
        ids = c.split(" ")
        a, b = ids[i], ids[j]
        others = [x for k, x in enumerate(ids) if k not in (i, j)]
        others = vf.shrink_list(others, lambda o: still_collides(exe_r, exe_m, a, b, o, t))
        sc = " ".join(others + [a, b])
        r = run_real(exe_r, [sc], shards=1)[0]
        ctx.violation(pair_key(a, b), "packages %s and %s of one namespace both get module name %r; mechanism: %s" % (a, b, r.split(" ")[-1], t),
                      {"engine": "pkgname", "case": sc, "pair": [len(others), len(others) + 1], "mechanism": t, "original": c})
        reported += 1

    # ---- evidence
    distinct = set()
    npk = nver = npre = nbuild = nupper = nmangled = nmulti_ns = 0
    for c, r in zip(valid_cases, real):
        ids = c.split(" ")
        npk += len(ids)
        names = {}
        for i in ids:
            nm = i.split("@")[0]
            names[nm] = names.get(nm, 0) + 1
            if "@" in i:
                nver += 1
                v = i.split("@", 1)[1]
                core = v.split("+")[0]
                npre += 1 if "-" in core else 0
                nbuild += 1 if "+" in v else 0
            nupper += 1 if i.split(":", 1)[1] != i.split(":", 1)[1].lower() else 0
        nmulti_ns += 1 if len({split_id(i)[0] for i in ids}) > 1 else 0
        if any(k > 1 for k in names.values()):
            nmangled += 1
            distinct.add(c)
    ctx.coverage.update({
        "evaluations": len(cases), "distinct_nontrivial": len(distinct),
        "rule": "seeded random package sets (2..7 ids, 1-3 base names built from fragments %s / %s, versions over %s with pre-release/build identifiers from %s) plus a malformed stream (duplicates, invalid ids/versions); non-trivial = some name occurs with >= 2 versions so that version mangling runs; distinct = distinct id lists" % (FIRST, LATER, NUMS, PRE),
        "samples": [{"packages": c, "real": r} for c, r in list(zip(valid_cases, real))[len(corpus):len(corpus) + 3]],
        "traces_validated_against_impl": len(cases), "model_mismatches": len(mism),
        "distribution": {
            "valid_stream_sets": len(valid_cases), "malformed_stream_sets": len(bad_cases), "corpus_cases": len(corpus),
            "packages": npk, "with_version": nver, "with_prerelease": npre, "with_build_metadata": nbuild,
            "with_uppercase": nupper, "sets_with_a_mangled_name": nmangled, "sets_with_two_namespaces": nmulti_ns,
            "real_rejected_valid_stream": sum(1 for r in real[:len(valid_cases)] if norm_real(r) == "invalid"),
            "real_rejected_malformed_stream": sum(1 for r in real[len(valid_cases):] if norm_real(r) == "invalid"),
            "collisions_found_on_real_code": len(found),
            "collisions_by_mechanism": {t: len(v) for t, v in sorted(bymech.items())},
            "canonical_witnesses_exhibited": sorted(exhibited),
        },
    })


def replay(ctx, path):
    obj = json.load(open(path))
    ok1, exe_r, log1 = vf.cargo_build("corelib")
    case = obj["replay"]["case"]
    i, j = obj["replay"]["pair"]
    out = run_real(exe_r, [case], shards=1)[0]
    col = collisions(case, out)
    print("packages:", case); print("real modules:", out)
    bad = (i, j) in col
    print("verdict:", ("packages #%d and #%d get the same module name" % (i, j)) if bad else "module names of the pair are distinct")
    return 1 if bad else 0


META = {
    "engine": "coq+corelib",
    "technique": "Coq model of name_package_module incl. heck's snake-case automaton, semver/u64 Display; injectivity proved on the restricted domains, counter-examples proved by vm_compute; differential correspondence with the real function via extracted OCaml; collisions found on the real function classified by an extracted classifier",
    "text": "The full statement (injective on every set of valid packages of one namespace) is FALSE for the real code: C27_refuted gives machine-checked witnesses for 7 collision mechanisms, each replayed on the real function every run. Proved: injectivity for lower-case names not ending in a digit with plain major.minor.patch versions (C27_partial_plain), and for digit-free lower-case names with dot-separated lower-case alphanumeric pre-release identifiers (C27_partial_prerelease), unbounded. The model is tied to crates/core/src/path.rs by running both on thousands of package sets per run.",
    "note": "Trusted: Coq kernel; extraction and ocaml/pkgname_driver.ml (parses ids, round-trip check of the version text); harness/corelib line protocol; wit-parser used to build the Resolve. ASCII-only model of heck.",
}
