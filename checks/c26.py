"""C26 — fresh temporaries never collide.  Proof: coq/theories/Props/C26.v.  Tie (K): real
wit_bindgen_core::Ns (harness/corelib `ns`) vs extracted Coq model on seeded random histories.
Search: the property's own predicate evaluated on the REAL outputs."""
import vf, os, json

LEVEL = "proof"
READY = True
TARGETS = ["theories/Props/C26.vo", "theories/Extract/ExNs.vo"]
THEOREMS = ["C26_fresh_names_never_collide", "C26_tmp_total"]
BASES = ["a", "b", "a1", "x", "ptr", "a0", ""]


def build(ctx=None):
    ok1, exe_r, log1 = vf.cargo_build("corelib")
    ok0, clog = vf.coq_make(TARGETS)
    ok2, exe_m, log2 = vf.ocaml_build("ns_driver", ["ns_model"], ["util.ml", "ns_driver.ml"]) if ok0 else (False, None, clog)
    return ok1, exe_r, log1, ok2, exe_m, log2


def setup():
    ok1, _, l1, ok2, _, l2 = build()
    if not ok1: vf.log(l1[-2000:])
    if not ok2: vf.log(l2[-2000:])
    return ok1 and ok2


def gen_case(rng):
    n = rng.range(1, 24)
    # small alphabet so that collisions and base+digits clashes are the norm, not the exception
    bases = [rng.choice(BASES) for _ in range(rng.range(1, 3))]
    ops = []
    for _ in range(n):
        b = rng.choice(bases)
        if rng.chance(1, 2):
            b = b + str(rng.below(6))
        if rng.chance(1, 12):
            b = b + str(rng.below(3))
        ops.append(("t:" if rng.chance(1, 2) else "i:") + b)
    return " ".join(ops)


def holds(case, out):
    """C26's statement on one history of the real implementation.  Returns None or a description."""
    ops = case.split()
    outs = out.split(" ") if out != "" else []
    if out == "PANIC" or len(outs) != len(ops):
        return "panic or wrong number of results: %r" % out
    known = set()
    for o, r in zip(ops, outs):
        k, name = o.split(":", 1)
        if k == "i":
            if (r == "err") != (name in known):
                return "insert %r answered %s but known=%s" % (name, r, name in known)
            known.add(name)
        else:
            if not r.startswith("="):
                return "tmp returned %r" % r
            if r[1:] in known:
                return "tmp(%r) returned %r which was already defined/handed out" % (name, r[1:])
            known.add(r[1:])
    return None


def run(ctx):
    n = 4000 if ctx.tier == "quick" else 300000
    ctx.assumptions += [
        "model: HashSet<String> as a list with set semantics; usize counter as unbounded N (overflow needs 2^64 inserts)",
        "tie: harness/corelib drives the real pub struct wit_bindgen_core::Ns; OCaml extraction (ExtrOcamlBasic, ExtrOcamlString) of Ns.ns_run is the model side",
    ]
    proof_ok = ctx.proof_leg(["theories/Props/C26.vo"], ["Props.C26"], THEOREMS)
    ok1, exe_r, log1, ok2, exe_m, log2 = build(ctx)
    if not ok1:
        ctx.tie_broken("tie", "harness build against /repo failed:\n" + log1[-3000:]); return
    if not ok2:
        ctx.tie_broken("tie", "model extraction/driver build failed:\n" + log2[-3000:]); return
    corpus = [l.strip() for l in open(os.path.join(vf.ROOT, "corpus", "C26.txt")) if l.strip()] \
        if os.path.exists(os.path.join(vf.ROOT, "corpus", "C26.txt")) else []
    cases = corpus + [gen_case(ctx.rng) for _ in range(n)]
    real = vf.run_filter([exe_r, "ns"], cases)
    model = vf.run_filter([exe_m], cases)
    mism = [(c, r, m) for c, r, m in zip(cases, real, model) if r != m]
    distinct = set()
    ntmp = ncoll = nerr = 0
    for c, r in zip(cases, real):
        toks = r.split(" ")
        coll = sum(1 for o, t in zip(c.split(), toks) if o[0] == "t" and t[1:] != o[2:])
        if coll or "err" in toks:
            distinct.add(c)
        ntmp += sum(1 for o in c.split() if o[0] == "t")
        ncoll += coll
        nerr += toks.count("err")
    # search leg: the statement itself on the real outputs (always run: it is cheap)
    for c, r in zip(cases, real):
        why = holds(c, r)
        if why:
            small = vf.shrink_list(c.split(), lambda ops: bool(ops) and holds(" ".join(ops), vf.run_filter([exe_r, "ns"], [" ".join(ops)], shards=1)[0]) is not None)
            sc = " ".join(small)
            why = holds(sc, vf.run_filter([exe_r, "ns"], [sc], shards=1)[0]) or why
            ctx.violation("ns:" + sc.replace(" ", ","), why, {"engine": "ns", "case": sc, "original": c})
            break
    if mism:
        c, r, m = mism[0]
        ctx.tie_broken("tie", "model and real Ns disagree on %d/%d histories; first: ops=%r real=%r model=%r" % (len(mism), len(cases), c, r, m))
    ctx.coverage.update({
        "evaluations": len(cases), "distinct_nontrivial": len(distinct),
        "rule": "seeded random histories of 1..24 insert/tmp ops over 1-3 bases from %s with digit suffixes; non-trivial = at least one tmp had to skip a taken name or one insert conflicted; distinct = distinct op strings" % BASES,
        "samples": [{"ops": c, "real": r} for c, r in list(zip(cases, real))[:3]],
        "traces_validated_against_impl": len(cases), "model_mismatches": len(mism),
        "distribution": {"tmp_calls": ntmp, "tmp_calls_that_skipped_a_taken_name": ncoll, "insert_conflicts": nerr, "corpus_cases": len(corpus)},
    })


def replay(ctx, path):
    obj = json.load(open(path))
    ok1, exe_r, log1 = vf.cargo_build("corelib")
    case = obj["replay"]["case"]
    out = vf.run_filter([exe_r, "ns"], [case], shards=1)[0]
    why = holds(case, out)
    print("case:", case); print("real:", out); print("verdict:", why or "property holds on this history")
    return 1 if why else 0

META = {
    "engine": "coq+corelib",
    "technique": "Coq proof (induction over histories + pigeonhole fuel bound) of an executable Ns model; differential correspondence with the real Ns via extracted OCaml",
    "text": "Unbounded Coq theorem over every history of insert/tmp requests: tmp never returns a known name, insert conflicts iff known, the search loop terminates (fuel |defined|+1 proved sufficient). The model is tied to crates/core/src/ns.rs on every run by running both on thousands of seeded histories; the property's own predicate is also evaluated on the real outputs.",
    "note": "Trusted: Coq kernel; extraction (ExtrOcamlBasic, ExtrOcamlString) and ocaml/ns_driver.ml; harness/corelib line protocol; HashSet modelled as a list-set, usize as N. Print Assumptions: closed under the global context.",
}
