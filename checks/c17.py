"""C17 — async selection directives select exactly the documented functions.
Proof: coq/theories/Props/C17.v (model Core/AsyncFilter.v, proofs Core/AsyncFilterProofs.v).
Tie 1 (K): the real wit_bindgen_core::AsyncFilterSet (public API: default/push/is_async/ensure_all_used/debug_opts/
any_enabled), driven by harness/corelib `asyncfilter` on random worlds x random directive lists x random query
sequences, vs the extracted Coq model (answers, ensure_all_used verdict incl. message, printed directives).
Tie 2 (K, through real generator output): Rust, C and MoonBit generators run as libraries (lib/genlib.py) with
`--async=<directives>`; the `[async-lower]`/`[async-lift]` names in the generated text must mark exactly the functions
the model selects, and Rust generation must fail with "unused async option: <d>" exactly when the model says so.
Search: the property's own statement, written independently in Python from the option's documentation (first matching
directive in the order given, else the WIT's async flag; a non-`all` directive that decided nothing is rejected),
evaluated on the REAL answers / REAL generated text."""
import vf, os, json, re
import witgen, genlib

LEVEL = "proof"
READY = True
TARGETS = ["theories/Props/C17.vo", "theories/Extract/ExAsyncFilter.vo"]
THEOREMS = ["C17_is_async_first_match", "C17_answers_independent_of_history", "C17_parse_display_roundtrip",
            "C17_unused_rejected", "C17_ensure_all_used_exact", "C17_error_names_unused", "C17_used_monotone"]
GEN_LANGS = ["rust", "c", "moonbit"]


# ------------------------------------------------------------------------------------------ spec (search leg)
def spec_parse(t):
    """One directive as documented on AsyncFilterSet: `all`, `-all`, `name`, `import:name`, `export:name`, leading `-` = off."""
    en = not t.startswith("-")
    s = t if en else t[1:]
    if s == "all":
        return (en, "all", None)
    if s.startswith("import:"):
        return (en, "import", s[len("import:"):])
    if s.startswith("export:"):
        return (en, "export", s[len("export:"):])
    return (en, "func", s)


def full_name(entry):
    key, name, d, a = entry
    return name if key == "-" else key + "#" + name


def spec_first(dirs, entry):
    """index and flag of the first directive matching the function's name and direction, else None"""
    full, is_import = full_name(entry), entry[2] == "i"
    for i, (en, kind, name) in enumerate(dirs):
        if kind == "all":
            return i, en
        if name == full and (kind == "func" or (kind == "import") == is_import):
            return i, en
    return None


def spec_run(texts, table, queries):
    """-> (answers string, verdict string, indices that decided something)"""
    dirs = [spec_parse(t) for t in texts]
    used, ans = set(), []
    for q in queries:
        m = spec_first(dirs, table[q])
        if m is None:
            ans.append("1" if table[q][3] == "a" else "0")
        else:
            used.add(m[0])
            ans.append("1" if m[1] else "0")
    verdict = "ok"
    for i, d in enumerate(dirs):
        if i not in used and d[1] != "all":
            verdict = "err:unused async option: " + texts[i]
            break
    return "".join(ans), verdict, used


# ------------------------------------------------------------------------------------------ protocol
def enc_dirs(texts):
    return "\x1d".join("=" + t for t in texts)


def real_line(texts, wit, world, queries):
    return "\x1e".join([enc_dirs(texts), witgen.encode_line(wit), world or "", " ".join(str(q) for q in queries)])


def model_line(texts, table, queries):
    return "\x1e".join([enc_dirs(texts), ";".join("|".join(e) for e in table), " ".join(str(q) for q in queries)])


def parse_real(r):
    """'ok T=.. A=.. U=.. D=.. E=..' -> dict or None"""
    if not r.startswith("ok T="):
        return None
    m = re.match(r"ok T=(.*?) A=([01]*) U=(.*) D=(.*?) E=(true|false)$", r)
    if not m:
        return None
    table = [tuple(e.split("|")) for e in m.group(1).split(";")] if m.group(1) else []
    return {"table": table, "A": m.group(2), "U": m.group(3), "D": m.group(4), "E": m.group(5)}


def real_summary(p):
    return "A=%s U=%s D=%s E=%s" % (p["A"], p["U"], p["D"], p["E"])


# ------------------------------------------------------------------------------------------ generators of inputs
ODD = ["", "-", "import:", "export:", "-import:", "All", "al", "alll", "import:all", "-export:all", "--all", "all-", "#", "import:export:x"]


def gen_directives(rng, table, cli_safe=False, clean=False):
    """cli_safe: texts usable as one clap value (non-empty, no comma); clean: mostly exact names (lists that a generator accepts)"""
    texts = []
    n = rng.weighted([(0, 1), (1, 3), (2, 4), (3, 4), (4, 3), (5, 2), (6, 1)])
    for _ in range(n):
        k = rng.weighted([("all", 2), ("exact", 30), ("near", 1), ("dup", 1)] if clean else [("all", 2), ("exact", 10), ("near", 4), ("odd", 1), ("dup", 2)])
        if k == "all" or not table and k in ("exact", "near"):
            t = rng.choice(["all", "-all"])
        elif k == "dup" and texts:
            t = rng.choice(texts)
            if rng.chance(1, 2):
                t = t[1:] if t.startswith("-") else "-" + t
        elif k == "odd" or k == "dup":
            t = rng.choice(ODD)
        else:
            e = rng.choice(table)
            full = full_name(e)
            if k == "near":
                full = rng.choice([e[1], e[0], full + "x", full[:-1], full.upper(), "#" + e[1], e[0] + "#", full.split("@")[0],
                                   full.replace("#", "/"), "import:" + full, "-" + full, e[1].split(".")[-1], e[1].replace("[method]", "")])
            pre = rng.weighted([("", 5), ("import:", 3), ("export:", 3)])
            if pre and rng.chance(3, 4):   # usually the prefix that agrees with the function's direction
                pre = "import:" if e[2] == "i" else "export:"
            t = ("-" if rng.chance(2, 5) else "") + pre + full
        if cli_safe and (t == "" or "," in t or " " in t):
            continue
        texts.append(t)
    return texts


def gen_queries(rng, table):
    n = len(table)
    if n == 0:
        return []
    k = rng.below(4)
    if k == 0:
        return list(range(n))                                   # what a generator does: everything once
    if k == 1:
        return [i for i in range(n) for _ in range(2 if table[i][2] == "e" else 1)]   # Rust: exports are asked twice
    qs = [rng.below(n) for _ in range(rng.range(0, 2 * n))]      # arbitrary history: subset, repeats, any order
    return qs


def mkopts(rng, i):
    return witgen.Opts(features=["async", "resources"], inline_ifaces=True, world_funcs=True,
                       version=rng.choice([None, None, "1.2.3", "0.1.0-rc.1"]), n_funcs=(1, 3), n_types=(0, 3), max_depth=2, max_params=3)


# ------------------------------------------------------------------------------------------ build
def build(ctx=None):
    ok1, exe_r, log1 = vf.cargo_build("corelib")
    ok0, clog = vf.coq_make(TARGETS)
    ok2, exe_m, log2 = vf.ocaml_build("asyncfilter_driver", ["asyncfilter_model"], ["util.ml", "asyncfilter_driver.ml"]) if ok0 else (False, None, clog)
    return ok1, exe_r, log1, ok2, exe_m, log2


def setup():
    ok1, _, l1, ok2, _, l2 = build()
    ok3, _, l3 = genlib.build()
    if not ok1: vf.log(l1[-2000:])
    if not ok2: vf.log(l2[-2000:])
    if not ok3: vf.log(l3[-2000:])
    return ok1 and ok2 and ok3


def tables_of(exe_r, worlds):
    res = vf.run_filter([exe_r, "asyncfilter"], [real_line([], w.text, w.world, []) for w in worlds])
    return [parse_real(r) for r in res]


# ------------------------------------------------------------------------------------------ scraping generated text
def scrape(lang, files):
    """-> (imports: set of (module, name), exports: set of names) declared by the generated text"""
    imports, exports = set(), set()
    for fn, txt in sorted(files.items()):
        if isinstance(txt, bytes):
            continue
        if lang == "rust":
            mod = None
            for m in re.finditer(r'wasm_import_module\s*=\s*"([^"]*)"|link_name\s*=\s*"([^"]*)"|export_name\s*=\s*"([^"]*)"', txt):
                if m.group(1) is not None:
                    mod = m.group(1)
                elif m.group(2) is not None:
                    imports.add((mod, m.group(2)))
                else:
                    exports.add(m.group(3))
        elif lang == "c":
            for m in re.finditer(r'__import_module__\("([^"]*)"\)\s*,\s*__import_name__\("([^"]*)"\)', txt):
                imports.add((m.group(1), m.group(2)))
            for m in re.finditer(r'__export_name__\("([^"]*)"\)', txt):
                exports.add(m.group(1))
        elif lang == "moonbit":
            if fn.endswith(".mbt"):
                for m in re.finditer(r'=\s*"([^"\n]*)"\s+"([^"\n]*)"', txt):
                    imports.add((m.group(1), m.group(2)))
            elif fn.endswith("moon.pkg.json"):
                for m in re.finditer(r'"[A-Za-z0-9_]+:([^"\n]+)"', txt):
                    exports.add(m.group(1))
    return imports, exports


def observed_async(table, imports, exports):
    """per table entry: '1' async ABI name present only, '0' sync name only, '?' neither, '!' both"""
    out = []
    for e in table:
        key, name, d, a = e
        if d == "i":
            mod = "$root" if key == "-" else key
            s, y = (mod, name) in imports, (mod, "[async-lower]" + name) in imports
        else:
            full = full_name(e)
            s, y = full in exports, ("[async-lift]" + full) in exports
        out.append("!" if (s and y) else "1" if y else "0" if s else "?")
    return "".join(out)


def gen_opts(lang, texts, rng=None):
    words = []
    if texts:
        if rng is not None and rng.chance(1, 2):
            words += ["--async=" + t for t in texts]
        else:
            words.append("--async=" + ",".join(texts))
    if lang == "rust":
        words.append("--generate-all")
    return " ".join(words)


# ------------------------------------------------------------------------------------------ the check
def core_case_fails(exe_r, texts, wit, world, queries):
    """search predicate on one corelib case: real answers vs the documented rule.  -> description or None"""
    r = vf.run_filter([exe_r, "asyncfilter"], [real_line(texts, wit, world, queries)], shards=1)[0]
    p = parse_real(r)
    if p is None:
        return "real side failed: " + r[:200]
    a, u, _ = spec_run(texts, p["table"], queries)
    if p["A"] != a:
        return "answers %s but the documented rule gives %s" % (p["A"], a)
    if p["U"] != u:
        return "ensure_all_used says %r but the documented rule gives %r" % (p["U"], u)
    if p["D"] != enc_dirs(texts):
        return "directives print as %r, given %r" % (p["D"], enc_dirs(texts))
    return None


def gen_case_fails(lang, texts, opts, wit, world, table):
    """search predicate on one generator case.  -> (description or None, status)"""
    st, files = genlib.generate_many([(lang, opts, world, wit)], shards=1)[0]
    a, u, _ = spec_run(texts, table, list(range(len(table))))
    if st != "ok":
        msg = files if isinstance(files, str) else str(files)
        if lang == "rust" and "unused async option" in msg:
            want = u[4:] if u.startswith("err:") else None
            if want is None:
                return "rust generation failed with %r but every directive decided some function" % msg[:200], st
            if want not in msg:
                return "rust generation failed with %r, expected %r" % (msg[:200], want), st
            return None, "unused"
        return None, "other-" + st
    if lang == "rust" and u != "ok":
        return "rust generation succeeded but the documented rule rejects: %s" % u, st
    obs = observed_async(table, *scrape(lang, files))
    if obs != a:
        bad = [i for i, (x, y) in enumerate(zip(obs, a)) if x != y]
        e = table[bad[0]]
        return "%s output binds %s %s as %s but the documented rule gives %s (observed %s, expected %s)" % (
            lang, "import" if e[2] == "i" else "export", full_name(e), {"1": "async", "0": "sync", "?": "nothing", "!": "both"}[obs[bad[0]]],
            "async" if a[bad[0]] == "1" else "sync", obs, a), st
    return None, st


def load_corpus():
    p = os.path.join(vf.ROOT, "corpus", "C17.txt")
    out = []
    if os.path.exists(p):
        for l in open(p):
            l = l.strip()
            if l and not l.startswith("#"):
                out.append(json.loads(l))
    return out


def run(ctx):
    quick = ctx.tier == "quick"
    n_worlds = 250 if quick else 8000
    per_world = 10 if quick else 40
    n_gen_worlds = 60 if quick else 1500
    per_gen = 2 if quick else 4
    ctx.assumptions += [
        "model: HashSet<usize> used_options as a duplicate-free list; Strings as ASCII lists (the line protocol carries ASCII); FunctionKind reduced to the async flag (kind.is_async())",
        "tie 1: harness/corelib `asyncfilter` uses only the public API of wit_bindgen_core::AsyncFilterSet (default, push, is_async, ensure_all_used, debug_opts, any_enabled) with interface keys and Function values taken from the real Resolve; the interface key text comes from wit-parser's Resolve::name_world_key (trusted)",
        "tie 2: generators run as libraries through harness/genlib with their own clap option parsing (`--async=<a,b>` / repeated); async-ness is read off the generated text by the presence of `[async-lower]<name>` in the function's import module resp. `[async-lift]<export name>` (regex scrape, trusted glue); only the Rust generator calls ensure_all_used",
    ]
    ctx.proof_leg(["theories/Props/C17.vo"], ["Props.C17"], THEOREMS)
    ok1, exe_r, log1, ok2, exe_m, log2 = build(ctx)
    if not ok1:
        ctx.tie_broken("tie", "harness build against the repo failed:\n" + log1[-3000:]); return
    if not ok2:
        ctx.tie_broken("tie", "model extraction/driver build failed:\n" + log2[-3000:]); return
    ok3, exe_g, log3 = genlib.build()
    if not ok3:
        ctx.tie_broken("tie", "genlib build against the repo failed:\n" + log3[-3000:]); return

    # ---- worlds and their function tables (from the real Resolve)
    worlds, rejected = witgen.gen_valid_worlds(ctx.rng.fork(1), n_worlds, mkopts, exe=exe_r)
    tabs = tables_of(exe_r, worlds)
    items = [(w, t["table"]) for w, t in zip(worlds, tabs) if t is not None]
    if len(items) < len(worlds):
        ctx.tie_broken("tie", "asyncfilter engine failed on %d accepted worlds" % (len(worlds) - len(items)))

    # ---- tie 1 + search on the core
    rng = ctx.rng.fork(2)
    cases = []       # (texts, wit, world, table, queries)
    for c in load_corpus():
        if c.get("engine", "core") == "core":
            cases.append((c["directives"], c["wit"], c["world"], None, c["queries"]))
    ncorpus = len(cases)
    for w, table in items:
        for _ in range(per_world):
            cases.append((gen_directives(rng, table), w.text, w.world, table, gen_queries(rng, table)))
    real = vf.run_filter([exe_r, "asyncfilter"], [real_line(t, wit, wo, q) for t, wit, wo, _, q in cases])
    parsed = [parse_real(r) for r in real]
    mlines, midx = [], []
    for i, (c, p) in enumerate(zip(cases, parsed)):
        if p is not None:
            mlines.append(model_line(c[0], p["table"], c[4])); midx.append(i)
    model = vf.run_filter([exe_m], mlines)
    mism = []
    for i, m in zip(midx, model):
        if real_summary(parsed[i]) != m:
            mism.append((i, real_summary(parsed[i]), m))
    nfail_real = sum(1 for p in parsed if p is None)
    if nfail_real:
        ctx.tie_broken("tie", "the real side failed on %d/%d cases, e.g. %r" % (nfail_real, len(cases), [r for r, p in zip(real, parsed) if p is None][0][:300]))
    if mism:
        i, r, m = mism[0]
        ctx.tie_broken("tie", "model and real AsyncFilterSet disagree on %d/%d cases; first: directives=%r queries=%r real=%r model=%r" % (
            len(mism), len(cases), cases[i][0], cases[i][4], r, m))
    # search: the documented rule on the real answers
    stats = {"decided_by_all": 0, "decided_by_name": 0, "decided_by_later_directive": 0, "fell_through_to_wit": 0, "verdict_err": 0, "verdict_ok": 0,
             "answers": 0, "forced_sync_of_async_func": 0, "forced_async_of_sync_func": 0}
    distinct = set()
    first_bad = None
    for c, p in zip(cases, parsed):
        if p is None:
            continue
        texts, wit, world, _, queries = c
        a, u, used = spec_run(texts, p["table"], queries)
        dirs = [spec_parse(t) for t in texts]
        nontrivial = False
        for q, ans in zip(queries, p["A"]):
            m = spec_first(dirs, p["table"][q])
            stats["answers"] += 1
            if m is None:
                stats["fell_through_to_wit"] += 1
            else:
                if dirs[m[0]][1] == "all":
                    stats["decided_by_all"] += 1
                else:
                    stats["decided_by_name"] += 1
                    nontrivial = True
                if m[0] > 0:
                    stats["decided_by_later_directive"] += 1
                wa = p["table"][q][3] == "a"
                if wa and not m[1]: stats["forced_sync_of_async_func"] += 1
                if (not wa) and m[1]: stats["forced_async_of_sync_func"] += 1
        stats["verdict_ok" if u == "ok" else "verdict_err"] += 1
        if nontrivial:
            distinct.add(vf.canon_hash([texts, p["table"], queries]))
        if first_bad is None and (p["A"] != a or p["U"] != u or p["D"] != enc_dirs(texts)):
            first_bad = c
    if first_bad is not None:
        texts, wit, world, _, queries = first_bad
        texts = vf.shrink_list(texts, lambda t: core_case_fails(exe_r, t, wit, world, queries) is not None)
        queries = vf.shrink_list(queries, lambda q: core_case_fails(exe_r, texts, wit, world, q) is not None)
        why = core_case_fails(exe_r, texts, wit, world, queries)
        ctx.violation("asyncfilter:core:" + ",".join(texts) + ":" + vf.canon_hash([wit, queries]), why,
                      {"engine": "core", "directives": texts, "wit": wit, "world": world, "queries": queries})

    # ---- tie 2 + search through real generator output
    rng = ctx.rng.fork(3)
    gcases = []      # (lang, texts, opts, wit, world, table)
    for c in load_corpus():
        if c.get("engine") == "gen":
            gcases.append((c["lang"], c["directives"], gen_opts(c["lang"], c["directives"]), c["wit"], c["world"], None))
    for w, table in items[:n_gen_worlds]:
        for k in range(per_gen):
            texts = gen_directives(rng, table, cli_safe=True, clean=rng.chance(2, 3))
            for lang in GEN_LANGS:
                gcases.append((lang, texts, gen_opts(lang, texts, rng), w.text, w.world, table))
    # corpus gen cases need their table
    need = [i for i, g in enumerate(gcases) if g[5] is None]
    if need:
        tr = vf.run_filter([exe_r, "asyncfilter"], [real_line([], gcases[i][3], gcases[i][4], []) for i in need], shards=1)
        for i, r in zip(need, tr):
            p = parse_real(r)
            gcases[i] = gcases[i][:5] + (p["table"] if p else [],)
    gres = genlib.generate_many([(lang, opts, world, wit) for lang, texts, opts, wit, world, table in gcases], exe=exe_g)
    gmodel = vf.run_filter([exe_m], [model_line(texts, table, list(range(len(table)))) for lang, texts, opts, wit, world, table in gcases])
    gstats = {l: {"ok": 0, "unused_error": 0, "other_failure": 0, "functions_checked": 0, "async_bound": 0} for l in GEN_LANGS}
    gmism, gbad = [], None
    other_fail_example = None
    for g, (st, files), m in zip(gcases, gres, gmodel):
        lang, texts, opts, wit, world, table = g
        mm = re.match(r"A=([01]*) U=(.*) D=", m)
        ma, mu = mm.group(1), mm.group(2)
        sa, su, _ = spec_run(texts, table, list(range(len(table))))
        if st != "ok":
            msg = files if isinstance(files, str) else str(files)
            if lang == "rust" and "unused async option" in msg:
                gstats[lang]["unused_error"] += 1
                if not (mu.startswith("err:") and mu[4:] in msg):
                    gmism.append((g, "rust failed with %r, model verdict %r" % (msg[:200], mu)))
                if not (su.startswith("err:") and su[4:] in msg) and gbad is None:
                    gbad = g
            else:
                gstats[lang]["other_failure"] += 1
                other_fail_example = other_fail_example or (lang, opts, msg[:300])
            continue
        gstats[lang]["ok"] += 1
        if lang == "rust":
            if mu != "ok":
                gmism.append((g, "rust generation succeeded, model verdict %r" % mu))
            if su != "ok" and gbad is None:
                gbad = g
        obs = observed_async(table, *scrape(lang, files))
        gstats[lang]["functions_checked"] += len(table)
        gstats[lang]["async_bound"] += obs.count("1")
        if obs != ma:
            gmism.append((g, "%s output has async pattern %s, model %s" % (lang, obs, ma)))
        if obs != sa and gbad is None:
            gbad = g
    if gmism:
        g, why = gmism[0]
        ctx.tie_broken("tie", "model and generator output disagree on %d/%d generator runs; first: lang=%s opts=%r: %s" % (len(gmism), len(gcases), g[0], g[2], why))
    nother = sum(s["other_failure"] for s in gstats.values())
    if nother * 5 > len(gcases):
        ctx.tie_broken("tie", "%d/%d generator runs failed for reasons unrelated to --async, e.g. %r" % (nother, len(gcases), other_fail_example))
    if gbad is not None:
        lang, texts, opts, wit, world, table = gbad
        small = vf.shrink_list(texts, lambda t: bool(t) and gen_case_fails(lang, t, gen_opts(lang, t), wit, world, table)[0] is not None)
        if gen_case_fails(lang, small, gen_opts(lang, small), wit, world, table)[0] is None:
            small = texts
        why, _ = gen_case_fails(lang, small, gen_opts(lang, small), wit, world, table)
        why = why or gen_case_fails(lang, texts, opts, wit, world, table)[0]
        ctx.violation("asyncfilter:gen:%s:%s:%s" % (lang, ",".join(small), vf.canon_hash([wit])), why,
                      {"engine": "gen", "lang": lang, "directives": small, "wit": wit, "world": world})

    ctx.coverage.update({
        "evaluations": len(cases) + len(gcases), "distinct_nontrivial": len(distinct),
        "rule": "random worlds (lib/witgen.py, features async+resources, inline interfaces, world-level functions, versioned and unversioned packages) x random directive lists (all/-all, exact names with and without import:/export: prefixes, negations, near-miss names, duplicates and flipped duplicates, odd texts) x random query histories (everything once, exports twice, arbitrary subsets with repeats); non-trivial = some query decided by a directive other than all/-all; distinct = distinct (directives, function table, queries)",
        "samples": [{"directives": c[0], "queries": c[4][:12], "real": real_summary(p).replace("\x1d", " ")} for c, p in list(zip(cases, parsed))[ncorpus:ncorpus + 3] if p],
        "traces_validated_against_impl": len(cases) + len(gcases), "model_mismatches": len(mism) + len(gmism),
        "distribution": {
            "worlds": len(items), "worlds_rejected_by_wit_parser": rejected, "corpus_cases": ncorpus,
            "functions_per_world_avg": round(sum(len(t) for _, t in items) / max(1, len(items)), 2),
            "table_entries": {k: sum(1 for _, t in items for e in t if pred(e)) for k, pred in [
                ("import", lambda e: e[2] == "i"), ("export", lambda e: e[2] == "e"), ("wit_async", lambda e: e[3] == "a"),
                ("world_level", lambda e: e[0] == "-"), ("resource_method_static_ctor", lambda e: e[1].startswith("[")),
                ("versioned_interface", lambda e: "@" in e[0])]},
            "core_cases": len(cases), "core": stats,
            "directive_count_histogram": {str(k): sum(1 for c in cases if len(c[0]) == k) for k in range(0, 7)},
            "generator_cases": len(gcases), "generators": gstats,
        },
    })


def replay(ctx, path):
    obj = json.load(open(path))
    r = obj["replay"]
    ok1, exe_r, log1 = vf.cargo_build("corelib")
    if r["engine"] == "core":
        why = core_case_fails(exe_r, r["directives"], r["wit"], r["world"], r["queries"])
        out = vf.run_filter([exe_r, "asyncfilter"], [real_line(r["directives"], r["wit"], r["world"], r["queries"])], shards=1)[0]
        print("directives:", r["directives"]); print("queries:", r["queries"]); print("real:", out.replace("\x1d", " "))
    else:
        p = parse_real(vf.run_filter([exe_r, "asyncfilter"], [real_line([], r["wit"], r["world"], [])], shards=1)[0])
        why, st = gen_case_fails(r["lang"], r["directives"], gen_opts(r["lang"], r["directives"]), r["wit"], r["world"], p["table"])
        print("lang:", r["lang"], "directives:", r["directives"], "generator status:", st)
    print("verdict:", why or "the documented rule holds on this case")
    return 1 if why else 0


META = {
    "engine": "coq+corelib",
    "technique": "Coq model of AsyncFilterSet (parse/Display/is_async/used/ensure_all_used) with proofs by induction over the directive list and over query histories; differential correspondence with the real AsyncFilterSet via extracted OCaml; second correspondence through the async ABI names in real Rust/C/MoonBit generator output",
    "text": "Unbounded Coq theorems: the answer is the enabled flag of the first matching directive, else the WIT's async flag; answers never depend on history; Display(parse s) = s for every text; ensure_all_used succeeds iff every non-`all` directive was the first match of some query (so an unmatched directive is rejected, and the error names it); used only grows. Tied to crates/core/src/async_.rs on every run (thousands of directive lists x worlds x histories), and to the generated code of the Rust, C and MoonBit backends ([async-lower]/[async-lift] names; Rust's unused-option failure).",
    "note": "Trusted: Coq kernel; extraction and ocaml/asyncfilter_driver.ml; harness/corelib + harness/genlib line protocols; regex scrape of generated text; wit-parser (Resolve, name_world_key). The search leg's rule is an independent Python transcription of the option's documentation.",
}
