"""C11 — C guest bindings release exactly the memory and handles they own.

LEVEL translation_validation.  Same native engine as C10 (lib/genrun_c.py) with the allocation ledger that sits under
malloc/realloc/free of the compiled bindings (harness/genrun_c/gr_rt.c): per call, which blocks each phase allocated
and freed.  Judged per call:
  export:  the blocks the host allocated for the arguments (through the generated cabi_realloc) are all released by
           the documented rule "the export owns its arguments and frees them with the generated *_free helpers", the
           blocks the implementation allocated for the result are released by *_post_return, exactly once each, and
           the ledger is back to its pre-call state;
  import:  while the import runs no block of the caller is freed or modified; the helper of the result type frees
           exactly the blocks the host allocated for the result (= Spec `allocs`), the helpers of the argument types
           free exactly what the caller allocated;
  autodrop: with --autodrop-borrows=yes every borrow of an imported resource received by an export is dropped exactly
           once at return, with =no never by the bindings;
  resources: each drop of an owned handle of an exported resource runs the user destructor exactly once THROUGH THE
           EXPORT THE COMPONENT ENCODER WIRES (wit-parser's `<iface>#[dtor]<resource>`), X_rep(X_new(r)) = r, and
           X_drop_own of an imported resource reaches [resource-drop] once.
Proved part: Props/C11.v (Core/COwnership.v)."""
import json, os, re, time
import vf, witgen
import genrun_c as G
from checks import c10 as C10

LEVEL = "translation_validation"
READY = True
PROP = "C11"
TARGETS = ["theories/Props/C11.vo"]
THEOREMS = ["C11_free_helper_never_frees_foreign_or_twice", "C11_free_helper_frees_exactly_owned",
            "C11_free_helper_incomplete_table_refuted"]
LEAK_CLASSES = ("args-leak", "args-leak-no-helper", "free-helper-leak", "free-helper-missing")


def RUNTAG(ctx):
    import hashlib
    return "c11-%s-%d-%s" % (ctx.tier, ctx.seed, hashlib.sha256(os.path.realpath(vf.REPO).encode()).hexdigest()[:6])


def corpus_cases():
    p = os.path.join(vf.ROOT, "corpus", "C11.txt")
    out = []
    if os.path.exists(p):
        for l in open(p):
            l = l.strip()
            if l and not l.startswith("#"):
                out.append(json.loads(l))
    return out


def leak_root_cause(u, c, phase_targets):
    """static audit of the generated helpers involved: all causes must be the one known mechanism"""
    causes = []
    for t, cty in phase_targets:
        try:
            causes += G.audit_free_helper(u, t, cty)
        except G.Tie:
            pass
    kinds = {k for k, _, _ in causes} - {"cascade"}
    if causes and kinds == {"member-helper-not-called"}:
        return "member-helper-not-called", causes
    return None, causes


def violations_of(u):
    """[(key, what, call or None, extra)] for one analysed unit"""
    out = []
    if u.status != "ran":
        return out
    for c in u.calls:
        if not c.obs.get("reached_end"):
            out.append(("c11:crash:%s:%s" % (c.fn.dir, C10.sig_shape(c.fn)),
                        "native run aborted (rc=%s) during call %d %s; stderr: %s" % (u.rc, c.k, c.fn.label(), (u.stderr or "")[-600:]), c, None))
            break
        for ph, line in c.obs.get("sanitizer", []):
            if "AddressSanitizer" in line:
                out.append(("c11:asan:%s:%s" % (c.fn.dir, C10.sig_shape(c.fn)), "AddressSanitizer report during phase %s of %s [%s]: %s"
                            % (ph, c.fn.label(), u.cfg_words or "default", line), c, None))
        args_t, ret_t = G.free_targets(u, c)
        for cls, what in G.judge_memory(u, c):
            key = "c11:%s:%s:%s" % (cls, c.fn.dir, C10.sig_shape(c.fn))
            extra = None
            if cls in LEAK_CLASSES:
                targets = args_t if ("argument" in what or cls.startswith("args")) else ret_t
                root, causes = leak_root_cause(u, c, targets)
                extra = causes
                if root:
                    key = "c:free-helper:" + root
                    what += " | cause (static audit of the generated helpers): " + "; ".join(sorted({d for _, _, d in causes}))[:600]
            out.append((key, "%s in %s [%s]" % (what, c.fn.label(), u.cfg_words or "default"), c, extra))
        if c.fn.dir == "export":
            exp = G.expected_drops(u, c) if u.autodrop else []
            got = G.observed_drops(c)
            if exp != got:
                out.append(("c11:autodrop-%s:%s" % ("on" if u.autodrop else "off", C10.sig_shape(c.fn)),
                            "borrowed handles %s of imported resources were passed to export %s; the bindings dropped %s [%s]"
                            % (exp if u.autodrop else G.expected_drops(u, c), c.fn.label(), got, u.cfg_words or "default"), c, None))
    for key, what, plan in G.judge_resources(u):
        out.append((key, what + " [%s]" % (u.cfg_words or "default"), None, plan))
    return out


def run(ctx):
    quick = ctx.tier == "quick"
    excl, src = C10.source_exclusions()
    variants = src["codegen_test_variants"]
    ad = " ".join(variants.get("autodrop", ["--autodrop-borrows=yes"]))
    nsf = " ".join(variants.get("no-sig-flattening", ["--no-sig-flattening"]))
    cfgs = [("default", ""), ("autodrop", ad), ("nsf+utf16", nsf + " --string-encoding utf16")]
    if not quick:
        cfgs += [("autodrop+nsf", ad + " " + nsf), ("utf16", "--string-encoding utf16")]
    ctx.assumptions += [
        "host = Coq canonical-ABI specification (Canon/Spec.v extracted, pw = 8) + a C mock of the resource intrinsics; the ledger sees malloc/realloc/free of the generated <world>.c through gr_prelude.h (#define), the file itself is compiled unmodified",
        "user code follows crates/c/README.md: an export frees each argument with the generated <type>_free helper, never frees its result; an import caller frees result and arguments with the helpers",
        "the component encoder wires a resource destructor only through the export named by wit-parser's wasm_export_name(ResourceDtor) (`<iface>#[dtor]<resource>`); natively that export is called iff the generated code defines it",
        "excluded as in C10: %s; flags > 32 members; async; lists of borrows of exported resources" % sorted(excl),
    ]
    ctx.proof_leg(TARGETS, ["Props.C11"], THEOREMS)
    nworlds = 8 if quick else 100
    rng = ctx.rng

    def mk(r, i):
        fs = ["resources"] + [f for f in ("maps", "futures", "streams") if f not in excl and r.chance(1, 3)]
        return witgen.Opts(features=fs, docs=False, adversarial=r.chance(1, 4), big_sigs=r.chance(1, 4), inline_ifaces=r.chance(1, 4),
                           max_depth=3, n_funcs=(1, 3), n_types=(1, 5))
    worlds, rejected = witgen.gen_valid_worlds(rng, nworlds, mk)
    units = [G.unit_from_replay(c, uid="corpus%d" % i) for i, c in enumerate(corpus_cases())]
    ncorpus = len(units)
    for i, w in enumerate(worlds):
        for n, wds in cfgs:
            units.append(G.Unit("w%d" % i, w.text, w.world, n, wds, ctx.seed))
    try:
        stats = G.run_batch(units, tier_asan=not quick, calls_per_func=2 if quick else 3, max_calls=40 if quick else 80, tag=RUNTAG(ctx))
    except RuntimeError as e:
        ctx.tie_broken("tie", str(e)[-3000:])
        return
    # tie of the proved part: Core/COwnership.v evaluated by coqc vs the oracle's allocs for the same values (the native
    # ledger is compared with the same allocs below)
    nown, badown = G.check_ownership_model(units, RUNTAG(ctx), limit=60 if quick else 400)
    if badown:
        ctx.tie_broken("tie", "Core/COwnership.v disagrees with Spec allocs on %d values; first: %s" % (len(badown), badown[0]))
    status, dirs, skipped = {}, {}, {}
    ncalls = nheap = nblocks = nfreed = ndrops = 0
    distinct = set()
    res_hist = {"exported": 0, "imported": 0, "multi_word_exported": 0, "single_word_exported": 0, "dtor_wired": 0}
    samples = []
    viol = []
    for u in units:
        status[u.status] = status.get(u.status, 0) + 1
        if u.status in ("tie", "build-fail-generated", "build-fail-test", "link-fail"):
            ctx.tie_broken("tie", "%s: %s\n%s\nworld:\n%s" % (u.key(), u.status, u.detail[-1500:], u.wit[:3000]))
        for lab, why in u.skipped:
            skipped[why.split(" (")[0]] = skipped.get(why.split(" (")[0], 0) + 1
        if u.status != "ran":
            continue
        for c in u.calls:
            if not c.obs.get("reached_end"):
                continue
            ncalls += 1
            dirs[c.fn.dir] = dirs.get(c.fn.dir, 0) + 1
            na = sum(len(v) for v in c.obs["allocs"].values())
            nf = sum(len(v) for v in c.obs["frees"].values())
            nd = len(G.observed_drops(c))
            nblocks += na
            nfreed += nf
            ndrops += nd
            if na or nd:
                nheap += 1
                distinct.add((c.fn.dir, u.cfg_words, C10.sig_shape(c.fn), c.args_s, c.ret_s))
                if len(samples) < 4 and c.k % 5 == 2:
                    samples.append({"unit": u.key(), "options": u.cfg_words, "function": c.fn.label(), "args": c.args_s[:200], "result": (c.ret_s or "")[:200],
                                    "blocks_allocated": na, "blocks_freed": nf, "handles_dropped_by_bindings": nd})
        for p in getattr(u, "res_plan", []):
            res_hist[p["kind"]] += 1
            if p["kind"] == "exported":
                res_hist["multi_word_exported" if "-" in p["resource"] else "single_word_exported"] += 1
                res_hist["dtor_wired"] += 1 if p["wired"] else 0
        viol += [(u, v) for v in violations_of(u)]
    nran = status.get("ran", 0)
    if nran * 2 < len(units):
        bad = [(u.key(), u.status, u.detail[:200]) for u in units if u.status != "ran"][:3]
        ctx.tie_broken("tie", "only %d of %d (world, options) units could be generated, built and run; e.g. %s" % (nran, len(units), bad))
    seen = set()
    for u, (key, what, c, extra) in viol:
        if key in seen:
            continue
        seen.add(key)
        if c is None:
            rep = G.replay_obj(u, [])
            if extra and extra.get("kind") == "exported":
                rep = dict(rep, wit="package a:b;\n\ninterface i {\n  resource %s;\n  f: func() -> %s;\n}\n\nworld w {\n  export i;\n}\n" % (witgen.esc(extra["resource"]), witgen.esc(extra["resource"])),
                           world="w", calls=[]) if still_resource(key, extra, u) else rep
            ctx.violation(key, what, rep)
            continue
        if ctx.known.is_known(PROP, key) or len(seen) > 5:
            ctx.violation(key, what, G.replay_obj(u, [c]))
            continue
        def still(v, key=key):
            return any(k2 == key for k2, _, _, _ in violations_of(v))
        ctx.violation(key, what, G.shrink_case(u, c, still, RUNTAG(ctx) + "-shrink%d" % len(seen)))
    ctx.coverage.update({
        "programs": status.get("ran", 0), "disagreements_checked": ncalls, "evaluations": ncalls, "distinct_nontrivial": len(distinct),
        "traces_validated_against_impl": ncalls,
        "rule": "random worlds (lib/witgen.py, resources always on, multi-word kebab names frequent) x option sets %s; per function 2-3 oracle-drawn "
                "values; every call is run under the allocation ledger and split into phases (host setup / call / user code / post-return / helper "
                "calls); plus one resource scenario per resource (new/rep/host-drop for exported ones, drop_own for imported ones).  Non-trivial = the "
                "call allocates at least one heap block or makes the bindings drop a handle; distinct = distinct (direction, options, signature shape, "
                "values)" % [n for n, _ in cfgs],
        "samples": samples or [{"note": "no sample selected"}],
        "distribution": {"units_by_status": status, "worlds": len(worlds), "worlds_rejected_by_wit_parser": rejected, "corpus_units": ncorpus,
                         "calls_by_direction": dirs, "calls_owning_heap_or_handles": nheap, "blocks_allocated": nblocks, "blocks_freed": nfreed,
                         "handles_dropped_by_bindings": ndrops, "resource_scenarios": res_hist, "functions_not_judged": skipped,
                         "engine_seconds": stats, "sanitizers": "ASan+UBSan" if not quick else "off (thorough tier only)"},
        "source_tie": src, "ownership_model_comparisons": nown, "ownership_model_mismatches": len(badown),
    })
    ctx.notes.append("validated part is differential (native runs + allocation ledger); the resource half is decided by the export NAME the generated C defines, "
                     "since no component host is available to observe the encoder dropping a mis-named destructor")


def still_resource(key, plan, u):
    """re-run the minimal exported-resource world and see whether the same resource finding shows"""
    wit = "package a:b;\n\ninterface i {\n  resource %s;\n  f: func() -> %s;\n}\n\nworld w {\n  export i;\n}\n" % (witgen.esc(plan["resource"]), witgen.esc(plan["resource"]))
    v = G.Unit("res-min", wit, "w", u.cfg_name, u.cfg_words, u.seed)
    try:
        G.run_batch([v], tag="c11-resmin")
    except Exception:
        return False
    return any(k2 == key for k2, _, _, _ in violations_of(v))


def setup():
    ok = C10.setup()
    ok3, _ = vf.coq_make(TARGETS)
    return bool(ok and ok3)


def replay(ctx, path):
    obj = json.load(open(path))
    u = G.unit_from_replay(obj["replay"], uid="replay")
    G.run_batch([u], tag=RUNTAG(ctx) + "-replay")
    print("options:", u.cfg_words or "(default)")
    print("status:", u.status, u.detail[:500])
    vs = violations_of(u)
    for c in u.calls:
        print("call %d %s args=%s ret=%s" % (c.k, c.fn.label(), c.args_s[:200], (c.ret_s or "")[:200]))
    for p in getattr(u, "res_plan", []):
        print("resource scenario:", {k: p[k] for k in p if k != "roundtrip"})
    for k, w, _, _ in vs:
        print("VIOLATES:", k, "\n   ", w)
    if not vs:
        print("verdict: property holds on this case")
    return 1 if (vs or u.status != "ran") else 0


META = {
    "engine": "coq+genrun",
    "technique": "translation validation: generated C compiled natively and run under an allocation ledger against the extracted Coq canonical-ABI specification; Coq proof about a transcription of the generated free helpers",
    "text": "Every generated binding explored is executed with a ledger under malloc/realloc/free: post-return must free exactly the returned value's blocks, "
            "import arguments must stay live and unmodified, *_free helpers on oracle-built values must free exactly the blocks the specification's allocs lists, "
            "autodrop must drop each borrowed handle once, and the destructor of an exported resource must be defined under the export name the component encoder "
            "wires and run once per drop. Proved (Coq, all types and values): a generated free helper never frees a block the value does not own nor any block twice, and "
            "frees exactly the owned blocks when its member helpers are registered.",
    "note": "Differential for crates/c/src/lib.rs (not a proof). The destructor half is decided by export names (no component host available). Trusted: clang/x86-64, "
            "lib/genrun_c.py, harness/genrun_c runtime, cdescribe (wit-parser as library).",
}
