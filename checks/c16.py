"""C16 — generators handle every valid world without panicking (Markdown: every WIT type).      LEVEL "other" (P/part)

PROVED PART  coq/theories/Props/C16.v over the model WB.Core.MdTotal: the Markdown generator's type dispatch
             (print_ty, the type_* callbacks, func/interface/world traversal) and the shared dispatch of
             wit_bindgen_core (define_type, WorldGenerator::generate); every todo!/unreachable!/panic!/assert! is an
             explicit Panic site.  Exact characterisation theorems + partial totality + refutation witnesses.
TIE          (T) the constructor -> arm tables of the anchored functions are re-derived from the CURRENT source text on
                 every run (lib/c16_lib.dispatch_tables) and compared with the tables computed from the extracted model;
                 TypeDefKind/Type constructor sets are compared with the pinned wit-parser's enums;
             (K) the extracted model is run on the `detnp mddump` translation of every test world and its verdict
                 (done | panic site) compared with what the real Markdown generator did on that world.
DIFFERENTIAL (carries the whole-generator statement; labelled so) every backend x its option variants, as a library under
             catch_unwind, on directed worlds (every constructor x every position), seeded random worlds, tests/codegen
             and corpus/C16.txt, minus EXACTLY the features the backend declares unsupported (computed on every run from
             crates/test/src/<lang>.rs should_fail_verify evaluated on tests/codegen).  A panic outside them is a
             violation keyed `lang:file:fn:source-line`.
"""
import json, os, re, time
import vf, genlib, witgen
import c16_lib as L
import c16_worlds as W

LEVEL = "other"
READY = True
TARGETS = ["theories/Props/C16.vo", "theories/Extract/ExMdTotal.vo"]
THEOREMS = ["C16_md_print_ty_exact", "C16_md_print_ty_only_site", "C16_md_generate_exact", "C16_md_partial",
            "C16_md_refuted_anon_fixed_length_list", "C16_md_refuted_named_future", "C16_md_refuted_named_stream",
            "C16_md_refuted_handle_alias", "C16_core_define_type_handle_alias_refuted", "C16_core_define_type_partial"]

# option variants beyond crates/test's codegen_test_variants, taken from each crate's `Opts` (run on the directed worlds
# and the corpus in both tiers, on the random worlds only in the thorough tier)
EXTRA_VARIANTS = {
    "rust": [("x-noformat-raw", ["--raw-strings", "--generate-unused-types"], ["--format"]),
             ("x-chaining+async", ["--enable-method-chaining", "--async=all", "--merge-structurally-equal-types"], [])],
    "c": [("x-utf16", ["--string-encoding=utf16", "--no-helpers"], []), ("x-threads", ["--generate-threading-helpers", "--generate-async-helpers"], [])],
    "cpp": [("x-split", ["--split-interfaces", "--api-style=symmetric"], []), ("x-borrowing", ["--ownership=coarse-borrowing"], [])],
    "markdown": [("x-html-in-md", ["--html-in-md"], [])],
    "moonbit": [("x-nostub", ["--ignore-stub", "--ignore-module-file"], [])],
    "csharp": [("x-mono", ["--runtime=mono", "--internal", "--with-wit-results"], ["--runtime=native-aot"])],
    "go": [("x-versions", ["--include-versions", "--format=false"], []), ("x-async", ["--async=all"], [])],
    "d": [("x-plain", [], ["--emit-export-stubs"])],
}

# model site -> (file, fn, fragment of the source line) of the panic it stands for
SITE_WHERE = {
    "SitePrintTyAssertNamed": ("crates/markdown/src/lib.rs", "print_ty", "assert!(ty.name.is_some())"),
    "SitePrintTyUnknown": ("crates/markdown/src/lib.rs", "print_ty", "TypeDefKind::Unknown=>unreachable!()"),
    "SitePrintTyFixedLengthList": ("crates/markdown/src/lib.rs", "print_ty", "TypeDefKind::FixedLengthList(..)=>todo!()"),
    "SiteMdTypeFuture": ("crates/markdown/src/lib.rs", "type_future", "todo!()"),
    "SiteMdTypeStream": ("crates/markdown/src/lib.rs", "type_stream", "todo!()"),
    "SiteDefineTypeHandle": ("crates/core/src/lib.rs", "define_type", "TypeDefKind::Handle(_)=>panic!("),
    "SiteDefineTypeUnknown": ("crates/core/src/lib.rs", "define_type", "TypeDefKind::Unknown=>unreachable!()"),
    "SiteGenerateExportType": ("crates/core/src/lib.rs", "generate", "WorldItem::Type{..}=>unreachable!()"),
}
REFUTATION_WORLDS = [   # the four Coq witnesses as WIT text; each must panic at the site the theorem names
    ("SitePrintTyFixedLengthList", "package t:p;\nworld w {\n  import f: func(x: list<u8, 4>);\n}\n"),
    ("SiteMdTypeFuture", "package t:p;\ninterface i {\n  type t = future<u8>;\n}\nworld w {\n  import i;\n}\n"),
    ("SiteMdTypeStream", "package t:p;\ninterface i {\n  type t = stream;\n}\nworld w {\n  import i;\n}\n"),
    ("SiteDefineTypeHandle", "package t:p;\ninterface i {\n  resource r;\n  type t = own<r>;\n}\nworld w {\n  import i;\n}\n"),
]


def build():
    ok1, exe, log1 = vf.cargo_build("detnp")
    ok0, clog = vf.coq_make(TARGETS)
    ok2, drv, log2 = vf.ocaml_build("mdtotal_driver", ["mdtotal_model"], ["util.ml", "mdtotal_driver.ml"]) if ok0 else (False, None, clog)
    return ok1, exe, log1, ok2, drv, log2


def setup():
    ok1, _, l1, ok2, _, l2 = build()
    if not ok1: vf.log(l1[-2000:])
    if not ok2: vf.log(l2[-2000:])
    return ok1 and ok2


def run_mode(exe, mode, cases, shards=None):
    if mode == "gen" and len(cases) > 64:
        # supervised: a case that prints nothing for 15 minutes is answered `hang`, a dying process `crash`
        return L.run_supervised([exe, mode], [genlib.encode(*c) for c in cases], shards=shards, stall=900)
    return vf.run_filter([exe, mode], [genlib.encode(*c) for c in cases], shards=shards, timeout=3000)


def lang_configs():
    """[(lang, variant kind, option words, exclusion kind)] from the working tree + EXTRA_VARIANTS.  Also returns the
    parsed per-language test descriptions."""
    lts, cfgs = {}, []
    for l in L.LANGS:
        lt = L.parse_lang_tests(l)
        lts[l] = lt
        base = lt.default_args + lt.codegen_args
        cfgs.append((l, "", base, ""))
        for kind, extra in lt.variants:
            cfgs.append((l, kind, base + extra, kind))
        for kind, extra, drop in EXTRA_VARIANTS.get(l, []):
            # an extra variant that switches async on inherits the exclusions of the backend's own `async` variant
            xk = "async" if kind.endswith("+async") and any(k == "async" for k, _ in lt.variants) else ""
            cfgs.append((l, kind, [a for a in base if a not in drop] + extra, xk))
    return lts, cfgs


def parse_outcome(lang, line):
    """-> ('ok'|'err'|'panic', key or message)"""
    if line is None:
        return "panic", ("%s:no-result" % lang, "no result line")
    if line.startswith("ok"):
        return "ok", ""
    if line.startswith("hang") or line.startswith("crash"):
        # neither bindings nor an error: the generator did not return (stall) or took the process down (abort, stack overflow)
        return "panic", ("%s:%s" % (lang, line.split(" ")[0]), line)
    if line.startswith("panic "):
        loc, _, msg = line[6:].partition("\x1e")
        return "panic", (L.panic_key(lang, loc, msg), msg)
    return "err", line[4:]


class Excl:
    """Declared-unsupported features per (lang, variant kind), derived from the working tree on this run."""
    FRESH = "zz-not-a-test.wit"

    def __init__(self, lts):
        self.lts = lts
        self.corpus = L.codegen_corpus()
        self.by_name, self.rows = {}, {}
        for l, lt in lts.items():
            self.by_name[l], self.rows[l] = L.declared_unsupported(lt, self.corpus)

    def excluded(self, lang, kind, feats, test_name=None):
        lt = self.lts[lang]
        suffix = ("-" + kind) if kind else ""
        C = L.config_of_features(feats)
        if test_name is not None:   # a tests/codegen file: exactly what crates/test decides for it
            C = L.wit_config(test_name[1])
            return lt.should_fail(test_name[0] + suffix, C)
        if lt.should_fail(self.FRESH + suffix, C):
            return True
        return bool(feats & self.by_name[lang].get(kind, set()))


def _type_spans(t):
    """(start, end, replacement candidates) for every generic type expression `ctor<...>` in the text."""
    out = []
    for m in re.finditer(r"(?<![a-z0-9%-])(list|option|result|tuple|map|future|stream|own|borrow)<", t):
        depth, j = 0, m.end() - 1
        while j < len(t):
            if t[j] == "<": depth += 1
            elif t[j] == ">":
                depth -= 1
                if depth == 0: break
            j += 1
        if j >= len(t):
            continue
        args = [a.strip() for a in L.split_top(t[m.end():j].replace("<", "(").replace(">", ")"))]
        inner = t[m.end():j]
        # recover the original spelling of the arguments
        parts, d, cur = [], 0, ""
        for ch in inner:
            if ch == "<": d += 1
            if ch == ">": d -= 1
            if ch == "," and d == 0:
                parts.append(cur.strip()); cur = ""
            else:
                cur += ch
        parts.append(cur.strip())
        cands = ["u8"] + [a for a in parts if a and a != "_" and not a.isdigit()]
        out.append((m.start(), j + 1, cands))
    return out


def shrink_world(exe, lang, opts, text, key, max_steps=500):
    """Delta debugging that keeps the world VALID and keeps the same panic key: drop lines, then drop parameters, then
    replace type expressions by one of their arguments or by u8."""
    steps = [0]

    def fails_text(t):
        steps[0] += 1
        if run_mode(exe, "valid", [("", "", None, t)], shards=1)[0] != "ok":
            return False
        k, d = parse_outcome(lang, run_mode(exe, "gen", [(lang, opts, None, t)], shards=1)[0])
        return k == "panic" and d[0] == key
    if not fails_text(text):
        return text

    def drop_blocks(text):
        again = True
        while again:
            again = False
            lines = text.split("\n")
            for i, l in enumerate(lines):
                if l.count("{") > l.count("}"):
                    d, j = 0, i
                    while j < len(lines):
                        d += lines[j].count("{") - lines[j].count("}")
                        if d <= 0: break
                        j += 1
                    cand = "\n".join(lines[:i] + lines[j + 1:])
                    if j < len(lines) and fails_text(cand):
                        text, again = cand, True
                        break
        return text
    text = drop_blocks(text)
    text = "\n".join(vf.shrink_list(text.split("\n"), lambda ls: fails_text("\n".join(ls)), max_steps=max_steps))
    text = drop_blocks(text)
    changed = True
    while changed and steps[0] < 3 * max_steps:
        changed = False
        # drop single parameters
        for m in list(re.finditer(r"func\(([^;]*?)\)(?=\s*(->|;))", text)):
            ps = []
            d, cur = 0, ""
            for ch in m.group(1):
                if ch == "<": d += 1
                if ch == ">": d -= 1
                if ch == "," and d == 0:
                    ps.append(cur); cur = ""
                else:
                    cur += ch
            if cur.strip(): ps.append(cur)
            for i in range(len(ps)):
                cand = text[:m.start(1)] + ",".join(ps[:i] + ps[i + 1:]).strip() + text[m.end(1):]
                if fails_text(cand):
                    text, changed = cand, True
                    break
            if changed: break
        if changed: continue
        for (a, b, cands) in _type_spans(text):
            for c in cands:
                if c == text[a:b]:
                    continue
                cand = text[:a] + c + text[b:]
                if len(cand) < len(text) and fails_text(cand):
                    text, changed = cand, True
                    break
            if changed: break
        if changed: continue
        small = "\n".join(vf.shrink_list(text.split("\n"), lambda ls: fails_text("\n".join(ls)), max_steps=100))
        if small != text:
            text, changed = small, True
    return text


def run(ctx):
    quick = ctx.tier == "quick"
    n_random = 170 if quick else 3000
    cov = ctx.coverage
    ctx.assumptions += [
        "valid world := wit-parser accepts the text, the world can be selected, and wit-component's encoding of the package validates under wasmparser with all features on (harness `detnp valid`)",
        "model: Resolve type graph unfolded into a tree that stops at named types (exactly the recursion of print_ty); anyhow errors are not modelled (Markdown's callbacks return Ok(()) unconditionally); pulldown-cmark rendering in finish() and SizeAlign::fill in preprocess() are outside the model",
        "declared-unsupported features are computed from crates/test/src/<lang>.rs should_fail_verify evaluated on tests/codegen (Go: go_async_supported() taken as true, i.e. the fewest exclusions); feature vocabulary = witgen's features + fallible-ctor, async-method, handle-alias",
        "panic classification key = backend : file : enclosing fn : source text of the line the panic location names",
    ]
    timing, _t = {}, [time.time()]

    def mark(label):
        timing[label] = round(time.time() - _t[0], 1); _t[0] = time.time()
    proof_ok = ctx.proof_leg(["theories/Props/C16.vo"], ["Props.C16"], THEOREMS)
    mark("proof_leg")
    ok1, exe, log1, ok2, drv, log2 = build()
    mark("build")
    if not ok1:
        ctx.tie_broken("tie", "harness detnp does not build against the working tree (a new TypeDefKind/Type/WorldItem constructor breaks mddump.rs on purpose):\n" + log1[-3000:])
        return
    model_ok = ok2
    if not ok2:
        ctx.tie_broken("tie", "model extraction/driver build failed:\n" + log2[-3000:])

    # ---------------------------------------------------------------- tie (T): dispatch tables from the current source
    table_diff = None
    try:
        src_tab = sorted(set(L.tables_to_text(L.dispatch_tables()).strip().split("\n")))
    except Exception as e:  # anchor no longer found
        src_tab = None
        ctx.tie_broken("tie-tables", "cannot re-derive the dispatch tables from the source: %s" % e)
    if model_ok and src_tab is not None:
        rc, out = vf.sh([drv, "table"], timeout=60)
        mod_tab = sorted(set(out.strip().split("\n")))
        only_src = [x for x in src_tab if x not in mod_tab]
        only_mod = [x for x in mod_tab if x not in src_tab]
        if only_src or only_mod:
            table_diff = {"source_only": only_src, "model_only": only_mod}
            ctx.tie_broken("tie-tables", "constructor->arm table of the source differs from the model's: source has %s, model has %s" % (only_src[:8], only_mod[:8]))
        cov["translator_table_rows"] = len(src_tab)

    # ---------------------------------------------------------------- exclusions from the current source
    try:
        lts, cfgs = lang_configs()
        ex = Excl(lts)
    except Exception as e:
        ctx.tie_broken("tie-exclusions", "cannot interpret crates/test/src/<lang>.rs: %s" % e)
        return

    # ---------------------------------------------------------------- worlds
    t0 = time.time()
    worlds = []   # (origin, name, text, corpus_test or None)
    cpath = os.path.join(vf.ROOT, "corpus", "C16.txt")
    if os.path.exists(cpath):
        for i, line in enumerate(open(cpath)):
            line = line.rstrip("\n")
            if line and not line.startswith("#"):
                worlds.append(("corpus", "corpus/C16.txt:%d" % (i + 1), line.replace("\x1f", "\n").replace("\\n", "\n"), None))
    for k, (site, text) in enumerate(REFUTATION_WORLDS):
        worlds.append(("witness", "witness:" + site, text, None))
    for name, text in W.directed_worlds():
        worlds.append(("directed", name, text, None))
    for name, text, path in ex.corpus:
        if os.path.isdir(path):
            continue   # multi-file packages need push_path; the single-file tests are the corpus here
        worlds.append(("codegen", name, text, (name, text)))
    rws, rej = witgen.gen_valid_worlds(ctx.rng.fork(16), n_random, W.random_opts)
    for i, w in enumerate(rws):
        worlds.append(("random", "random:%d" % i, w.text, None))
    mark("world_generation")
    valid = run_mode(exe, "valid", [("", "", None, t) for _, _, t, _ in worlds])
    mark("validity_filter")
    n_invalid = {}
    kept = []
    for w, v in zip(worlds, valid):
        if v == "ok":
            kept.append(w)
        else:
            n_invalid[w[0]] = n_invalid.get(w[0], 0) + 1
            if w[0] in ("witness", "corpus"):
                ctx.tie_broken("tie", "committed world %s is no longer a valid WIT world: %s" % (w[1], v))
    worlds = kept
    feats = [L.wit_features(t) for _, _, t, _ in worlds]

    # ---------------------------------------------------------------- tie (K): model vs real Markdown
    dumps = run_mode(exe, "mddump", [("markdown", "", None, t) for _, _, t, _ in worlds])
    md_real = run_mode(exe, "gen", [("markdown", "", None, t) for _, _, t, _ in worlds])
    mark("mddump_and_real_markdown")
    covset, mism, n_model_panic, shape0, site_hist = set(), [], 0, 0, {}
    if model_ok:
        idx = [i for i, d in enumerate(dumps) if d.startswith("ok ")]
        mouts = vf.run_filter([drv, "run"], [dumps[i][3:] for i in idx])
        for i, mo in zip(idx, mouts):
            covset |= W.coverage(dumps[i][3:])
            kind, detail = parse_outcome("markdown", md_real[i])
            m = re.match(r"(done|panic (\S+)) shape=(\d) known=(\d)$", mo)
            if not m:
                mism.append((worlds[i][1], "model output " + mo, md_real[i][:200])); continue
            if m.group(3) != "1":
                shape0 += 1
                mism.append((worlds[i][1], "wit-parser produced a type shape the theorems exclude (shape=0)", dumps[i][:300]))
            if m.group(1) == "done":
                if kind != "ok":
                    mism.append((worlds[i][1], "model: done", "real: %s %s" % (kind, detail)))
                if m.group(4) != "0":
                    mism.append((worlds[i][1], "model: done but world_known=1 (contradicts C16_md_generate_exact)", ""))
            else:
                n_model_panic += 1
                site = m.group(2)
                site_hist[site] = site_hist.get(site, 0) + 1
                f, fn, frag = SITE_WHERE[site]
                if kind != "panic" or not (detail[0].startswith("markdown:%s:%s:" % (f, fn)) and frag in detail[0]):
                    mism.append((worlds[i][1], "model: panic " + site, "real: %s %s" % (kind, detail if kind != "panic" else detail[0])))
                if m.group(4) != "1":
                    mism.append((worlds[i][1], "model: panic but world_known=0 (contradicts C16_md_partial)", ""))
        bad_dump = [(worlds[i][1], d) for i, d in enumerate(dumps) if not d.startswith("ok ")]
        if bad_dump:
            mism.append((bad_dump[0][0], "mddump failed", bad_dump[0][1][:200]))
        # the four Coq witnesses must panic on the real code at the site their theorem names
        for i, w in enumerate(worlds):
            if w[0] == "witness":
                site = w[1].split(":", 1)[1]
                kind, detail = parse_outcome("markdown", md_real[i])
                f, fn, frag = SITE_WHERE[site]
                if not (kind == "panic" and detail[0].startswith("markdown:%s:%s:" % (f, fn)) and frag in detail[0]):
                    mism.append((w[1], "refutation witness no longer panics at " + site + " on the real code (defect fixed? move the known-findings entry to fixed: and drop the class from world_known)", md_real[i][:200]))
        if mism:
            ctx.tie_broken("tie", "Markdown model and real generator disagree on %d/%d worlds; first: %s" % (len(mism), len(worlds), mism[0]))

    mark("model_run_and_compare")
    # ---------------------------------------------------------------- differential leg on the real generators
    cases, meta = [], []
    for wi, (origin, name, text, test) in enumerate(worlds):
        for (lang, kind, args, xkind) in cfgs:
            if quick:
                # quick tier: every world under every backend's default options; the option variants on the corpus, the
                # witnesses, every 5th directed world and (crates/test's own variants only) the random worlds
                if kind.startswith("x-") and origin == "random":
                    continue
                if kind != "" and origin == "directed" and wi % 5 != 0:
                    continue
            cases.append((lang, " ".join(args), None, text))
            meta.append((wi, lang, kind, xkind))
    outs = run_mode(exe, "gen", cases)
    mark("differential_generation")
    per = {}          # lang -> counters
    classes = {}      # key -> dict(count, smallest example, excluded count)
    opt_err = []
    for (wi, lang, kind, xkind), c, o in zip(meta, cases, outs):
        origin, name, text, test = worlds[wi]
        p = per.setdefault(lang, {"runs": 0, "ok": 0, "err": 0, "panic_declared_unsupported": 0, "panic_in_scope": 0})
        p["runs"] += 1
        k, d = parse_outcome(lang, o)
        if k == "ok":
            p["ok"] += 1
        elif k == "err":
            p["err"] += 1
            if "Usage:" in d or "unexpected argument" in d or "invalid value" in d:
                opt_err.append((lang, c[1], d[:200]))
        else:
            key, msg = d
            exc = ex.excluded(lang, xkind, feats[wi], test)
            cl = classes.setdefault(key, {"lang": lang, "n_in_scope": 0, "n_declared": 0, "msg": msg[:160], "example": None})
            if exc:
                p["panic_declared_unsupported"] += 1
                cl["n_declared"] += 1
            else:
                p["panic_in_scope"] += 1
                cl["n_in_scope"] += 1
                e = cl["example"]
                if e is None or len(text) < len(e["wit"]):
                    cl["example"] = {"lang": lang, "opts": c[1], "variant": kind, "xkind": xkind, "wit": text, "world": name, "features": sorted(feats[wi])}
    if opt_err:
        ctx.tie_broken("machinery", "an option variant is rejected by the generator's own option parser: %s" % (opt_err[0],))
    n_viol = 0
    for key in sorted(classes):
        cl = classes[key]
        if not cl["n_in_scope"]:
            continue
        e = cl["example"]
        known = ctx.known.is_known(ctx.prop, key)
        if not known and n_viol < 12:      # shrink only what is going to be reported as new
            e = dict(e)
            e["original_wit"] = e["wit"]
            e["wit"] = shrink_world(exe, e["lang"], e["opts"], e["wit"], key)
        n_viol += 0 if known else 1
        ctx.violation(key, "%s generator panics (%s) on a valid world outside the features %s declares unsupported; %d runs in this class. World:\n%s"
                      % (cl["lang"], cl["msg"], cl["lang"], cl["n_in_scope"], e["wit"]),
                      {"engine": "gen", "lang": e["lang"], "opts": e["opts"], "wit": e["wit"], "key": key, "variant": e["variant"], "xkind": e["xkind"]})

    mark("classification_and_shrinking")
    # ---------------------------------------------------------------- evidence
    positions = sorted({c.split(":")[0] for c in covset})
    ctors = sorted({c.split(":")[1] for c in covset})
    origin_hist = {}
    for w in worlds:
        origin_hist[w[0]] = origin_hist.get(w[0], 0) + 1
    feat_hist = {}
    for f in feats:
        for x in f:
            feat_hist[x] = feat_hist.get(x, 0) + 1
    distinct = len({(c[0], c[1], c[3]) for c in cases})
    cov.update({
        "evaluations": len(cases) + len(worlds),
        "distinct_nontrivial": distinct,
        "rule": "one evaluation = one (backend, option variant, valid world) generation under catch_unwind (differential part) or one world through model+real Markdown (tie); distinct = distinct (backend, options, WIT text); every world has at least one type-bearing item, so every run exercises type dispatch",
        "samples": [{"backend": c[0], "opts": c[1], "wit": c[3][:400], "outcome": o[:120].replace("\x1e", " | ")} for c, o in list(zip(cases, outs))[:2]]
                   + [{"backend": cl["lang"], "class": k, "in_scope": cl["n_in_scope"], "declared_unsupported": cl["n_declared"]} for k, cl in list(sorted(classes.items()))[:3]],
        "traces_validated_against_impl": len(worlds) if model_ok else 0,
        "model_mismatches": len(mism),
        "explanation": "PROVED (Coq, closed under the global context): exact characterisation of the worlds on which the Markdown generator's type dispatch and the shared wit_bindgen_core dispatch (define_type, generate) finish without a panic; partial totality C16_md_partial over everything wit-parser can produce minus the registered classes; refutation witnesses for each class; for every generator g, define_type g (alias of a handle) panics. The model is tied to the source by re-deriving the constructor->arm tables from the current text (%d rows) and by running model and real Markdown side by side on %d worlds. DIFFERENTIAL ONLY (not proved): the statement for the 8 whole generators (about 25k lines of emitters) — %d generations under catch_unwind over %d (backend, option variant) configurations, exclusions recomputed from crates/test/src on this run." % (cov.get("translator_table_rows", 0), len(worlds), len(cases), len(cfgs)),
        "proved_part": {"theorems": THEOREMS, "tie_tables_equal": table_diff is None and src_tab is not None, "tie_table_diff": table_diff,
                        "correspondence_worlds": len(worlds), "model_predicted_panics": n_model_panic, "model_panic_sites": site_hist,
                        "worlds_outside_theorem_shape": shape0},
        "differential_part": {"configurations": ["%s[%s] %s" % (l, k or "default", " ".join(a)) for l, k, a, _ in cfgs],
                              "per_backend": per,
                              "panic_classes": {k: {"in_scope": c["n_in_scope"], "declared_unsupported": c["n_declared"], "message": c["msg"],
                                                    "known": ctx.known.is_known(ctx.prop, k)} for k, c in sorted(classes.items())},
                              "declared_unsupported": {l: {(k or "default"): sorted(v) for k, v in ex.by_name[l].items()} for l in L.LANGS},
                              "exclusion_derivation": {l: [list(r) for r in ex.rows[l]] for l in L.LANGS},
                              "should_fail_verify": {l: getattr(lts[l], "should_fail_text", "(none)") for l in L.LANGS}},
        "distribution": {"worlds_by_origin": origin_hist, "invalid_dropped_by_origin": n_invalid, "witgen_rejected_by_wit_parser": rej,
                         "worlds_with_feature": feat_hist, "positions_covered": positions, "constructors_covered": ctors,
                         "position_x_constructor_pairs": len(covset), "legs_wall_s": round(time.time() - t0, 1), "phase_wall_s": timing},
    })


def replay(ctx, path):
    obj = json.load(open(path))
    r = obj["replay"]
    ok1, exe, log1 = vf.cargo_build("detnp")
    if not ok1:
        print(log1[-2000:]); return 1
    v = run_mode(exe, "valid", [("", "", None, r["wit"])], shards=1)[0]
    o = run_mode(exe, "gen", [(r["lang"], r["opts"], None, r["wit"])], shards=1)[0]
    k, d = parse_outcome(r["lang"], o)
    print("backend:", r["lang"], "options:", r["opts"]); print(r["wit"]); print("valid world:", v)
    if k == "panic":
        lts, _ = lang_configs()
        exc = Excl(lts).excluded(r["lang"], r.get("xkind", ""), L.wit_features(r["wit"]))
        print("outcome: PANIC", d[0]); print("message:", d[1][:300]); print("declared unsupported for this backend:", exc)
        return 0 if (exc or v != "ok") else 1
    print("outcome:", k, d[:200]); print("verdict: no panic on this input")
    return 0


META = {
    "engine": "coq+genlib",
    "technique": "Coq proof about a model of the Markdown type dispatch and the shared core dispatch (exact characterisation, partial totality, refutation witnesses) + translator tie (arm tables re-derived from source) + model/real correspondence run; whole-generator statement by differential execution of all 8 generators under catch_unwind",
    "text": "Proved: on every world wit-parser can produce, Markdown's print_ty/define_type/generate traversal panics iff the world contains an anonymous fixed-length list, a named future/stream alias or a named handle alias (exact, with witnesses); core define_type panics on a handle alias for EVERY backend. Differential only: each of the 8 generators x option variants on directed (every constructor x every position), random and corpus worlds, minus exactly the features crates/test declares unsupported.",
    "note": "Trusted: Coq kernel; extraction + ocaml/mdtotal_driver.ml; harness detnp (mddump unfolding, panic hook); regex scanner of match arms in lib/c16_lib.py; wit-parser/wit-component/wasmparser as the definition of a valid world. The 8 whole generators are NOT modelled: their part of the statement rests on the differential leg.",
}
