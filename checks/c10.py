"""C10 — C guest bindings carry every value across the boundary unchanged.

LEVEL translation_validation (DESIGN.md "C10 / C11"): the generated C (crates/c) is compiled NATIVELY (clang, x86-64) and
run against the Coq canonical-ABI specification (Canon/Spec.v, extracted, pw = 8) acting as the independent
component-model host.  Proved part: Props/C10.v (the C data representation the backend relies on when it hands list
buffers to the host without re-encoding them coincides with the canonical layout, for every type and both pointer
widths) + the shared-generator theorems of Props/C01-C04 it names as dependencies.  Validated part: every FunctionBindgen
emit arm of crates/c/src/lib.rs, by differential runs (lib/genrun_c.py)."""
import json, os, re, time
import vf, witgen
import genrun_c as G

LEVEL = "translation_validation"
READY = True
PROP = "C10"
TARGETS = ["theories/Props/C10.vo"]
THEOREMS = ["C10_c_layout_is_canonical", "C10_c_field_offsets_are_canonical", "C10_c_payload_offset_is_canonical",
            "C10_wide_flags_layout_refuted"]


def RUNTAG(ctx):
    """scratch directory under build/genrun_c; distinct per repository under test so that runs against a mutated
    worktree (VERIF_REPO) do not collide with a run against /repo"""
    import hashlib
    return "c10-%s-%d-%s" % (ctx.tier, ctx.seed, hashlib.sha256(os.path.realpath(vf.REPO).encode()).hexdigest()[:6])


# ------------------------------------------------------------------------------------------------ source ties
def source_exclusions():
    """What crates/test/src/c.rs itself declares unsupported for the C backend (should_fail_verify) and which option
    sets its codegen tests exercise (codegen_test_variants).  Parsed on every run."""
    txt = open(os.path.join(vf.REPO, "crates/test/src/c.rs")).read()
    m = re.search(r"fn should_fail_verify\(.*?\)\s*->\s*bool\s*\{(.*?)\n    \}", txt, re.S)
    body = m.group(1) if m else ""
    excl, notes = set(), []
    if "error_context" in body:
        excl.add("errctx")
    for n in re.findall(r'starts_with\("([^"]+)"\)', body):
        if "fixed-length-list" in n:
            excl.add("fixed")
        notes.append(n)
    terms = [t.strip() for t in re.split(r"\|\|", body) if t.strip()]
    unknown = [t for t in terms if "error_context" not in t and "fixed-length-list" not in t]
    variants = re.findall(r'\("([a-z0-9-]+)",\s*&\[([^\]]*)\]\)', txt)
    opts = {n: re.findall(r'"([^"]+)"', a) for n, a in variants}
    return excl, {"should_fail_verify": " || ".join(terms), "unrecognised_terms": unknown, "codegen_test_variants": opts}


def flags_limit_source():
    """flags with more than 32 members cannot occur in a component: wasmparser (the validator wit-component runs)
    rejects them.  Read from the vendored dependency so the exclusion is tied to source, not to memory."""
    base = os.path.expanduser("~/.cargo/registry/src")
    try:
        for d in os.listdir(base):
            for c in sorted(os.listdir(os.path.join(base, d))):
                if c.startswith("wasmparser-"):
                    p = os.path.join(base, d, c, "src/validator/component.rs")
                    if os.path.exists(p) and "cannot have more than 32 flags" in open(p).read():
                        return c
    except OSError:
        pass
    return None


def configs(variants):
    """{default, --no-sig-flattening, --autodrop-borrows=yes} x {utf8, utf16}; option spellings from crates/test/src/c.rs"""
    nsf = " ".join(variants.get("no-sig-flattening", ["--no-sig-flattening"]))
    ad = " ".join(variants.get("autodrop", ["--autodrop-borrows=yes"]))
    out = []
    for n, wds in (("default", ""), ("no-sig-flattening", nsf), ("autodrop", ad)):
        out.append((n + "+utf8", wds))
        out.append((n + "+utf16", (wds + " --string-encoding utf16").strip()))
    return out


# ------------------------------------------------------------------------------------------------ worlds
FEATURES = ["resources", "maps", "futures", "streams", "fixed", "errctx"]


def gen_worlds(rng, n, excluded):
    feats = [f for f in FEATURES if f not in excluded]

    def mk(r, i):
        fs = [f for f in feats if r.chance(1, 2)]
        if "resources" in feats and r.chance(1, 2) and "resources" not in fs:
            fs.append("resources")
        return witgen.Opts(features=fs, docs=False, adversarial=r.chance(1, 3), big_sigs=r.chance(1, 3),
                           inline_ifaces=r.chance(1, 3), max_depth=r.choice([2, 3, 3]), n_funcs=(1, 3), n_types=(0, 5))
    ws, rej = witgen.gen_valid_worlds(rng, n, mk)
    return ws, rej


def corpus_cases():
    p = os.path.join(vf.ROOT, "corpus", "C10.txt")
    out = []
    if os.path.exists(p):
        for l in open(p):
            l = l.strip()
            if l and not l.startswith("#"):
                out.append(json.loads(l))
    return out


# ------------------------------------------------------------------------------------------------ judging
def sig_shape(fn):
    return "(%s)->%s" % (" ".join(G.oracle_ty(t) for _, t in fn.params), G.oracle_ty(fn.result) if fn.result is not None else "_")


def violations_of(u):
    """[(key, what, call or None)] for one analysed unit"""
    out = []
    if u.status != "ran":
        return out
    for c in u.calls:
        if not c.obs.get("reached_end"):
            # the program died in (or before) this call: the first incomplete call is the one that crashed
            out.append(("c10:crash:%s:%s" % (c.fn.dir, sig_shape(c.fn)),
                        "native run aborted (rc=%s) during call %d %s; stderr: %s" % (u.rc, c.k, c.fn.label(), (u.stderr or "")[-600:]), c))
            break
        for ph, line in c.obs.get("sanitizer", []):
            kind = re.sub(r"0x[0-9a-f]+|\d+", "N", line.split("runtime error:")[-1] if "runtime error:" in line else line.split("AddressSanitizer:")[-1])[:80].strip()
            out.append(("c10:sanitizer:%s:%s" % (c.fn.dir, kind.replace(" ", "-")),
                        "sanitizer report during phase %s of %s [%s]: %s" % (ph, c.fn.label(), u.cfg_words or "default", line), c))
        for what, exp, got in G.judge_values(u, c):
            cls = "arg" if "argument" in what else "result"
            out.append(("c10:%s-%s:%s" % (c.fn.dir, cls, sig_shape(c.fn)),
                        "%s in %s [%s]: expected %s, observed %s" % (what, c.fn.label(), u.cfg_words or "default", str(exp)[:600], str(got)[:600]), c))
    return out


def run(ctx):
    quick = ctx.tier == "quick"
    t0 = time.time()
    excl, src = source_exclusions()
    flags_src = flags_limit_source()
    cfgs = configs(src["codegen_test_variants"])
    ctx.assumptions += [
        "host = Coq canonical-ABI specification (Canon/Spec.v extracted to OCaml, pw = 8); pw = 4 is reachable only at instruction level (C01-C04): no wasm engine / 32-bit execution in this sandbox",
        "generated <world>.c/.h are compiled unmodified by clang for x86-64; only malloc/realloc/free are renamed (gr_prelude.h) and the wasm-only *_component_type.o is not linked",
        "strings are code-unit sequences (UTF-8 bytes / UTF-16 units); no transcoding or validation is modelled; floats are bit patterns",
        "excluded because crates/test/src/c.rs declares them unsupported: %s (%s)" % (sorted(excl), src["should_fail_verify"]),
        "excluded: flags with more than 32 members (rejected by %s, so no component host can see them); lists of borrows of an exported resource (a C pointer: 8 bytes natively, 4 on wasm32); async functions" % (flags_src or "wasmparser [source not found]"),
    ]
    if src["unrecognised_terms"]:
        ctx.tie_broken("tie", "crates/test/src/c.rs should_fail_verify has terms this check does not understand: %s" % src["unrecognised_terms"])
    if flags_src is None:
        ctx.notes.append("could not re-read wasmparser's 32-flag limit from the cargo registry")
    proof_ok = ctx.proof_leg(TARGETS, ["Props.C10"], THEOREMS)

    nworlds = 10 if quick else 150
    calls_per_func = 3
    worlds, rejected = gen_worlds(ctx.rng, nworlds, excl)
    units = []
    for i, c in enumerate(corpus_cases()):
        units.append(G.unit_from_replay(c, uid="corpus%d" % i))
    ncorpus = len(units)
    for i, w in enumerate(worlds):
        for n, wds in cfgs:
            units.append(G.Unit("w%d" % i, w.text, w.world, n, wds, ctx.seed))
    try:
        stats = G.run_batch(units, tier_asan=not quick, calls_per_func=calls_per_func, max_calls=40 if quick else 80,
                            tag=RUNTAG(ctx))
    except RuntimeError as e:
        ctx.tie_broken("tie", str(e)[-3000:])
        return
    # tie of the proved part: Core/CLayout.v (evaluated by coqc) vs sizeof/_Alignof of the generated typedefs under clang
    nlay, badlay, _ = G.check_layout_model(units, RUNTAG(ctx))
    if badlay:
        ctx.tie_broken("tie", "Core/CLayout.v disagrees with the generated header on %d types; first: %s" % (len(badlay), badlay[0]))
    status = {}
    kinds, dirs, cfg_hist, skipped = {}, {}, {}, {}
    ncalls = 0
    distinct = set()
    samples = []
    viol = []
    for u in units:
        status[u.status] = status.get(u.status, 0) + 1
        if u.status in ("tie", "build-fail-generated", "build-fail-test", "link-fail"):
            ctx.tie_broken("tie", "%s: %s\n%s\nworld:\n%s" % (u.key(), u.status, u.detail[-1500:], u.wit[:3000]))
        for lab, why in u.skipped:
            skipped[why.split(" (")[0]] = skipped.get(why.split(" (")[0], 0) + 1
        if u.status != "ran":
            continue
        cfg_hist[u.cfg_name] = cfg_hist.get(u.cfg_name, 0) + 1
        for c in u.calls:
            if not c.obs.get("reached_end"):
                continue
            ncalls += 1
            dirs[c.fn.dir] = dirs.get(c.fn.dir, 0) + 1
            ts = [t for _, t in c.fn.params] + ([c.fn.result] if c.fn.result is not None else [])
            nontrivial = False
            for t in ts:
                for s in G.subtypes(t):
                    kinds[s["k"]] = kinds.get(s["k"], 0) + 1
                    nontrivial = True
            if nontrivial:
                distinct.add((c.fn.dir, u.cfg_words, sig_shape(c.fn), c.args_s, c.ret_s))
            if len(samples) < 4 and nontrivial and c.k % 7 == 3:
                samples.append({"unit": u.key(), "options": u.cfg_words, "function": c.fn.label(), "signature": sig_shape(c.fn),
                                "args": c.args_s[:300], "result": (c.ret_s or "")[:300]})
        viol += [(u, v) for v in violations_of(u)]
    nran = status.get("ran", 0)
    if nran * 2 < len(units):
        bad = [(u.key(), u.status, u.detail[:200]) for u in units if u.status != "ran"][:3]
        ctx.tie_broken("tie", "only %d of %d (world, options) units could be generated, built and run; e.g. %s" % (nran, len(units), bad))
    # report: one violation per key, minimised
    seen = set()
    for u, (key, what, c) in viol:
        if key in seen:
            continue
        seen.add(key)
        if ctx.known.is_known(PROP, key) or c is None:
            ctx.violation(key, what, G.replay_obj(u, [c] if c else None))
            continue
        def still(v, key=key):
            return any(k2 == key for k2, _, _ in violations_of(v))
        rep = G.shrink_case(u, c, still, RUNTAG(ctx) + "-shrink%d" % len(seen)) if len(seen) <= 4 else G.replay_obj(u, [c])
        ctx.violation(key, what, rep)
    ctx.coverage.update({
        "programs": status.get("ran", 0),
        "disagreements_checked": ncalls,
        "evaluations": ncalls,
        "distinct_nontrivial": len(distinct),
        "traces_validated_against_impl": ncalls,
        "rule": "random worlds (lib/witgen.py: records, variants incl. >256 cases, enums, flags, options, results, tuples, lists, maps, "
                "resources, futures/streams as handles; adversarial C-keyword names; >16-flat signatures) x option sets "
                "{default, --no-sig-flattening, --autodrop-borrows=yes} x {utf8, utf16}; per function %d oracle-drawn argument/result "
                "values (SPEC gen); every imported function is called through the generated wrapper and observed by the mock host, every "
                "exported function is entered through __wasm_export_* with oracle-lowered arguments.  A call counts as non-trivial when it "
                "carries at least one value leaf; distinct = distinct (direction, options, signature shape up to renaming, values)" % calls_per_func,
        "samples": samples or [{"note": "no sample selected"}],
        "distribution": {"units_by_status": status, "worlds": len(worlds), "worlds_rejected_by_wit_parser": rejected, "corpus_units": ncorpus,
                         "calls_by_direction": dirs, "type_nodes_by_kind": kinds, "units_run_by_option_set": cfg_hist,
                         "functions_not_judged": skipped, "engine_seconds": stats, "sanitizers": "ASan+UBSan" if not quick else "off (thorough tier only)"},
        "source_tie": src,
        "layout_model_comparisons": nlay, "layout_model_mismatches": len(badlay),
    })
    ctx.notes.append("validated part is differential (native runs against the Coq oracle); it is not a proof about crates/c/src/lib.rs")


def setup():
    ok, _, lg = vf.cargo_build("cdescribe")
    if not ok:
        vf.log(lg[-2000:])
    import abitie
    b = abitie.build()
    ok2, _, lg2 = G.build_rt(False)
    ok3, _ = vf.coq_make(TARGETS)
    return bool(ok and b[3] and ok2 and ok3)


def replay(ctx, path):
    obj = json.load(open(path))
    rep = obj["replay"]
    u = G.unit_from_replay(rep, uid="replay")
    G.run_batch([u], tag=RUNTAG(ctx) + "-replay")
    print("options:", u.cfg_words or "(default)")
    print("status:", u.status, u.detail[:500])
    vs = violations_of(u)
    for c in u.calls:
        print("call %d %s args=%s ret=%s" % (c.k, c.fn.label(), c.args_s[:200], (c.ret_s or "")[:200]))
    for k, w, _ in vs:
        print("VIOLATES:", k, "\n   ", w)
    if not vs:
        print("verdict: property holds on this case")
    want = obj.get("key")
    return 1 if (vs or u.status != "ran") else 0


META = {
    "engine": "coq+genrun",
    "technique": "translation validation: generated C compiled natively and run against the extracted Coq canonical-ABI specification as host; Coq proof that the C data representation equals the canonical layout",
    "text": "Every generated binding explored is executed: arguments lowered by the Coq specification enter __wasm_export_* and must reach the "
            "C implementation leaf for leaf (observation log), results and import arguments produced by the C code are lifted by the specification "
            "and must equal the intended values, for random worlds x {default, --no-sig-flattening, --autodrop-borrows=yes} x {utf8, utf16}. "
            "Proved (Coq, all types, pw in {4,8}): the C struct/union layout of the generated typedefs equals the canonical-ABI layout, which is "
            "what makes the backend's zero-copy list passing sound; C01-C04 cover the shared instruction stream.",
    "note": "Differential for crates/c/src/lib.rs emit arms (not a proof). Host = Spec.v at pw=8 only. Trusted: clang/x86-64 C semantics, lib/genrun_c.py "
            "(header parser, emitter, transcript judge), harness/genrun_c runtime, cdescribe (wit-parser as library).",
}
