"""C32 — The generate! macro tracks every WIT file it reads.
Proof (part): coq/theories/Props/C32.v about Core/MacroFiles.v (parse_source's branch logic over an abstract
walk; wit-parser's directory walk transcribed as walk_tree).
Tie + search (the weight of this check): for seeded crate layouts x invocation forms a probe crate is compiled
with the REAL proc-macro (rustc called with CARGO_MANIFEST_DIR = the layout, --emit=dep-info,metadata);
 * tracked = the prerequisites rustc wrote to the dep-info file (what cargo uses to decide on rebuilds),
 * opened  = the files of the layout the rustc process (with the proc-macro loaded into it) opened, from
             `strace -f -e trace=open,openat`,
search: opened must be a subset of tracked; tie: both sets must equal what the extracted Coq model predicts."""
import vf, os, json, re, shutil, hashlib, subprocess, concurrent.futures, time
import c32_lib as L

LEVEL = "other"
READY = True
TARGETS = ["theories/Props/C32.vo", "theories/Extract/ExMacroFiles.vo"]
THEOREMS = ["C32_tracked_is_union_of_walks", "C32_read_subset_tracked", "C32_path_field_is_parsed",
            "C32_tree_read_subset_tracked", "C32_wasm_dep_refuted"]
CORPUS = os.path.join(vf.ROOT, "corpus", "C32.txt")
TEMPLATE = os.path.join(vf.HARNESS, "macroprobe")
KEY_WASM = "macro:deps-wasm-package-not-tracked"


def workdir():
    tag = "main" if os.path.realpath(vf.REPO) == "/repo" else hashlib.sha256(os.path.realpath(vf.REPO).encode()).hexdigest()[:10]
    return os.path.join(vf.BUILD, "c32", tag)


def build_probe():
    """Instantiates the templates under build/c32/<tag>, builds probe + encoder with cargo (offline, own
    target dir).  -> (ok, info dict or log)"""
    wd = workdir()
    os.makedirs(wd, exist_ok=True)
    with vf.Lock("c32-" + os.path.basename(wd)):
        vf.sh(["rsync", "-a", "--delete", "--exclude", "target", "--exclude", "cases", "--exclude", "e2e", "--exclude", "Cargo.lock", TEMPLATE + "/", wd + "/"])
        for sub in ("probe", "encoder"):
            p = os.path.join(wd, sub, "Cargo.toml")
            t = open(p).read().replace('"/repo/', '"%s/' % os.path.realpath(vf.REPO))
            open(p, "w").write(t)
            lock = os.path.join(wd, sub, "Cargo.lock")
            if not os.path.exists(lock):
                shutil.copy(os.path.join(vf.REPO, "Cargo.lock"), lock)
        tdir = os.path.join(wd, "target")
        rc, out, err = vf.sh2(["cargo", "build", "--offline", "--message-format=json", "--target-dir", tdir],
                              cwd=os.path.join(wd, "probe"), timeout=3000)
        if rc != 0:
            return False, "probe build failed:\n" + err[-3000:]
        art = None
        for line in out.split("\n"):
            if line.startswith("{"):
                try:
                    o = json.loads(line)
                except Exception:
                    continue
                if o.get("reason") == "compiler-artifact" and o.get("target", {}).get("name") == "wit_bindgen":
                    fs = [f for f in o["filenames"] if f.endswith(".rmeta")] or [f for f in o["filenames"] if f.endswith(".rlib")]
                    if fs:
                        art = fs[0]
        if not art:
            return False, "no wit_bindgen artifact in cargo's output"
        rc, out = vf.sh(["cargo", "build", "--offline", "--target-dir", tdir], cwd=os.path.join(wd, "encoder"), timeout=3000)
        if rc != 0:
            return False, "encoder build failed:\n" + out[-3000:]
    return True, {"wd": wd, "rustc_args": ["-L", "dependency=" + os.path.join(tdir, "debug", "deps"), "--extern", "wit_bindgen=" + art],
                  "encoder": os.path.join(tdir, "debug", "c32encoder"), "target": tdir}


def build():
    ok0, clog = vf.coq_make(TARGETS)
    m = vf.ocaml_build("macrofiles_driver", ["macrofiles_model"], ["util.ml", "macrofiles_driver.ml"]) if ok0 else (False, None, clog)
    okp, info = build_probe()
    return m, okp, info


def setup():
    m, okp, info = build()
    if not m[0]: vf.log(m[2][-2000:])
    if not okp: vf.log(info)
    return m[0] and okp


def read_corpus():
    out = []
    if os.path.exists(CORPUS):
        for l in open(CORPUS):
            l = l.strip()
            if l and not l.startswith("#"):
                out.append(L.Layout.from_json(json.loads(l)))
    return out


def run_case(info, i, layout):
    """materialise + probe + model line.  -> dict"""
    root = os.path.join(info["wd"], "cases", "c%04d" % i)
    try:
        L.materialise(layout, root, info["encoder"])
    except Exception as e:
        return {"error": "materialise: %s" % e, "root": root}
    r = L.run_probe(root, info["rustc_args"])
    rroot = os.path.realpath(root)

    def inside(p):
        rp = os.path.realpath(p)
        rel = os.path.relpath(rp, rroot)
        return not rel.startswith("..") and rel.split(os.sep)[0] not in ("src", "out")
    r["tracked_rp"] = {os.path.realpath(p) for p in r["tracked"] if inside(p)}
    r["opened_rp"] = {os.path.realpath(p) for p in r["opened"] if inside(p) and os.path.isfile(p)}
    r["model_line"] = L.model_line(layout, root)
    r["root"] = root
    return r


def rel(paths, root):
    rroot = os.path.realpath(root)
    return sorted(os.path.relpath(p, rroot) for p in paths)


def judge(layout, r, model_out):
    """-> (search verdict or None, tie mismatch or None, facts)"""
    root = r["root"]
    kinds = {os.path.realpath(os.path.join(root, k)): v[0] for k, v in layout.files.items()}
    pred = L.parse_model(model_out, root)
    facts = {"form": layout.inv["form"], "macro_ok": r["ok"], "tracked": rel(r["tracked_rp"], root), "opened": rel(r["opened_rp"], root)}
    search = None
    tie = None
    if not r["ok"]:
        if pred is not None:
            tie = "the macro failed to expand but the model predicts tracked=%s; rustc said: %s" % (rel(pred[0], root), r["stderr"][-600:])
        return search, tie, facts
    untracked = r["opened_rp"] - r["tracked_rp"]
    if untracked:
        only_wasm = all(kinds.get(p) == "p" and os.path.basename(os.path.dirname(p)) == "deps" for p in untracked)
        key = KEY_WASM if only_wasm else "macro:%s:%s" % (layout.inv["form"], ",".join(rel(untracked, root)))
        search = (key, "generate!(%s): the proc-macro opened %s but the expansion records no build dependency on it (dep-info lists only %s): editing it does not trigger recompilation"
                  % (layout.inv["macro"], rel(untracked, root), rel(r["tracked_rp"], root)))
    if pred is None:
        tie = "the macro expanded (tracked=%s) but the model predicts an error" % rel(r["tracked_rp"], root)
    else:
        T, R, clean = pred
        if T != r["tracked_rp"]:
            tie = "tracked: real %s, model %s" % (rel(r["tracked_rp"], root), rel(T, root))
        elif R != r["opened_rp"]:
            tie = "read: real %s, model %s" % (rel(r["opened_rp"], root), rel(R, root))
        elif clean and untracked:
            tie = "model says deps_clean but the real run has untracked reads"
    return search, tie, facts


def shrink_layout(info, lay, m_exe, max_steps=14):
    """Drops files that must be ignored anyway (kind 'o') and unused symlinks while a non-known violation
    persists; returns the smaller layout."""
    def still_fails(cand):
        r = run_case(info, 9000, cand)
        if "error" in r:
            return False
        mo = vf.run_filter([m_exe], [r["model_line"]], shards=1)[0]
        s, _, _ = judge(cand, r, mo)
        return bool(s) and s[0] != KEY_WASM
    cur = lay
    steps = 0
    for rel_ in sorted(lay.files):
        if steps >= max_steps:
            break
        if lay.files[rel_][0] != "o":
            continue
        cand = L.Layout.from_json(json.loads(json.dumps(cur.to_json())))
        cand.files.pop(rel_, None)
        steps += 1
        if still_fails(cand):
            cur = cand
    return cur


def e2e_rebuild(info, layout, touch_rel, name):
    """End-to-end confirmation with cargo itself: build, touch one file, build again; -> True if cargo
    recompiled the crate after the touch."""
    root = os.path.join(info["wd"], "e2e", name)
    L.materialise(layout, root, info["encoder"])
    shutil.rmtree(os.path.join(root, "out"))
    t = open(os.path.join(info["wd"], "probe", "Cargo.toml")).read().replace('name = "c32probe"', 'name = "c32e2e_%s"' % name)
    open(os.path.join(root, "Cargo.toml"), "w").write(t)
    shutil.copy(os.path.join(info["wd"], "probe", "Cargo.lock"), os.path.join(root, "Cargo.lock"))
    with vf.Lock("c32-" + os.path.basename(info["wd"])):
        cmd = ["cargo", "build", "--offline", "-v", "--target-dir", info["target"]]
        rc, out = vf.sh(cmd, cwd=root, timeout=1200)
        if rc != 0:
            return None, out[-800:]
        p = os.path.join(root, touch_rel)
        now = time.time() + 5
        os.utime(p, (now, now), follow_symlinks=True)
        rc, out = vf.sh(cmd, cwd=root, timeout=1200)
    return ("Compiling c32e2e_%s" % name) in out, out[-400:]


def run(ctx):
    q = ctx.tier == "quick"
    n = 24 if q else 400
    ctx.assumptions += [
        "wit-parser (Resolve::push_path and what its PackageSourceMap reports) is outside the repository; in the abstract theorems it is an arbitrary function, in the tree theorems it is the transcription Core/MacroFiles.walk_tree of wit-parser 0.257 (src/resolve/fs.rs, SourceMap::push_dir), which this check compares with the real run on every case",
        "`tracked` is read from rustc's dep-info output for the probe crate (the file cargo consults to decide whether to recompile); `opened` from strace of the rustc process that hosts the proc-macro; files rustc opens itself for include_bytes! are tracked by construction, so they cannot mask an untracked read",
        "the probe is compiled by calling rustc directly with CARGO_MANIFEST_DIR set to the layout directory and the wit_bindgen artifact cargo built from the repository under test (the proc-macro is rebuilt by cargo whenever crates/guest-rust/macro or its dependencies change); a few cases are replayed end-to-end through cargo (touch a file, rebuild)",
        "layout generator, strace/dep-info parsers and ocaml/macrofiles_driver.ml are trusted glue; symbolic links are resolved (realpath) on both sides before sets are compared",
    ]
    proof_ok = ctx.proof_leg(["theories/Props/C32.vo"], ["Props.C32"], THEOREMS)
    m, okp, info = build()
    if not m[0]:
        ctx.tie_broken("tie", "model extraction/driver build failed:\n" + m[2][-3000:]); return
    if not okp:
        ctx.tie_broken("tie", "probe crate build against the working tree failed:\n" + str(info)[-3000:]); return
    corpus = read_corpus()
    layouts = corpus + [L.gen_case(ctx.rng.fork(i)) for i in range(n)]
    cases_dir = os.path.join(info["wd"], "cases")
    shutil.rmtree(cases_dir, ignore_errors=True)
    with concurrent.futures.ThreadPoolExecutor(max_workers=max(2, vf.NCPU // 2)) as ex:
        results = list(ex.map(lambda t: run_case(info, t[0], t[1]), enumerate(layouts)))
    bad = [r for r in results if "error" in r]
    if bad:
        ctx.tie_broken("machinery", "could not materialise %d layouts: %s" % (len(bad), bad[0]["error"])); return
    model_outs = vf.run_filter([m[1]], [r["model_line"] for r in results], shards=1)
    dist = {"forms": {}, "dep_forms": {}, "macro_failed": 0, "with_symlinks": 0, "tracked_files": 0, "opened_files": 0, "ignored_files_present": 0}
    nontrivial = set()
    ties = []
    seen_keys = set()
    samples = []
    first_wasm = None
    first_clean = None
    for i, (lay, r, mo) in enumerate(zip(layouts, results, model_outs)):
        search, tie, facts = judge(lay, r, mo)
        dist["forms"][lay.inv["form"]] = dist["forms"].get(lay.inv["form"], 0) + 1
        for f in lay.inv.get("dep_forms", []):
            dist["dep_forms"][f] = dist["dep_forms"].get(f, 0) + 1
        dist["macro_failed"] += 0 if r["ok"] else 1
        dist["with_symlinks"] += 1 if lay.links else 0
        dist["tracked_files"] += len(r["tracked_rp"]); dist["opened_files"] += len(r["opened_rp"])
        dist["ignored_files_present"] += sum(1 for v in lay.files.values() if v[0] == "o")
        if r["ok"] and len(r["tracked_rp"]) >= 2 and any(v[0] == "o" for v in lay.files.values()):
            nontrivial.add(vf.canon_hash(r["model_line"]))
        if tie:
            ties.append((i, lay, tie))
        if search:
            key, why = search
            if key == KEY_WASM and first_wasm is None:
                first_wasm = (lay, r)
            if key not in seen_keys and len(seen_keys) < 3:
                seen_keys.add(key)
                rep_lay = lay
                if key != KEY_WASM:
                    rep_lay = shrink_layout(info, lay, m[1])
                ctx.violation(key, why, {"engine": "macroprobe", "layout": rep_lay.to_json(), "real": facts})
        elif r["ok"] and first_clean is None and len(r["tracked_rp"]) >= 2:
            first_clean = (lay, r)
        if len(samples) < 3 and i >= len(corpus):
            samples.append({"macro": "generate!(%s)" % lay.inv["macro"], "files": sorted(lay.files), "links": lay.links,
                            "tracked": facts["tracked"], "opened": facts["opened"], "model": mo[:300]})
    # end-to-end through cargo: a tracked file triggers a rebuild; the untracked binary package does not
    e2e = {}
    if first_clean:
        lay, r = first_clean
        t = rel(r["tracked_rp"], r["root"])[-1]
        res, log = e2e_rebuild(info, lay, t, "tracked")
        e2e["touch_tracked_rebuilds"] = res
        if res is False:
            ctx.tie_broken("tie", "cargo did not rebuild after touching the tracked file %s: dep-info is not what cargo uses?\n%s" % (t, log))
    if first_wasm:
        lay, r = first_wasm
        t = rel(r["opened_rp"] - r["tracked_rp"], r["root"])[0]
        res, log = e2e_rebuild(info, lay, t, "wasm")
        e2e["touch_untracked_wasm_rebuilds"] = res
    if ties:
        i, lay, tie = ties[0]
        ctx.tie_broken("tie", "model and real macro disagree on %d/%d cases; first: generate!(%s) files=%s links=%s: %s"
                       % (len(ties), len(layouts), lay.inv["macro"], sorted(lay.files), lay.links, tie))
    ctx.coverage.update({
        "evaluations": len(layouts), "distinct_nontrivial": len(nontrivial),
        "rule": "seeded crate layouts (package directories with 0-2 extra interface files, deps/ with directory / single-file / .wat-as-text / binary .wasm / symlinked-directory packages, ignored files and sub-directories with non-WIT content, nested deps/, symlinked *.wit files, symlinked package roots, paths with spaces and ./ ../) x invocation forms (path, path list, single file, inline, inline with default wit/, inline+path in both orders, default, bare, `\"w\" in \"dir\"`). non-trivial = expansion succeeded, >= 2 tracked files and >= 1 file that must be ignored; distinct = distinct model encodings",
        "samples": samples, "traces_validated_against_impl": len(layouts), "model_mismatches": len(ties),
        "distribution": dist, "corpus_cases": len(corpus), "end_to_end_cargo": e2e,
        "explanation": "Proved in Coq (closed under the global context): for every branch of parse_source the tracked file list is exactly the union of what wit-parser reports for the parsed paths, the parsed paths are the given `path` entries (in either order relative to `inline`) or the default wit directory, and read is a subset of tracked whenever the walk reports all it reads (C32_tracked_is_union_of_walks, C32_read_subset_tracked, C32_path_field_is_parsed); on concrete trees with the transcribed wit-parser walk, read is a subset of tracked unless a parsed directory has a binary-encoded package directly in deps/ (C32_tree_read_subset_tracked), and that exception is real (C32_wasm_dep_refuted). Carried by differential evidence only: that the real proc-macro + wit-parser open exactly the files the model says and that rustc's dep-info lists exactly the model's tracked set, on %d layouts this run." % len(layouts),
    })


def replay(ctx, path):
    obj = json.load(open(path))
    lay = L.Layout.from_json(obj["replay"]["layout"])
    m, okp, info = build()
    if not (m[0] and okp):
        print(info if not okp else m[2][-2000:]); return 1
    r = run_case(info, 9999, lay)
    mo = vf.run_filter([m[1]], [r["model_line"]], shards=1)[0]
    search, tie, facts = judge(lay, r, mo)
    print("generate!(%s)" % lay.inv["macro"]); print("files:", sorted(lay.files)); print("links:", lay.links)
    print("tracked (dep-info):", facts["tracked"]); print("opened (strace):  ", facts["opened"]); print("model:", mo)
    print("verdict:", ("VIOLATED (%s): %s" % search) if search else "every opened file is tracked")
    return 1 if search else 0


META = {
    "engine": "coq+macroprobe",
    "technique": "Coq model of parse_source's branch logic and of wit-parser's directory walk with proved bookkeeping theorems; differential run of the real proc-macro (rustc dep-info vs strace of opened files) against the extracted model on seeded layouts x invocation forms; end-to-end cargo rebuild confirmation",
    "text": "For random crate layouts and every generate! invocation form, the files the proc-macro really opens (strace) are compared with the build dependencies the expansion records (rustc dep-info) and with the Coq model's prediction. Proved part: tracked = union of wit-parser's reported sources over the parsed paths in every branch. Known exception exhibited on the real code and proved on the model: a binary WIT package deps/*.wasm is read but not tracked.",
    "note": "LEVEL other: the subset property for the real macro is differential evidence per layout, not a proof. Trusted: wit-parser (modelled, tied), rustc dep-info semantics, strace, layout generator, ocaml/macrofiles_driver.ml. Print Assumptions: closed under the global context.",
}
