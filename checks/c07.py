"""C07 — Rust guest bindings keep resource and handle ownership exact.

Proof : coq/theories/Props/C07.v about the executable model Core/ResourceOwn.v (Rust `Resource<T>` with the u32::MAX "taken"
        sentinel, generated lift/lower of own/borrow, exported-resource new/get/into_inner/dtor with the Option<T> rep, against
        the Component Model handle table): for EVERY sequence of host and user operations within their contracts the guest is
        never trapped and never panics, every own handle is dropped or transferred exactly once, borrows release nothing they
        borrow and are all gone when an export returns, every box is destroyed exactly once and only by the destructor, every
        Rust value is destroyed or handed to the user exactly once.
Tie   : seeded host-chosen operation sequences run on the extracted model (ocaml/resown_driver.ml) and NATIVELY on the bindings
        the Rust generator emits for harness/genrun_rust/c07/res.wit (4 option sets) with a mock CM handle table
        (harness/genrun_rust/rt.rs); table, outstanding borrows, free-index stack, live boxes and event multiset compared after
        every activation.
Search: the property's own counting statement evaluated on the REAL event stream (+ allocator errors)."""
import json, os, re, time, concurrent.futures
import vf
import genrun_rust as G
import genrun_c07 as C7

LEVEL = "proof"
READY = True
TARGETS = ["theories/Props/C07.vo", "theories/Extract/ExResourceOwn.vo"]
THEOREMS = ["C07_no_trap_no_panic", "C07_ownership_invariant", "C07_borrows_release_nothing", "C07_quiescent"]


def build(tools):
    mods, errs = {}, []
    for i, op in enumerate(C7.optsets()):
        try:
            mods["r%d" % i] = C7.make_module(tools, op, "r%d" % i)
        except RuntimeError as e:
            errs.append(str(e))
    ws = G.Workspace(mods, ncrates=len(mods))
    ok, log = ws.build()
    ok0, clog = vf.coq_make(["theories/Extract/ExResourceOwn.vo"])
    ok2, mexe, mlog = vf.ocaml_build("resown_driver", ["resown_model"], ["util.ml", "resown_driver.ml"]) if ok0 else (False, None, clog)
    return ws, ok, log, errs, ok2, mexe, mlog


def setup():
    tools = G.Tools()
    if not tools.ok:
        vf.log(tools.log)
        return False
    ws, ok, log, errs, ok2, mexe, mlog = build(tools)
    if not ok:
        vf.log(log[-2000:])
    if not ok2:
        vf.log(mlog[-2000:])
    return ok and ok2 and not errs


def run_sequence(ws, mexe, mod, seq):
    """-> dict(mismatch=None|text, index, statement=[...], traps=[...], mem=[...], nacts, events)"""
    acts = C7.concretize(seq)
    res = {"mismatch": None, "index": None, "statement": [], "traps": [], "mem": [], "nacts": len(acts), "events": 0, "crash": None}
    if not acts:
        return res
    model = C7.model_run(mexe, acts)
    g = G.Guest(ws.exe_of(mod), env={"GENRUN_LOWMEM": "1"})
    nat = C7.Native(g, mod)
    allev, d = [], {}
    try:
        for i, (a, mo) in enumerate(zip(acts, model)):
            try:
                d, evs, notes, memerr = nat.run(a, None)
            except (G.GuestDied, RuntimeError) as e:
                res["crash"] = "activation %d (%s): %s" % (i, a["kind"], str(e)[-600:])
                res["index"] = i
                break
            allev += evs
            if memerr:
                res["mem"] += ["activation %d (%s): %s" % (i, a["kind"], G.ERRNAMES.get(e[1], "?")) for e in memerr]
            if notes:
                res["traps"].append("note:" + notes)
            diff = C7.compare(mo, d, evs)
            if diff and res["mismatch"] is None:
                res["mismatch"] = "after activation %d (%s: %s): %s" % (i, a["kind"], " ".join(a["model"]), diff)
                res["index"] = i
                break
    finally:
        g.close()
    res["events"] = len(allev)
    res["traps"] += [e for e in allev if e.startswith("trap:")]
    if res["crash"] is None:
        res["statement"] = C7.statement(allev, d)
    return res


def handles_leg(ctx, tools):
    """leg B: own/borrow handles of an imported resource inside random aggregate types, many option sets (see lib/genrun_c07.py).
    -> (list of (key, text, replay object), stats)"""
    import witgen
    quick = ctx.tier == "quick"
    nworlds, per, ncalls = (6, 2, 3) if quick else (60, 3, 4)
    rng = vf.Rng(ctx.seed ^ 0xc07b)
    fixed_rng = vf.Rng(0xc07b)
    worlds = []
    tries = 0
    while len(worlds) < nworlds and tries < 8:
        tries += 1
        batch = []
        for i in range(nworlds - len(worlds) + 3):
            # quick tier: two thirds of the worlds do not depend on the seed (their guest crates stay cached)
            r = fixed_rng if (quick and len(worlds) + i < 4) else rng
            idx = len(worlds) + i + 50 * tries
            w = witgen.gen_world(r.fork(idx), witgen.Opts(features=["fixed", "maps"], max_depth=2, n_ifaces=(1, 2), n_types=(1, 4), n_funcs=(2, 3), max_params=4,
                                                          package="hb%d:p" % idx))
            text = C7.inject_handles(r, w.text)
            if " r" in text.split("interface hres")[1].split("}", 1)[1]:
                batch.append((w.world, text))
        res = vf.run_filter([tools.corelib, "parse"], [witgen.encode_line(t) for _, t in batch])
        for (wn, t), ok in zip(batch, res):
            if ok.startswith("ok") and len(worlds) < nworlds and re.search(r"(<|: |\(|, )(borrow<r>|r)\b", t.split("interface hres")[1].split("}", 1)[1]):
                worlds.append((wn, t))
    specs = []
    for i, (wn, t) in enumerate(worlds):
        for j in range(per):
            op = G.OptSet(rng.choice(["owning", "borrowing"]) if j else ("owning" if i % 2 else "borrowing"), rng.chance(1, 2), rng.chance(1, 2), rng.chance(1, 2), False)
            if quick and i < 4:
                op = G.OptSet("owning" if (i + j) % 2 else "borrowing", j == 1, i % 2 == 0, (i + j) % 3 == 0, False)
            specs.append(("hb%do%d" % (i, j), t.replace("package hb", "package hb%dx" % j, 1) if False else t, wn, op, "handles"))
    # the same world under two option sets must not export the same symbols: the export prefix (module name) keeps them apart
    units = G.prepare_units(tools, specs, resources=True, max_src=250_000)
    ws, ok, log = G.build_units(units)
    stats = {"worlds": len(worlds), "modules": len([u for u in units if not u.skip]), "skipped": {}, "calls": 0, "handle_leaves": 0, "events": 0}
    for u in units:
        if u.skip:
            k = u.skip[:90]
            stats["skipped"][k] = stats["skipped"].get(k, 0) + 1
    out = []
    if not ok:
        out.append(("tie", "handle-leg guest crates do not build: " + log[-1500:], None))
        return out, stats
    seen = set()
    for u in units:
        if u.skip:
            continue
        o = G.Oracle(tools.oracle_exe)
        g = G.Guest(ws.exe_of(u.modname))
        R = G.Runner(o, g)
        vr = vf.Rng(int(__import__("hashlib").sha256(("%d|%s" % (ctx.seed, u.modname)).encode()).hexdigest()[:15], 16))
        try:
            for fm in u.funcs:
                tys = fm.params + ([fm.result] if fm.result else [])
                if not any(("own" in G.kinds_of(t) or "borrow" in G.kinds_of(t)) for t in tys):
                    continue
                for c in range(ncalls):
                    args = [G.gen_value(vr, t) for t in fm.params]
                    ret = G.gen_value(vr, fm.result) if fm.result else None
                    try:
                        F, exp, act, d, args2, ret2 = C7.handle_call(R, g, u.modname, fm, args, ret)
                    except G.GuestDied as e:
                        F, exp, act, d, args2, ret2 = [G.Finding("crash", "guest-died", str(e)[-500:], "crash")], [], [], {}, args, ret
                    stats["calls"] += 1
                    stats["handle_leaves"] += len([e for e in exp if e.startswith("newh")])
                    stats["events"] += len(act)
                    # value and heap findings of the general engine belong to C05/C06; here only crashes and handle leaves count
                    problems = [f.klass for f in F if f.cat == "crash" or f.klass.split(":")[-1].split("/")[-1] in ("own", "borrow")]
                    missing = [e for e in exp if exp.count(e) > act.count(e)]
                    extra = [e for e in act if act.count(e) > exp.count(e)]
                    if missing or extra:
                        e0 = (extra or missing)[0]
                        kind = e0.split(":")[0] + (":" + e0.split(":")[1] if e0.startswith("trap") else (":" + ("own" if e0.endswith(":1") else "borrow") if e0.startswith(("drop", "newh")) else ""))
                        problems.append("handles:%s-%s" % ("extra" if extra else "missing", kind))
                    if d.get("tbl") or d.get("need", "0") != "0":
                        problems.append("handles:table-not-empty-after-call")
                    for k in problems:
                        if k in seen:
                            continue
                        seen.add(k)
                        out.append(("rust:resource:" + k, "function %s of a world with injected handles, options %s: value/memory findings %s; handle events expected %s, real %s; table %r" % (
                            fm.key(), u.opt.tag(), [repr(f)[:200] for f in F][:2], exp, act, d.get("tbl")),
                            {"engine": "genrun-c07-handles", "wit": u.wit, "world": u.world, "options": u.opt.as_dict(), "function": fm.key(),
                             "args": [G.show(a) for a in args], "ret": G.show(ret) if ret is not None else None}))
                    if problems:
                        R.cleanup([])
        finally:
            g.close()
            o.close()
    return out, stats


def bad_class(res):
    """stable class of what went wrong on the REAL side (None if the real run satisfies the property)"""
    if res["crash"]:
        return "crash"
    if res["traps"]:
        t = res["traps"][0]
        return ":".join(t.split(":")[:2])
    if res["mem"]:
        return "allocator:" + res["mem"][0].split(": ")[-1].split(" (")[0].replace(" ", "-")[:40]
    if res["statement"]:
        return "ledger:" + re.sub(r"\d+", "N", res["statement"][0].split(":")[0]).replace(" ", "-")[:60]
    return None


def run(ctx):
    ctx.assumptions += [
        "model: AtomicU32 as a plain number (single-threaded wasm), Box<Option<T>> as an abstract cell; Rust's ownership discipline and the CM host protocol "
        "are the validity condition of operation lists (error class EApi), not something the model checks about user code",
        "tie: native x86-64 execution of the generated bindings for harness/genrun_rust/c07/res.wit; the guest heap is mapped below 2^32 (MAP_32BIT) so that "
        "`XBorrow::lift(arg as u32 as usize)` round-trips a pointer as it does on wasm32; the host table in rt.rs is a second transcription of the CM rules",
        "reading of 'borrowed handles are never dropped by the guest' (DESIGN.md C07): a borrow never destroys or transfers the owned handle and a borrow lent to an "
        "import is not released by the lender; the borrow handles an export receives for imported resources ARE dropped before it returns, as the canonical ABI requires",
    ]
    proof_ok = ctx.proof_leg(TARGETS, ["Props.C07"], THEOREMS)
    tools = G.Tools()
    if not tools.ok:
        ctx.tie_broken("tie", "tool build failed: " + tools.log)
        return
    ws, ok, log, errs, ok2, mexe, mlog = build(tools)
    if errs:
        ctx.tie_broken("tie", "generator failed on c07/res.wit: %s" % errs[:2])
        return
    if not ok:
        ctx.tie_broken("tie", "C07 guest crates do not build (generated code for c07/res.wit changed shape?):\n" + log[-3000:])
        return
    if ws.excluded:
        ctx.tie_broken("tie", "rustc rejects the C07 guest for option sets %s" % ws.excluded)
        return
    if not ok2:
        ctx.tie_broken("tie", "model extraction/driver build failed:\n" + mlog[-3000:])
        return
    quick = ctx.tier == "quick"
    nseq, nact = (10, 30) if quick else (150, 60)
    opts = C7.optsets()
    corpus = []
    cp = os.path.join(vf.ROOT, "corpus", "C07.txt")
    if os.path.exists(cp):
        corpus = [json.loads(l) for l in open(cp) if l.strip() and not l.startswith("#")]
    jobs = []
    for i in range(len(opts)):
        for c in corpus:
            jobs.append(("r%d" % i, c["seq"], "corpus"))
        rng = ctx.rng.fork(i + 1)
        for _ in range(nseq):
            jobs.append(("r%d" % i, C7.gen_symbolic(rng, nact), "random"))
    t0 = time.time()

    def one(job):
        return job, run_sequence(ws, mexe, job[0], job[1])
    with concurrent.futures.ThreadPoolExecutor(max_workers=min(vf.NCPU, 8)) as ex:
        results = list(ex.map(one, jobs))
    nacts = sum(r["nacts"] for _, r in results)
    kinds = {}
    distinct = set()
    for (m, seq, origin), r in results:
        for a in seq:
            kinds[a["kind"]] = kinds.get(a["kind"], 0) + 1
            for op in a.get("ops", []):
                kinds["script:" + op[0]] = kinds.get("script:" + op[0], 0) + 1
        if r["events"]:
            distinct.add(json.dumps(seq, sort_keys=True))
    mism = [(j, r) for j, r in results if r["mismatch"] or r["crash"]]
    real_bad = [(j, r) for j, r in results if bad_class(r)]
    seen = set()
    for (m, seq, origin), r in real_bad:
        k = bad_class(r)
        if k in seen:
            continue
        seen.add(k)
        opt = opts[int(m[1:])]
        small = vf.shrink_list(seq, lambda s_: bool(s_) and bad_class(run_sequence(ws, mexe, m, s_)) == k, max_steps=60 if len(seen) <= 3 else 8)
        rr = run_sequence(ws, mexe, m, small)
        ctx.violation("rust:resource:" + k, "%s | traps %s | ledger %s | allocator %s | crash %s" % (
            rr["mismatch"], rr["traps"][:3], rr["statement"][:3], rr["mem"][:2], rr["crash"]),
            {"engine": "genrun-c07", "options": opt.as_dict(), "seq": small, "model_ops": [" ".join(a["model"]) for a in C7.concretize(small)]})
    if mism and not real_bad:
        (m, seq, origin), r = mism[0]
        small = vf.shrink_list(seq, lambda s_: bool(s_) and bool(run_sequence(ws, mexe, m, s_)["mismatch"]), max_steps=60)
        rr = run_sequence(ws, mexe, m, small)
        ctx.tie_broken("tie", "model and real bindings disagree on %d/%d sequences (the real run satisfies the property's own statement on them); minimal: options %s, "
                              "model ops %s: %s" % (len(mism), len(results), opts[int(m[1:])].tag(), [" ".join(a["model"]) for a in C7.concretize(small)], rr["mismatch"]))
    sample = []
    for (m, seq, origin), r in results[:2]:
        sample.append({"options": opts[int(m[1:])].tag(), "model_ops": " ".join(" ".join(a["model"]) for a in C7.concretize(seq))[:600]})
    ctx.coverage.update({
        "evaluations": nacts, "distinct_nontrivial": len(distinct),
        "rule": "an evaluation = one activation (export call or host-side drop) after which the real host table / outstanding borrows / free-index stack / live boxes / "
                "event multiset were compared with the extracted model; a sequence is non-trivial if it produced at least one handle event; distinct = distinct symbolic sequences",
        "samples": sample, "traces_validated_against_impl": len(results), "model_mismatches": len(mism),
        "distribution": {"sequences": len(results), "activations": nacts, "option_sets": [o.tag() for o in opts], "corpus_sequences": len(corpus) * len(opts),
                         "operation_histogram": kinds, "real_side_violations": len(real_bad), "events_compared": sum(r["events"] for _, r in results),
                         "wall_run_s": round(time.time() - t0, 1)},
    })
    # ---- leg B: handles nested in aggregates, random worlds
    try:
        hv, hstats = handles_leg(ctx, tools)
    except Exception as e:
        import traceback
        ctx.tie_broken("tie", "handle leg crashed: %s\n%s" % (e, traceback.format_exc()[-1500:]))
        hv, hstats = [], {}
    for key, text, ro in hv:
        if ro is None:
            ctx.tie_broken(key, text)
        else:
            ctx.violation(key, text, ro)
    ctx.coverage["distribution"]["handles_in_aggregates_leg"] = hstats
    ctx.coverage["evaluations"] += hstats.get("calls", 0)
    G.prune_workspaces(keep=16)


def replay(ctx, path):
    obj = json.load(open(path))
    ro = obj["replay"]
    tools = G.Tools()
    if ro.get("engine") == "genrun-c07-handles":
        return replay_handles(tools, ro, ctx)
    ws, ok, log, errs, ok2, mexe, mlog = build(tools)
    if not (ok and ok2):
        print("build failed", log[-1500:], mlog[-500:])
        return 1
    want = G.OptSet.from_dict(ro["options"]).tag()
    m = [i for i, o in enumerate(C7.optsets()) if o.tag() == want]
    mod = "r%d" % (m[0] if m else 0)
    r = run_sequence(ws, mexe, mod, ro["seq"])
    print("model ops:", [" ".join(a["model"]) for a in C7.concretize(ro["seq"])])
    print("model/real mismatch:", r["mismatch"])
    print("traps:", r["traps"], "ledger:", r["statement"], "allocator:", r["mem"], "crash:", r["crash"])
    k = bad_class(r)
    print("verdict:", ("property violated on this sequence: " + k) if k else "property holds on this sequence")
    return 1 if k else 0


def replay_handles(tools, ro, ctx):
    opt = G.OptSet.from_dict(ro["options"])
    units = G.prepare_units(tools, [("hbr0", ro["wit"], ro["world"], opt, "handles")], resources=True)
    u = units[0]
    if u.skip:
        print("cannot prepare:", u.skip)
        return 1
    ws, ok, log = G.build_units(units, ncrates=1)
    if not ok or u.skip:
        print("cannot build:", u.skip or log[-1500:])
        return 1
    o = G.Oracle(tools.oracle_exe)
    g = G.Guest(ws.exe_of("hbr0"))
    R = G.Runner(o, g)
    bad = 0
    try:
        for fm in u.funcs:
            if fm.key() != ro["function"]:
                continue
            args = [G.parse_value(a) for a in ro["args"]]
            ret = G.parse_value(ro["ret"]) if ro.get("ret") is not None else None
            F, exp, act, d, _, _ = C7.handle_call(R, g, "hbr0", fm, args, ret)
            print("findings:", F)
            print("expected events:", exp)
            print("real events    :", act, "table:", d.get("tbl"))
            bad = 1 if (F or exp != act or d.get("tbl")) else 0
    finally:
        g.close()
        o.close()
    print("verdict:", "property violated on this input" if bad else "property holds on this input")
    return bad


META = {
    "engine": "coq+genrun",
    "technique": "Coq invariant proof by induction over arbitrary operation sequences of an executable model of Resource<T>/exported-resource glue against the CM handle "
                 "table; differential correspondence of the model with natively executed generated bindings; the property's counting statement evaluated on the real events",
    "text": "Unbounded theorems over all operation lists (create / lower-own / lower-borrow / lift-own / lift-borrow / drop / new / get / into_inner / host-drop): no host "
            "trap, no guest panic, handle-table/wrapper bijection, own handles dropped-or-transferred exactly once, borrow handles all dropped at export return and never "
            "releasing their owner, boxes destroyed exactly once and only by the destructor, values destroyed-or-handed-over exactly once. The model is tied on every run to "
            "the code the Rust generator emits now by executing host-chosen operation sequences natively against a mock CM host and comparing after every activation.",
    "note": "Trusted: Coq kernel; extraction + ocaml/resown_driver.ml; harness/genrun_rust/rt.rs (mock handle table, allocator), c07/guest.rs (interpreter over the generated "
            "API), lib/genrun_c07.py. One fixed world (c07/res.wit) × 4 generator option sets; nested-aggregate handle positions beyond list/option are not exercised here.",
}
