"""C07 — Rust guest bindings keep resource and handle ownership exact.

Proof : coq/theories/Props/C07.v about the executable model Core/ResourceOwn.v (Rust `Resource<T>` with the u32::MAX "taken"
        sentinel, generated lift/lower of own/borrow, exported-resource new/get/into_inner/dtor with the Option<T> rep, against
        the Component Model handle table): for EVERY sequence of host and user operations within their contracts the guest is
        never trapped and never panics, every own handle is dropped or transferred exactly once, borrows release nothing they
        borrow and are all gone when an export returns, every box is destroyed exactly once and only by the destructor, every
        Rust value is destroyed or handed to the user exactly once.
Tie   : seeded host-chosen operation sequences run on the extracted model (ocaml/resown_driver.ml) and NATIVELY on the bindings
        the Rust generator emits for harness/genrun_rust/c07/res.wit (4 option sets) with a mock CM handle table
        (harness/genrun_rust/rt.rs); table, outstanding borrows, free-index stack, live boxes and event multiset compared after
        every activation.
Search: the property's own counting statement evaluated on the REAL event stream (+ allocator errors)."""
import json, os, time, concurrent.futures
import vf
import genrun_rust as G
import genrun_c07 as C7

LEVEL = "proof"
READY = True
TARGETS = ["theories/Props/C07.vo", "theories/Extract/ExResourceOwn.vo"]
THEOREMS = ["C07_no_trap_no_panic", "C07_ownership_invariant", "C07_borrows_release_nothing", "C07_quiescent"]


def build(tools):
    mods, errs = {}, []
    for i, op in enumerate(C7.optsets()):
        try:
            mods["r%d" % i] = C7.make_module(tools, op, "r%d" % i)
        except RuntimeError as e:
            errs.append(str(e))
    ws = G.Workspace(mods, ncrates=len(mods))
    ok, log = ws.build()
    ok0, clog = vf.coq_make(["theories/Extract/ExResourceOwn.vo"])
    ok2, mexe, mlog = vf.ocaml_build("resown_driver", ["resown_model"], ["util.ml", "resown_driver.ml"]) if ok0 else (False, None, clog)
    return ws, ok, log, errs, ok2, mexe, mlog


def setup():
    tools = G.Tools()
    if not tools.ok:
        vf.log(tools.log)
        return False
    ws, ok, log, errs, ok2, mexe, mlog = build(tools)
    if not ok:
        vf.log(log[-2000:])
    if not ok2:
        vf.log(mlog[-2000:])
    return ok and ok2 and not errs


def run_sequence(ws, mexe, mod, seq):
    """-> dict(mismatch=None|text, index, statement=[...], traps=[...], mem=[...], nacts, events)"""
    acts = C7.concretize(seq)
    res = {"mismatch": None, "index": None, "statement": [], "traps": [], "mem": [], "nacts": len(acts), "events": 0, "crash": None}
    if not acts:
        return res
    model = C7.model_run(mexe, acts)
    g = G.Guest(ws.exe_of(mod), env={"GENRUN_LOWMEM": "1"})
    nat = C7.Native(g, mod)
    allev, d = [], {}
    try:
        for i, (a, mo) in enumerate(zip(acts, model)):
            try:
                d, evs, notes, memerr = nat.run(a, None)
            except (G.GuestDied, RuntimeError) as e:
                res["crash"] = "activation %d (%s): %s" % (i, a["kind"], str(e)[-600:])
                res["index"] = i
                break
            allev += evs
            if memerr:
                res["mem"] += ["activation %d (%s): %s" % (i, a["kind"], G.ERRNAMES.get(e[1], "?")) for e in memerr]
            if notes:
                res["traps"].append("note:" + notes)
            diff = C7.compare(mo, d, evs)
            if diff and res["mismatch"] is None:
                res["mismatch"] = "after activation %d (%s: %s): %s" % (i, a["kind"], " ".join(a["model"]), diff)
                res["index"] = i
                break
    finally:
        g.close()
    res["events"] = len(allev)
    res["traps"] += [e for e in allev if e.startswith("trap:")]
    if res["crash"] is None:
        res["statement"] = C7.statement(allev, d)
    return res


def bad_class(res):
    """stable class of what went wrong on the REAL side (None if the real run satisfies the property)"""
    if res["crash"]:
        return "crash"
    if res["traps"]:
        t = res["traps"][0]
        return ":".join(t.split(":")[:2])
    if res["mem"]:
        return "allocator:" + res["mem"][0].split(": ")[-1].split(" (")[0].replace(" ", "-")[:40]
    if res["statement"]:
        return "ledger:" + res["statement"][0].split(":")[0].replace(" ", "-")
    return None


def run(ctx):
    ctx.assumptions += [
        "model: AtomicU32 as a plain number (single-threaded wasm), Box<Option<T>> as an abstract cell; Rust's ownership discipline and the CM host protocol "
        "are the validity condition of operation lists (error class EApi), not something the model checks about user code",
        "tie: native x86-64 execution of the generated bindings for harness/genrun_rust/c07/res.wit; the guest heap is mapped below 2^32 (MAP_32BIT) so that "
        "`XBorrow::lift(arg as u32 as usize)` round-trips a pointer as it does on wasm32; the host table in rt.rs is a second transcription of the CM rules",
        "reading of 'borrowed handles are never dropped by the guest' (DESIGN.md C07): a borrow never destroys or transfers the owned handle and a borrow lent to an "
        "import is not released by the lender; the borrow handles an export receives for imported resources ARE dropped before it returns, as the canonical ABI requires",
    ]
    proof_ok = ctx.proof_leg(TARGETS, ["Props.C07"], THEOREMS)
    tools = G.Tools()
    if not tools.ok:
        ctx.tie_broken("tie", "tool build failed: " + tools.log)
        return
    ws, ok, log, errs, ok2, mexe, mlog = build(tools)
    if errs:
        ctx.tie_broken("tie", "generator failed on c07/res.wit: %s" % errs[:2])
        return
    if not ok:
        ctx.tie_broken("tie", "C07 guest crates do not build (generated code for c07/res.wit changed shape?):\n" + log[-3000:])
        return
    if ws.excluded:
        ctx.tie_broken("tie", "rustc rejects the C07 guest for option sets %s" % ws.excluded)
        return
    if not ok2:
        ctx.tie_broken("tie", "model extraction/driver build failed:\n" + mlog[-3000:])
        return
    quick = ctx.tier == "quick"
    nseq, nact = (10, 30) if quick else (150, 60)
    opts = C7.optsets()
    corpus = []
    cp = os.path.join(vf.ROOT, "corpus", "C07.txt")
    if os.path.exists(cp):
        corpus = [json.loads(l) for l in open(cp) if l.strip() and not l.startswith("#")]
    jobs = []
    for i in range(len(opts)):
        for c in corpus:
            jobs.append(("r%d" % i, c["seq"], "corpus"))
        rng = ctx.rng.fork(i + 1)
        for _ in range(nseq):
            jobs.append(("r%d" % i, C7.gen_symbolic(rng, nact), "random"))
    t0 = time.time()

    def one(job):
        return job, run_sequence(ws, mexe, job[0], job[1])
    with concurrent.futures.ThreadPoolExecutor(max_workers=min(vf.NCPU, 8)) as ex:
        results = list(ex.map(one, jobs))
    nacts = sum(r["nacts"] for _, r in results)
    kinds = {}
    distinct = set()
    for (m, seq, origin), r in results:
        for a in seq:
            kinds[a["kind"]] = kinds.get(a["kind"], 0) + 1
            for op in a.get("ops", []):
                kinds["script:" + op[0]] = kinds.get("script:" + op[0], 0) + 1
        if r["events"]:
            distinct.add(json.dumps(seq, sort_keys=True))
    mism = [(j, r) for j, r in results if r["mismatch"] or r["crash"]]
    real_bad = [(j, r) for j, r in results if bad_class(r)]
    seen = set()
    for (m, seq, origin), r in real_bad:
        k = bad_class(r)
        if k in seen:
            continue
        seen.add(k)
        opt = opts[int(m[1:])]
        small = vf.shrink_list(seq, lambda s_: bool(s_) and bad_class(run_sequence(ws, mexe, m, s_)) == k, max_steps=60)
        rr = run_sequence(ws, mexe, m, small)
        ctx.violation("rust:resource:" + k, "%s | traps %s | ledger %s | allocator %s | crash %s" % (
            rr["mismatch"], rr["traps"][:3], rr["statement"][:3], rr["mem"][:2], rr["crash"]),
            {"engine": "genrun-c07", "options": opt.as_dict(), "seq": small, "model_ops": [" ".join(a["model"]) for a in C7.concretize(small)]})
    if mism and not real_bad:
        (m, seq, origin), r = mism[0]
        small = vf.shrink_list(seq, lambda s_: bool(s_) and bool(run_sequence(ws, mexe, m, s_)["mismatch"]), max_steps=60)
        rr = run_sequence(ws, mexe, m, small)
        ctx.tie_broken("tie", "model and real bindings disagree on %d/%d sequences (the real run satisfies the property's own statement on them); minimal: options %s, "
                              "model ops %s: %s" % (len(mism), len(results), opts[int(m[1:])].tag(), [" ".join(a["model"]) for a in C7.concretize(small)], rr["mismatch"]))
    sample = []
    for (m, seq, origin), r in results[:2]:
        sample.append({"options": opts[int(m[1:])].tag(), "model_ops": " ".join(" ".join(a["model"]) for a in C7.concretize(seq))[:600]})
    ctx.coverage.update({
        "evaluations": nacts, "distinct_nontrivial": len(distinct),
        "rule": "an evaluation = one activation (export call or host-side drop) after which the real host table / outstanding borrows / free-index stack / live boxes / "
                "event multiset were compared with the extracted model; a sequence is non-trivial if it produced at least one handle event; distinct = distinct symbolic sequences",
        "samples": sample, "traces_validated_against_impl": len(results), "model_mismatches": len(mism),
        "distribution": {"sequences": len(results), "activations": nacts, "option_sets": [o.tag() for o in opts], "corpus_sequences": len(corpus) * len(opts),
                         "operation_histogram": kinds, "real_side_violations": len(real_bad), "events_compared": sum(r["events"] for _, r in results),
                         "wall_run_s": round(time.time() - t0, 1)},
    })
    G.prune_workspaces(keep=10)


def replay(ctx, path):
    obj = json.load(open(path))
    ro = obj["replay"]
    tools = G.Tools()
    ws, ok, log, errs, ok2, mexe, mlog = build(tools)
    if not (ok and ok2):
        print("build failed", log[-1500:], mlog[-500:])
        return 1
    want = G.OptSet.from_dict(ro["options"]).tag()
    m = [i for i, o in enumerate(C7.optsets()) if o.tag() == want]
    mod = "r%d" % (m[0] if m else 0)
    r = run_sequence(ws, mexe, mod, ro["seq"])
    print("model ops:", [" ".join(a["model"]) for a in C7.concretize(ro["seq"])])
    print("model/real mismatch:", r["mismatch"])
    print("traps:", r["traps"], "ledger:", r["statement"], "allocator:", r["mem"], "crash:", r["crash"])
    k = bad_class(r)
    print("verdict:", ("property violated on this sequence: " + k) if k else "property holds on this sequence")
    return 1 if k else 0


META = {
    "engine": "coq+genrun",
    "technique": "Coq invariant proof by induction over arbitrary operation sequences of an executable model of Resource<T>/exported-resource glue against the CM handle "
                 "table; differential correspondence of the model with natively executed generated bindings; the property's counting statement evaluated on the real events",
    "text": "Unbounded theorems over all operation lists (create / lower-own / lower-borrow / lift-own / lift-borrow / drop / new / get / into_inner / host-drop): no host "
            "trap, no guest panic, handle-table/wrapper bijection, own handles dropped-or-transferred exactly once, borrow handles all dropped at export return and never "
            "releasing their owner, boxes destroyed exactly once and only by the destructor, values destroyed-or-handed-over exactly once. The model is tied on every run to "
            "the code the Rust generator emits now by executing host-chosen operation sequences natively against a mock CM host and comparing after every activation.",
    "note": "Trusted: Coq kernel; extraction + ocaml/resown_driver.ml; harness/genrun_rust/rt.rs (mock handle table, allocator), c07/guest.rs (interpreter over the generated "
            "API), lib/genrun_c07.py. One fixed world (c07/res.wit) × 4 generator option sets; nested-aggregate handle positions beyond list/option are not exercised here.",
}
