"""C28 — type analysis identifies exactly the structurally equal types.
Proof: coq/theories/Props/C28.v (model Core/TypesEq.v, specification Core/TypesEqSpec.v).
Tie (K): harness/crates/typestie drives the real wit_bindgen_core::Types (analyze, collect_equal_types, get,
get_representative_type) and wit_parser::LiveTypes on seeded WIT packages and dumps the Resolve's type table; the
extracted Coq model (ocaml/typeseq_driver.ml) computes the same answers from that table; they must agree.
Search: the extracted SPECIFICATION (struct_eq = equality of expansions, facts = predicates on expansions /
reachability) evaluated on the REAL representatives and the REAL TypeInfo flags."""
import vf, os, json, hashlib
import witgen, c28_gen

LEVEL = "proof"
READY = True
TARGETS = ["theories/Props/C28.vo", "theories/Extract/ExTypesEq.vo"]
THEOREMS = ["C28_comparison_is_structural_equality", "C28_union_find_sound", "C28_classes_exact",
            "C28_first_earlier_equal", "C28_content_facts", "C28_usage_facts", "C28_error_fact_partial",
            "C28_error_fact_refuted", "C28_equal_types_share_union", "C28_no_panic"]
FLAGS = ["borrowed", "owned", "error", "has_list", "has_tuple", "has_resource", "has_borrow_handle", "has_own_handle"]
KNOWN_KEY = "error-flag:result-type-behind-alias"
CORPUS = os.path.join(vf.ROOT, "corpus", "C28.txt")


def build(ctx=None):
    ok1, exe_r, log1 = vf.cargo_build("typestie")
    ok0, clog = vf.coq_make(TARGETS)
    ok2, exe_m, log2 = vf.ocaml_build("typeseq_driver", ["typeseq_model"], ["util.ml", "typeseq_driver.ml"]) if ok0 else (False, None, clog)
    return ok1, exe_r, log1, ok2, exe_m, log2


def setup():
    ok1, _, l1, ok2, _, l2 = build()
    if not ok1: vf.log(l1[-2000:])
    if not ok2: vf.log(l2[-2000:])
    return ok1 and ok2


# ---------------------------------------------------------------------------------------------- cases
def enc(mode, seed, world, text):
    return "\x1e".join([mode, str(seed), world or "", text.replace("\n", "\x1f")])


def dec(line):
    m, s, w, t = line.split("\x1e")
    return m, int(s), w, t.replace("\x1f", "\n")


def gen_cases(rng, n_family, n_witgen):
    cases, src = [], []
    for i in range(n_family):
        w = c28_gen.gen_family_world(rng.fork(1000 + i))
        mode = rng.weighted([("all", 5), ("kind", 3), ("rand", 3), ("none", 1)])
        cases.append(enc(mode, rng.below(1 << 30), w.world, w.text)); src.append(("family", w.meta["hist"]))
    for i in range(n_witgen):
        feats = [f for f in witgen.ALL_FEATURES if rng.chance(1, 2)]
        w = witgen.gen_world(rng.fork(5000 + i), witgen.Opts(features=feats, n_types=(1, 6), inline_ifaces=True))
        mode = rng.weighted([("all", 5), ("kind", 3), ("rand", 3)])
        cases.append(enc(mode, rng.below(1 << 30), w.world, w.text)); src.append(("witgen", w.meta["hist"]))
    return cases, src


# ---------------------------------------------------------------------------------------------- judging
def sections(s, names):
    """split 'A ... B ... C ...' into {A: tokens, ...} by the given marker tokens (in order)"""
    toks = s.split(" ")
    out, cur = {}, None
    want = list(names)
    for t in toks:
        if want and t == want[0]:
            cur = want.pop(0); out[cur] = []
        elif cur is not None:
            out[cur].append(t)
    return out


def judge(case, dump, drv):
    """Returns (tie_mismatch or None, [violation (key_kind, text)], stats).  dump = harness line, drv = driver line."""
    mode = case.split("\x1e")[0]
    stats = {}
    if not dump.startswith("ok "):
        return None, [], {"rejected": dump[:120]}
    inp, real = dump.split(" @@ ")
    if not drv.startswith("MODEL "):
        return "driver said: " + drv[:300], [], stats
    model, spec = drv[len("MODEL "):].split(" SPEC ")
    real_main, topo = real.rsplit(" TOPO ", 1)
    tie = None
    if model != real_main:
        m, r_ = sections(model, ["LIVE", "REP", "I0", "I1"]), sections(real_main, ["LIVE", "REP", "I0", "I1"])
        if model.startswith("ERR"):
            tie = "model returned %s where the real code answered" % model
        else:
            for k in ["LIVE", "REP", "I0", "I1"]:
                if m.get(k) != r_.get(k):
                    d = [i for i, (x, y) in enumerate(zip(m[k][1:], r_[k][1:])) if x != y]
                    tie = "%s differs at positions %s: model %s real %s" % (k, d[:5], [m[k][1:][i] for i in d[:5]], [r_[k][1:][i] for i in d[:5]])
                    break
    viol = []
    rs = sections(real_main, ["LIVE", "REP", "I0", "I1"])
    live, reps, i0, i1 = rs["LIVE"][1:], rs["REP"][1:], rs["I0"][1:], rs["I1"][1:]
    sp = {}
    head, rest = spec.split(" POST ", 1)
    sp["WF"] = head.split(" ")[1]
    post, rest = rest.split("; SOUND ", 1)
    sound, rest = rest.split("; COMPLETE ", 1)
    compl, rest = rest.split("; FIRST ", 1)
    first, rest = rest.split("; MERGE ", 1)
    merge, rest = rest.split("; KC ", 1)
    fs = sections(rest, ["F0", "F0D"])
    kc = rest.split(" ")[0]
    f0, f0d = fs["F0"][1:], fs["F0D"][1:]
    if topo != "1 1" or sp["WF"] != "1" or post.strip():
        viol.append(("precondition", "topological-order precondition fails on the real Resolve/LiveTypes: TOPO %s WF %s POST %s" % (topo, sp["WF"], post)))
    if sound.strip():
        viol.append(("unsound", "types with the same representative that are NOT structurally equal: " + sound))
    if compl.strip():
        viol.append(("incomplete", "structurally equal live types with different representatives (may_alias = true): " + compl))
    if first.strip():
        viol.append(("first-earlier", "aliasable type not in the class of the first earlier equal type: " + first))
    if merge.strip():
        viol.append(("merge", "merged TypeInfo is not the union over the class for ids " + merge))
    known = False
    for i, (a, b, c) in enumerate(zip(i0, f0, f0d)):
        if a != b:
            dif = [FLAGS[k] for k in range(8) if a[k] != b[k]]
            if dif == ["error"] and a == c and kc == "1" and a[2] == "0":
                known = True
            else:
                viol.append(("facts", "type %d: real TypeInfo %s, specification %s (flags %s)" % (i, a, b, dif)))
    if known:
        viol.append(("known-error", "error flag missing on the error type of a function whose result type is an alias of result<_, E>"))
    # statistics: how much equality structure was there
    classes = {}
    for x in live:
        classes.setdefault(reps[int(x)], []).append(x)
    stats = {"types": len(reps), "live": len(live), "classes_gt1": sum(1 for v in classes.values() if len(v) > 1),
             "largest_class": max([len(v) for v in classes.values()] or [0]), "mode": mode,
             "merged_changed": sum(1 for a, b in zip(i0, i1) if a != b), "known": known,
             "shape": hashlib.sha256(inp.encode()).hexdigest()[:16]}
    return tie, viol, stats


def run_lines(exe_r, exe_m, cases, shards=None):
    dumps = vf.run_filter([exe_r], cases, shards=shards, timeout=3000)
    idx = [i for i, d in enumerate(dumps) if d.startswith("ok ")]
    drv = vf.run_filter([exe_m], [dumps[i] for i in idx], shards=shards, timeout=3000) if idx else []
    drvs = [""] * len(cases)
    for i, d in zip(idx, drv):
        drvs[i] = d
    return dumps, drvs


def shrink_case(exe_r, exe_m, case, pred):
    """delta-debug the WIT text by lines; pred(tie, viol) says whether the failure of interest is still there"""
    mode, seed, world, text = dec(case)
    lines = text.split("\n")

    def fails(ls):
        c = enc(mode, seed, world, "\n".join(ls))
        try:
            d, v = run_lines(exe_r, exe_m, [c], shards=1)
        except RuntimeError:
            return False
        if not d[0].startswith("ok "):
            return False
        t, vi, _ = judge(c, d[0], v[0])
        return pred(t, vi)
    small = vf.shrink_list(lines, fails, max_steps=250)
    return enc(mode, seed, world, "\n".join(small))


def key_of(kind, case):
    if kind == "known-error":
        return KNOWN_KEY
    mode, seed, world, text = dec(case)
    return "%s:%s:%s" % (kind, mode, hashlib.sha256(text.encode()).hexdigest()[:12])


def replay_obj(case, what):
    mode, seed, world, text = dec(case)
    return {"engine": "typestie", "mode": mode, "mayseed": seed, "world": world, "wit": text, "what": what}


def run(ctx):
    quick = ctx.tier == "quick"
    nf, nw = (550, 250) if quick else (20000, 6000)
    ctx.assumptions += [
        "model: Resolve as a type table (arena index = TypeId; per type: named?, TypeDefKind with field/case/flag names), world items in order; HashMaps as association lists; recursion on explicit fuel with every panic site an explicit error (proved unreachable on well-founded tables)",
        "well-founded table (every definition mentions smaller ids only, no Unknown) is a hypothesis of the theorems; the harness checks it on every real Resolve, together with the post-order of the real LiveTypes",
        "usage facts are recorded by types.rs for NAMED types only and over ALL worlds of the Resolve (Types::analyze takes no world); the specification says the same and states it",
        "content facts do not look through future/stream payloads or behind handles (the value holds an index); the specification's x_anyb has the same notion of value component",
        "wit-parser (parsing, Resolve construction, LiveTypes) is trusted as the property says; LiveTypes::add_world is nevertheless modelled and compared",
    ]
    ctx.proof_leg(["theories/Props/C28.vo"], ["Props.C28"], THEOREMS)
    ok1, exe_r, log1, ok2, exe_m, log2 = build(ctx)
    if not ok1:
        ctx.tie_broken("tie", "harness build against the repository failed:\n" + log1[-3000:]); return
    if not ok2:
        ctx.tie_broken("tie", "model extraction/driver build failed:\n" + log2[-3000:]); return
    corpus = [l.rstrip("\n") for l in open(CORPUS) if l.strip() and not l.startswith("#")] if os.path.exists(CORPUS) else []
    cases, src = gen_cases(ctx.rng, nf, nw)
    cases = corpus + cases
    src = [("corpus", {})] * len(corpus) + src
    dumps, drvs = run_lines(exe_r, exe_m, cases)
    n_ok = n_rej = 0
    ties, viols = [], []
    shapes = set()
    dist = {"modes": {}, "sources": {}, "generator_hist": {}, "rejected_by_wit_parser": 0, "types_total": 0, "live_total": 0,
            "classes_with_more_than_one_member": 0, "largest_class": 0, "cases_where_merge_changed_flags": 0,
            "cases_exhibiting_known_error_flag_class": 0, "corpus_cases": len(corpus)}
    for c, (sname, hist), d, v in zip(cases, src, dumps, drvs):
        if not d.startswith("ok "):
            n_rej += 1
            if d.startswith("PANIC"):
                ties.append((c, "real code panicked: " + d[:200]))
            continue
        n_ok += 1
        t, vi, st = judge(c, d, v)
        if t:
            ties.append((c, t))
        for k, text in vi:
            viols.append((c, k, text))
        dist["modes"][st["mode"]] = dist["modes"].get(st["mode"], 0) + 1
        dist["sources"][sname] = dist["sources"].get(sname, 0) + 1
        for hk, hv in hist.items():
            dist["generator_hist"][hk] = dist["generator_hist"].get(hk, 0) + hv
        dist["types_total"] += st["types"]; dist["live_total"] += st["live"]
        dist["classes_with_more_than_one_member"] += st["classes_gt1"]
        dist["largest_class"] = max(dist["largest_class"], st["largest_class"])
        dist["cases_where_merge_changed_flags"] += 1 if st["merged_changed"] else 0
        dist["cases_exhibiting_known_error_flag_class"] += 1 if st["known"] else 0
        if st["classes_gt1"] > 0:
            shapes.add(st["shape"])
    dist["rejected_by_wit_parser"] = n_rej
    # ---- search-leg violations: one report per kind, shrunk (the known class is reported by its first — corpus —
    # witness without shrinking: it shows up in a quarter of all random packages)
    seen_kinds = set()
    for c, k, text in viols:
        if k in seen_kinds:
            continue
        seen_kinds.add(k)
        if k == "known-error":
            ctx.violation(KNOWN_KEY, text, replay_obj(c, text))
            continue
        small = shrink_case(exe_r, exe_m, c, lambda t, vi, k=k: any(kk == k for kk, _ in vi))
        d, v = run_lines(exe_r, exe_m, [small], shards=1)
        _, vi, _ = judge(small, d[0], v[0])
        what = next((tx for kk, tx in vi if kk == k), text)
        ctx.violation(key_of(k, small), what, replay_obj(small, what))
    if ties:
        c, t = ties[0]
        small = shrink_case(exe_r, exe_m, c, lambda tt, vi: tt is not None)
        d, v = run_lines(exe_r, exe_m, [small], shards=1)
        t2 = judge(small, d[0], v[0])[0] or t
        mode, seed, world, text = dec(small)
        ctx.tie_broken("tie", "model and real Types disagree on %d/%d packages; first (shrunk): %s\nmode=%s world=%s\n%s" % (len(ties), n_ok, t2, mode, world, text))
    samples = []
    for c, d in list(zip(cases, dumps))[:200]:
        if d.startswith("ok ") and len(samples) < 2:
            mode, seed, world, text = dec(c)
            samples.append({"mode": mode, "world": world, "wit": text[:1500], "real": d.split(" @@ ")[1][:600]})
    ctx.coverage.update({
        "evaluations": n_ok, "distinct_nontrivial": len(shapes),
        "rule": "seeded WIT packages: c28_gen families of equal / near-equal shapes (renamed field, reordered cases, deep change, alias chains, use / use-as, equal-shaped resources) and lib/witgen worlds, each with a may_alias mode (all = merge option, kind = Rust's default, rand = hash of seed and id, none); non-trivial = the real code formed at least one class with 2+ members; distinct = distinct type table + world dump",
        "samples": samples, "traces_validated_against_impl": n_ok, "model_mismatches": len(ties),
        "distribution": dist,
    })


def replay(ctx, path):
    obj = json.load(open(path))
    r = obj["replay"]
    ok1, exe_r, log1, ok2, exe_m, log2 = build(ctx)
    if not (ok1 and ok2):
        print("build failed"); print(log1[-1500:]); print((log2 or "")[-1500:]); return 1
    case = enc(r["mode"], r["mayseed"], r["world"], r["wit"])
    d, v = run_lines(exe_r, exe_m, [case], shards=1)
    print(r["wit"])
    print("real :", d[0].split(" @@ ")[-1] if d[0].startswith("ok ") else d[0])
    print("model:", v[0])
    t, vi, st = judge(case, d[0], v[0])
    if t: print("tie mismatch:", t)
    for k, text in vi: print("violation [%s]: %s" % (k, text))
    if not t and not vi: print("verdict: property holds on this package")
    return 1 if (t or vi) else 0


META = {
    "engine": "coq+typestie",
    "technique": "Coq proof about an executable model of types.rs (union-find with path compression, the comparison that consults it, collect_equal_types' loops, memoised type_id_info, type_info_func, merge) against an independent specification (equality of full type expansions; predicates on expansions; reachability); differential correspondence with the real Types/LiveTypes via extracted OCaml on the real Resolve's type table",
    "text": "Unbounded Coq theorems over every well-founded type table, every live list and every may_alias predicate: the code's comparison equals structural equality whenever the union-find only links equal types, that invariant is preserved, with may_alias = true the final classes on the live types are exactly the structural-equality classes, for arbitrary may_alias the classes are sound and every aliasable type joins the class of the first earlier equal type, the content and usage flags equal their specifications, merged infos are the union over the class, and no panic site is reachable. The error flag deviates from its specification on one named class (result type behind an alias) which is proved as a refutation witness and reported. Model and real code are compared on the real Resolve's table for thousands of seeded packages per run; the specification itself is evaluated on the real answers.",
    "note": "Trusted: Coq kernel; extraction + ocaml/typeseq_driver.ml (parser/printer); harness/crates/typestie dump of the Resolve (ids, kinds, names, world items); wit-parser. Hypothesis of the theorems: well-founded table (checked on every real Resolve by the harness). Print Assumptions: closed under the global context.",
}
