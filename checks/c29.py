"""C29 — Markdown docs have valid links and verbatim documentation text.
Proof  : coq/theories/Props/C29.v (model Core/MdLinks.v of the event pass of Markdown::finish; verified checker
         Valid/HtmlLinks.v, sound + complete).
Tie (K): harness/crates/mdtie textually includes crates/markdown/src/lib.rs and runs the REAL finish loop on arbitrary
         markdown + hrefs (synthetic) and on the (src, hrefs) of real generations; the HTML must equal the HTML rendered
         (by the same pulldown-cmark) from the extracted model's plan.
TV     : extracted HtmlLinks.check on the anchor tokens of the REAL .html for random documented worlds.
Search : link statement = HtmlLinks.check on the real .html of the worlds AND on the real HTML of the finish loop for the
         tie's synthetic inputs (a generated link opened inside a link, classified by how the outer link was written);
         doc-text statement = c29_html.doc_present on the REAL .md."""
import vf, os, json, hashlib, re
import genlib, c29_gen, c29_html

LEVEL = "other"
READY = True
TARGETS = ["theories/Props/C29.vo", "theories/Extract/ExMdLinks.vo", "theories/Extract/ExHtmlLinks.vo"]
THEOREMS = ["C29_pass_never_nests_links", "C29_no_generated_link_inside_link_partial", "C29_generated_link_inside_link_refuted",
            "C29_wrapped_iff_code_outside_link", "C29_pass_only_inserts",
            "C29_checker_sound", "C29_checker_complete"]
CORPUS = os.path.join(vf.ROOT, "corpus", "C29.txt")


def build():
    b = {"ok": False, "log": ""}
    ok, b["exe_t"], log = vf.cargo_build("mdtie")
    if not ok:
        b["log"] = "cargo build mdtie failed:\n" + log[-3000:]; return b
    ok, b["exe_q"], log = vf.cargo_build("mbtpkg")
    if not ok:
        b["log"] = "cargo build mbtpkg (worldinfo) failed:\n" + log[-3000:]; return b
    ok, b["exe_g"], log = genlib.build()
    if not ok:
        b["log"] = "cargo build genlib failed:\n" + log[-3000:]; return b
    ok, log = vf.coq_make(TARGETS)
    if not ok:
        b["log"] = "coq make failed:\n" + log[-3000:]; return b
    ok, b["exe_m"], log = vf.ocaml_build("mdlinks_driver", ["mdlinks_model"], ["util.ml", "mdlinks_driver.ml"])
    if not ok:
        b["log"] = "ocaml mdlinks_driver failed:\n" + log[-3000:]; return b
    ok, b["exe_c"], log = vf.ocaml_build("htmllinks_driver", ["htmllinks_model"], ["util.ml", "htmllinks_driver.ml"])
    if not ok:
        b["log"] = "ocaml htmllinks_driver failed:\n" + log[-3000:]; return b
    b["ok"] = True
    return b


def setup():
    b = build()
    if not b["ok"]:
        vf.log(b["log"])
    return b["ok"]


def enc(t):
    return t.replace("\n", "\x1f")


def worldinfo(b, items):
    return vf.run_filter([b["exe_q"], "worldinfo"], [w + "\x1e" + enc(t) for (t, w) in items]) if items else []


def world_ifaces(info):
    out = set()
    for t in info.split(" ")[3:]:
        f = t.split(":")
        if f[1] == "iface":
            out.add(f[5])
        elif f[1] == "inline":
            out.add(f[2])
    return out


def export_only_ifaces(info):
    imp, exp = set(), set()
    for t in info.split(" ")[3:]:
        f = t.split(":")
        if f[1] == "iface":
            (imp if f[0] == "I" else exp).add(f[5])
        elif f[1] == "inline":
            (imp if f[0] == "I" else exp).add(f[2])
    return exp - imp


# --------------------------------------------------------------------------------------- the two statements on real output
def examine(b, items):
    """items: [(wit, world, info, opts)] -> [dict(status, link_errs [(key, text)], doc_errs [(key, text)], stats)]"""
    gens = genlib.generate_many([("markdown", o, w, t) for (t, w, _, o) in items], exe=b["exe_g"])
    res, lines, where = [], [], []
    for (t, w, info, o), (st, files) in zip(items, gens):
        if st != "ok":
            res.append({"status": st, "msg": files[:200], "link_errs": [], "doc_errs": [], "stats": None}); continue
        html_in_md = "--html-in-md" in o
        html = files.get(w + ".md") if html_in_md else files.get(w + ".html")
        md = None if html_in_md else files.get(w + ".md")
        r = {"status": "ok", "link_errs": [], "doc_errs": [], "stats": {}}
        if html is None or (md is None and not html_in_md):
            r["link_errs"].append(("md:missing-output-file", "files: %s" % sorted(files)))
            res.append(r); continue
        toks = c29_html.html_tokens(html)
        authored = c29_html.authored_targets(t)
        r["tokens"] = toks
        r["wit"] = t
        ids = [i for tk in toks if tk[0] == "A" for i in tk[2]] + [tk[1] for tk in toks if tk[0] == "I"]
        r["stats"] = {"a_href": sum(1 for tk in toks if tk[0] == "A" and tk[1] is not None),
                      "intra_links": sum(1 for tk in toks if tk[0] == "A" and tk[1] and tk[1].startswith("#")),
                      "anchors": len(ids), "duplicate_anchor_ids": len(ids) - len(set(ids)),
                      "doc_authored_targets": len(authored)}
        lines.append(c29_html.encode(toks, authored)); where.append(len(res))
        if md is not None:
            xo = export_only_ifaces(info)
            present = world_ifaces(info)
            allb = c29_html.doc_blocks(t, with_owner=True)
            # docs of interfaces the world neither imports nor exports are not expected in the world's documentation
            blocks = [(k, n, bk) for (k, n, bk, owner) in allb if owner is None or owner in present]
            r["stats"]["doc_comments_of_unreferenced_interfaces"] = len(allb) - len(blocks)
            mdl = [l.strip() for l in md.split("\n")]
            r["stats"]["doc_comments"] = len(blocks)
            r["stats"]["doc_lines"] = sum(len(bk) for _, _, bk in blocks)
            r["stats"]["doc_lines_with_brace_or_slashes"] = sum(1 for _, _, bk in blocks for l in bk if "{" in l or "}" in l or "//" in l)
            r["stats"]["doc_lines_starting_with_closing_brace"] = sum(1 for _, _, bk in blocks for l in bk if l.startswith("}"))
            for kind, name, bk in blocks:
                if not c29_html.doc_present(mdl, bk):
                    key = "md:doc-missing:" + kind
                    if kind == "interface":
                        key += ":export-only" if name in xo else ":imported"
                    r["doc_errs"].append((key, "doc comment of %s %r not found verbatim in %s.md: %r" % (kind, name, w, bk)))
        res.append(r)
    outs = vf.run_filter([b["exe_c"]], lines) if lines else []
    for k, o in zip(where, outs):
        r = res[k]
        if o.startswith("MODEL-EXN"):
            r["link_errs"].append(("md:checker-crash", o)); continue
        errs = c29_html.decode_errors(o)
        ah, rh, dh = c29_html.authored_hrefs(r["wit"]), c29_html.raw_html_hrefs(r["wit"]), c29_html.refdef_hrefs(r["wit"])
        if any(e[0] == "Nested" for e in errs):
            for outer, inner, prior in c29_html.nested_pairs(r["tokens"]):
                if inner in ah and outer in ah:
                    r["stats"]["doc_authored_nestings"] = r["stats"].get("doc_authored_nestings", 0) + 1   # both written by the doc author
                    continue
                kind = "raw" if outer in rh else "reference" if outer in dh else "inline" if outer in ah else None
                key, text = classify_nesting(kind, prior, outer, inner)
                r["link_errs"].append((key, text))
        for e in errs:
            if e[0] == "Dangling":
                r["link_errs"].append(("md:dangling:" + e[1], "href=\"#%s\" has no id/name %r in the document" % (e[1], e[1])))
            elif e[0] == "StrayClose":
                if c29_html.docs_have_raw_close(r["wit"]):
                    r["stats"]["doc_authored_stray_close"] = r["stats"].get("doc_authored_stray_close", 0) + 1
                else:
                    r["link_errs"].append(("md:stray-close", "</a> without an open <a>"))
    return res


K_RAW = "md:nested:generated-link-inside-doc-authored-html-anchor"
K_AUTO = "md:nested:generated-link-inside-doc-authored-markdown-link"
K_REF = "md:nested:generated-link-inside-doc-authored-reference-link"
K_INLINE = "md:nested:generated-link-inside-doc-authored-inline-link"


def classify_nesting(kind, prior, outer, inner):
    """key + text for a GENERATED <a href=inner> opened inside <a href=outer>.
    kind = how the doc author wrote the outer link (raw HTML anchor / inline link / reference, collapsed or shortcut link),
    None if the outer link is not doc-authored; prior = an authored link (autolink) was already nested in the outer one."""
    if kind == "raw":
        return K_RAW, "generated <a href=%r> opened inside the doc-authored raw HTML <a href=%r>" % (inner, outer)
    if kind in ("inline", "reference") and prior:
        return K_AUTO, "generated <a href=%r> opened inside the doc-authored markdown link <a href=%r> (after a nested autolink reset in_link)" % (inner, outer)
    if kind == "reference":
        return K_REF, "generated <a href=%r> opened inside the doc-authored reference/collapsed/shortcut link <a href=%r>" % (inner, outer)
    if kind == "inline":
        return K_INLINE, "generated <a href=%r> opened inside the doc-authored inline link <a href=%r>" % (inner, outer)
    return "md:nested:" + inner, "<a href=%r> opened inside <a href=%r>" % (inner, outer)


def shrink_world(b, item, key, which):
    t, w, _, o = item

    def fails(lines):
        txt = "\n".join(lines) + "\n"
        info = worldinfo(b, [(txt, w)])[0]
        if not info.startswith("ok "):
            return False
        r = examine(b, [(txt, w, info, o)])[0]
        return any(k == key for k, _ in r[which])
    lines = vf.shrink_list(t.rstrip("\n").split("\n"), fails, max_steps=150)
    txt = "\n".join(lines) + "\n"
    return (txt, w, worldinfo(b, [(txt, w)])[0], o)


# --------------------------------------------------------------------------------------- tie
def well_nested(evs):
    inl = False
    for e in evs:
        if e[0] == "S":
            if inl:
                return False
            inl = True
        elif e == "E":
            if not inl:
                return False
            inl = False
    return True


def tie(b, cases):
    """cases: [(hrefs [(k, v)], markdown)] -> (mismatches [(case, real, model)], stats)"""
    hl = ["\x1c".join("%s\x1d%s" % kv for kv in h) for h, _ in cases]
    ev = vf.run_filter([b["exe_t"], "events"], ["%s\x1e%s" % (h, enc(m)) for h, (_, m) in zip(hl, cases)])
    evs, real, kinds = [], [], []
    for o in ev:
        f = o.split("\x1e")
        if o.startswith("PANIC") or len(f) != 3:
            evs.append(""); kinds.append([]); real.append(o)
        else:
            evs.append(f[0]); kinds.append(f[1].split()); real.append(f[2])
    plans = vf.run_filter([b["exe_m"]], ["%s\x1e%s" % (h, e) for h, e in zip(hl, evs)])
    rend = vf.run_filter([b["exe_t"], "render"], ["%s\x1e%s" % (p, enc(m)) for p, (_, m) in zip(plans, cases)])
    mism = [(c, r, m) for c, r, m in zip(cases, real, rend) if r != m]
    st = {"events": 0, "start_link": 0, "code_spans": 0, "code_in_link": 0, "wrapped_by_model": 0, "hypothesis_violations": 0}
    nontriv = set()
    for c, e, p in zip(cases, evs, plans):
        toks = e.split()
        st["events"] += len(toks)
        st["start_link"] += sum(1 for x in toks if x[0] == "S")
        st["code_spans"] += sum(1 for x in toks if x[0] == "C")
        inl = False
        cil = 0
        for x in toks:
            if x[0] == "S":
                inl = True
            elif x == "E":
                inl = False
            elif x[0] == "C" and inl:
                cil += 1
        st["code_in_link"] += cil
        wr = sum(1 for x in p.split() if x[0] == "W")
        st["wrapped_by_model"] += wr
        if not well_nested(toks):
            st["hypothesis_violations"] += 1
        if wr and cil:
            nontriv.add(hashlib.sha256(("%r" % (c,)).encode()).hexdigest())
    st["real_html"], st["link_kinds"] = real, kinds
    return mism, st, nontriv


def synthetic_nestings(b, cases, real_html, kinds):
    """SEARCH on the tie's synthetic inputs: the verified HtmlLinks.check on the REAL HTML of the real finish loop.
    Generated links are recognisable by their #G_ targets, raw HTML anchors by #q (c29_gen); the k-th other <a href>
    is the k-th Start(Link) of the markdown, whose kind the harness reports.
    -> [(case index, key, text)] for every GENERATED link opened inside an open link, stats"""
    toks = [c29_html.html_tokens(h.replace("\x1f", "\n")) for h in real_html]
    outs = vf.run_filter([b["exe_c"]], [c29_html.encode(t, ()) for t in toks]) if toks else []
    found, st = [], {"real_html_checked": len(toks), "with_nested_a_href": 0, "authored_only_nestings": 0, "generated_nestings": 0}
    for i, (t, o, ks) in enumerate(zip(toks, outs, kinds)):
        if not any(e[0] == "Nested" for e in c29_html.decode_errors(o)):
            continue
        st["with_nested_a_href"] += 1
        order = c29_html.href_order(t)
        md_links = [h for h in order if not h.startswith(c29_gen.GEN_PREFIX) and h != c29_gen.RAW_HREF]
        kind_at = {}                      # document-order index of an <a href> tag -> how that link was written
        if len(md_links) == len(ks):
            j = 0
            for pos, h in enumerate(order):
                if not h.startswith(c29_gen.GEN_PREFIX) and h != c29_gen.RAW_HREF:
                    kind_at[pos] = ks[j]
                    j += 1
        for outer, inner, prior, opos in c29_html.nested_pairs_idx(t):
            if not inner.startswith(c29_gen.GEN_PREFIX):
                st["authored_only_nestings"] += 1
                continue
            st["generated_nestings"] += 1
            if outer == c29_gen.RAW_HREF:
                kind = "raw"
            elif outer.startswith(c29_gen.GEN_PREFIX):
                kind = None
            else:
                kind = kind_at.get(opos, "unclassified")
                if kind == "autolink":
                    kind = "inline"
            if kind == "unclassified":
                key, text = "md:nested:generated-link-inside-unclassified-link", "generated <a href=%r> opened inside <a href=%r>" % (inner, outer)
            else:
                key, text = classify_nesting(kind, prior, outer, inner)
                if kind is None:
                    key = "md:nested:generated-link-inside-generated-link"
            found.append((i, key, text))
    return found, st


def shrink_md(b, case, key):
    """minimise the markdown (lines, then space-separated fragments) keeping 'the real finish loop nests a generated link with this key'"""
    h, md = case

    def fails_text(txt):
        m, st, _ = tie(b, [(h, txt)])
        f, _ = synthetic_nestings(b, [(h, txt)], st["real_html"], st["link_kinds"])
        return any(k == key for _, k, _ in f)
    lines = vf.shrink_list(md.rstrip("\n").split("\n"), lambda ls: fails_text("\n".join(ls) + "\n"), max_steps=120)
    out = []
    for i, l in enumerate(lines):
        fr = vf.shrink_list(l.split(" "), lambda fs: fails_text("\n".join(out + [" ".join(fs)] + lines[i + 1:]) + "\n"), max_steps=60)
        out.append(" ".join(fr))
    smd = "\n".join(out) + "\n"
    m, st, _ = tie(b, [(h, smd)])
    f, _ = synthetic_nestings(b, [(h, smd)], st["real_html"], st["link_kinds"])
    text = next((t for _, k, t in f if k == key), "")
    used = [kv for kv in h if kv[1] in st["real_html"][0]] or h
    return (used, smd), text, st["real_html"][0].replace("\x1f", "\n")


def load_corpus():
    out = []
    if os.path.exists(CORPUS):
        for l in open(CORPUS):
            l = l.strip()
            if l and not l.startswith("#"):
                out.append(json.loads(l))
    return out


def run(ctx):
    quick = ctx.tier == "quick"
    n_worlds = 220 if quick else 8000
    n_syn = 3000 if quick else 200000
    ctx.assumptions += [
        "HYPOTHESIS of C29_pass_never_nests_links / ..._partial (what the comment in finish relies on): pulldown-cmark's event stream never nests Start(Link).  It is evaluated on every event stream of the run (coverage.distribution.tie.hypothesis_violations) and is FALSE for pulldown-cmark 0.13 when a doc comment puts an autolink inside an inline link; for that class the full statement is refuted in Coq (C29_generated_link_inside_link_refuted) and the witness is replayed on the real generator by the corpus (known finding md:nested:generated-link-inside-doc-authored-markdown-link).  TRUSTED: push_html renders Start(Link)/End(Link) as <a href>/</a>",
        "nestings whose inner AND outer links were both written by the doc author (e.g. the autolink inside the inline link itself, rendered nested by pulldown-cmark) and stray </a> in worlds whose doc comments contain a raw </a> are attributed to the author and only counted",
        "model: hrefs HashMap as an association list with unique keys; events abstracted to StartLink/EndLink/Code/Other (all the loop inspects)",
        "HTML tokenizer lib/c29_html.py is trusted glue: regular expression over tags, html.unescape of attribute values, HTML comments skipped",
        "links written by doc-comment authors themselves (markdown `](#x)` / raw `href=\"#x\"` inside WIT doc comments) are passed through verbatim by the generator; their targets are exempt from the anchor requirement (explicit d_authored field of the verified checker's input), nesting is still checked",
        "doc-text statement: for every `///` doc comment of the WIT text (leading/trailing blank lines dropped) its lines occur as consecutive lines of the generated <world>.md (default options), each equal up to surrounding whitespace; the first may carry the generator's `<p>` marker.  Compared on the .md file, not on the HTML (markdown rendering legitimately rewrites markup)",
        "duplicate anchor ids (names shared between interfaces) do not contradict the property as stated (every link still has a target) and are only counted (coverage.distribution.outputs.duplicate_anchor_ids)",
        "worlds on which the markdown generator panics (todo!() for named future/stream aliases) are counted and skipped",
    ]
    ctx.proof_leg(["theories/Props/C29.vo"], ["Props.C29"], THEOREMS)
    b = build()
    if not b["ok"]:
        ctx.tie_broken("tie", b["log"]); return
    corpus = load_corpus()

    # ---- worlds --------------------------------------------------------------------------------
    items, rejected = [], 0
    cw = [(c["wit"], c["world"]) for c in corpus if c.get("engine") == "world"]
    for (t, w), info in zip(cw, worldinfo(b, cw)):
        if info.startswith("ok "):
            items.append((t, w, info, ""))
        else:
            ctx.notes.append("corpus world no longer parses: " + info[:200])
    n_corpus_w = len(items)
    i = 0
    wr = ctx.rng.fork(29)
    orng = ctx.rng.fork(30)
    while len(items) - n_corpus_w < n_worlds and i < 5 * n_worlds + 40:
        batch = []
        for _ in range(max(32, n_worlds - (len(items) - n_corpus_w))):
            batch.append(c29_gen.world(wr.fork(i))); i += 1
        for w, info in zip(batch, worldinfo(b, [(w.text, w.world) for w in batch])):
            if info.startswith("ok ") and len(items) - n_corpus_w < n_worlds:
                items.append((w.text, w.world, info, ""))
                if orng.chance(1, 5):
                    items.append((w.text, w.world, info, "--html-in-md"))
            elif not info.startswith("ok "):
                rejected += 1
    res = examine(b, items)
    dist = {"worlds": len({it[0] for it in items}), "corpus_worlds": n_corpus_w, "worlds_rejected_by_wit_parser": rejected, "generator_runs": len(items),
            "generator_ok": 0, "generator_err": 0, "generator_panic": 0, "html_in_md_runs": sum(1 for it in items if it[3]),
            "a_href": 0, "intra_links": 0, "anchors": 0, "duplicate_anchor_ids": 0, "doc_authored_targets": 0, "doc_comments": 0,
            "doc_lines": 0, "doc_lines_with_brace_or_slashes": 0, "doc_lines_starting_with_closing_brace": 0, "generator_failures": {}}
    reported = set()
    n_new = 0
    digests, nontriv = set(), set()
    for it, r in zip(items, res):
        if r["status"] != "ok":
            dist["generator_" + r["status"]] += 1
            dist["generator_failures"][r["msg"][:60]] = dist["generator_failures"].get(r["msg"][:60], 0) + 1
            continue
        dist["generator_ok"] += 1
        for k, v in r["stats"].items():
            dist[k] = dist.get(k, 0) + v
        dg = hashlib.sha256((it[0] + "|" + it[3]).encode()).hexdigest()[:16]
        digests.add(dg)
        if r["stats"].get("intra_links", 0) > 0 and (r["stats"].get("doc_lines_with_brace_or_slashes", 0) > 0 or it[3]):
            nontriv.add(dg)
        for which in ("link_errs", "doc_errs"):
            for key, text in r[which]:
                known = ctx.known.is_known(ctx.prop, key)
                if key in reported or (not known and n_new >= 3):
                    continue
                reported.add(key)
                small = it
                if not known:
                    n_new += 1
                    small = shrink_world(b, it, key, which)
                    r2 = examine(b, [small])[0]
                    text = next((t for k, t in r2[which] if k == key), text)
                ctx.violation(key, "real markdown generator output (options %r): %s" % (it[3], text),
                              {"engine": "world", "wit": small[0], "world": small[1], "opts": small[3], "key": key, "original_wit": it[0]})

    # ---- tie -------------------------------------------------------------------------------------
    ws = vf.run_filter([b["exe_t"], "worldsrc"], [w + "\x1e" + enc(t) for (t, w, _, o) in items if not o])
    cases = []
    plain = [(it, r) for it, r in zip(items, res) if not it[3]]
    for (it, r), o in zip(plain, ws):
        if not o.startswith("ok\x1e"):
            continue
        _, h, md, html = o.split("\x1e")
        hrefs = [tuple(e.split("\x1d")) for e in h.split("\x1c") if e]
        cases.append((hrefs, md.replace("\x1f", "\n")))
    n_world_cases = len(cases)
    for c in corpus:
        if c.get("engine") == "md":
            cases.append(([tuple(kv) for kv in c["hrefs"]], c["md"]))
    srng = ctx.rng.fork(31)
    for k in range(n_syn):
        cases.append(c29_gen.markdown(srng.fork(k)))
    mism, tst, tnon = tie(b, cases)
    if mism:
        (h, md), real, model = mism[0]
        small = vf.shrink_list(md.split("\n"), lambda ls: bool(tie(b, [(h, "\n".join(ls) + "\n")])[0]), max_steps=200)
        smd = "\n".join(small) + "\n"
        m2 = tie(b, [(h, smd)])[0]
        ctx.tie_broken("tie", "HTML of the real finish loop differs from the HTML rendered from the model's plan on %d/%d inputs; minimised: hrefs=%r markdown=%r real=%r model=%r"
                       % (len(mism), len(cases), h, smd, (m2[0][1] if m2 else real)[:400], (m2[0][2] if m2 else model)[:400]))
    # ---- search on the REAL HTML of the tie's synthetic inputs (world-derived inputs are the documents already checked above)
    real_html, link_kinds = tst.pop("real_html"), tst.pop("link_kinds")
    syn0 = n_world_cases
    found, sst = synthetic_nestings(b, cases[syn0:], real_html[syn0:], link_kinds[syn0:])
    by_key = {}
    for i, key, text in found:
        by_key[key] = by_key.get(key, 0) + 1
    sst["by_key"] = by_key
    reported_md, n_new_md = set(), 0          # own replay (minimised markdown) even if a world already showed the class
    for i, key, text in found:
        known = ctx.known.is_known(ctx.prop, key)
        if key in reported_md or (known and key in reported) or (not known and n_new_md >= 3):
            continue
        reported_md.add(key)
        n_new_md += 0 if known else 1
        case = cases[syn0 + i]
        html = real_html[syn0 + i].replace("\x1f", "\n")
        if not known:
            case, t2, html = shrink_md(b, case, key)
            text = t2 or text
        ctx.violation(key, "real Markdown::finish on markdown %r with hrefs %r: %s; real HTML: %r" % (case[1], case[0], text, html[:400]),
                      {"engine": "md", "hrefs": [list(kv) for kv in case[0]], "md": case[1], "key": key})
    tst["search_on_real_html"] = sst
    tst.update({"world_derived_inputs": n_world_cases, "synthetic_inputs": n_syn, "inputs": len(cases)})
    ok_runs = dist["generator_ok"]
    ctx.coverage.update({
        "evaluations": len(items) + len(cases),
        "distinct_nontrivial": len(nontriv) + len(tnon),
        "rule": "worlds: witgen worlds (1-4 interfaces, docs on, features drawn from %s; witgen's small name pool makes shared names the norm) whose doc comments are extended with lines naming the world's own items in code spans / markdown links / brace, `//`, `}`-first and raw-HTML contexts (lib/c29_gen.py); non-trivial = the HTML has >= 1 intra-document link and the docs contain a brace or `//` (or the run uses --html-in-md); distinct = distinct (WIT text, options).  Tie: (src, hrefs) of every real generation + seeded synthetic markdown (links containing code, brackets in brackets, images, autolinks, reference links, raw HTML, fences); non-trivial = the model wrapped >= 1 code span and >= 1 code span sat inside a link" % FEATS_STR,
        "samples": [{"world": it[1], "opts": it[3], "wit": it[0][:1200], "stats": r["stats"], "link_errs": r["link_errs"][:2], "doc_errs": r["doc_errs"][:2]}
                    for it, r in list(zip(items, res))[n_corpus_w:n_corpus_w + 2]] +
                   [{"hrefs": c[0], "markdown": c[1]} for c in cases[-2:]],
        "traces_validated_against_impl": len(cases), "model_mismatches": len(mism),
        "programs": ok_runs, "disagreements_checked": ok_runs, "distinct_outputs": len(digests),
        "distribution": {"outputs": dist, "tie": tst},
        "explanation": "P/part + TV. PROVED (Coq, closed under the global context): for every hrefs map and every event stream in which links are not nested (the assumption written in finish; re-evaluated on every stream of the run) the stream finish hands to the HTML renderer never opens a link inside a link and no generated link sits inside a link; REFUTED in general (pulldown-cmark nests an autolink inside an inline link; C29_generated_link_inside_link_refuted, replayed on the real code as a known finding); exactly the code spans outside links whose text is a key are wrapped; nothing else changes (C29_pass_never_nests_links, C29_wrapped_iff_code_outside_link, C29_pass_only_inserts).  The model is tied to the working-tree finish loop (crates/markdown/src/lib.rs textually included, private fields set directly) by HTML equality on %d inputs.  VALIDATED: HtmlLinks.check, proved sound and complete (C29_checker_sound/complete), extracted and run on the anchor tokens of %d real HTML documents.  SEARCH ONLY (no theorem): the doc-text half of the property, evaluated on the real .md of every world." % (len(cases), ok_runs),
    })


FEATS_STR = ", ".join(c29_gen.FEATS)


def replay(ctx, path):
    obj = json.load(open(path))
    rp = obj["replay"]
    b = build()
    if not b["ok"]:
        print(b["log"]); return 1
    if rp["engine"] == "md":
        case = ([tuple(kv) for kv in rp["hrefs"]], rp["md"])
        m, st, _ = tie(b, [case])
        f, _ = synthetic_nestings(b, [case], st["real_html"], st["link_kinds"])
        print("hrefs:", rp["hrefs"]); print("markdown:", repr(rp["md"]))
        print("real HTML:", st["real_html"][0].replace("\x1f", "\n"))
        print("tie:", ("real finish differs from the model: model HTML %r" % m[0][2]) if m else "model and real finish agree")
        bad = [(k, t) for _, k, t in f if not rp.get("key") or k == rp["key"]] if rp.get("key") else [(k, t) for _, k, t in f]
        for k, t in bad:
            print("violation key=%s : %s" % (k, t))
        print("verdict:", "VIOLATED" if bad else "no generated link is opened inside a link")
        return 1 if bad else 0
    info = worldinfo(b, [(rp["wit"], rp["world"])])[0]
    print(rp["wit"]); print("options:", repr(rp["opts"])); print("wit-parser:", info)
    if not info.startswith("ok "):
        return 1
    r = examine(b, [(rp["wit"], rp["world"], info, rp["opts"])])[0]
    print("generator:", r["status"], r.get("msg", ""))
    bad = r["link_errs"] + r["doc_errs"]
    for k, t in bad:
        print("violation key=%s : %s" % (k, t))
    print("verdict:", "VIOLATED" if bad or r["status"] != "ok" else "property holds on this output")
    return 1 if bad or r["status"] != "ok" else 0


META = {
    "engine": "coq+mdtie+genlib",
    "technique": "Coq proof about an executable model of Markdown::finish's event pass tied to the real loop by HTML equality on synthetic and real inputs; Coq-verified (sound+complete) HTML link checker extracted to OCaml and run on the real .html (translation validation); doc-text statement searched on the real .md",
    "text": "Proved for all hrefs maps and event streams: under pulldown-cmark's no-nested-links guarantee the pass never opens a link inside a link, wraps exactly the code spans outside links that name an item, and only inserts. Validated on every run on hundreds/thousands of real documents by a checker whose soundness and completeness are Coq theorems (no nested <a href>, balanced </a>, every href=\"#x\" has an id x). Doc comments are searched for verbatim (line-wise, modulo surrounding whitespace) in the real .md.",
    "note": "Trusted: Coq kernel; extraction + ocaml drivers; pulldown-cmark (event well-nestedness hypothesis, push_html); HTML tokenizer and WIT doc-comment scraper (lib/c29_html.py); wit-parser. Links authored inside doc comments are exempt from the anchor requirement. The doc-text half has no theorem (search leg only). Print Assumptions: closed under the global context.",
}
