"""C02 — call glue follows the canonical calling convention.  Proof: Props/C02.v (core signature = the
spec's flatten_functype for all signatures/variants/pw).  Tie: `call.*` streams of absdump vs the model for
5 variants x 2 directions x async flag (model Err <=> real panic).  Search: Abi/Check.v's check_call_import /
check_call_export on the REAL streams of the combinations backends use."""
import vf, abicheck, abitie

LEVEL = "proof"
READY = True
THEOREMS = ["C02_core_signature_is_canonical", "C02_sync_import_call_never_panics", "C02_sync_export_call_never_panics", "C02_async_export_call_never_panics"]
KINDS = ("call",)


def setup():
    b = abitie.build()
    return b[0] and b[3]


def run(ctx):
    ctx.assumptions += [
        "combinations judged by the value-level statement: GuestImport/LowerArgsLiftResults/sync, GuestExport/LiftArgsLowerResults/sync, GuestExport|GuestExportAsync/LiftArgsLowerResults/async; all 20 combinations are tied to the model (a real panic must be a model Err and vice versa)",
        "exported methods take the resource rep as a pointer: excluded from the signature theorem (f_method = false)",
    ]
    ctx.proof_leg(["theories/Props/C02.vo"], ["Props.C02"], THEOREMS)
    abicheck.run(ctx, "C02", KINDS, n_quick=40, n_thorough=2000, nvals_quick=2, nvals_thorough=8)


def replay(ctx, path):
    return abicheck.replay(ctx, path)


META = {
    "engine": "coq+absdump",
    "technique": "Coq proofs: wit-parser's wasm_signature (as modelled) is the canonical flatten_functype for every signature, variant and pointer width; Generator::call for a synchronous import, a synchronous export and an async (callback) export reaches no panic site for every non-method signature (operand count at the core call = sig.params.len(), return pointer taken exactly once, final stack empty); token-for-token correspondence of the real call glue with the extracted Generator::call model; extracted interpreter checks one-call/one-return, argument and result values, parameter-record free on real streams",
    "text": "Theorem (all signatures of valid types, all five AbiVariants, pw 4/8): params flat iff they fit 16 (4 for async imports) else one pointer; results direct iff at most one flat value, else return pointer (extra param for imports, returned pointer for exports); async variants return a status code. The call glue of every explored signature x variant x direction x async flag equals the model's token for token (including every rejected combination: model Err <=> real panic), and on the used combinations the real stream performs exactly one core call / one interface call and one return / task.return with exactly the spec's values, freeing a caller-allocated parameter record once.",
    "note": "Proved part: the core signature (partial w.r.t. the glue-level statement, which is executed, not proved). Trusted as for C01.",
}
