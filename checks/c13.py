"""C13 — every backend's core imports/exports match the world's canonical ABI (translation validation).

Proof   : coq/theories/Props/C13.v — soundness/completeness of the verified checker `check_decls` against the Coq
          table `expected` of legacy core names + core signatures (Valid/CoreDecls.v).
Tie     : (a) ORACLE TIE, every world explored: the Coq `expected`/`required` tables (extracted, ocaml/coredecls_driver)
          == the names/signatures wit-parser computes through Resolve::wasm_import_name / wasm_export_name /
          task_return_import / wasm_signature (harness/crates/declscrape `world`), and the imports/exports of
          wit-component's own dummy_module for the three legacy ABIs are all in the table;
          (b) TRANSLATOR: per-language scrapers (lib/c13_<lang>.py) of the REAL generator output; a scraper that finds
          nothing / cannot read a signature / misses an attribute is a broken tie, never a pass.
Search  : the extracted verified checker on the scraped declarations of every (world, backend, option variant); every
          reported class is cross-examined by the real wit-component ComponentEncoder on a synthetic core module with
          exactly the scraped imports/exports (declscrape `encode`), and a sample of passing cases too."""
import json, os, re, hashlib
import vf, genlib, witgen
import c13_c, c13_rust, c13_moonbit, c13_go, c13_csharp, c13_cpp, c13_d

LEVEL = "translation_validation"
READY = True
TARGETS = ["theories/Props/C13.vo", "theories/Extract/ExCoreDecls.vo"]
THEOREMS = ["C13_check_decls_sound", "C13_every_exported_function_present", "C13_check_decls_complete"]
CORPUS = os.path.join(vf.ROOT, "corpus", "C13.txt")

SEP, US, GS, FS = "\x1e", "\x1f", "\x1d", "\x1c"


# ------------------------------------------------------------------------------------------ backends
def _v(*pairs):
    return list(pairs)


# base = default_bindgen_args + default_bindgen_args_for_codegen of crates/test/src/<lang>.rs (layout-only options
# such as rust's --format are left out); variants = codegen_test_variants; unsupported = should_fail_verify, where
# `name` is "<file>" for the base variant and "<file>-<variant>" otherwise (crates/test/src/lib.rs run_codegen_tests).
BACKENDS = {
    "c": dict(scrape=c13_c.scrape, base="",
              variants=_v(("", ""), ("no-sig-flattening", "--no-sig-flattening"), ("autodrop", "--autodrop-borrows=yes"),
                          ("async", "--async=all")),
              unsupported=lambda name, cfg: cfg["error_context"] or name.startswith("named-fixed-length-list.wit"),
              features=["resources", "futures", "streams", "async", "maps"]),
    "rust": dict(scrape=c13_rust.scrape, base="--generate-all --stubs",
                 variants=_v(("", ""), ("borrowed", "--ownership=borrowing"),
                             ("borrowed-duplicate", "--ownership=borrowing-duplicate-if-necessary"), ("async", "--async=all"),
                             ("no-std", "--std-feature"), ("merge-equal", "--merge-structurally-equal-types"),
                             ("hashmap", "--map-type=std::collections::HashMap")),
                 unsupported=lambda name, cfg: name in ("wasi-http-borrowed-duplicate", "more-variants.wit-borrowed-duplicate",
                                                        "named-fixed-length-list.wit-async"),
                 features=["resources", "futures", "streams", "async", "maps", "fixed"]),
    "moonbit": dict(scrape=c13_moonbit.scrape, base="--derive-debug --derive-show --derive-eq --derive-error",
                    variants=_v(("", ""), ("async", "--async=all")),
                    unsupported=lambda name, cfg: name == "named-fixed-length-list.wit-async" or cfg["error_context"],
                    features=["resources", "futures", "streams", "async", "maps"]),
    "go": dict(scrape=c13_go.scrape, base="--generate-stubs", variants=_v(("", "")),
               unsupported=lambda name, cfg: cfg["error_context"] or name == "named-fixed-length-list.wit",
               features=["resources", "futures", "streams", "async", "maps"]),
    "csharp": dict(scrape=c13_csharp.scrape, base="--runtime=native-aot --generate-stub", variants=_v(("", "")),
                   unsupported=lambda name, cfg: name in ("error-context.wit", "resource-fallible-constructor.wit",
                                                          "async-resource-func.wit", "import-export-resource.wit",
                                                          "issue-1433.wit", "named-fixed-length-list.wit"),
                   features=["resources", "futures", "streams", "async"]),
    "cpp": dict(scrape=c13_cpp.scrape, base="", variants=_v(("", "")),
                unsupported=lambda name, cfg: False if name == "issue-1598.wit" else
                (name in ("issue1514-6.wit", "named-fixed-length-list.wit") or cfg["async"]),
                features=["resources"]),
    "d": dict(scrape=c13_d.scrape, base="--emit-export-stubs", variants=_v(("", "")),
              unsupported=lambda name, cfg: cfg["async"] or cfg["error_context"] or name in ("map.wit", "issue1642.wit"),
              features=["resources"]),
}
ORDER = ["c", "rust", "moonbit", "go", "csharp", "cpp", "d"]


def random_world_ok(lang, text):
    """Random worlds stay inside what the backend's exclusion list in crates/test declares supported."""
    if lang == "csharp":
        # resource-fallible-constructor.wit, async-resource-func.wit, import-export-resource.wit are excluded for C#
        if re.search(r"constructor\([^)]*\)\s*->", text):
            return False
        if re.search(r"resource\s+\S+\s*\{[^}]*\basync\b", text):
            return False
    return True


# ------------------------------------------------------------------------------------------ build
def build():
    ok1, exe_r, log1 = vf.cargo_build("declscrape")
    ok0, clog = vf.coq_make(TARGETS)
    ok2, exe_m, log2 = vf.ocaml_build("coredecls_driver", ["coredecls_model"], ["util.ml", "coredecls_driver.ml"]) \
        if ok0 else (False, None, clog)
    return ok1, exe_r, log1, ok2, exe_m, log2


def setup():
    ok1, _, l1, ok2, _, l2 = build()
    if not ok1:
        vf.log(l1[-2000:])
    if not ok2:
        vf.log(l2[-2000:])
    return ok1 and ok2


# ------------------------------------------------------------------------------------------ worlds
def wit_config(text):
    cfg = {"async": False, "error_context": False}
    for l in text.split("\n"):
        if not l.startswith("//@"):
            break
        m = re.match(r"//@\s*([a-z-]+)\s*=\s*(\S+)", l)
        if m and m.group(1) == "async":
            cfg["async"] = m.group(2) == "true"
        if m and m.group(1) == "error-context":
            cfg["error_context"] = m.group(2) == "true"
    return cfg


def codegen_worlds():
    d = os.path.join(vf.REPO, "tests", "codegen")
    out = []
    for n in sorted(os.listdir(d)):
        p = os.path.join(d, n)
        if os.path.isdir(p):
            # crates/test/src/lib.rs: a directory is a codegen test iff it has a `wit` sub-directory
            p = os.path.join(p, "wit")
            if not os.path.isdir(p):
                continue
            out.append({"name": n, "src": "@" + p, "text": None, "cfg": {"async": False, "error_context": False},
                        "origin": "codegen", "world": ""})
        elif n.endswith(".wit"):
            t = open(p).read()
            out.append({"name": n, "src": t.replace("\n", US), "text": t, "cfg": wit_config(t), "origin": "codegen", "world": ""})
    return out


def feature_cfg(feats):
    return {"async": bool(set(feats) & {"async", "futures", "streams"}), "error_context": "errctx" in feats}


def random_worlds(rng, n, exe_corelib=None):
    def mk(r, i):
        feats = [f for f in ["resources", "futures", "streams", "async", "maps", "fixed"] if r.chance(1, 2)]
        if r.chance(1, 6):
            feats = ["resources"]
        return witgen.Opts(features=feats, big_sigs=r.chance(1, 4), inline_ifaces=True, adversarial=r.chance(1, 4),
                           version=r.choice([None, None, "1.2.3", "0.2.0", "1.0.0-rc.1"]), max_depth=r.choice([2, 3]))
    ws, rej = witgen.gen_valid_worlds(rng, n, mk)
    out = []
    for i, w in enumerate(ws):
        feats = sorted(f for f in witgen.ALL_FEATURES if _uses(w.text, f))
        out.append({"name": "random-%d" % i, "src": w.text.replace("\n", US), "text": w.text, "cfg": feature_cfg(feats),
                    "origin": "random", "world": w.world, "features": feats, "hist": w.meta.get("hist", {})})
    return out, rej


def _uses(text, f):
    pat = {"resources": r"\bresource\b", "futures": r"\bfuture\b", "streams": r"\bstream\b", "async": r"\basync\b",
           "fixed": r"list<[^<>]*,\s*\d+>", "maps": r"\bmap<", "errctx": r"error-context"}[f]
    return re.search(pat, text) is not None


def load_corpus():
    out = []
    if os.path.exists(CORPUS):
        for l in open(CORPUS):
            l = l.strip()
            if not l or l.startswith("#"):
                continue
            o = json.loads(l)
            t = o["wit"]
            out.append({"name": o.get("name", "corpus"), "src": t.replace("\n", US), "text": t, "cfg": wit_config(t),
                        "origin": "corpus", "world": o.get("world", ""), "only": o.get("only")})
    return out


# ------------------------------------------------------------------------------------------ plumbing
def parse_items(s):
    return [tuple(x.split(GS)) for x in s.split(FS)] if s else []


def decl_line(ds):
    seen, out = set(), []
    for d in ds:
        k = (d["dir"], d["module"], d["field"], d["sig"])
        if d["dir"] == "I" and k in seen:
            continue       # the same import declared twice with one signature is one core import
        seen.add(k)
        out.append(GS.join(k))
    return FS.join(out)


def parse_errors(s):
    if s == "OK":
        return []
    out = []
    for e in s.split(FS):
        f = e.split(GS)
        out.append({"kind": f[0], "fields": f[1:]})
    return out


def classify(lang, err, table_fields):
    """Stable key of a failing-input class: <lang>:<what>:<shape>, world-specific names abstracted away."""
    k, f = err["kind"], err["fields"]
    if k == "unknown":
        dir_, module, field = f[0], f[1], f[2]
        if "#[dtor]" in field and field.replace("_", "-") in table_fields:
            return "%s:[dtor]:snake-name" % lang
        m = re.match(r"((?:\[[a-z-]+\])*)", field)
        pre = m.group(1)
        m2 = re.match(r"\[(future|stream)-([a-z-]+)-(\d+|unit)\]", field[len("[async-lower]"):] if field.startswith("[async-lower]") else field)
        if m2:
            return "%s:unknown-import:%s[%s-%s-N]" % (lang, "[async-lower]" if field.startswith("[async-lower]") else "", m2.group(1), m2.group(2))
        if pre in ("[async-lower]", "[async-lift]", "[callback][async-lift]", "[async-lift-stackful]") and \
                (field[len(pre):] in table_fields or any(t[1] == module and t[2] == field[len(pre):] for t in table_fields.get("__imports__", []))):
            return "%s:async-abi-on-sync-func:%s" % (lang, pre)
        if field.startswith("cabi_post_["):
            return "%s:unknown-export:cabi_post_%s" % (lang, re.match(r"cabi_post_((?:\[[a-z-]+\])*)", field).group(1))
        if dir_ == "I":
            return "%s:unknown-import:%s%s" % (lang, pre, "" if module not in ("$root", "[export]$root") else "@" + module)
        return "%s:unknown-export:%s" % (lang, pre or "plain")
    if k == "sig":
        field = f[2]
        pre = re.match(r"((?:\[[a-z-]+\])*)", field).group(1)
        pre = re.sub(r"\d+", "N", pre)
        return "%s:signature:%s%s" % (lang, "E" if f[0] == "E" else "I", pre or ":func")
    if k == "nosig":
        return "%s:scraper-no-signature" % lang
    if k == "needs":
        return "%s:missing-callback" % lang
    if k == "missing":
        return "%s:missing-export" % lang
    if k == "dup":
        return "%s:duplicate-export" % lang
    return "%s:%s" % (lang, k)


# ------------------------------------------------------------------------------------------ pipeline
def world_tables(exe_r, exe_m, worlds):
    """declscrape `world` + Coq `expected` for each world.  Fills w['tokens'], w['oracle'], w['expected'], ... and
    returns the list of oracle-tie problems."""
    problems = []
    res = vf.run_filter([exe_r, "world"], [w["world"] + SEP + w["src"] for w in worlds])
    todo = []
    for w, r in zip(worlds, res):
        p = r.split(SEP)
        if p[0] != "ok":
            w["skip"] = "wit-parser: " + r[:300]
            continue
        w["tokens"], w["oracle"], w["oracle_required"], w["dummy"] = p[1], parse_items(p[2]), sorted(p[3].split(FS)) if p[3] else [], parse_items(p[4])
        todo.append(w)
    mres = vf.run_filter([exe_m], ["E" + SEP + w["tokens"] for w in todo])
    for w, r in zip(todo, mres):
        if r.startswith("MODEL-EXN"):
            problems.append((w, "Coq model driver failed on the world term: " + r[:300]))
            w["skip"] = "model"
            continue
        p = r.split(SEP)
        w["expected"], w["builtins"] = parse_items(p[0]), parse_items(p[1])
        w["required"] = sorted(p[2].split(FS)) if p[2] else []
        w["unambiguous"] = p[3] == "1"
        # world items must coincide exactly; the world-independent built-ins of the Coq table have no wit-parser
        # API except cabi_realloc/_initialize (wasm_export_name), which must be among them
        E, O, B = set(w["expected"]), set(w["oracle"]), set(w["builtins"])
        B4 = set(t[:4] for t in w["builtins"])
        if E - O or O - E - B:
            problems.append((w, "Coq `expected` and wit-parser disagree: only in Coq %s; only in wit-parser %s" % (
                sorted(E - O)[:4], sorted(O - E - B)[:4])))
        if w["required"] != w["oracle_required"]:
            problems.append((w, "Coq `required` and wit-parser disagree: %s vs %s" % (w["required"][:3], w["oracle_required"][:3])))
        E4 = set(t[:4] for t in w["expected"]) | B4
        miss = [t for t in w["dummy"] if t[:4] not in E4]
        if miss:
            problems.append((w, "wit-component dummy_module item not in Coq table: %s" % (miss[:4],)))
        if not w["unambiguous"]:
            problems.append((w, "Coq table is ambiguous on this world (two items share direction/module/field)"))
    return problems


def jobs_for(worlds, langs=None, variants_of=None):
    jobs = []
    for w in worlds:
        if w.get("skip"):
            continue
        for lang in (langs or ORDER):
            b = BACKENDS[lang]
            if w.get("only") and lang not in w["only"]:
                continue
            if w["origin"] == "random":
                if not set(w["features"]) <= set(b["features"]) or not random_world_ok(lang, w["text"]):
                    continue
            for vname, vopt in b["variants"]:
                if variants_of and vname not in variants_of(w, lang):
                    continue
                name = w["name"] if not vname else "%s-%s" % (w["name"], vname)
                if w["origin"] != "random" and b["unsupported"](name, w["cfg"]):
                    continue
                if w["origin"] == "random" and b["unsupported"]("random.wit" + ("-" + vname if vname else ""), w["cfg"]):
                    continue
                jobs.append({"w": w, "lang": lang, "variant": vname, "opts": (b["base"] + " " + vopt).strip()})
    return jobs


def run_jobs(exe_r, exe_m, jobs):
    """generate -> scrape -> verified checker.  Fills j['status'], j['decls'], j['errors']."""
    lines = [SEP.join([j["lang"], j["opts"], j["w"]["world"], j["w"]["src"]]) for j in jobs]
    res = vf.run_filter([exe_r, "gen"], lines)
    chk = []
    for j, r in zip(jobs, res):
        st, payload = genlib.decode(r)
        j["status"] = st
        if st != "ok":
            j["msg"] = payload[:300]
            continue
        ds = BACKENDS[j["lang"]]["scrape"](payload)
        j["all_decls"] = ds
        j["decls"] = [d for d in ds if d["referenced"]]
        chk.append(j)
    mres = vf.run_filter([exe_m], ["C" + SEP + j["w"]["tokens"] + SEP + decl_line(j["decls"]) for j in chk])
    for j, r in zip(chk, mres):
        if r.startswith("MODEL-EXN"):
            j["status"] = "model-exn"
            j["msg"] = r[:300]
            continue
        j["errors"] = parse_errors(r)
    return jobs
