"""C13 — every backend's core imports/exports match the world's canonical ABI (translation validation).

Proof   : coq/theories/Props/C13.v — soundness/completeness of the verified checker `check_decls` against the Coq
          table `expected` of legacy core names + core signatures (Valid/CoreDecls.v).
Tie     : (a) ORACLE TIE, every world explored: the Coq `expected`/`required` tables (extracted, ocaml/coredecls_driver)
          == the names/signatures wit-parser computes through Resolve::wasm_import_name / wasm_export_name /
          task_return_import / wasm_signature (harness/crates/declscrape `world`), and the imports/exports of
          wit-component's own dummy_module for the three legacy ABIs are all in the table;
          (b) TRANSLATOR: per-language scrapers (lib/c13_<lang>.py) of the REAL generator output; a scraper that finds
          nothing / cannot read a signature / misses an attribute is a broken tie, never a pass.
Search  : the extracted verified checker on the scraped declarations of every (world, backend, option variant); every
          reported class is cross-examined by the real wit-component ComponentEncoder on a synthetic core module with
          exactly the scraped imports/exports (declscrape `encode`), and a sample of passing cases too."""
import json, os, re, hashlib
import vf, genlib, witgen
import c13_c, c13_rust, c13_moonbit, c13_go, c13_csharp, c13_cpp, c13_d

LEVEL = "translation_validation"
READY = True
TARGETS = ["theories/Props/C13.vo", "theories/Extract/ExCoreDecls.vo"]
THEOREMS = ["C13_check_decls_sound", "C13_every_exported_function_present", "C13_check_decls_complete"]
CORPUS = os.path.join(vf.ROOT, "corpus", "C13.txt")

SEP, US, GS, FS = "\x1e", "\x1f", "\x1d", "\x1c"


# ------------------------------------------------------------------------------------------ backends
def _v(*pairs):
    return list(pairs)


# base = default_bindgen_args + default_bindgen_args_for_codegen of crates/test/src/<lang>.rs (layout-only options
# such as rust's --format are left out); variants = codegen_test_variants; unsupported = should_fail_verify, where
# `name` is "<file>" for the base variant and "<file>-<variant>" otherwise (crates/test/src/lib.rs run_codegen_tests).
BACKENDS = {
    "c": dict(scrape=c13_c.scrape, base="",
              variants=_v(("", ""), ("no-sig-flattening", "--no-sig-flattening"), ("autodrop", "--autodrop-borrows=yes"),
                          ("async", "--async=all")),
              unsupported=lambda name, cfg: cfg["error_context"] or name.startswith("named-fixed-length-list.wit"),
              features=["resources", "futures", "streams", "async", "maps"]),
    "rust": dict(scrape=c13_rust.scrape, base="--generate-all --stubs",
                 variants=_v(("", ""), ("borrowed", "--ownership=borrowing"),
                             ("borrowed-duplicate", "--ownership=borrowing-duplicate-if-necessary"), ("async", "--async=all"),
                             ("no-std", "--std-feature"), ("merge-equal", "--merge-structurally-equal-types"),
                             ("hashmap", "--map-type=std::collections::HashMap")),
                 unsupported=lambda name, cfg: name in ("wasi-http-borrowed-duplicate", "more-variants.wit-borrowed-duplicate",
                                                        "named-fixed-length-list.wit-async"),
                 features=["resources", "futures", "streams", "async", "maps", "fixed"]),
    "moonbit": dict(scrape=c13_moonbit.scrape, base="--derive-debug --derive-show --derive-eq --derive-error",
                    variants=_v(("", ""), ("async", "--async=all")),
                    unsupported=lambda name, cfg: name == "named-fixed-length-list.wit-async" or cfg["error_context"],
                    features=["resources", "futures", "streams", "async", "maps"]),
    "go": dict(scrape=c13_go.scrape, base="--generate-stubs", variants=_v(("", "")),
               unsupported=lambda name, cfg: cfg["error_context"] or name == "named-fixed-length-list.wit",
               features=["resources", "futures", "streams", "async", "maps"]),
    "csharp": dict(scrape=c13_csharp.scrape, base="--runtime=native-aot --generate-stub", variants=_v(("", "")),
                   unsupported=lambda name, cfg: name in ("error-context.wit", "resource-fallible-constructor.wit",
                                                          "async-resource-func.wit", "import-export-resource.wit",
                                                          "issue-1433.wit", "named-fixed-length-list.wit"),
                   features=["resources", "futures", "streams", "async"]),
    "cpp": dict(scrape=c13_cpp.scrape, base="", variants=_v(("", "")),
                unsupported=lambda name, cfg: False if name == "issue-1598.wit" else
                (name in ("issue1514-6.wit", "named-fixed-length-list.wit") or cfg["async"]),
                features=["resources"]),
    "d": dict(scrape=c13_d.scrape, base="--emit-export-stubs", variants=_v(("", "")),
              unsupported=lambda name, cfg: cfg["async"] or cfg["error_context"] or name in ("map.wit", "issue1642.wit"),
              features=["resources"]),
}
ORDER = ["c", "rust", "moonbit", "go", "csharp", "cpp", "d"]


def random_world_ok(lang, text):
    """Random worlds stay inside what the backend's exclusion list in crates/test declares supported."""
    if lang == "csharp":
        # resource-fallible-constructor.wit, async-resource-func.wit, import-export-resource.wit are excluded for C#
        if re.search(r"constructor\([^)]*\)\s*->", text):
            return False
        if re.search(r"resource\s+\S+\s*\{[^}]*\basync\b", text):
            return False
    return True


# ------------------------------------------------------------------------------------------ build
def build():
    ok1, exe_r, log1 = vf.cargo_build("declscrape")
    ok0, clog = vf.coq_make(TARGETS)
    ok2, exe_m, log2 = vf.ocaml_build("coredecls_driver", ["coredecls_model"], ["util.ml", "coredecls_driver.ml"]) \
        if ok0 else (False, None, clog)
    return ok1, exe_r, log1, ok2, exe_m, log2


def setup():
    ok1, _, l1, ok2, _, l2 = build()
    if not ok1:
        vf.log(l1[-2000:])
    if not ok2:
        vf.log(l2[-2000:])
    return ok1 and ok2


# ------------------------------------------------------------------------------------------ worlds
def wit_config(text):
    cfg = {"async": False, "error_context": False}
    for l in text.split("\n"):
        if not l.startswith("//@"):
            break
        m = re.match(r"//@\s*([a-z-]+)\s*=\s*(\S+)", l)
        if m and m.group(1) == "async":
            cfg["async"] = m.group(2) == "true"
        if m and m.group(1) == "error-context":
            cfg["error_context"] = m.group(2) == "true"
    return cfg


def codegen_worlds():
    d = os.path.join(vf.REPO, "tests", "codegen")
    out = []
    for n in sorted(os.listdir(d)):
        p = os.path.join(d, n)
        if os.path.isdir(p):
            # crates/test/src/lib.rs: a directory is a codegen test iff it has a `wit` sub-directory
            p = os.path.join(p, "wit")
            if not os.path.isdir(p):
                continue
            out.append({"name": n, "src": "@" + p, "text": None, "cfg": {"async": False, "error_context": False},
                        "origin": "codegen", "world": ""})
        elif n.endswith(".wit"):
            t = open(p).read()
            out.append({"name": n, "src": t.replace("\n", US), "text": t, "cfg": wit_config(t), "origin": "codegen", "world": ""})
    return out


def feature_cfg(feats):
    return {"async": bool(set(feats) & {"async", "futures", "streams"}), "error_context": "errctx" in feats}


def random_worlds(rng, n, exe_corelib=None):
    def mk(r, i):
        feats = [f for f in ["resources", "futures", "streams", "async", "maps", "fixed"] if r.chance(1, 2)]
        if r.chance(1, 6):
            feats = ["resources"]
        return witgen.Opts(features=feats, big_sigs=r.chance(1, 4), inline_ifaces=True, adversarial=r.chance(1, 4),
                           version=r.choice([None, None, "1.2.3", "0.2.0", "1.0.0-rc.1"]), max_depth=r.choice([2, 3]))
    ws, rej = witgen.gen_valid_worlds(rng, n, mk)
    out = []
    for i, w in enumerate(ws):
        feats = sorted(f for f in witgen.ALL_FEATURES if _uses(w.text, f))
        out.append({"name": "random-%d" % i, "src": w.text.replace("\n", US), "text": w.text, "cfg": feature_cfg(feats),
                    "origin": "random", "world": w.world, "features": feats, "hist": w.meta.get("hist", {})})
    return out, rej


def _uses(text, f):
    pat = {"resources": r"\bresource\b", "futures": r"\bfuture\b", "streams": r"\bstream\b", "async": r"\basync\b",
           "fixed": r"list<[^<>]*,\s*\d+>", "maps": r"\bmap<", "errctx": r"error-context"}[f]
    return re.search(pat, text) is not None


def load_corpus():
    out = []
    if os.path.exists(CORPUS):
        for l in open(CORPUS):
            l = l.strip()
            if not l or l.startswith("#"):
                continue
            o = json.loads(l)
            t = o["wit"]
            out.append({"name": o.get("name", "corpus"), "src": t.replace("\n", US), "text": t, "cfg": wit_config(t),
                        "origin": "corpus", "world": o.get("world", ""), "only": o.get("only")})
    return out


# ------------------------------------------------------------------------------------------ plumbing
def parse_items(s):
    return [tuple(x.split(GS)) for x in s.split(FS)] if s else []


def decl_line(ds):
    seen, out = set(), []
    for d in ds:
        k = (d["dir"], d["module"], d["field"], d["sig"])
        if d["dir"] == "I" and k in seen:
            continue       # the same import declared twice with one signature is one core import
        seen.add(k)
        out.append(GS.join(k))
    return FS.join(out)


def parse_errors(s):
    if s == "OK":
        return []
    out = []
    for e in s.split(FS):
        f = e.split(GS)
        out.append({"kind": f[0], "fields": f[1:]})
    return out


def _shape(s):
    """World-specific names abstracted away: leading [..] groups kept (digits -> N), interface -> <iface>, names -> <name>."""
    m = re.match(r"^((?:\[[^\]]*\])*)(.*)$", s)
    br = re.sub(r"\d+", "N", m.group(1))
    rest = m.group(2)
    if rest.startswith("cabi_post_"):
        return br + "cabi_post_" + _shape(rest[len("cabi_post_"):])
    if "#" in rest:
        return br + "<iface>#" + _shape(rest.split("#", 1)[1])
    if rest == "":
        return br
    return br + ("<snake_name>" if "_" in rest else "<name>")


PAYLOAD = re.compile(r"^(\[async-lower\])?\[(future|stream)-([a-z-]+?)-(\d+|unit)\](.*)$")
PAYLOAD_OPS = {"new", "read", "write", "cancel-read", "cancel-write", "drop-readable", "drop-writable"}
ASYNC_PRE = re.compile(r"^(\[async-lower\]|\[async-lift\]|\[callback\]\[async-lift\]|\[async-lift-stackful\])")


def classify(lang, err, w, declared_exports):
    """Stable key of a failing-input class: world-specific names are abstracted away, everything else is kept."""
    k, f = err["kind"], err["fields"]
    names = w["_names"]
    if k == "unknown":
        dir_, module, field = f[0], f[1], f[2]
        if dir_ == "E" and "#[dtor]" in field and "_" in field and ("E", "", field.replace("_", "-")) in names:
            return "%s:[dtor]:snake-name" % lang
        m = ASYNC_PRE.match(field)
        if m and (dir_, module, field[len(m.group(1)):]) in names:
            return "%s:async-abi-on-sync-func" % lang
        pm = PAYLOAD.match(field) if dir_ == "I" else None
        if pm:
            # a future/stream intrinsic: which part of  [<kind>-<operation>-<index>]<function>  is not the world's?
            if pm.group(3) not in PAYLOAD_OPS:
                return "%s:payload-intrinsic:unknown-operation:%s" % (lang, pm.group(3))
            fname = pm.group(5)
            known_fn = (("I", module, fname) in names) or (("I", module, "[task-return]" + fname) in names)
            return "%s:payload-intrinsic:%s" % (lang, "index-not-a-payload-position-of-the-function" if known_fn else "function-name")
        if dir_ == "I":
            if module in ("$root", "[export]$root"):
                mc = module
            elif module in w["_modules"]:
                mc = "[export]<iface>" if module.startswith("[export]") else "<iface>"
            else:
                mc = "<not-in-world>" + module
            return "%s:unknown-import:%s:%s" % (lang, mc, _shape(field))
        if field.startswith("cabi_post_["):
            return "%s:unknown-export:cabi_post_%s" % (lang, re.match(r"((?:\[[^\]]*\])*)", field[len("cabi_post_"):]).group(1))
        return "%s:unknown-export:%s" % (lang, _shape(field))
    if k == "sig":
        return "%s:signature:%s:%s" % (lang, f[0], _shape(f[2]))
    if k == "nosig":
        return "%s:scraper:no-signature" % lang
    if k == "needs":
        return "%s:missing-callback:%s" % (lang, _shape(f[2]))
    if k == "missing":
        if any(a in declared_exports for a in ("[async-lift]" + f[0], "[async-lift-stackful]" + f[0])):
            return "%s:async-abi-on-sync-func" % lang
        return "%s:missing-export:%s" % (lang, _shape(f[0]))
    if k == "dup":
        return "%s:duplicate-export:%s" % (lang, _shape(f[0]))
    return "%s:%s" % (lang, k)


def describe(err):
    k, f = err["kind"], err["fields"]
    if k == "unknown":
        return ("import %s::%s (%s) is no item of the world: unresolvable for the component encoder" % (f[1], f[2], f[3])) if f[0] == "I" \
            else ("export %s (%s) is no item of the world: silently ignored by the component encoder" % (f[2], f[3]))
    if k == "sig":
        return "%s %s%s declared with core signature %s, the canonical ABI gives %s" % (
            "import" if f[0] == "I" else "export", (f[1] + "::") if f[0] == "I" else "", f[2], f[3], f[4])
    if k == "nosig":
        return "scraper could not read the signature of %s %s::%s" % (f[0], f[1], f[2])
    if k == "needs":
        return "export %s declared without its %s" % (f[2], f[4])
    if k == "missing":
        return "required export missing: none of %s is declared" % (f,)
    if k == "dup":
        return "export %s declared twice" % f[0]
    return str(err)


# ------------------------------------------------------------------------------------------ pipeline
def world_tables(exe_r, exe_m, worlds):
    """declscrape `world` + Coq `expected` for each world.  Fills w['tokens'], w['oracle'], w['expected'], ... and
    returns the list of oracle-tie problems."""
    problems = []
    res = vf.run_filter([exe_r, "world"], [w["world"] + SEP + w["src"] for w in worlds])
    todo = []
    for w, r in zip(worlds, res):
        p = r.split(SEP)
        if p[0] != "ok":
            w["skip"] = "wit-parser: " + r[:300]
            continue
        w["tokens"], w["oracle"], w["oracle_required"], w["dummy"] = p[1], parse_items(p[2]), sorted(p[3].split(FS)) if p[3] else [], parse_items(p[4])
        todo.append(w)
    mres = vf.run_filter([exe_m], ["E" + SEP + w["tokens"] for w in todo])
    for w, r in zip(todo, mres):
        if r.startswith("MODEL-EXN"):
            problems.append((w, "Coq model driver failed on the world term: " + r[:300]))
            w["skip"] = "model"
            continue
        p = r.split(SEP)
        w["expected"], w["builtins"] = parse_items(p[0]), parse_items(p[1])
        w["required"] = sorted(p[2].split(FS)) if p[2] else []
        w["unambiguous"] = p[3] == "1"
        w["_names"] = set(x[:3] for x in w["expected"]) | set(x[:3] for x in w["builtins"])
        w["_modules"] = set(x[1] for x in w["expected"] if x[0] == "I")
        # world items must coincide exactly; the world-independent built-ins of the Coq table have no wit-parser
        # API except cabi_realloc/_initialize (wasm_export_name), which must be among them
        E, O, B = set(w["expected"]), set(w["oracle"]), set(w["builtins"])
        B4 = set(t[:4] for t in w["builtins"])
        if E - O or O - E - B:
            problems.append((w, "Coq `expected` and wit-parser disagree: only in Coq %s; only in wit-parser %s" % (
                sorted(E - O)[:4], sorted(O - E - B)[:4])))
        if w["required"] != w["oracle_required"]:
            problems.append((w, "Coq `required` and wit-parser disagree: %s vs %s" % (w["required"][:3], w["oracle_required"][:3])))
        E4 = set(t[:4] for t in w["expected"]) | B4
        miss = [t for t in w["dummy"] if t[:4] not in E4]
        if miss:
            problems.append((w, "wit-component dummy_module item not in Coq table: %s" % (miss[:4],)))
        if not w["unambiguous"]:
            problems.append((w, "Coq table is ambiguous on this world (two items share direction/module/field)"))
    return problems


def jobs_for(worlds, langs=None, variants_of=None):
    jobs = []
    for w in worlds:
        if w.get("skip"):
            continue
        for lang in (langs or ORDER):
            b = BACKENDS[lang]
            if w.get("only") and lang not in w["only"]:
                continue
            if w["origin"] == "random":
                if not set(w["features"]) <= set(b["features"]) or not random_world_ok(lang, w["text"]):
                    continue
            for vname, vopt in b["variants"]:
                if variants_of and vname not in variants_of(w, lang):
                    continue
                name = w["name"] if not vname else "%s-%s" % (w["name"], vname)
                if w["origin"] != "random" and b["unsupported"](name, w["cfg"]):
                    continue
                if w["origin"] == "random" and b["unsupported"]("random.wit" + ("-" + vname if vname else ""), w["cfg"]):
                    continue
                jobs.append({"w": w, "lang": lang, "variant": vname, "opts": (b["base"] + " " + vopt).strip()})
    return jobs


def run_jobs(exe_r, exe_m, jobs):
    """generate -> scrape -> verified checker.  Fills j['status'], j['decls'], j['errors']."""
    lines = [SEP.join([j["lang"], j["opts"], j["w"]["world"], j["w"]["src"]]) for j in jobs]
    res = vf.run_filter([exe_r, "gen"], lines)
    chk = []
    for j, r in zip(jobs, res):
        st, payload = genlib.decode(r)
        j["status"] = st
        if st != "ok":
            j["msg"] = payload[:300]
            continue
        ds = BACKENDS[j["lang"]]["scrape"](payload)
        j["all_decls"] = ds
        j["decls"] = [d for d in ds if d["referenced"]]
        chk.append(j)
    mres = vf.run_filter([exe_m], ["C" + SEP + j["w"]["tokens"] + SEP + decl_line(j["decls"]) for j in chk])
    for j, r in zip(chk, mres):
        if r.startswith("MODEL-EXN"):
            j["status"] = "model-exn"
            j["msg"] = r[:300]
            continue
        j["errors"] = parse_errors(r)
    return jobs


def encoder_verdict(exe_r, j):
    """The real ComponentEncoder on a synthetic module with exactly the scraped imports/exports."""
    ds = [d for d in j["decls"] if d["sig"] != "?"]
    r = vf.run_filter([exe_r, "encode"], [j["w"]["world"] + SEP + j["w"]["src"] + SEP + decl_line(ds)], shards=1)[0]
    p = r.split(SEP)
    if p[0] == "accept":
        ign = [x for x in p[1].split(FS) if x]
        return {"accepted": True, "ignored_exports": ign, "info": p[2] if len(p) > 2 else ""}
    return {"accepted": False, "message": r[len("reject "):][:400]}


def verdict_text(v):
    if v["accepted"]:
        return "real ComponentEncoder: accepts the module" + (
            ", exports silently ignored: %s" % v["ignored_exports"] if v["ignored_exports"] else ", ignores no export") + " (%s)" % v["info"]
    return "real ComponentEncoder: REJECTS the module: " + v["message"]


def job_keys(j):
    """{key: [errors]} of one checked job."""
    out = {}
    exps = set(d["field"] for d in j["decls"] if d["dir"] == "E")
    for e in j.get("errors", []):
        out.setdefault(classify(j["lang"], e, j["w"], exps), []).append(e)
    return out


def one_case(exe_r, exe_m, lang, opts, world, text_or_src):
    """Full pipeline for one (world, backend, options): returns (job, None) or (None, reason)."""
    src = text_or_src if text_or_src.startswith("@") else text_or_src.replace("\n", US)
    w = {"name": "case", "src": src, "text": None, "cfg": {"async": False, "error_context": False}, "origin": "replay", "world": world}
    probs = world_tables(exe_r, exe_m, [w])
    if w.get("skip"):
        return None, w["skip"]
    j = {"w": w, "lang": lang, "variant": "", "opts": opts}
    run_jobs(exe_r, exe_m, [j])
    if j["status"] != "ok":
        return None, "generator: %s %s" % (j["status"], j.get("msg", ""))
    return j, None


def shrink_world(exe_r, exe_m, j, key, max_steps=120):
    """Delta-debug the WIT text line-wise, keeping `key` reproducible through the whole pipeline."""
    text = j["w"].get("text")
    if not text:
        return None
    lines = text.split("\n")

    def fails(ls):
        jj, why = one_case(exe_r, exe_m, j["lang"], j["opts"], j["w"]["world"], "\n".join(ls))
        if jj is None or key not in job_keys(jj):
            return False
        # keep the world encodable by wit-component (e.g. no record emptied by the shrinker)
        r = vf.run_filter([exe_r, "encode"], [jj["w"]["world"] + SEP + jj["w"]["src"] + SEP], shards=1)[0]
        return "custom section" not in r
    small = vf.shrink_list(lines, fails, max_steps=max_steps)
    return "\n".join(small)


def run(ctx):
    quick = ctx.tier == "quick"
    import time
    timing, t_last = {}, [time.time()]

    def lap(name):
        timing[name] = round(time.time() - t_last[0], 1)
        t_last[0] = time.time()
    ctx.assumptions += [
        "spec: Valid/CoreDecls.v `expected` transcribes the component model's LEGACY core name mangling (wit-parser 0.257 wasm_import_name / wasm_export_name / task_return_import / ManglingAndAbi::for_func; wit-component 0.257 validation.rs for the world-independent built-ins and for which exports are required); it is re-tied to those functions and to wit-component's dummy_module on every world explored",
        "core signatures of WIT functions are taken from wit-parser's wasm_signature (wasm32: Pointer/Length -> i32, PointerOrI64 -> i64); signatures of intrinsics are the fixed ones of validation.rs",
        "scrapers (lib/c13_<lang>.py) are trusted regex translators of generated text; each counts the attributes it could not parse and reports them instead of dropping them; an import counts as 'actually referenced' when its source identifier occurs somewhere besides its declaration",
        "backend option variants and unsupported-feature exclusions are transcribed from crates/test/src/<lang>.rs (default_bindgen_args, default_bindgen_args_for_codegen, codegen_test_variants, should_fail_verify)",
    ]
    ctx.proof_leg(["theories/Props/C13.vo"], ["Props.C13"], THEOREMS)
    lap("proof")
    ok1, exe_r, log1, ok2, exe_m, log2 = build()
    lap("build")
    if not ok1:
        ctx.tie_broken("tie", "harness build against the repository failed:\n" + log1[-3000:]); return
    if not ok2:
        ctx.tie_broken("tie", "model extraction/driver build failed:\n" + log2[-3000:]); return

    # ---- worlds: corpus first, then tests/codegen, then random
    corpus = load_corpus()
    codegen = codegen_worlds()
    nrand = 48 if quick else 600
    rnd, rejected = random_worlds(ctx.rng.fork(1), nrand)
    worlds = corpus + codegen + rnd
    problems = world_tables(exe_r, exe_m, worlds)
    for w, p in problems[:5]:
        ctx.tie_broken("oracle-tie", "world %s (%s): %s\n%s" % (w["name"], w["origin"], p, (w.get("text") or w["src"])[:1500]))
    lap("worlds+oracle-tie")
    live = [w for w in worlds if not w.get("skip")]
    skipped_worlds = [(w["name"], w["skip"][:120]) for w in worlds if w.get("skip")]

    # ---- jobs.  quick: every variant on corpus + codegen worlds is too much for 1-3 min, so the non-default variants
    # run on a seeded third of the codegen worlds (always on corpus worlds); thorough: everything.
    pick = ctx.rng.fork(2)
    chosen = {}

    def variants_of(w, lang):
        allv = [v for v, _ in BACKENDS[lang]["variants"]]
        if not quick or w["origin"] == "corpus":
            return allv
        k = (w["name"], lang)
        if k not in chosen:
            extra = [v for v in allv if v]
            keep = [""]
            if extra:
                if w["origin"] == "codegen":
                    keep += [v for v in extra if v == "async" and pick.chance(1, 2)] + [v for v in extra if v != "async" and pick.chance(1, 4)]
                else:
                    keep += [pick.choice(extra)]
            chosen[k] = keep
        return chosen[k]
    jobs = jobs_for(live, variants_of=variants_of)
    run_jobs(exe_r, exe_m, jobs)
    lap("generate+scrape+check")

    # ---- translator health (tie): generator failures are another property's business (C16) but must not hollow out the run
    per_lang = {l: {"jobs": 0, "generated": 0, "gen_failed": 0, "decls": 0, "imports": 0, "exports": 0, "unreferenced_imports": 0,
                    "clean": 0, "with_errors": 0} for l in ORDER}
    gen_fail_samples = []
    for j in jobs:
        s = per_lang[j["lang"]]
        s["jobs"] += 1
        if j["status"] != "ok":
            s["gen_failed"] += 1
            if len(gen_fail_samples) < 8:
                gen_fail_samples.append("%s %s %s: %s %s" % (j["lang"], j["opts"], j["w"]["name"], j["status"], j.get("msg", "")[:160]))
            continue
        s["generated"] += 1
        s["decls"] += len(j["decls"])
        s["imports"] += sum(1 for d in j["decls"] if d["dir"] == "I")
        s["exports"] += sum(1 for d in j["decls"] if d["dir"] == "E")
        s["unreferenced_imports"] += sum(1 for d in j["all_decls"] if not d["referenced"])
        s["with_errors" if j["errors"] else "clean"] += 1
        nfun_i = sum(1 for x in j["w"]["oracle"] if x[0] == "I" and not x[2].startswith("[")) 
        nreq = len(j["w"]["required"])
        if (nreq and not any(d["dir"] == "E" for d in j["decls"])) or (nfun_i and not any(d["dir"] == "I" for d in j["all_decls"])):
            ctx.tie_broken("translator", "scraper for %s found no %s declarations for world %s (%s) although the world has %d exported / %d imported functions" % (
                j["lang"], "export" if nreq else "import", j["w"]["name"], j["opts"], nreq, nfun_i))
    for l in ORDER:
        s = per_lang[l]
        if s["jobs"] and s["generated"] * 2 < s["jobs"]:
            ctx.tie_broken("translator", "backend %s failed to generate for %d of %d worlds; first: %s" % (l, s["gen_failed"], s["jobs"], gen_fail_samples[:2]))
        if s["jobs"] == 0:
            ctx.tie_broken("translator", "no job ran for backend %s" % l)

    # ---- search leg: the verified checker's findings on the REAL outputs, grouped by class
    classes = {}
    for j in jobs:
        if j["status"] != "ok":
            continue
        for key, errs in job_keys(j).items():
            c = classes.setdefault(key, {"n_cases": 0, "n_errors": 0, "best": None, "errs": None})
            c["n_cases"] += 1
            c["n_errors"] += len(errs)
            size = len(j["w"].get("text") or "x" * 100000)
            if c["best"] is None or size < c["best_size"]:
                c["best"], c["best_size"], c["errs"] = j, size, errs
    disagreements = 0
    checked_against_encoder = 0
    class_report = {}
    new_budget = 3
    for key in sorted(classes):
        c = classes[key]
        j, errs = c["best"], c["errs"]
        v = encoder_verdict(exe_r, j)
        checked_against_encoder += 1
        encoder_sees_it = (not v["accepted"]) or bool(v["ignored_exports"]) or "with_dtor" in v.get("info", "") and _dtor_gap(v)
        if not encoder_sees_it:
            disagreements += 1
        wit = j["w"].get("text") or j["w"]["src"]
        if not ctx.known.is_known(ctx.prop, key) and new_budget > 0 and j["w"].get("text"):
            new_budget -= 1
            small = shrink_world(exe_r, exe_m, j, key)
            if small:
                jj, _ = one_case(exe_r, exe_m, j["lang"], j["opts"], j["w"]["world"], small)
                if jj is not None and key in job_keys(jj):
                    wit, errs, v = small, job_keys(jj)[key], encoder_verdict(exe_r, jj)
        what = "%s [%s]: %s; %s  (%d cases / %d declarations in this run)" % (
            j["lang"], j["opts"], "; ".join(describe(e) for e in errs[:3]), verdict_text(v), c["n_cases"], c["n_errors"])
        class_report[key] = {"cases": c["n_cases"], "declarations": c["n_errors"], "example": what[:600]}
        ctx.violation(key, what, {"lang": j["lang"], "opts": j["opts"], "world": j["w"]["world"], "wit": wit, "key": key,
                                   "origin": j["w"]["origin"] + ":" + j["w"]["name"]})

    lap("classes+encoder+shrink")
    # ---- agreement sample: clean cases must also satisfy the real encoder (accept, nothing ignored)
    clean = [j for j in jobs if j["status"] == "ok" and not j["errors"] and j["decls"] and all(d["sig"] != "?" for d in j["decls"])]
    samp_n = 64 if quick else 600
    sr = ctx.rng.fork(3)
    sample = clean if len(clean) <= samp_n else [clean[sr.below(len(clean))] for _ in range(samp_n)]
    lines = [j["w"]["world"] + SEP + j["w"]["src"] + SEP + decl_line(j["decls"]) for j in sample]
    enc = vf.run_filter([exe_r, "encode"], lines) if lines else []
    enc_bad = []
    for j, r in zip(sample, enc):
        p = r.split(SEP)
        checked_against_encoder += 1
        if p[0] != "accept" or (len(p) > 1 and p[1]):
            enc_bad.append((j, r))
    # a module the verified checker passes but the real encoder rejects / partly ignores = the Coq table is too permissive
    # (a world wit-component itself cannot encode, e.g. > 32 flags or an empty record, says nothing about the declarations)
    allowed_reject = re.compile(r"decoding custom section component-type")
    for j, r in enc_bad[:3]:
        disagreements += 1
        if not allowed_reject.search(r):
            ctx.tie_broken("encoder-agreement", "checker passes but the real ComponentEncoder says %r for %s %s world %s" % (
                r.replace(SEP, " | ").replace(FS, ", ")[:400], j["lang"], j["opts"], j["w"]["name"]))

    lap("encoder-agreement-sample")
    ndecl = sum(len(j["decls"]) for j in jobs if j["status"] == "ok")
    nontriv = set()
    for j in jobs:
        if j["status"] == "ok" and j["decls"]:
            nontriv.add(hashlib.sha256((j["lang"] + "|" + decl_line(j["decls"])).encode()).hexdigest())
    feat_hist = {}
    for w in rnd:
        for f in w["features"]:
            feat_hist[f] = feat_hist.get(f, 0) + 1
    ctx.coverage.update({
        "programs": sum(1 for j in jobs if j["status"] == "ok"),
        "evaluations": ndecl,
        "distinct_nontrivial": len(nontriv),
        "disagreements_checked": checked_against_encoder,
        "rule": "program = one generated binding (world x backend x option variant); evaluation = one scraped core import/export declaration judged by the extracted verified checker; non-trivial = the binding declares at least one core import/export, distinct = distinct (backend, declaration list); worlds = corpus/C13.txt + every tests/codegen entry + seeded witgen worlds (features drawn from resources/futures/streams/async/maps/fixed within each backend's supported set), minus should_fail_verify exclusions; quick tier runs non-default option variants on a seeded subset",
        "samples": [{"lang": j["lang"], "opts": j["opts"], "world": j["w"]["name"], "decls": [GS.join((d["dir"], d["module"], d["field"], d["sig"])).replace(GS, " ") for d in j["decls"][:4]]}
                    for j in [x for x in jobs if x["status"] == "ok" and x["decls"]][:3]],
        "traces_validated_against_impl": len(live),
        "oracle_tie": {"worlds": len(live), "table_items_compared": sum(len(w["expected"]) for w in live),
                       "dummy_module_items_checked": sum(len(w["dummy"]) for w in live), "problems": len(problems)},
        "encoder_cross_check": {"classes_examined": len(classes), "clean_cases_sampled": len(sample), "clean_cases_rejected_or_ignored": len(enc_bad),
                                "disagreements": disagreements},
        "finding_classes": class_report,
        "phase_wall_s": timing,
        "distribution": {"worlds": {"corpus": len(corpus), "codegen": len(codegen), "random": len(rnd), "random_rejected_by_wit_parser": rejected,
                                    "skipped": skipped_worlds[:10]},
                         "random_world_features": feat_hist, "per_backend": per_lang, "generator_failures": gen_fail_samples},
    })


def _dtor_gap(v):
    m = re.search(r"resources=(\d+) with_dtor=(\d+)", v.get("info", ""))
    return bool(m) and int(m.group(1)) > int(m.group(2))


def replay(ctx, path):
    obj = json.load(open(path))
    r = obj["replay"]
    ok1, exe_r, log1, ok2, exe_m, log2 = build()
    if not (ok1 and ok2):
        print("build failed"); return 1
    j, why = one_case(exe_r, exe_m, r["lang"], r["opts"], r.get("world", ""), r["wit"])
    if j is None:
        print("could not run the case:", why); return 1
    keys = job_keys(j)
    print("backend:", r["lang"], "options:", r["opts"])
    print("world:\n" + (r["wit"] if not r["wit"].startswith("@") else r["wit"]))
    for k, errs in keys.items():
        for e in errs[:5]:
            d = next((d for d in j["decls"] if d["field"] == (e["fields"][2] if len(e["fields"]) > 2 else "")), None)
            print("  [%s] %s%s" % (k, describe(e), (" — %s:%d `%s`" % (d["file"], d["line"], d["ident"])) if d else ""))
    print("encoder:", verdict_text(encoder_verdict(exe_r, j)))
    hit = r["key"] in keys
    print("verdict:", "class %s reproduced" % r["key"] if hit else "class %s NOT reproduced (other classes: %s)" % (r["key"], sorted(keys)))
    return 1 if hit else 0


META = {
    "engine": "coq+scrape",
    "technique": "translation validation: Coq-verified checker (soundness + completeness proved) over a Coq table of the component model's legacy core names, run on declarations scraped from every generated binding; table tied to wit-parser/wit-component on every world; findings cross-examined by the real ComponentEncoder",
    "text": "For every world explored (tests/codegen + seeded random worlds with resources, async functions, futures and streams) and each of the C, C++, C#, Go, MoonBit, D and Rust generators with the option variants of crates/test, every core import/export the generated code declares (and references) is checked, by a checker proved sound and complete in Coq, to be an item the component model assigns to the world with the canonical core signature, every required export to be present, async-lift exports to have their callback, and no export name to repeat. Per-output validation, not a proof over all worlds.",
    "note": "Trusted: Coq kernel; extraction + ocaml/coredecls_driver.ml (token parser/printers); the per-language regex scrapers; harness/crates/declscrape (world dump); wit-parser's wasm_signature for flattened signatures; the transcription of the legacy mangling in Valid/CoreDecls.v (re-tied each run to wasm_import_name/wasm_export_name/dummy_module). Print Assumptions: closed under the global context.",
}
