"""C34 — test configuration is read from exactly the leading comment block; a whitespace-separated
argument string means the list of its words.
Proof: coq/theories/Props/C34.v (model Core/Config.v, spec Core/ConfigSpec.v, proofs Core/ConfigProofs.v).
Tie (K): the REAL crates/test/src/config.rs (#[path]-included by harness/crates/cfgtie; `toml::from_str`
goes through a recording shim so the exact text handed to the TOML parser is observed) vs the extracted
Coq model, on seeded files / argument strings; the whitespace set is compared exhaustively.
Search: the property's own statement (expected text known by construction of the file, or computed by
lib/c34_gen.ref_config_text / ref_words) evaluated on the REAL outputs."""
import json, os
import vf
import c34_gen as g

LEVEL = "proof"
READY = True
TARGETS = ["theories/Props/C34.vo", "theories/Extract/ExConfig.vo"]
THEOREMS = ["C34_config_is_leading_block", "C34_config_all_marker_lines", "C34_every_file_has_one_of_the_shapes",
            "C34_nothing_after_first_other_line", "C34_words_iff", "C34_string_means_list_of_words",
            "C34_joined_words_roundtrip"]
CORPUS = os.path.join(vf.ROOT, "corpus", "C34.txt")


def build(ctx=None):
    ok1, exe_r, log1 = vf.cargo_build("cfgtie")
    ok0, clog = vf.coq_make(TARGETS)
    ok2, exe_m, log2 = vf.ocaml_build("config_driver", ["config_model"], ["util.ml", "config_driver.ml"]) if ok0 else (False, None, clog)
    return ok1, exe_r, log1, ok2, exe_m, log2


def setup():
    ok1, _, l1, ok2, _, l2 = build()
    if not ok1: vf.log(l1[-2000:])
    if not ok2: vf.log(l2[-2000:])
    return ok1 and ok2


# ------------------------------------------------------------------------------------------ real-side observations
def parse_text_out(line):
    """`seen=<n>:<text> val=<canon>` -> (text or None, canon)"""
    if line == "PANIC":
        return None, "PANIC"
    a, b = line.split(" ", 1)
    n, t = a[len("seen="):].split(":", 1)
    return (g.dec(t) if n == "1" else None), b[len("val="):]


def real_text(exe_r, pairs, shards=None):
    """[(marker, contents)] -> [(text|None, canon value)] from the real parse_test_config::<toml::Value>."""
    outs = vf.run_filter([exe_r, "text"], [g.enc(m) + " " + g.enc(c) for m, c in pairs], shards=shards)
    return [parse_text_out(o) for o in outs]


def text_statement(exe_r, marker, contents, expected, obs=None, want=None):
    """C34's statement on one file, on the real code.  None if it holds, else a description.
    (`want` = canonical parse of `expected`, only needed when the text itself could not be observed.)"""
    text, val = obs if obs is not None else real_text(exe_r, [(marker, contents)], shards=1)[0]
    if val == "PANIC":
        return "parse_test_config panicked"
    if text is not None:
        if text != expected:
            return "text handed to the TOML parser is %r, the leading comment block is %r" % (text, expected)
        return None
    # text not observable (code no longer calls toml::from_str): compare the parsed value instead
    if want is None:
        want = vf.run_filter([exe_r, "val"], [g.enc(expected)], shards=1)[0]
    if want != val:
        return "parsed configuration %s differs from that of the leading comment block %r (%s)" % (g.dec(val.split(":", 1)[1])[:200], expected, g.dec(want.split(":", 1)[1])[:200])
    return None


def words_statement(exe_r, s, expected=None, out=None):
    if out is None:
        out = vf.run_filter([exe_r, "direct"], ["s " + g.enc(s)], shards=1)[0]
    if out == "PANIC":
        return "StringList conversion panicked"
    want = expected if expected is not None else g.ref_words(s)
    if g.dec_list(out) != want:
        return "StringList::String(%r) gives %r, its words are %r" % (s, g.dec_list(out), want)
    return None


def shrink_text(exe_r, marker, contents):
    fails = lambda cs: text_statement(exe_r, marker, "".join(cs), g.ref_config_text(marker, "".join(cs))) is not None
    if not fails(list(contents)):
        return contents
    return "".join(vf.shrink_list(list(contents), fails, max_steps=400))


def shrink_words(exe_r, s):
    fails = lambda cs: words_statement(exe_r, "".join(cs)) is not None
    if not fails(list(s)):
        return s
    return "".join(vf.shrink_list(list(s), fails, max_steps=300))


# ------------------------------------------------------------------------------------------ run
def load_corpus():
    text, direct = [], []
    if os.path.exists(CORPUS):
        for l in open(CORPUS):
            l = l.strip()
            if not l or l.startswith("#"):
                continue
            f = l.split(" ")
            if f[0] == "text":
                text.append((g.dec(f[1]), g.dec(f[2])))
            elif f[0] == "direct":
                direct.append(g.dec(f[1]))
    return text, direct


def run(ctx):
    quick = ctx.tier == "quick"
    nA, nB, nC, nD, nE = (3000, 2500, 1500, 5000, 300) if quick else (400000, 400000, 150000, 800000, 10000)
    ctx.assumptions += [
        "model: a Rust str is the list of its chars (scalar values as N); lines/starts_with/slice-after-prefix/join/split_whitespace mean the same on chars as on UTF-8 bytes",
        "model: char::is_whitespace = Unicode White_Space as listed in Core/Config.v (compared with the real code over ALL 1,112,064 scalar values on every run)",
        "the TOML layer (toml::from_str, serde untagged enum StringList) is trusted, as the property says; compared is the exact text handed to toml::from_str and the resulting args lists",
        "tie: harness/crates/cfgtie #[path]-includes the working-tree crates/test/src/config.rs; its `toml` dependency is harness/crates/cfgtie/tomlshim (glob re-export of the real toml 1.1.2, `from_str` records its argument then delegates)",
        "ok_line hypotheses of the theorems only fix the (unique) reading of a file as lines; C34_every_file_has_one_of_the_shapes shows they exclude no file",
    ]
    proof_ok = ctx.proof_leg(["theories/Props/C34.vo"], ["Props.C34"], THEOREMS)
    ok1, exe_r, log1, ok2, exe_m, log2 = build(ctx)
    if not ok1:
        ctx.tie_broken("tie", "harness build against the working tree failed:\n" + log1[-3000:]); return
    if not ok2:
        ctx.tie_broken("tie", "model extraction/driver build failed:\n" + log2[-3000:]); return
    rng = ctx.rng
    dist = {}

    def bump(k, n=1):
        dist[k] = dist.get(k, 0) + n

    # ---- whitespace set, exhaustive
    ws_real = vf.run_filter([exe_r, "wsset"], ["x"], shards=1)[0]
    ws_model = vf.run_filter([exe_m, "wsset"], ["x"], shards=1)[0]
    ws_ref = ".".join("%x" % ord(c) for c in sorted(g.WS))
    if ws_real != ws_model:
        ctx.tie_broken("tie", "whitespace set differs: real splits at %s, model at %s" % (ws_real, ws_model))
    if ws_real != ws_ref:
        bad = sorted(set(ws_real.split(".")) ^ set(ws_ref.split(".")))
        c = chr(int(bad[0], 16))
        ctx.violation("words:" + g.enc("a" + c + "b"), "whitespace set of the real StringList differs from Unicode White_Space at U+%s" % bad[0].upper(),
                      {"engine": "direct", "s": g.enc("a" + c + "b")})

    # ---- text streams: corpus, structured (A), raw/malformed (B)
    ctext, cdirect = load_corpus()
    cases = []   # (marker, contents, expected, kind, info)
    for m, c in ctext:
        cases.append((m, c, g.ref_config_text(m, c), "corpus", None))
    for _ in range(nA):
        m, c, e, info = g.gen_structured(rng)
        cases.append((m, c, e, "structured", info))
    for _ in range(nB):
        m, c = g.gen_raw(rng)
        cases.append((m, c, g.ref_config_text(m, c), "raw", None))
    # files carrying a real `args` value (C below) also go through the text comparison
    obs = real_text(exe_r, [(m, c) for m, c, _, _, _ in cases])
    model = [g.dec(t) if not t.startswith("MODEL-EXN") else None
             for t in vf.run_filter([exe_m, "text"], [g.enc(m) + " " + g.enc(c) for m, c, _, _, _ in cases])]
    unobserved = sum(1 for t, _ in obs if t is None)
    if unobserved:
        ctx.notes.append("%d/%d cases: text handed to toml::from_str not observed exactly once (code no longer calls toml::from_str?); fell back to comparing parsed values" % (unobserved, len(cases)))
    # values of the model's text through the same (real) TOML parser
    model_vals = vf.run_filter([exe_r, "val"], [g.enc(t if t is not None else "") for t in model])
    mism = []
    for (m, c, e, kind, info), (t, v), mt, mv in zip(cases, obs, model, model_vals):
        if mt is None or (t is not None and t != mt) or v != mv:
            mism.append((m, c, t, mt, v, mv))
    nontrivial = set()
    ref_disagree = 0
    first_bad = None
    wants = vf.run_filter([exe_r, "val"], [g.enc(e) for _, _, e, _, _ in cases]) if unobserved else [None] * len(cases)
    for (m, c, e, kind, info), o, want in zip(cases, obs, wants):
        bump("text_" + kind)
        if kind == "structured":
            bump("cfg_lines=%d" % info["cfg"]); bump("crlf_terminators", info["crlf"]); bump("later_marker_lines", info["later_marker"])
            bump("tail_" + info["tail"]); bump("other_" + info["other"])
            if g.ref_config_text(m, c) != e:
                ref_disagree += 1       # generator's by-construction expectation vs reference statement: must agree
        bump("toml_ok" if o[1].startswith("ok:") else "toml_err")
        lines = g.ref_lines(c)
        ncfg = 0
        for l in lines:
            if not l.startswith(m): break
            ncfg += 1
        if ncfg >= 1 and (any(l.startswith(m) for l in lines[ncfg + 1:]) or "\r" in c or not c.endswith("\n")):
            nontrivial.add((m, c))
        why = text_statement(exe_r, m, c, e, o, want)
        if why and first_bad is None:
            first_bad = (m, c, why)
    if ref_disagree:
        ctx.tie_broken("machinery", "generator expectation and reference statement disagree on %d structured files" % ref_disagree)
    if first_bad:
        m, c, why = first_bad
        sc = shrink_text(exe_r, m, c)
        why = text_statement(exe_r, m, sc, g.ref_config_text(m, sc)) or why
        ctx.violation("text:%s:%s" % (g.enc(m), g.enc(sc)), why, {"engine": "text", "marker": g.enc(m), "contents": g.enc(sc), "original": g.enc(c)})
    if mism:
        m, c, t, mt, v, mv = mism[0]
        ctx.tie_broken("tie", "model and real parse_test_config disagree on %d/%d files; first: marker=%r contents=%r real_text=%r model_text=%r real_val=%s model_val=%s"
                       % (len(mism), len(cases), m, c, t, mt, v[:80], mv[:80]))

    # ---- C: args through the whole real path (file -> comment block -> TOML -> StringList -> Vec)
    acases = []  # (marker, contents, kind, value (str or list), expected words)
    for _ in range(nC):
        m = rng.weighted(g.MARKERS)
        if rng.chance(3, 4):
            s, words = g.gen_arg_string(rng)
            toml = "args = " + g.toml_string(rng, s)
            kind, val = "s", s
        else:
            words = [g.gen_word(rng) + (rng.choice([" ", "\t", " "]) + g.gen_word(rng) if rng.chance(1, 3) else "") for _ in range(rng.below(5))]
            toml = "args = [" + ", ".join(g.toml_basic(rng, w) for w in words) + "]"
            kind, val = "l", words
        if rng.chance(1, 3):
            toml = "wasmtime-flags = '-W  x=y'\n" + toml if rng.chance(1, 2) else toml + "\nwasmtime-flags = ['-W  x=y']"
        acases.append((m, g.file_with_toml(rng, m, toml, trailer=rng.chance(5, 6)), kind, val, words))
    a_real = vf.run_filter([exe_r, "args"], [g.enc(m) + " " + g.enc(c) for m, c, _, _, _ in acases])
    a_model = vf.run_filter([exe_m, "direct"], [k + " " + (g.enc(v) if k == "s" else g.enc_list(v)) for _, _, k, v, _ in acases])
    # the same words given as a list (String s ≍ List (words s)), through the real path again
    a_list = vf.run_filter([exe_r, "args"], [g.enc(m) + " " + g.enc(m + "args = [" + ", ".join(g.toml_basic(rng, w) for w in words) + "]\n")
                                              for m, _, _, _, words in acases])
    amism, a_err = [], 0
    for (m, c, k, v, words), r, mo, rl in zip(acases, a_real, a_model, a_list):
        bump("args_" + ("string" if k == "s" else "list"))
        if r == "err" or r == "PANIC":
            a_err += 1
            if first_bad is None:
                first_bad = True
                ctx.violation("args-rejected:" + g.enc(c), "a well-formed configuration block was rejected (%s)" % r, {"engine": "args", "marker": g.enc(m), "contents": g.enc(c), "expected": g.enc_list(words)})
            continue
        got = r.split(" ")[0][len("args="):]
        if got != mo:
            amism.append((m, c, got, mo))
        if k == "s":
            if len(words) >= 2 or any(ord(ch) > 0x7f for ch in v):
                nontrivial.add(("args", v))
            bump("args_words=%d" % min(len(words), 6))
            bump("args_with_unicode_ws", int(any(ch in g.WS and ord(ch) > 0x7f for ch in v)))
            why = words_statement(exe_r, v, words, got)
            got_l = rl.split(" ")[0][len("args="):] if rl.startswith("args=") else rl
            if not why and got_l != got:
                why = "args = <string %r> gives %r but args = <list of its words> gives %r" % (v, g.dec_list(got), got_l)
            if why and first_bad is None:
                first_bad = True
                sv = shrink_words(exe_r, v)
                ctx.violation("words:" + g.enc(sv), words_statement(exe_r, sv) or why, {"engine": "direct", "s": g.enc(sv), "original_file": g.enc(c), "marker": g.enc(m)})
        else:
            if g.dec_list(got) != words and first_bad is None:
                first_bad = True
                ctx.violation("list:" + g.enc_list(words), "args list %r came out as %r" % (words, g.dec_list(got)), {"engine": "args", "marker": g.enc(m), "contents": g.enc(c), "expected": g.enc_list(words)})
    if amism:
        m, c, got, mo = amism[0]
        ctx.tie_broken("tie", "model and real args disagree on %d/%d files; first: marker=%r contents=%r real=%r model=%r" % (len(amism), len(acases), m, c, g.dec_list(got), g.dec_list(mo)))

    # ---- D: StringList directly (no TOML), structured + raw strings
    dcases = [(s, None) for s in cdirect]
    for _ in range(nD):
        if rng.chance(1, 2):
            s, words = g.gen_arg_string(rng); dcases.append((s, words))
        else:
            dcases.append((g.gen_raw_string(rng), None))
    d_lines = ["s " + g.enc(s) for s, _ in dcases]
    d_real = vf.run_filter([exe_r, "direct"], d_lines)
    d_model = vf.run_filter([exe_m, "direct"], d_lines)
    dmism = [(s, r, mo) for (s, _), r, mo in zip(dcases, d_real, d_model) if r != mo]
    for (s, words), r in zip(dcases, d_real):
        bump("direct")
        if words is not None and g.ref_words(s) != words:
            ctx.tie_broken("machinery", "generator words and reference words disagree on %r" % s); break
        if len(g.ref_words(s)) >= 2:
            nontrivial.add(("direct", s))
        why = words_statement(exe_r, s, words, r)
        if why and first_bad is None:
            first_bad = True
            sv = shrink_words(exe_r, s)
            ctx.violation("words:" + g.enc(sv), words_statement(exe_r, sv) or why, {"engine": "direct", "s": g.enc(sv), "original": g.enc(s)})
    if dmism:
        s, r, mo = dmism[0]
        ctx.tie_broken("tie", "model and real StringList disagree on %d/%d strings; first: %r real=%r model=%r" % (len(dmism), len(dcases), s, g.dec_list(r) if r != "PANIC" else r, g.dec_list(mo)))

    # ---- E: WitConfig.dependencies (Option<StringList>) -> dependency_worlds
    ecases = []
    for _ in range(nE):
        k = rng.below(3)
        if k == 0:
            ecases.append(("//@ runner = 'r'\n", "n", None))
        elif k == 1:
            s, words = g.gen_arg_string(rng)
            ecases.append((g.file_with_toml(rng, "//@", "dependencies = " + g.toml_string(rng, s)), "s " + g.enc(s), words))
        else:
            words = [g.gen_word(rng) for _ in range(rng.below(4))]
            ecases.append((g.file_with_toml(rng, "//@", "dependencies = [" + ", ".join(g.toml_basic(rng, w) for w in words) + "]"), "l " + g.enc_list(words), words))
    e_real = vf.run_filter([exe_r, "wit"], [g.enc("//@") + " " + g.enc(c) for c, _, _ in ecases])
    e_model = vf.run_filter([exe_m, "deps"], [ml for _, ml, _ in ecases])
    emism = []
    for (c, ml, words), r, mo in zip(ecases, e_real, e_model):
        bump("wit_dependencies")
        got = r.split(" ")[0][len("deps="):] if r.startswith("deps=") else r
        if got != mo:
            emism.append((c, got, mo))
        want = g.enc_list(words) if words is not None else g.enc_list(["test"])
        if got != want and first_bad is None:
            first_bad = True
            ctx.violation("deps:" + g.enc(c), "dependency_worlds gives %s, expected %s" % (got, want), {"engine": "wit", "marker": g.enc("//@"), "contents": g.enc(c), "expected": want})
    if emism:
        c, got, mo = emism[0]
        ctx.tie_broken("tie", "model and real dependency_worlds disagree on %d/%d; first: contents=%r real=%s model=%s" % (len(emism), len(ecases), c, got, mo))

    total = len(cases) + len(acases) + len(dcases) + len(ecases) + 1
    dist["args_rejected_by_toml_layer"] = a_err
    dist["corpus_cases"] = len(ctext) + len(cdirect)
    dist["whitespace_scalar_values_compared"] = 0x110000 - 0x800
    ctx.coverage.update({
        "evaluations": total, "distinct_nontrivial": len(nontrivial),
        "rule": "text: structured files (0-6 marker lines with LF/CRLF terminators, then blank/code/near-marker line, then arbitrary rest incl. later marker lines; or unterminated last line) "
                "and raw strings over %r for markers %s and random ones; args: words interleaved with Unicode White_Space runs, written as TOML basic/literal/multi-line strings or lists in the comment block; "
                "non-trivial = file has >=1 leading config line AND (a later marker line | a CR | no final LF), or an argument string with >=2 words or non-ASCII characters; distinct = distinct (marker, contents) / strings"
                % (g.RAW_ALPHABET, [m for m, _ in g.MARKERS]),
        "samples": [{"marker": m, "contents": c, "real_text": o[0], "expected": e} for (m, c, e, k, i), o in list(zip(cases, obs))[len(ctext):len(ctext) + 3]]
                   + [{"file": c, "real": r} for (m, c, k, v, w), r in list(zip(acases, a_real))[:2]],
        "traces_validated_against_impl": total,
        "model_mismatches": len(mism) + len(amism) + len(dmism) + len(emism),
        "text_observed_exactly": len(cases) - unobserved,
        "distribution": dist,
    })


def replay(ctx, path):
    obj = json.load(open(path))
    r = obj["replay"]
    ok1, exe_r, log1 = vf.cargo_build("cfgtie")
    if not ok1:
        print(log1[-2000:]); return 1
    if r["engine"] == "text":
        m, c = g.dec(r["marker"]), g.dec(r["contents"])
        e = g.ref_config_text(m, c)
        t, v = real_text(exe_r, [(m, c)], shards=1)[0]
        why = text_statement(exe_r, m, c, e, (t, v))
        print("marker: %r\ncontents: %r\ntext handed to TOML parser (real): %r\nleading comment block: %r" % (m, c, t, e))
    elif r["engine"] == "direct":
        s = g.dec(r["s"])
        out = vf.run_filter([exe_r, "direct"], ["s " + g.enc(s)], shards=1)[0]
        why = words_statement(exe_r, s, None, out)
        print("string: %r\nreal: %r\nwords: %r" % (s, g.dec_list(out) if out != "PANIC" else out, g.ref_words(s)))
    else:
        m, c = g.dec(r["marker"]), g.dec(r["contents"])
        out = vf.run_filter([exe_r, r["engine"]], [g.enc(m) + " " + g.enc(c)], shards=1)[0]
        got = out.split(" ")[0].split("=", 1)[1] if "=" in out else out
        why = None if got == r["expected"] else "got %s, expected %s" % (got, r["expected"])
        print("marker: %r\ncontents: %r\nreal: %s\nexpected: %s" % (m, c, out, r["expected"]))
    print("verdict:", why or "property holds on this input")
    return 1 if why else 0


META = {
    "engine": "coq+cfgtie",
    "technique": "Coq proof (structural induction over lines / words) about an executable model of parse_test_config and StringList; differential correspondence with the real config.rs via extracted OCaml; exhaustive comparison of the whitespace set",
    "text": "Unbounded Coq theorems: for every marker and every file, the text handed to the TOML parser is the join of the leading marker-prefixed lines with the marker removed (LF and CRLF terminators, unterminated last line), every file has one of the two shapes covered, and nothing after the first other line matters; StringList::String(s) yields exactly the unique reading of s as Unicode-whitespace-separated words, i.e. the same as List(words). The model is tied to the working-tree crates/test/src/config.rs on every run: the exact text passed to toml::from_str, the parsed toml::Value, args / wasmtime-flags / dependencies lists, and is_whitespace on all scalar values.",
    "note": "Trusted: Coq kernel; extraction (ExtrOcamlBasic, ExtrOcamlString) + ocaml/config_driver.ml; harness/crates/cfgtie (+ tomlshim re-export) and the code-point line protocol; the TOML/serde layer (as the property says); Python TOML writer in lib/c34_gen.py. Print Assumptions: closed under the global context.",
}
