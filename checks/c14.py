"""C14 — every backend's scalar conversions implement the canonical ABI mapping.

Translator tie (T): lib/scalar.py regenerates coq/theories/Scalar/Generated.v from what the Rust, C, C++,
C#, Go, MoonBit and D generators emit NOW for a probe world, on every run.  Proof: Props/C14.v (stable
statements) + Scalar/GeneratedProps.v (one theorem per scraped site, closed through the verified
normaliser for ALL 2^32 / 2^64 inputs; exhaustive enumeration for 8/16-bit sources).  Model validation:
the Rust and C operator semantics of Scalar/Expr.v are run against rustc / clang on the scraped text.
Search: the property's statement evaluated on the real text (natively for Rust and C, through the
language semantics for the others) on boundary + random inputs; first disagreeing input = replay."""
import json, os, time
import vf, scalar

LEVEL = "proof"
READY = True
TARGETS = ["theories/Props/C14.vo"]
THEOREMS = ["C14_all", "C14_norm_sound", "C14_checker_sound", "C14_spec_lower_shape", "C14_spec_lift_shape",
            "C14_exhaustive_sound", "C14_coverage", "C14_known_bool_partial"]
CORPUS = os.path.join(vf.ROOT, "corpus", "C14.txt")


def setup():
    R = scalar.regenerate()
    ok, out = vf.coq_make(TARGETS)
    if R.errors:
        vf.log("C14 setup: scrape errors: %r" % (R.errors,))
    if not ok:
        vf.log(out[-3000:])
    return ok and not R.errors


def corpus_inputs():
    out = []
    if os.path.exists(CORPUS):
        for line in open(CORPUS):
            line = line.split("#")[0].strip()
            if line:
                key, x = line.split()
                out.append((key, int(x, 0)))
    return out


def shape_class(text):
    t = text.strip()
    import re
    if re.fullmatch(r"\(*\w+\)*", t):
        return "identity (bare variable)"
    if "?" in t or "match" in t or "if " in t:
        return "conditional 0/1"
    if "!=" in t:
        return "non-zero test"
    if "_rt::" in t or "mbt_ffi" in t:
        return "runtime helper call"
    if " - " in t or "land" in t:
        return "arithmetic/mask"
    return "cast / conversion method"


def run(ctx):
    scalar.setup_paths()       # private Coq mirror when VERIF_REPO points at a scratch copy
    quick = ctx.tier == "quick"
    corpus = corpus_inputs()
    small = scalar.boundary_inputs()
    for _, x in corpus:
        if x not in small:
            small.insert(0, x)
    small = small + scalar.random_inputs(ctx.rng, 120 if quick else 1500)
    big = small + scalar.random_inputs(ctx.rng, 400 if quick else 40000)
    scalar.EXHAUSTIVE_NATIVE["on"] = not quick     # thorough: rustc/clang run every 2^8 / 2^16 value of the narrow lowerings
    ctx.assumptions += [
        "operator semantics of the seven target languages are the elaborators of coq/theories/Scalar/Expr.v: Rust `as`/From/to_bits/from_bits/match, C and C++ casts with clang's two's-complement narrowing and implicit conversions, union punning / std::bit_cast, C# casts in the default unchecked context, Go conversions, D cast, MoonBit to_int/to_byte/reinterpret_as_*/land/- (wrapping Int), wasm i32.extend8_s/16_s; validated against rustc and clang on every run, NOT validated for C#/Go/D/MoonBit/C++ (no toolchain in this sandbox)",
        "floats are raw bit patterns (NaN canonicalisation, which the canonical ABI leaves to the host, is outside the statement); target is wasm32 (pointers/usize 32-bit)",
        "the translator (lib/scalar.py: regexes keyed on wrapper/parameter names, surface parser) is trusted to cut out the right text; a site it cannot find or parse is reported as a broken tie, never skipped",
        "char lifts are judged where the canonical ABI does not trap (scalar values); bool lifts on all 2^32 values (convert_int_to_bool: any non-zero is true)",
    ]
    t0 = time.time()
    R = scalar.regenerate(small, big, native=True)
    t_regen = time.time() - t0
    for lang, which, msg in R.errors:
        if which != "casts":           # casts belong to the C04 backend leg
            ctx.tie_broken("tie", "translator: backend %s (%s): %s" % (lang, which, msg))
    # ---- every (language, direction, type, site) must have been scraped
    want = {(l, d, t, st) for l in scalar.LANGS for t in scalar.SCALARS
            for d, st in (("lower", "import-param"), ("lift", "import-result"), ("lift", "export-param"), ("lower", "export-result"))}
    have = {(s.lang, s.dir, s.ty, s.site) for s in R.sites}
    missing = sorted(want - have)
    if missing:
        ctx.tie_broken("tie", "conversion sites not scraped (%d), e.g. %r" % (len(missing), missing[:5]))
    if not R.spec_mirror_ok:
        ctx.tie_broken("tie", "Python mirror of ScalarSpec disagrees with Coq: %r" % (R.spec_mirror_mismatches,))

    # ---- search leg 1: the statement evaluated through the language semantics (all backends)
    viol = {}     # key -> replay
    undecided = []
    for nm, v in R.verdicts.items():
        s = v["site"]
        if not v["elab"]:
            ctx.tie_broken("tie", "site %s: expression %r is outside the modelled fragment of %s (would not type-check there)" % (nm, s.text, s.lang))
            continue
        if v["check"] and v["bad"] is not None:
            ctx.tie_broken("machinery", "site %s accepted by the verified checker but disagrees at %d" % (nm, v["bad"]))
        if not v["check"]:
            if v["bad"] is None:
                undecided.append(nm)
                continue
            x, actual = v["bad"], v["bad_value"]
            key = s.key
            if s.dir == "lift" and s.ty == "bool" and v["bad01"] is not None:
                # wrong already on the values a canonical host produces: a different (graver) class than
                # "garbage in the upper bits", so it gets its own key
                x, actual, key = v["bad01"], v["bad01_value"], s.key + ":canonical-input"
            if s.dir == "lower":
                exp, dom = scalar.spec_lower(s.ty, x), "WIT value"
            else:
                exp, dom = scalar.spec_lift(s.ty, x % (1 << scalar.core_bits(s.ty))), "core value (as %s)" % s.src
            rep = viol.setdefault(key, {"key": key, "sites": [], "engine": "coq-eval"})
            rep["sites"].append(dict(s.describe(), ident=nm, input=x, input_is=dom, expected=exp, actual=actual,
                                     mode="debug" if v["suffix"] else "release/any"))
    for nm in undecided:
        ctx.tie_broken("proof", "site %s (%r): not accepted by the normaliser and no disagreeing input among %d inputs" % (nm, R.verdicts[nm]["site"].text, len(big)))

    # ---- model validation + search leg 2: the REAL text run natively (rust, c)
    n_native = getattr(R, "native_evaluations", 0)
    n_mism = len(R.native_mismatches)
    native_ok = R.native_error is None
    if R.native_error:
        ctx.tie_broken("model-validation", "native evaluation of the scraped Rust/C text failed: %s" % R.native_error[-1500:])
    for mm in R.native_mismatches[:3]:
        s = R.verdicts[mm["site"]]["site"]
        ctx.tie_broken("model-validation", "%s (%s build) `%s` at %s=%d: %s gives %s, Scalar/Expr.v semantics gives %s (%d inputs differ)"
                       % (mm["site"], mm["mode"], s.text, s.var, mm["input"], "rustc" if s.lang == "rust" else "clang", mm["native"], mm["model"], mm["count"]))
    for ident, modes in R.native.items():
        for mode, vals in modes.items():
            nm = ident + "_dbg" if (mode == "debug" and ident + "_dbg" in R.verdicts) else ident
            s = R.verdicts[nm]["site"] if nm in R.verdicts else next(st for st in R.sites if st.ident("") == ident)
            for x, r in vals:
                j = scalar.judge(s, x, r)
                if j:
                    key = s.key + ":canonical-input" if (s.dir == "lift" and s.ty == "bool" and x in (0, 1)) else s.key
                    rep = viol.setdefault(key, {"key": key, "sites": [], "engine": "native"})
                    if not any(e.get("native") and e["ident"] == nm for e in rep["sites"]):
                        rep["sites"].append(dict(s.describe(), ident=nm, input=x, expected=j[0], actual=j[1], native=True, mode=mode))
    for key, rep in sorted(viol.items()):
        first = rep["sites"][0]
        ctx.violation(key, "%s: `%s` (%s, %s) maps %s=%s to %s, the canonical ABI maps it to %s" % (
            key, first["text"], first["site"], first["mode"], first["var"], first["input"], first.get("actual"), first["expected"]), rep)

    # ---- proof leg
    ctx.proof_leg(TARGETS, ["Props.C14"], THEOREMS)

    # ---- evidence
    texts = {}
    import re as _re
    for s in R.sites:
        k = (s.lang, s.dir, s.ty, _re.sub(r"\b%s\b" % _re.escape(s.var), "x", " ".join(s.text.split())))
        texts[k] = texts.get(k, 0) + 1
    nontrivial = [k for k in texts if shape_class(k[3]) != "identity (bare variable)"]
    hist = {}
    for k in texts:
        c = shape_class(k[3])
        hist[c] = hist.get(c, 0) + 1
    behave = {}
    for nm, v in R.verdicts.items():
        s = v["site"]
        if s.dir == "lift" and s.ty in ("bool", "char") and s.site == "export-param" and v.get("behave") is not None:
            behave[nm] = v["behave"]
    samples = []
    for nm in ("rust_lift_s8_exp", "c_lower_s16_imp", "moonbit_lift_s8_exp", "go_lower_bool_imp", "d_lift_char_exp"):
        if nm in R.verdicts:
            s = R.verdicts[nm]["site"]
            samples.append(dict(s.describe(), coq=s.coq[0][1], accepted_by_normaliser=R.verdicts[nm]["check"], first_disagreeing_input=R.verdicts[nm]["bad"]))
    ctx.coverage.update({
        "evaluations": len(R.verdicts) * len(big) + n_native,
        "distinct_nontrivial": len(nontrivial),
        "rule": "one case = one scraped conversion expression (language, direction, WIT type, normalised text); non-trivial = the text is more than the bare variable (identity conversions such as s32/f32/f64 in most backends are counted in `distribution` but not here); each is decided for all inputs by the verified normaliser and additionally evaluated on %d boundary+random inputs (8/16-bit lowerings: exhaustive enumeration as Coq theorems)" % len(big),
        "samples": samples,
        "traces_validated_against_impl": n_native,
        "model_mismatches": n_mism,
        "distribution": {
            "sites_scraped": len(R.sites), "sites_expected": len(want), "conv_records": len(R.verdicts),
            "by_language": {l: sum(1 for s in R.sites if s.lang == l) for l in scalar.LANGS},
            "distinct_expressions": len(texts), "expression_shapes": hist,
            "inputs_small": len(small), "inputs_big": len(big), "corpus_inputs": len(corpus),
            "generated_theorems": R.n_theorems,
            "sites_accepted_by_normaliser": sum(1 for v in R.verdicts.values() if v["check"]),
            "sites_refuted": sorted(nm for nm, v in R.verdicts.items() if not v["check"] and v["bad"] is not None),
            "native_evaluations": n_native, "native_ok": native_ok,
            "generated_v_changed_this_run": bool(R.generated_changed),
        },
        "outside_judged_domain": R.behaviour,
        "translator_wall_s": round(t_regen, 1), "translator_phases_s": getattr(R, "timing", {}),
    })


def replay(ctx, path):
    obj = json.load(open(path))
    rep = obj.get("replay", obj)
    if "sites" not in rep:
        print("replay file names no failing input:", json.dumps(obj)[:1000])
        return 1
    scalar.setup_paths()
    xs = sorted({s["input"] for s in rep["sites"]})
    R = scalar.regenerate(xs, xs, native=True)
    for lang, which, msg in R.errors:
        print("translator: %s (%s): %s" % (lang, which, msg))
    base_key = rep["key"].replace(":canonical-input", "")
    bad = 0
    for e in rep["sites"]:
        if e.get("native"):
            vals = R.native.get(e["ident"].replace("_dbg", ""), {}).get(e["mode"], [])
            site = next((st for st in R.sites if st.ident("") == e["ident"].replace("_dbg", "")), None)
            got = dict(vals).get(e["input"])
            if site is None or got is None:
                print("%s: site no longer scraped / not runnable natively" % e["ident"]); bad += 1; continue
            j = scalar.judge(site, e["input"], got)
            print("%s (%s build, %s)  current text `%s`  input %s  expected %s  native result %s -> %s" % (
                e["ident"], e["mode"], "rustc" if site.lang == "rust" else "clang", site.text, e["input"], e["expected"], got,
                "STILL VIOLATES" if j else "agrees with the canonical ABI"))
            bad += 1 if j else 0
            continue
        cur = [(nm, v) for nm, v in R.verdicts.items() if v["site"].key == base_key and v["site"].site == e["site"]
               and (nm.endswith("_dbg") == (e.get("mode") == "debug"))]
        if not cur:
            print("site %s %s no longer scraped or no longer parsed" % (rep["key"], e["site"]))
            bad += 1
            continue
        for nm, v in cur:
            s = v["site"]
            fails = (not v["check"]) and v["bad"] is not None
            print("%s  current text `%s`  [%s : %s -> %s]  input %s  expected %s  -> %s" % (
                nm, s.text, s.var, s.src, s.dst, e["input"], e["expected"],
                "STILL VIOLATES (input %s gives %s)" % (v["bad"], v["bad_value"]) if fails
                else "agrees with the canonical ABI (proved for all inputs)" if v["check"] else "undecided"))
            bad += 1 if fails or not v["check"] else 0
    return 1 if bad else 0


META = {
    "engine": "coq+scrape",
    "technique": "translation of the generators' emitted conversion expressions into Coq (regenerated every run) + verified abstract evaluator (bit-map normaliser, sound for all 2^32/2^64 inputs) + exhaustive enumeration of 8/16-bit domains + differential validation of the Rust/C operator semantics against rustc/clang",
    "text": "For each of the 7 backends x 12 scalar types x lift/lower x import/export site, the expression the generator emits is scraped from freshly generated bindings, parsed into the language's surface AST and proved (Coq, all inputs, no enumeration) to compute lower_flat/lift_flat of the canonical ABI; the theorem list is regenerated with the data while Props/C14.v keeps the stable universally quantified statements (norm_sound, checker soundness, spec-shape correctness, C14_all over everything scraped outside the recorded finding classes, coverage of all 7x2x12 instruction templates).",
    "note": "Trusted: Coq kernel+vm_compute; Scalar/Expr.v elaborators as the semantics of the 7 languages (Rust and C columns validated against rustc/clang each run; C#, Go, D, MoonBit, C++ not executable here); ScalarSpec.v as transcription of CanonicalABI lift_flat/lower_flat; the scraper regexes/parser in lib/scalar.py; wasm32 assumption. Known findings: moonbit:S8FromI32, moonbit:S16FromI32 (lift emitted as x-0x100 / x-0x10000), rust:BoolFromI32 (bool_lift(x as u8): only low 8 bits tested; debug panics on 2..255). Print Assumptions: closed under the global context.",
}
