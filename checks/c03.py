"""C03 — cleanup frees exactly what lowering allocated.  Proof: Props/C03.v (post-return / cleanup decision
= 'type can hold a heap buffer / an owned handle', all types).  Tie: dealloc.* and post_return streams vs the
model.  Search: Abi/Check.v's check_dealloc / check_post_return on the REAL streams with the heap ledger, and
the real guest_export_needs_post_return facts against has_heap."""
import vf, abicheck, abitie, re

LEVEL = "proof"
READY = True
THEOREMS = ["C03_lists_cleanup_iff_heap", "C03_own_cleanup_iff", "C03_post_return_iff_heap", "C03_params_have_allocations_iff",
            "C03_memory_cleanup_traversal_is_stack_neutral", "C03_direct_cleanup_consumes_flattened_operands",
            "C03_direct_cleanup_wide_flags_refuted", "C03_deallocate_in_types_indirect_never_panics",
            "C03_deallocate_in_types_direct_never_panics", "C03_post_return_never_panics_when_requested"]
KINDS = ("dealloc", "post_return", "facts")


def setup():
    b = abitie.build()
    return b[0] and b[3]


def run(ctx):
    ctx.assumptions += [
        "ledger semantics (Abi/Sem.v): an owning lowering enters (ptr,size,align) in the ledger; GuestDeallocate* must hit a live entry with equal size and alignment (otherwise: double free / wrong size); zero-sized buffers are not allocated",
    ]
    ctx.proof_leg(["theories/Props/C03.vo"], ["Props.C03"], THEOREMS)
    r = abicheck.run(ctx, "C03", KINDS, n_quick=60, n_thorough=3000, nvals_quick=4, nvals_thorough=12)
    if r is None:
        return
    res, exe_r, exe_m, texts = r
    # the real post-return decision against the independent has_heap (Coq) of the result type
    facts = [(ti, f, sig, d) for (ti, f, sig, label, d) in res["index"] if label == "facts"]
    heaps = vf.run_filter([exe_m], ["HEAP\x1d%s" % sig for (_, _, sig, _) in facts]) if facts else []
    bad = 0
    for (ti, f, sig, d), h in zip(facts, heaps):
        m = re.search(r"post_return=(\d)", d)
        if m and m.group(1) != h:
            bad += 1
            if bad <= 3:
                ctx.violation("abi:post_return_iff:%s" % vf.canon_hash(sig),
                              "post-return generated=%s but the result type %s a heap buffer: %s" % (m.group(1), "can hold" if h == "1" else "cannot hold", sig[:200]),
                              {"wit": texts[ti], "func": f, "sig": sig, "label": "facts", "pw": 4, "outcome": d, "dump": d})
    ctx.coverage["post_return_decisions_checked"] = len(facts)


def replay(ctx, path):
    import json
    obj = json.load(open(path))["replay"]
    if obj.get("label") == "facts":
        ok1, exe_r, log1, ok2, exe_m, log2 = abitie.build()
        real = abitie.dump_real(exe_r, [obj["wit"]])[0]
        for (fname, sig, entries) in real:
            if fname == obj["func"]:
                d = dict(entries)["facts"]
                h = vf.run_filter([exe_m], ["HEAP\x1d%s" % sig], shards=1)[0]
                print(sig, d, "has_heap=%s" % h)
                return 0 if ("post_return=%s" % h) in d else 1
        return 1
    return abicheck.replay(ctx, path)


META = {
    "engine": "coq+absdump",
    "technique": "Coq proofs (induction over all types): the cleanup/post-return decision equals 'the type can hold a heap buffer (or owned handle)'; the in-memory cleanup traversal never panics and is stack-neutral; the direct-operand cleanup never panics and consumes exactly the flattened operands; token-for-token correspondence of real deallocation streams with the extracted model; extracted interpreter with an allocation ledger checks exactly-once frees and handle drops on real streams",
    "text": "Theorems (all types): deallocate_indirect reaches no panic site and leaves the operand stack as found (both modes); deallocate consumes exactly |flatten(t)| operands on every fitting type whose flags have 1..32 members (the two-word-flags case is refuted by computation: one operand is left behind - unreachable for component-model-valid types); needs_deallocate in lists mode = can-hold-a-heap-buffer, in lists-and-own mode = that or can-hold-an-owned-handle; post-return generated iff the result can hold a heap buffer. The deallocation programs (direct and indirect operands, both modes, post_return) of every explored type equal the model's token for token, and executing the REAL programs on spec-lowered values leaves the ledger empty (each buffer freed exactly once with its size/alignment, nothing else) and drops exactly the owned handles in lists-and-own mode. Found and repaired two genuine defects this way (fixed-length lists not freed; error-context forcing a post-return).",
    "note": "Proved part: the decision half and the stack discipline / panic freedom of both cleanup traversals; the ledger half is executed on real streams (differential). Trusted as for C01.",
}
