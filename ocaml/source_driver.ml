(* Model side of the C25 tie: same line protocol as harness/crates/corelib/src/source.rs *)
open Source_model

let decode (s : string) : char list =
  let b = Buffer.create 16 in
  let n = String.length s in
  let i = ref 0 in
  while !i < n do
    if s.[!i] = '\\' then begin
      incr i;
      (match s.[!i] with
       | 'n' -> Buffer.add_char b '\n'
       | 'r' -> Buffer.add_char b '\r'
       | 't' -> Buffer.add_char b '\t'
       | 's' -> Buffer.add_char b ' '
       | '\\' -> Buffer.add_char b '\\'
       | 'c' -> Buffer.add_char b ','
       | 'p' -> Buffer.add_char b '|'
       | 'x' -> Buffer.add_char b (Char.chr (int_of_string ("0x" ^ String.sub s (!i + 1) 2))); i := !i + 2
       | _ -> failwith "bad escape");
      incr i
    end else begin Buffer.add_char b s.[!i]; incr i end
  done;
  Util.explode (Buffer.contents b)

let encode (l : char list) : string =
  let b = Buffer.create 64 in
  List.iter (fun c ->
      match c with
      | '\n' -> Buffer.add_string b "\\n"
      | '\r' -> Buffer.add_string b "\\r"
      | '\t' -> Buffer.add_string b "\\t"
      | ' ' -> Buffer.add_string b "\\s"
      | '\\' -> Buffer.add_string b "\\\\"
      | ',' -> Buffer.add_string b "\\c"
      | '|' -> Buffer.add_string b "\\p"
      | c when Char.code c < 0x21 || Char.code c > 0x7e -> Buffer.add_string b (Printf.sprintf "\\x%02x" (Char.code c))
      | c -> Buffer.add_char b c) l;
  Buffer.contents b

let rec nat_of_int (n : int) : nat = if n <= 0 then O else S (nat_of_int (n - 1))
let rec int_of_nat (n : nat) : int = match n with O -> 0 | S m -> 1 + int_of_nat m

let parse_bop (s : string) : bop =
  let i = String.index s ':' in
  let arg = String.sub s (i + 1) (String.length s - i - 1) in
  match String.sub s 0 i with
  | "p" -> Push (decode arg)
  | "l" -> Lit (decode arg)
  | "w" -> Write (List.map decode (String.split_on_char '|' arg))
  | "W" -> Write [decode arg; ['\n']]
  | "i" -> Indent (nat_of_int (int_of_string arg))
  | "d" -> Deindent (nat_of_int (int_of_string arg))
  | "s" -> SetIndent (nat_of_int (int_of_string arg))
  | "q" -> Query
  | _ -> failwith "bad op"

let parse_op (s : string) : op =
  if String.length s >= 2 && String.sub s 0 2 = "a:" then
    Append (List.map parse_bop
              (List.filter (fun x -> x <> "") (String.split_on_char ',' (String.sub s 2 (String.length s - 2)))))
  else B (parse_bop s)

let show_outs outs =
  if outs = [] then "-" else String.concat "," (List.map (fun n -> string_of_int (int_of_nat n)) outs)
let b01 b = if b then "1" else "0"

(* usage: source_driver            -> observe (the tie)
          source_driver classify   -> "<reason 0..4> <aligned 0/1> <enc layout>|none <depth>|-"  (basic ops only)
          source_driver block      -> case "pre-ops... p:<block>": "<start 0/1> <linebal 0/1> <charbal 0/1>" or PANIC *)
let () =
  let mode = if Array.length Sys.argv > 1 then Sys.argv.(1) else "observe" in
  Util.iter_lines (fun l ->
      let toks = Util.split_ws l in
      match mode with
      | "classify" ->
         let ops = List.map parse_bop toks in
         let ((reason, aligned), spec) = classify ops in
         string_of_int (int_of_nat reason) ^ " " ^ b01 aligned ^ " " ^
           (match spec with
            | None -> "none -"
            | Some (t, d) -> (let e = encode t in if e = "" then "\\e" else e) ^ " " ^ string_of_int (int_of_nat d))
      | "block" ->
         let ops = List.map parse_bop toks in
         let rec split_last = function
           | [] -> failwith "empty"
           | [x] -> ([], x)
           | x :: r -> let (a, b) = split_last r in (x :: a, b) in
         let (pre, last) = split_last ops in
         (match last with
          | Push f ->
             (match classify_block pre f with
              | None -> "PANIC"
              | Some ((s, lb), cb) -> b01 s ^ " " ^ b01 lb ^ " " ^ b01 cb)
          | _ -> failwith "last op must be p:")
      | _ ->
         match observe (List.map parse_op toks) with
         | None -> "PANIC"
         | Some (buf, outs) -> encode buf ^ " " ^ show_outs outs)
