(* C30 validated part: runs the extracted, Coq-verified PkgGraph.check on one scraped generator output.
   in : project \x1e ext\x1dext.. \x1e expected\x1dexpected.. \x1e pkg \x1e pkg ...
        pkg = dir \x1d path\x1balias\x1cpath\x1balias.. \x1d ref\x1cref..
   out: OK   |   KIND|a|b \x1e KIND|a ... *)
open Pkggraph_model
let split c s = if s = "" then [] else String.split_on_char c s
let ex = Util.explode
let im = Util.implode
let parse_pkg (s : string) : pkg =
  match String.split_on_char '\x1d' s with
  | [dir; imps; refs] ->
     let imps = List.map (fun e -> match String.split_on_char '\x1b' e with
                                   | [p; a] -> (ex p, ex a)
                                   | _ -> failwith "bad import entry") (split '\x1c' imps) in
     { p_dir = ex dir; p_imports = imps; p_refs = List.map ex (split '\x1c' refs) }
  | _ -> failwith "bad pkg"
let show = function
  | Undeclared (d, a) -> "Undeclared|" ^ im d ^ "|" ^ im a
  | DupAlias (d, a) -> "DupAlias|" ^ im d ^ "|" ^ im a
  | DupPath (d, p) -> "DupPath|" ^ im d ^ "|" ^ im p
  | MissingPkg (d, p) -> "MissingPkg|" ^ im d ^ "|" ^ im p
  | DupDir d -> "DupDir|" ^ im d
  | MissingExpected d -> "MissingExpected|" ^ im d
let () =
  Util.iter_lines (fun l ->
      match String.split_on_char '\x1e' l with
      | project :: exts :: expected :: pkgs ->
         let o = { o_project = ex project; o_external = List.map ex (split '\x1d' exts);
                   o_pkgs = List.map parse_pkg pkgs; o_expected = List.map ex (split '\x1d' expected) } in
         (match check o with
          | [] -> "OK"
          | es -> String.concat "\x1e" (List.map show es))
      | _ -> failwith "bad line")
