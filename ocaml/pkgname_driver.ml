(* line protocol of the C27 model side.
   "<id> <id> ..."            -> "ok <module> ..." | "invalid"      (id = ns:name or ns:name@version)
   "C <i> <j> <id> <id> ..."  -> mechanism tag of the pair (i, j) of the set, by the extracted [classify] *)
open Pkgname_model

exception Bad

let split_first (c : char) (s : string) : (string * string) option =
  match String.index_opt s c with
  | None -> None
  | Some i -> Some (String.sub s 0 i, String.sub s (i + 1) (String.length s - i - 1))

let all_digits s = s <> "" && String.for_all (fun c -> c >= '0' && c <= '9') s

let parse_version (t : string) : version =
  let core_pre, build = match split_first '+' t with Some (a, b) -> (a, b) | None -> (t, "") in
  let core, pre = match split_first '-' core_pre with Some (a, b) -> (a, b) | None -> (core_pre, "") in
  match String.split_on_char '.' core with
  | [a; b; c] when all_digits a && all_digits b && all_digits c ->
    let v = { major = undec (Util.explode a); minor = undec (Util.explode b); patch = undec (Util.explode c);
              pre = Util.explode pre; build = Util.explode build } in
    (* the record must print back to exactly the text we were given (rejects leading zeros, "1.0.0-", "1.0.0+") *)
    if Util.implode (version_to_string v) = t then v else raise Bad
  | _ -> raise Bad

let parse_pkg (s : string) : pkg =
  match split_first ':' s with
  | None -> raise Bad
  | Some (ns, rest) ->
    let name, ver = match split_first '@' rest with
      | None -> (rest, None)
      | Some (n, v) -> (n, Some (parse_version v)) in
    { pns = Util.explode ns; pname = Util.explode name; pver = ver }

let show_mech = function
  | MSep -> "sep" | MFold -> "fold" | MNameCase -> "namecase" | MVerCase -> "vercase" | MCamel -> "camel"
  | MConcatVV -> "concat-vv" | MConcatNV -> "concat-nv" | MUnexplained -> "unexplained"

let () =
  Util.iter_lines (fun l ->
      match Util.split_ws l with
      | "C" :: i :: j :: ids ->
        (try
           let s = List.map parse_pkg ids in
           show_mech (classify s (List.nth s (int_of_string i)) (List.nth s (int_of_string j)))
         with Bad -> "invalid")
      | ids ->
        (try
           let s = List.map parse_pkg ids in
           if not (valid_set s) then "invalid"
           else String.concat " " ("ok" :: List.map Util.implode (module_names s))
         with Bad -> "invalid"))
