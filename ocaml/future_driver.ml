(* C20 model driver: same line protocol and output grammar as harness/crates/rtmock/src/bin/futures.rs.
   Usage: future_driver            scenario line -> predicted output line
          future_driver ghost      scenario line -> per-future ghost ledger (debugging / evidence) *)
open Futureop_model

let rec pos_of_int (i : int) : positive =
  if i = 1 then XH else if i land 1 = 1 then XI (pos_of_int (i lsr 1)) else XO (pos_of_int (i lsr 1))
let n_of_int (i : int) : n = if i = 0 then N0 else Npos (pos_of_int i)
let rec int_of_pos = function XH -> 1 | XO p -> 2 * int_of_pos p | XI p -> 2 * int_of_pos p + 1
let int_of_n = function N0 -> 0 | Npos p -> int_of_pos p
let int_of_z = function Z0 -> 0 | Zpos p -> int_of_pos p | Zneg p -> - (int_of_pos p)
let rec nat_of_int (i : int) : nat = if i <= 0 then O else S (nat_of_int (i - 1))
let rec int_of_nat = function O -> 0 | S k -> 1 + int_of_nat k

let parse_act (s : string) : act option =
  let p = String.split_on_char ':' s in
  let fi x = nat_of_int (int_of_string x) in
  try
    match p with
    | ["N"; k] -> Some (ANew (k = "h"))
    | ["I"; k] -> Some (AImp (k = "h"))
    | ["W"; f; v] -> Some (AWrite (fi f, n_of_int (int_of_string v)))
    | ["Wp"; f] -> Some (AWPoll (fi f))
    | ["Wc"; f] -> Some (AWCancel (fi f))
    | ["Wd"; f] -> Some (AWDropOp (fi f))
    | ["Dw"; f] -> Some (ADropWriter (fi f))
    | ["R"; f] -> Some (ARead (fi f))
    | ["Rp"; f] -> Some (ARPoll (fi f))
    | ["Rc"; f] -> Some (ARCancel (fi f))
    | ["Rd"; f] -> Some (ARDropOp (fi f))
    | ["Dr"; f] -> Some (ADropReader (fi f))
    | ["T"; f] -> Some (ATransfer (fi f))
    | ["Pr"; f] -> Some (APeerRead (fi f))
    | ["Pd"; f] -> Some (APeerDrop (fi f))
    | ["Pw"; f; v] -> Some (APeerWrite (fi f, n_of_int (int_of_string v)))
    | ["E"; fe] ->
        let l = String.length fe in
        let e = match fe.[l - 1] with 'w' -> EW | 'r' -> ER | _ -> failwith "end" in
        Some (ADeliver (fi (String.sub fe 0 (l - 1)), e))
    | _ -> None
  with _ -> None

let se = function EW -> "w" | ER -> "r"
let sn n = string_of_int (int_of_n n)
let sf f = string_of_int (int_of_nat f)
let sym f e = sf f ^ se e

let show_act = function
  | ANew h -> if h then "N:h" else "N:u"
  | AImp h -> if h then "I:h" else "I:u"
  | AWrite (f, v) -> "W:" ^ sf f ^ ":" ^ sn v
  | AWPoll f -> "Wp:" ^ sf f
  | AWCancel f -> "Wc:" ^ sf f
  | AWDropOp f -> "Wd:" ^ sf f
  | ADropWriter f -> "Dw:" ^ sf f
  | ARead f -> "R:" ^ sf f
  | ARPoll f -> "Rp:" ^ sf f
  | ARCancel f -> "Rc:" ^ sf f
  | ARDropOp f -> "Rd:" ^ sf f
  | ADropReader f -> "Dr:" ^ sf f
  | ATransfer f -> "T:" ^ sf f
  | APeerRead f -> "Pr:" ^ sf f
  | APeerDrop f -> "Pd:" ^ sf f
  | APeerWrite (f, v) -> "Pw:" ^ sf f ^ ":" ^ sn v
  | ADeliver (f, e) -> "E:" ^ sym f e

let show_trap = function
  | TrWriteBad -> "write:bad-handle" | TrWriteBusy -> "write:busy" | TrWriteDone -> "write:future-done"
  | TrReadBad -> "read:bad-handle" | TrReadBusy -> "read:busy" | TrReadDone -> "read:future-done"
  | TrCancelBad -> "cancel:bad-handle" | TrCancelNotCopying -> "cancel:not-copying" | TrCancelJoined -> "cancel:joined"
  | TrDropBad -> "drop:bad-handle" | TrDropCopying -> "drop:copying" | TrDropUnwritten -> "drop:future-writer-unwritten"
  | TrJoinBad -> "join:bad-waitable" | TrStaleCallback -> "stale-callback"

let show_panic = function
  | PRepoll -> "cannot_re-poll_after_operation_completes"
  | PRecancel -> "cannot_cancel_operation_after_completing_it"
  | PUnexpectedCode -> "unexpected_code"
  | PPollAfterCancel -> "cannot_poll_after_cancelling"
  | PCancelPending -> "internal_error:_entered_unreachable_code"

let show_out = function
  | OOk -> "ok" | OSkip -> "skip" | OPending -> "Pending" | OWOk -> "Ok"
  | OWErr v -> "Err:" ^ sn v | OAlreadySent -> "AlreadySent" | ODropped v -> "Dropped:" ^ sn v
  | OCancelled v -> "Cancelled:" ^ sn v | OVal v -> "Val:" ^ sn v | OROk v -> "ROk:" ^ sn v
  | ORErr -> "RErr" | OPanic p -> "PANIC:" ^ show_panic p

let show_tok (f : nat) (t : n tok) : string =
  match t with
  | KOut o -> "=" ^ show_out o
  | KFnew -> "fnew:" ^ sf f
  | KTake e -> "take:" ^ sym f e
  | KWrite c -> "fwrite:" ^ sym f EW ^ "=" ^ sn c
  | KRead c -> "fread:" ^ sym f ER ^ "=" ^ sn c
  | KCancel (e, c) -> "fcancel" ^ se e ^ ":" ^ sym f e ^ "=" ^ sn c
  | KDropEnd e -> "fdrop" ^ se e ^ ":" ^ sym f e
  | KJoin (e, s) -> "join:" ^ sym f e ^ ":" ^ (if s then "1" else "0")
  | KWsnew -> "wsnew"
  | KWspoll (e, ev, c) -> "wspoll=" ^ sn ev ^ "," ^ sym f e ^ "," ^ sn c
  | KTreg e -> "treg:" ^ sym f e
  | KTunreg e -> "tunreg:" ^ sym f e
  | KTclone -> "tclone"
  | KTdrop -> "tdrop"
  | KTdeliver (e, c) -> "tdeliver:" ^ sym f e ^ ":" ^ sn c
  | KLower v -> "lower:" ^ sn v
  | KLift v -> "lift:" ^ sn v
  | KRelift v -> "relift:" ^ sn v
  | KDealloc v -> "dealloc:" ^ sn v
  | KVdrop v -> "vdrop:" ^ sn v
  | KDefault -> "default"
  | KAreaP -> "area+"
  | KAreaM -> "area-"
  | KWake -> "wake"
  | KTrap t -> "TRAP:" ^ show_trap t

let show_entry = function
  | EAct a -> ">" ^ show_act a
  | ETok (f, t) -> show_tok f t

let show_summary (s : summary) : string =
  let base =
    [ (if s.su_panicked then "panicked" else "slots=" ^ string_of_int (int_of_nat s.su_slots));
      "live=" ^ string_of_int (int_of_z s.su_live);
      "low=" ^ string_of_int (int_of_z s.su_low);
      "area=" ^ string_of_int (int_of_z s.su_area);
      "ends=" ^ string_of_int (int_of_nat s.su_ends);
      "map=" ^ string_of_int (int_of_nat s.su_map);
      "clones=" ^ string_of_int (int_of_nat s.su_clones);
      "defaults=" ^ string_of_int (int_of_nat s.su_defaults) ] in
  let peers = List.mapi (fun i l -> "peer:" ^ string_of_int i ^ "=" ^ String.concat "," (List.map sn l)) s.su_peer in
  String.concat " " (base @ peers)

let parse_line (l : string) : (bool * act list) option =
  match Util.split_ws l with
  | v :: rest when v = "v1" || v = "v2" ->
      let acts = List.map parse_act rest in
      if List.exists (fun a -> a = None) acts then None
      else Some (v = "v2", List.map (function Some a -> a | None -> assert false) acts)
  | _ -> None

(* breadth-first search of the per-future core (same exploration as Async/FutureOpReach.v, counted here
   for the evidence file): states, transitions, transitions with a trap / unreachable-panic token *)
let facts = [FWrite; FWPoll; FWCancel; FWDropOp; FDropWriter; FRead; FRPoll; FRCancel; FRDropOp; FDropReader;
             FTransfer; FPeerRead; FPeerDrop; FPeerWrite; FDeliver EW; FDeliver ER]
let bfs_stats () : string =
  String.concat " " (List.map (fun v2 ->
    let seen = Hashtbl.create 4096 in
    let q = Queue.create () in
    let add c = if not (Hashtbl.mem seen c) then (Hashtbl.add seen c (); Queue.add c q) in
    List.iter (fun h -> List.iter (fun i -> add (fut0 h i)) [true; false]) [true; false];
    let trans = ref 0 and bad = ref 0 and panics = ref 0 in
    while not (Queue.is_empty q) do
      let c = Queue.pop q in
      List.iter (fun s -> List.iter (fun a ->
        let (((ok, c'), _), toks) = cstep v2 s c a in
        incr trans;
        if not (clean_toks toks) then incr bad;
        if ok then add c' else incr panics) facts) [true; false]
    done;
    Printf.sprintf "v%d:states=%d,transitions=%d,unclean=%d,misuse_panics=%d" (if v2 then 2 else 1)
      (Hashtbl.length seen) !trans !bad !panics) [true; false])

let () =
  if Array.length Sys.argv > 1 && Sys.argv.(1) = "bfs" then (print_endline (bfs_stats ()); exit 0);
  let ghost = Array.length Sys.argv > 1 && Sys.argv.(1) = "ghost" in
  Util.iter_lines (fun l ->
      match parse_line l with
      | None -> "BAD-INPUT"
      | Some (v2, tr) ->
          if ghost then begin
            let s = exec v2 tr in
            let sv = function VUser -> "U" | VDefault -> "D" | VPeer -> "P" | VJunk -> "J" in
            let lst l = "[" ^ String.concat "," (List.map sv l) ^ "]" in
            String.concat " ; "
              (List.mapi (fun i sf ->
                   let f = sf.core in
                   Printf.sprintf "%d: imp=%b dropw=%d dropr=%d taker=%d got=%s sent=%s xfer=%s peer=%s quiescent=%b" i f.f_imp
                     (int_of_nat f.fg.n_dropw) (int_of_nat f.fg.n_dropr) (int_of_nat f.fg.n_taker) (lst f.fg.got) (lst f.fg.sent)
                     (lst f.fg.xfer) (lst f.fh.peer_recv) (quiescent_fut f)) s.futs)
          end else begin
            let (toks, su) = run v2 tr in
            String.concat " " (List.map show_entry toks) ^ " | " ^ show_summary su
          end)
