(* line protocol of the C17 model side.
   "<directives>\x1e<table>\x1e<queries>"  ->  "A=<bits> U=<ok|err:unused async option: text> D=<=text\x1d...> E=<bool>"
   directives: "=text" separated by \x1d;  table: "key|name|i/e|a/s" separated by ';' (key "-" = world level);
   queries: space separated indices into the table. *)
open Asyncfilter_model

let split_on c s = if s = "" then [] else String.split_on_char c s

let parse_entry (e : string) : query =
  match String.split_on_char '|' e with
  | [k; n; d; a] ->
    { qkey = (if k = "-" then None else Some (Util.explode k)); qname = Util.explode n;
      qimport = (d = "i"); qasync = (a = "a") }
  | _ -> failwith ("bad table entry " ^ e)

let () =
  Util.iter_lines (fun l ->
      match String.split_on_char '\x1e' l with
      | [d; t; q] ->
        let texts = List.map (fun x -> Util.explode (String.sub x 1 (String.length x - 1))) (split_on '\x1d' d) in
        let table = Array.of_list (List.map parse_entry (split_on ';' t)) in
        let qs = List.map (fun i -> table.(int_of_string i)) (Util.split_ws q) in
        let ((bs, verdict), shown) = run_texts texts qs in
        Printf.sprintf "A=%s U=%s D=%s E=%b"
          (String.concat "" (List.map (fun b -> if b then "1" else "0") bs))
          (match verdict with None -> "ok" | Some m -> "err:unused async option: " ^ Util.implode m)
          (String.concat "\x1d" (List.map (fun s -> "=" ^ Util.implode s) shown))
          (any_enabled (fset_of texts))
      | _ -> failwith "bad line")
