(* C33 model driver.  One case per line: items separated by ' ', one per generated file in iteration
   order:  <name>:<prev>:<contents>   with name/prev/contents as plain hex bytes ("-" = empty),
   prev = "!" (reading the destination fails) or "=" (same bytes as contents).
   Output: ok | read <name> | eol <name> | diff <name>   (name in hex),
   followed by " nowrite" iff the file system after the model's check-mode loop answers every queried
   path as before (sanity echo of the structural theorem). *)
open Clicheck_model

let rec pos_of_int (i : int) : positive =
  if i = 1 then XH else if i land 1 = 1 then XI (pos_of_int (i lsr 1)) else XO (pos_of_int (i lsr 1))
let n_of_int (i : int) : n = if i = 0 then N0 else Npos (pos_of_int i)
let rec int_of_pos = function XH -> 1 | XO p -> 2 * int_of_pos p | XI p -> 2 * int_of_pos p + 1
let int_of_n = function N0 -> 0 | Npos p -> int_of_pos p
let byte_tbl = Array.init 256 n_of_int

let unhex (s : string) : n list =
  if s = "-" then []
  else begin
    let len = String.length s / 2 in
    let out = ref [] in
    for i = len - 1 downto 0 do
      out := byte_tbl.(int_of_string ("0x" ^ String.sub s (2 * i) 2)) :: !out
    done;
    !out
  end
let hex (l : n list) : string =
  if l = [] then "-" else String.concat "" (List.map (fun b -> Printf.sprintf "%02x" (int_of_n b)) l)

let () =
  Util.iter_lines (fun l ->
      let items = List.filter (fun x -> x <> "") (String.split_on_char ' ' l) in
      let parsed = List.map (fun it ->
          match String.split_on_char ':' it with
          | [n; p; c] ->
              let c' = unhex c in
              (unhex n, (if p = "!" then None else if p = "=" then Some c' else Some (unhex p)), c')
          | _ -> failwith "bad item") items in
      let dir = List.concat_map (fun (n, p, _) -> match p with Some b -> [(n, b)] | None -> []) parsed in
      let files = List.map (fun (n, _, c) -> (n, c)) parsed in
      let fs = fs_of_list dir in
      let (fs', out) = run true fs files in
      let same = List.for_all (fun (n, _, _) -> fs' n = fs n) parsed in
      (match out with
       | Ok -> "ok"
       | ReadFailed p -> "read " ^ hex p
       | LineEndingsOnly p -> "eol " ^ hex p
       | NotUpToDate p -> "diff " ^ hex p) ^ (if same then " nowrite" else " WROTE"))
