(* Driver for the extracted model Core/ResourceOwn.v (C07).
   input line : operations separated by blanks
       gi:<rep> ge:<k> eb lb:<rep> bg:<k> ee hd:<k> ud:<w> po:<w> pb:<w> un:<v> ug:<w> ui:<w>
     (<k> = number of an exported-resource box in creation order: rep = 4096 + 8k)
   output line: one summary per operation, separated by " | " :
       tbl=<i:kind:own:rep,…> need=<n> free=<i,…> boxes=<#k,…> err=<0 none|1 api|2 trap|3 panic> ev=<events of this step> *)
open Resown_model

let rec pos_of_int i = if i = 1 then XH else if i land 1 = 0 then XO (pos_of_int (i lsr 1)) else XI (pos_of_int (i lsr 1))
let n_of_int i = if i = 0 then N0 else Npos (pos_of_int i)
let rec int_of_pos = function XH -> 1 | XO p -> 2 * int_of_pos p | XI p -> 2 * int_of_pos p + 1
let int_of_n = function N0 -> 0 | Npos p -> int_of_pos p

let box_rep k = n_of_int (4096 + 8 * k)
let show_box r = let r = int_of_n r in if r >= 4096 && (r - 4096) mod 8 = 0 then Printf.sprintf "#%d" ((r - 4096) / 8) else string_of_int r

let parse_op (s : string) : op =
  let arg () = int_of_string (String.sub s 3 (String.length s - 3)) in
  match String.sub s 0 2 with
  | "gi" -> HGiveOwnImported (n_of_int (arg ()))
  | "ge" -> HGiveOwnExported (box_rep (arg ()))
  | "eb" -> HExportBegin
  | "lb" -> HLendBorrowImported (n_of_int (arg ()))
  | "bg" -> HBorrowExportedGet (box_rep (arg ()))
  | "ee" -> HExportEnd
  | "hd" -> HDropOwnExported (box_rep (arg ()))
  | "ud" -> UDrop (n_of_int (arg ()))
  | "po" -> UPassOwn (n_of_int (arg ()))
  | "pb" -> UPassBorrow (n_of_int (arg ()))
  | "un" -> UNew (n_of_int (arg ()))
  | "ug" -> UGet (n_of_int (arg ()))
  | "ui" -> UIntoInner (n_of_int (arg ()))
  | _ -> failwith ("bad op " ^ s)

let b01 b = if b then "1" else "0"
let show_event = function
  | EvDropCall (h, own) -> Printf.sprintf "drop:%d:%s" (int_of_n h) (b01 own)
  | EvNewBox (_, v) -> Printf.sprintf "newbox-v:%d" (int_of_n v)
  | EvHostTook (h, rep) -> Printf.sprintf "took:%d:%s" (int_of_n h) (show_box rep)
  | EvDtor rep -> Printf.sprintf "dtor:%s" (show_box rep)
  | EvValDestroyed v -> Printf.sprintf "destroyed:%d" (int_of_n v)
  | EvValToUser v -> Printf.sprintf "touser:%d" (int_of_n v)
  | EvLend h -> Printf.sprintf "lend:%d" (int_of_n h)
  | EvNewHandle (h, own) -> Printf.sprintf "newh:%d:%s" (int_of_n h) (b01 own)

let summary (s : st) (nlog_before : int) : string =
  let entries = List.sort compare (List.map (fun (i, e) ->
      (int_of_n i, Printf.sprintf "%d:%s:%s:%s" (int_of_n i) (match e.e_kind with Imported -> "0" | Exported -> "1") (b01 e.e_own)
         (match e.e_kind with Exported -> show_box e.e_rep | Imported -> string_of_int (int_of_n e.e_rep)))) s.tbl) in
  let boxes = List.sort compare (List.map (fun (r, _) -> (int_of_n r - 4096) / 8) s.reps) in
  let newev = let l = List.rev s.log in List.filteri (fun i _ -> i >= nlog_before) l in
  Printf.sprintf "tbl=%s need=%d free=%s boxes=%s err=%d ev=%s"
    (String.concat "," (List.map snd entries)) (int_of_n s.need_drop)
    (String.concat "," (List.map (fun i -> string_of_int (int_of_n i)) s.freeh))
    (String.concat "," (List.map (fun k -> Printf.sprintf "#%d" k) boxes))
    (int_of_n (err_class s)) (String.concat "," (List.map show_event newev))

let () =
  Util.iter_lines (fun l ->
      let ops = List.map parse_op (Util.split_ws l) in
      let s = ref init in
      let outs = List.map (fun o ->
          let n0 = List.length !s.log in
          s := step !s o;
          summary !s n0) ops in
      String.concat " | " outs)
