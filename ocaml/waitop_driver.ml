(* C18: line driver around the extracted model Async/WaitOp.v.  Same input line as
   harness/crates/rtmock/src/bin/waitop.rs, same output format, plus " valid"/" invalid" and the ghost
   facts " bad=<0|1> handed=<n> updates=<n> pending=<n>" after a '#'. *)
open Waitop_model

let rec pos_of_int (i : int) : positive =
  if i = 1 then XH else if i land 1 = 0 then XO (pos_of_int (i lsr 1)) else XI (pos_of_int (i lsr 1))
let n_of_int (i : int) : n = if i = 0 then N0 else Npos (pos_of_int i)
let rec int_of_pos = function XH -> 1 | XO p -> 2 * int_of_pos p | XI p -> 2 * int_of_pos p + 1
let int_of_n = function N0 -> 0 | Npos p -> int_of_pos p
let int_of_z = function Z0 -> 0 | Zpos p -> int_of_pos p | Zneg p -> - (int_of_pos p)
let si n = string_of_int (int_of_n n)
let parse_num (s : string) : int = if s = "B" then 4294967295 else int_of_string s

let trap_name = function
  | TJoinBadWaitable -> "join:bad-waitable" | TJoinBadSet -> "join:bad-set" | TSetDropBad -> "wsdrop:bad-set"
  | TSetDropNonEmpty -> "wsdrop:nonempty" | TWaitBadSet -> "wait:bad-set" | TWaitDeadlock -> "wait:deadlock"
  | TSubCancelBad -> "stcancel:bad-handle" | TSubCancelResolved -> "stcancel:resolved" | TSubCancelTwice -> "stcancel:twice"
  | TSubCancelJoined -> "stcancel:joined" | TSubDropBad -> "stdrop:bad-handle" | TSubDropUnresolved -> "stdrop:unresolved"
  | TRwBadHandle -> "rw:bad-handle" | TRwWrongDirection -> "rw:wrong-direction" | TRwBusy -> "rw:busy" | TRwFutureDone -> "rw:future-done"
  | TCancelBadHandle -> "cancel:bad-handle" | TCancelWrongDirection -> "cancel:wrong-direction" | TCancelNotCopying -> "cancel:not-copying"
  | TCancelJoined -> "cancel:joined" | TDropBadHandle -> "drop:bad-handle" | TDropWrongDirection -> "drop:wrong-direction"
  | TDropCopying -> "drop:copying" | TDropFutureWriterUnwritten -> "drop:future-writer-unwritten"
  | TBackpressureUnderflow -> "bpdec:underflow" | TErrCtxDropBad -> "ecdrop:bad-handle"

let show_call (kinds : okind array) (c : hostcall) : string =
  let p fut = if fut then "f" else "s" in
  match c with
  | HSetNew s -> "wsnew=" ^ si s
  | HSetDrop s -> "wsdrop:" ^ si s
  | HJoin (w, s) -> "join:" ^ si w ^ ":" ^ si s
  | HWait (s, e, w, c) -> Printf.sprintf "wswait:%s=%s,%s,%s" (si s) (si e) (si w) (si c)
  | HPoll (s, e, w, c) -> Printf.sprintf "wspoll:%s=%s,%s,%s" (si s) (si e) (si w) (si c)
  | HSubCancel (h, c) -> "stcancel:" ^ si h ^ "=" ^ si c
  | HSubDrop h -> "stdrop:" ^ si h
  | HChanNew (fut, w, r) -> p fut ^ "new=" ^ si w ^ "," ^ si r
  | HWrite (fut, h, len, c) -> if fut then "fwrite:" ^ si h ^ "=" ^ si c else "swrite:" ^ si h ^ ":" ^ si len ^ "=" ^ si c
  | HRead (fut, h, len, c) -> if fut then "fread:" ^ si h ^ "=" ^ si c else "sread:" ^ si h ^ ":" ^ si len ^ "=" ^ si c
  | HCancel (fut, wr, h, c) -> p fut ^ "cancel" ^ (if wr then "w" else "r") ^ ":" ^ si h ^ "=" ^ si c
  | HDropEnd (fut, wr, h) -> p fut ^ "drop" ^ (if wr then "w" else "r") ^ ":" ^ si h
  | HTrap t -> "TRAP:" ^ trap_name t
  | HNote (tag, args) ->
    let a = List.map int_of_n args in
    let s = List.map string_of_int a in
    (match int_of_n tag, a with
     | 9, [_; _] -> "treg:" ^ String.concat ":" s
     | 10, [_; _] -> "tunreg:" ^ String.concat ":" s
     | 11, [_] -> "tclone:" ^ String.concat ":" s
     | 12, [_] -> "tdrop:" ^ String.concat ":" s
     | 13, [_; _; _] -> "tdeliver:" ^ String.concat ":" s
     | 20, [o; p] -> Printf.sprintf "call:%d=%d" o p
     | 21, [o; cls; n] ->
       let wr = (match kinds.(o) with KSw -> true | _ -> false) in
       let r = (match cls with
           | 0 -> "ok"
           | 1 -> Printf.sprintf "C%d:%d" n (if wr then 4 - n else n)
           | 2 -> if wr then "D:4" else "D:0"
           | 3 -> if wr then "X:4" else "X:0"
           | 4 -> "V"
           | 5 -> "R"
           | _ -> "?") in
       Printf.sprintf "res:%d=%s" o r
     | t, _ -> "note" ^ string_of_int t)
  | _ -> "?other"

let panic_name = function
  | WkRepoll -> "cannot_re-poll_after_operation_completes"
  | WkAsyncResumed -> "`async_fn`_resumed_after_completion"
  | WkCancelDone -> "cannot_cancel_operation_after_completing_it"
  | WkUnknownReturnCode -> "unknown_return_code"
  | WkUnexpectedCode -> "unexpected_code"
  | WkPollAfterCancel -> "cannot_poll_after_cancelling"
  | WkUnknownStatus -> "unknown_code"
  | WkNotStartedAssert -> "assertion_failed:_!state.started"
  | WkFlagStartedAssert -> "assertion_failed:_!self.started"
  | WkCancelNotExposed -> "internal_error:_entered_unreachable_code:_cancellation_is_not_exposed_API-wise,_should_not_be_possible"
  | WkUnreachable -> "internal_error:_entered_unreachable_code"
  | WkPtrAssert -> "assertion_`left_==_right`_failed"
  | WkAbort -> "ABORT"

let split3 (l : string) =
  match String.split_on_char '|' l with
  | [a; b; c] -> (a, b, c)
  | _ -> failwith "need 3 '|' separated parts"

let parse_kind = function "st" -> KSt | "sr" -> KSr | "sw" -> KSw | "fr" -> KFr | k -> failwith ("bad kind " ^ k)

let split_ans (s : string) : string * n option =
  match String.index_opt s '=' with
  | Some i -> (String.sub s 0 i, Some (n_of_int (parse_num (String.sub s (i + 1) (String.length s - i - 1)))))
  | None -> (s, None)
let t_o (s : string) : n * n =
  match String.split_on_char '.' s with
  | [t; o] -> (n_of_int (int_of_string t), n_of_int (int_of_string o))
  | _ -> failwith ("bad t.o " ^ s)

let parse_action (a : string) : action =
  let body0 = String.sub a 1 (String.length a - 1) in
  let (body, ans) = split_ans body0 in
  match a.[0] with
  | 'p' -> let (t, o) = t_o body in APoll (t, o, ans)
  | 'c' -> let (t, o) = t_o body in ACancel (t, o, ans)
  | 'd' -> let (t, o) = t_o body in ADrop (t, o, ans)
  | 'h' -> (match ans with Some c -> AHost (n_of_int (int_of_string body), c) | None -> failwith "h needs =code")
  | 'w' -> (match String.split_on_char '.' body with
      | [t; o] -> ADeliver (n_of_int (int_of_string t), Some (n_of_int (int_of_string o)))
      | [t] -> ADeliver (n_of_int (int_of_string t), None)
      | _ -> failwith "bad w")
  | _ -> failwith ("bad action " ^ a)

let show_map (m : (n * n) list) =
  "[" ^ String.concat "," (List.map string_of_int (List.sort compare (List.map (fun (k, _) -> int_of_n k) m))) ^ "]"

let model_line (l : string) : string =
  let (hdr, ks, acts) = split3 l in
  match List.map parse_num (Util.split_ws hdr) with
  | [v0; v1] ->
    let kinds = List.map parse_kind (Util.split_ws ks) in
    let c = { wc_v2_0 = v0 >= 2; wc_v2_1 = v1 >= 2; wc_kinds = kinds } in
    let tr = List.map parse_action (Util.split_ws acts) in
    let (s, log) = model_run c tr in
    let karr = Array.of_list kinds in
    let valid = if valid_trace c tr then " valid" else " invalid" in
    let pending = List.length (List.filter (fun o -> o.o_code <> None) s.w_ops) in
    let inv = if inv_ok (prun c tr) then 1 else 0 in
    let ghost = Printf.sprintf " # bad=%d handed=%d updates=%d pending=%d inv=%d" (if s.w_bad then 1 else 0) (int_of_n s.w_handed) (int_of_n s.w_updates) pending inv in
    (match s.w_err with
     | Some WkAbort -> "ABORT" ^ valid ^ ghost
     | _ ->
       let t0 = List.nth s.w_tasks 0 and t1 = List.nth s.w_tasks 1 in
       let base = Printf.sprintf "%s | wakes=%s,%s maps=%s;%s clones=%d,%d"
           (String.concat " " (List.map (show_call karr) log)) (si (List.nth s.w_wakes 0)) (si (List.nth s.w_wakes 1))
           (show_map t0.t_map) (show_map t1.t_map) (int_of_z t0.t_clones) (int_of_z t1.t_clones) in
       (match s.w_err with Some p -> base ^ " PANIC:" ^ panic_name p | None -> base) ^ valid ^ ghost)
  | _ -> failwith "bad header"

(* mode "explore": "<v0> <v1> | <kind> <kind>" -> "<all states satisfy inv_ok: 0|1> <number of reachable states>" *)
let rec nat_to_int = function O -> 0 | S n -> 1 + nat_to_int n
let explore_line (l : string) : string =
  match String.split_on_char '|' l with
  | [hdr; ks] ->
    (match List.map parse_num (Util.split_ws hdr) with
     | [v0; v1] ->
       let c = { wc_v2_0 = v0 >= 2; wc_v2_1 = v1 >= 2; wc_kinds = List.map parse_kind (Util.split_ws ks) } in
       let (ok, n) = explore_cfg2 c in
       Printf.sprintf "%d %d" (if ok then 1 else 0) (nat_to_int n)
     | _ -> failwith "bad header")
  | _ -> failwith "need <v0> <v1> | kinds"

let () =
  let mode = if Array.length Sys.argv > 1 then Sys.argv.(1) else "model" in
  Util.iter_lines (if mode = "explore" then explore_line else model_line)
