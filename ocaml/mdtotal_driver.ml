(* C16: driver for the extracted model WB.Core.MdTotal.
     mdtotal_driver run    : one world s-expression per line (as printed by `detnp mddump`) ->
                             `done shape=<b> known=<b>` | `panic <site> shape=<b> known=<b>`
     mdtotal_driver table  : the model's constructor -> arm tables, in the text format of lib/c16_lib.tables_to_text *)
open Mdtotal_model

type sx = A of string | L of sx list

let parse (s : string) : sx =
  let n = String.length s in
  let pos = ref 0 in
  let rec skip () = if !pos < n && s.[!pos] = ' ' then (incr pos; skip ()) in
  let rec one () =
    skip ();
    if !pos >= n then failwith "eof";
    if s.[!pos] = '(' then begin
      incr pos;
      let items = ref [] in
      let rec loop () =
        skip ();
        if !pos >= n then failwith "unclosed";
        if s.[!pos] = ')' then incr pos else (items := one () :: !items; loop ())
      in
      loop (); L (List.rev !items)
    end else begin
      let st = !pos in
      while !pos < n && s.[!pos] <> ' ' && s.[!pos] <> '(' && s.[!pos] <> ')' do incr pos done;
      A (String.sub s st (!pos - st))
    end
  in
  one ()

let rec pos_of_int (i : int) : positive =
  if i = 1 then XH else if i land 1 = 0 then XO (pos_of_int (i lsr 1)) else XI (pos_of_int (i lsr 1))
let n_of_int (i : int) : n = if i = 0 then N0 else Npos (pos_of_int i)

let prim_of = function
  | "bool" -> Some PBool | "u8" -> Some PU8 | "u16" -> Some PU16 | "u32" -> Some PU32 | "u64" -> Some PU64
  | "s8" -> Some PS8 | "s16" -> Some PS16 | "s32" -> Some PS32 | "s64" -> Some PS64 | "f32" -> Some PF32
  | "f64" -> Some PF64 | "char" -> Some PChar | "string" -> Some PString | "errctx" -> Some PErrorContext | _ -> None

let rec ty_of (x : sx) : ty =
  match x with
  | A "N" -> TNamed
  | A a -> (match prim_of a with Some p -> TPrim p | None -> failwith ("bad type atom " ^ a))
  | L [A "A"; k] -> TAnon (kind_of k)
  | _ -> failwith "bad type"
and opt_of (x : sx) : ty option = match x with A "_" -> None | _ -> Some (ty_of x)
and kind_of (x : sx) : kind =
  match x with
  | L (A "record" :: fs) -> KRecord (List.map ty_of fs)
  | A "resource" -> KResource
  | L [A "own"; t] -> KHandleOwn (ty_of t)
  | L [A "borrow"; t] -> KHandleBorrow (ty_of t)
  | A "flags" -> KFlags
  | L (A "tuple" :: ts) -> KTuple (List.map ty_of ts)
  | L (A "variant" :: cs) -> KVariant (List.map opt_of cs)
  | A "enum" -> KEnum
  | L [A "option"; t] -> KOption (ty_of t)
  | L [A "result"; o; e] -> KResult (opt_of o, opt_of e)
  | L [A "list"; t] -> KList (ty_of t)
  | L [A "map"; k; v] -> KMap (ty_of k, ty_of v)
  | L [A "fixed"; t; A n] -> KFixedLengthList (ty_of t, n_of_int (int_of_string n))
  | L [A "future"; o] -> KFuture (opt_of o)
  | L [A "stream"; o] -> KStream (opt_of o)
  | L [A "type"; t] -> KType (ty_of t)
  | A "unknown" -> KUnknown
  | _ -> failwith "bad kind"

let def_of = function
  | L [A "def"; A b; k] -> { td_named = (b = "1"); td_kind = kind_of k }
  | _ -> failwith "bad def"
let func_of = function
  | L [A "func"; L ps; r] -> { params = List.map ty_of ps; result = opt_of r }
  | _ -> failwith "bad func"
let item_of (x : sx) : item =
  match x with
  | L [A "iface"; L (A "types" :: ds); L (A "funcs" :: fs)] ->
      IInterface { if_types = List.map def_of ds; if_funcs = List.map func_of fs }
  | L (A "func" :: _) -> IFunction (func_of x)
  | L (A "def" :: _) -> IType (def_of x)
  | _ -> failwith "bad item"
let world_of = function
  | L [A "world"; L (A "imports" :: is); L (A "exports" :: es)] ->
      { imports = List.map item_of is; exports = List.map item_of es }
  | _ -> failwith "bad world"

let site_name = function
  | SitePrintTyAssertNamed -> "SitePrintTyAssertNamed" | SitePrintTyUnknown -> "SitePrintTyUnknown"
  | SitePrintTyFixedLengthList -> "SitePrintTyFixedLengthList" | SiteMdTypeFuture -> "SiteMdTypeFuture"
  | SiteMdTypeStream -> "SiteMdTypeStream" | SiteDefineTypeHandle -> "SiteDefineTypeHandle"
  | SiteDefineTypeUnknown -> "SiteDefineTypeUnknown" | SiteGenerateExportType -> "SiteGenerateExportType"
(* which Rust macro the site stands for (compared with the macro found in the source arm) *)
let site_macro = function
  | SitePrintTyAssertNamed -> "assert" | SitePrintTyUnknown -> "unreachable" | SitePrintTyFixedLengthList -> "todo"
  | SiteMdTypeFuture -> "todo" | SiteMdTypeStream -> "todo" | SiteDefineTypeHandle -> "panic"
  | SiteDefineTypeUnknown -> "unreachable" | SiteGenerateExportType -> "unreachable"
let verdict = function Done -> "ok" | Panic s -> "err:" ^ site_macro s
let b x = if x then "1" else "0"

let u8 = TPrim PU8
let kinds : (string * kind) list = [
  "Record", KRecord [u8]; "Resource", KResource; "HandleOwn", KHandleOwn TNamed; "HandleBorrow", KHandleBorrow TNamed;
  "Flags", KFlags; "Tuple", KTuple [u8]; "Variant", KVariant [Some u8; None]; "Enum", KEnum; "Option", KOption u8;
  "Result", KResult (Some u8, Some u8); "List", KList u8; "Map", KMap (u8, u8); "FixedLengthList", KFixedLengthList (u8, n_of_int 4);
  "Future", KFuture (Some u8); "Stream", KStream (Some u8); "Type", KType u8; "Unknown", KUnknown ]
let prims = [ "Bool", PBool; "U8", PU8; "U16", PU16; "U32", PU32; "U64", PU64; "S8", PS8; "S16", PS16; "S32", PS32;
              "S64", PS64; "F32", PF32; "F64", PF64; "Char", PChar; "String", PString; "ErrorContext", PErrorContext ]
let all_done : iface_gen = {
  type_record = (fun _ _ -> Done); type_resource = (fun _ -> Done); type_flags = (fun _ -> Done); type_tuple = (fun _ _ -> Done);
  type_variant = (fun _ _ -> Done); type_option = (fun _ _ -> Done); type_result = (fun _ _ _ -> Done); type_enum = (fun _ -> Done);
  type_alias = (fun _ _ -> Done); type_list = (fun _ _ -> Done); type_fixed_length_list = (fun _ _ _ -> Done);
  type_map = (fun _ _ _ -> Done); type_future = (fun _ _ -> Done); type_stream = (fun _ _ -> Done) }

let table () =
  let out = ref [] in
  let add t k v = out := (t, k, v) :: !out in
  List.iter (fun (n, k) -> add "enum:TypeDefKind" (if n = "HandleOwn" || n = "HandleBorrow" then "Handle" else n) "ctor") kinds;
  List.iter (fun (n, _) -> add "enum:Type" n "ctor") prims; add "enum:Type" "Id" "ctor";
  List.iter (fun (n, p) -> add "md:print_ty:Type" n (verdict (print_ty (TPrim p)))) prims;
  add "md:print_ty:Type" "Id" (verdict (print_ty TNamed));
  List.iter (fun (n, k) -> add "md:print_ty:kind" n (verdict (print_ty (TAnon k)))) kinds;
  List.iter (fun (n, k) -> add "core:define_type" n (verdict (define_type all_done true k))) kinds;
  (* which callback the dispatch calls: make exactly one callback panic and see whether the dispatch result changes *)
  let mark = Panic SiteMdTypeFuture in
  let cbs = [
    "type_record", { all_done with type_record = (fun _ _ -> mark) }; "type_resource", { all_done with type_resource = (fun _ -> mark) };
    "type_flags", { all_done with type_flags = (fun _ -> mark) }; "type_tuple", { all_done with type_tuple = (fun _ _ -> mark) };
    "type_variant", { all_done with type_variant = (fun _ _ -> mark) }; "type_option", { all_done with type_option = (fun _ _ -> mark) };
    "type_result", { all_done with type_result = (fun _ _ _ -> mark) }; "type_enum", { all_done with type_enum = (fun _ -> mark) };
    "type_alias", { all_done with type_alias = (fun _ _ -> mark) }; "type_list", { all_done with type_list = (fun _ _ -> mark) };
    "type_fixed_length_list", { all_done with type_fixed_length_list = (fun _ _ _ -> mark) };
    "type_map", { all_done with type_map = (fun _ _ _ -> mark) }; "type_future", { all_done with type_future = (fun _ _ -> mark) };
    "type_stream", { all_done with type_stream = (fun _ _ -> mark) } ] in
  List.iter (fun (n, k) ->
      let hit = List.filter (fun (_, g) -> define_type g true k = mark) cbs in
      add "core:define_type:callback" n (match hit with [ (c, _) ] -> c | [] -> "-" | _ -> "?")) kinds;
  let g = md_iface_gen in
  let me = TNamed in
  List.iter (fun (n, r) -> add "md:callbacks" n (verdict r)) [
    "type_record", g.type_record me [u8]; "type_resource", g.type_resource me; "type_flags", g.type_flags me;
    "type_tuple", g.type_tuple me [u8]; "type_variant", g.type_variant me [Some u8]; "type_option", g.type_option me u8;
    "type_result", g.type_result me (Some u8) (Some u8); "type_enum", g.type_enum me; "type_alias", g.type_alias me u8;
    "type_list", g.type_list me u8; "type_fixed_length_list", g.type_fixed_length_list me u8 (n_of_int 4);
    "type_map", g.type_map me u8 u8; "type_future", g.type_future me (Some u8); "type_stream", g.type_stream me (Some u8) ];
  (* delegation: the callback prints its own Type::Id(id) (and nothing of the payload) iff it panics exactly when `me` does *)
  let bad = TAnon KUnknown in
  let deleg r1 r2 = if r1 = Panic SitePrintTyUnknown && r2 = Done then "alias-of-self" else "other" in
  add "md:delegation" "type_list" (deleg (g.type_list bad u8) (g.type_list me bad));
  add "md:delegation" "type_fixed_length_list" (deleg (g.type_fixed_length_list bad u8 (n_of_int 4)) (g.type_fixed_length_list me bad (n_of_int 4)));
  add "md:delegation" "type_map" (deleg (g.type_map bad u8 u8) (g.type_map me bad bad));
  let f = { params = []; result = None } in
  let d = { td_named = true; td_kind = KEnum } in
  let i = { if_types = []; if_funcs = [] } in
  List.iter (fun (n, it) ->
      add "core:generate:imports" n (verdict (md_generate { imports = [it]; exports = [] }));
      add "core:generate:exports" n (verdict (md_generate { imports = []; exports = [it] })))
    [ "Interface", IInterface i; "Function", IFunction f; "Type", IType d ];
  let l = List.sort_uniq compare !out in
  List.iter (fun (t, k, v) -> Printf.printf "%s %s=%s\n" t k v) l

let () =
  match Sys.argv with
  | [| _; "table" |] -> table ()
  | _ ->
      Util.iter_lines (fun l ->
          let w = world_of (parse l) in
          let tail = Printf.sprintf " shape=%s known=%s" (b (world_shape w)) (b (world_known w)) in
          match md_generate w with
          | Done -> "done" ^ tail
          | Panic s -> "panic " ^ site_name s ^ tail)
