(* C21: line driver around the extracted model (Async/SubtaskOp.v) and monitor (Async/SubtaskOpSpec.v).
   mode "model": same input line as harness/crates/rtmock/src/bin/subtask.rs, same output format.
   mode "check": "<area 0|1> <quiescent 0|1> | <log tokens of the REAL run>" -> "ok" | "VIOLATION:<rule>" *)
open Subtask_model

let rec pos_of_int (i : int) : positive =
  if i = 1 then XH else if i land 1 = 0 then XO (pos_of_int (i lsr 1)) else XI (pos_of_int (i lsr 1))
let n_of_int (i : int) : n = if i = 0 then N0 else Npos (pos_of_int i)
let rec int_of_pos = function XH -> 1 | XO p -> 2 * int_of_pos p | XI p -> 2 * int_of_pos p + 1
let int_of_n = function N0 -> 0 | Npos p -> int_of_pos p
let int_of_z = function Z0 -> 0 | Zpos p -> int_of_pos p | Zneg p -> - (int_of_pos p)
let si n = string_of_int (int_of_n n)

let parse_num (s : string) : int =
  if s = "B" then 4294967295
  else if String.length s > 2 && String.sub s 0 2 = "0x" then int_of_string s
  else int_of_string s

let trap_name = function
  | TJoinBadWaitable -> "join:bad-waitable" | TJoinBadSet -> "join:bad-set" | TSetDropBad -> "wsdrop:bad-set"
  | TSetDropNonEmpty -> "wsdrop:nonempty" | TWaitBadSet -> "wait:bad-set" | TWaitDeadlock -> "wait:deadlock"
  | TSubCancelBad -> "stcancel:bad-handle" | TSubCancelResolved -> "stcancel:resolved" | TSubCancelTwice -> "stcancel:twice"
  | TSubCancelJoined -> "stcancel:joined" | TSubDropBad -> "stdrop:bad-handle" | TSubDropUnresolved -> "stdrop:unresolved"
  | TRwBadHandle -> "rw:bad-handle" | TRwWrongDirection -> "rw:wrong-direction" | TRwBusy -> "rw:busy" | TRwFutureDone -> "rw:future-done"
  | TCancelBadHandle -> "cancel:bad-handle" | TCancelWrongDirection -> "cancel:wrong-direction" | TCancelNotCopying -> "cancel:not-copying"
  | TCancelJoined -> "cancel:joined" | TDropBadHandle -> "drop:bad-handle" | TDropWrongDirection -> "drop:wrong-direction"
  | TDropCopying -> "drop:copying" | TDropFutureWriterUnwritten -> "drop:future-writer-unwritten"
  | TBackpressureUnderflow -> "bpdec:underflow" | TErrCtxDropBad -> "ecdrop:bad-handle"

let show_call (c : hostcall) : string =
  match c with
  | HSetNew s -> "wsnew=" ^ si s
  | HSetDrop s -> "wsdrop:" ^ si s
  | HJoin (w, s) -> "join:" ^ si w ^ ":" ^ si s
  | HWait (s, e, w, c) -> Printf.sprintf "wswait:%s=%s,%s,%s" (si s) (si e) (si w) (si c)
  | HPoll (s, e, w, c) -> Printf.sprintf "wspoll:%s=%s,%s,%s" (si s) (si e) (si w) (si c)
  | HSubCancel (h, c) -> "stcancel:" ^ si h ^ "=" ^ si c
  | HSubDrop h -> "stdrop:" ^ si h
  | HTrap t -> "TRAP:" ^ trap_name t
  | HNote (tag, args) ->
    let a = List.map si args in
    (match int_of_n tag, a with
     | 1, [i] -> "lower:" ^ i
     | 2, [p] -> "call=" ^ p
     | 3, [n] -> "dl:" ^ n
     | 4, [n; m] -> "dlo:" ^ n ^ ":" ^ m
     | 5, [b] -> "lift:" ^ b
     | 6, [] -> "pdrop"
     | 7, [k] -> "area+" ^ k
     | 8, [k] -> "area-" ^ k
     | 9, [t; w] -> "treg:" ^ t ^ ":" ^ w
     | 10, [t; w] -> "tunreg:" ^ t ^ ":" ^ w
     | 11, [t] -> "tclone:" ^ t
     | 12, [t] -> "tdrop:" ^ t
     | 13, [t; w; c] -> "tdeliver:" ^ t ^ ":" ^ w ^ ":" ^ c
     | t, _ -> "note" ^ string_of_int t ^ ":" ^ String.concat ":" a)
  | _ -> "?other"

(* parser of the REAL log tokens (only what C21's monitor looks at; anything else is kept as an inert note) *)
let split_on (s : string) (c : char) = String.split_on_char c s
let parse_token (t : string) : hostcall =
  let nn s = n_of_int (parse_num s) in
  let starts p = String.length t >= String.length p && String.sub t 0 (String.length p) = p in
  let after p = String.sub t (String.length p) (String.length t - String.length p) in
  if starts "TRAP:" then HTrap TSubDropUnresolved (* the rule's identity does not matter to the monitor *)
  else if starts "stcancel:" then
    (match split_on (after "stcancel:") '=' with [h; c] -> HSubCancel (nn h, nn c) | _ -> failwith ("bad token " ^ t))
  else if starts "stdrop:" then HSubDrop (nn (after "stdrop:"))
  else if starts "lower:" then HNote (n_of_int 1, [nn (after "lower:")])
  else if starts "call=" then HNote (n_of_int 2, [nn (after "call=")])
  else if starts "dlo:" then HNote (n_of_int 4, List.map nn (split_on (after "dlo:") ':'))
  else if starts "dl:" then HNote (n_of_int 3, [nn (after "dl:")])
  else if starts "lift:" then HNote (n_of_int 5, [nn (after "lift:")])
  else if t = "pdrop" then HNote (n_of_int 6, [])
  else if starts "area+" then HNote (n_of_int 7, [n_of_int 1])
  else if starts "area-" then HNote (n_of_int 8, [n_of_int 1])
  else if starts "tdeliver:" then HNote (n_of_int 13, List.map nn (split_on (after "tdeliver:") ':'))
  else HNote (n_of_int 99, [])

let panic_name = function
  | PkNotStartedAssert -> "assertion_failed:_!state.started"
  | PkFlagStartedAssert -> "assertion_failed:_!self.started"
  | PkUnknownCode -> "unknown_code"
  | PkCancelNotExposed -> "internal_error:_entered_unreachable_code:_cancellation_is_not_exposed_API-wise,_should_not_be_possible"
  | PkUnwrapNone -> "called_`Option::unwrap()`_on_a_`None`_value"
  | PkUnreachable -> "internal_error:_entered_unreachable_code"
  | PkAbort -> "ABORT"

let violation_name = function
  | VDoubleCall -> "double-call" | VLowerTwice -> "lower-twice" | VLowerAfterCall -> "lower-after-call"
  | VDlTwice -> "dealloc-lists-twice" | VDlBeforeStart -> "dealloc-lists-before-callee-started" | VDlAndDlo -> "dealloc-lists-and-dealloc-lists-and-own"
  | VDloTwice -> "dealloc-lists-and-own-twice" | VDloWithoutStartedCancelled -> "dealloc-lists-and-own-without-started-cancelled"
  | VLiftTwice -> "results-lift-twice" | VLiftNotReturned -> "results-lift-without-returned"
  | VSubDropTwice -> "subtask-drop-twice" | VSubDropNoHandle -> "subtask-drop-without-handle" | VSubDropUnresolved -> "subtask-drop-before-resolution"
  | VCancelAfterResolved -> "subtask-cancel-after-resolution" | VCancelTwice -> "subtask-cancel-twice"
  | VStatusAfterResolution -> "status-after-resolution"
  | VAreaAllocTwice -> "area-allocated-twice" | VAreaFreeUnallocated -> "area-freed-twice-or-unallocated" | VUseAfterFree -> "area-used-after-free"
  | VPdropAfterLower -> "params-dropped-after-lowering" | VPdropTwice -> "params-dropped-twice"
  | VTrap -> "host-trap"
  | VUnresolved -> "quiescent-but-unresolved" | VDlCount -> "dealloc-lists-count" | VDloCount -> "dealloc-lists-and-own-count"
  | VLiftCount -> "results-lift-count" | VSubDropCount -> "subtask-drop-count" | VAreaCount -> "area-alloc-count" | VAreaLeak -> "area-leaked"
  | VPdropCount -> "params-drop-count" | VNotCalledButActive -> "activity-without-call"

let parse_actions (ws : string list) : action list =
  let rec go = function
    | [] -> []
    | "p" :: r -> APoll :: go r
    | "w" :: r -> AWait :: go r
    | "x" :: r -> ADrop None :: go r
    | t :: r when t.[0] = 'h' -> AHost (n_of_int (parse_num (String.sub t 1 (String.length t - 1)))) :: go r
    | t :: "x" :: r when t.[0] = 'a' -> ADrop (Some (n_of_int (parse_num (String.sub t 1 (String.length t - 1))))) :: go r
    | t :: _ -> failwith ("bad action " ^ t)
  in go ws

let split_bar (l : string) =
  match String.index_opt l '|' with
  | Some i -> (String.sub l 0 i, String.sub l (i + 1) (String.length l - i - 1))
  | None -> failwith "missing |"

let model_line (l : string) : string =
  let (hdr, acts) = split_bar l in
  match List.map parse_num (Util.split_ws hdr) with
  | [ver; size; ind; nlists; nown; cs; ch] ->
    let a = { a_v2 = ver >= 2; a_area = size <> 0; a_callstatus = n_of_int cs; a_callhandle = ch <> 0 } in
    let c = { c_a = a; c_ind = ind <> 0; c_nlists = n_of_int nlists; c_nown = n_of_int nown } in
    let tr = parse_actions (Util.split_ws acts) in
    let (s, log) = model_run c tr in
    (match s.s_err with
     | Some PkAbort -> "ABORT"
     | _ ->
       let res = match s.s_res with RNone -> "none" | RPending -> "pending" | ROk b -> "ok:" ^ si b | RGone -> "gone" in
       let map = "[" ^ String.concat "," (List.sort compare (List.map (fun (k, _) -> int_of_n k) s.s_t.t_map) |> List.map string_of_int) ^ "]" in
       let base = Printf.sprintf "%s | res=%s wakes=%s map=%s clones=%d" (String.concat " " (List.map show_call log)) res (si s.s_wakes) map (int_of_z s.s_t.t_clones) in
       let v = if valid_trace a tr then " valid" else " invalid" in
       (match s.s_err with Some p -> base ^ " PANIC:" ^ panic_name p ^ v | None -> base ^ v))
  | _ -> failwith "bad header"

let check_line (l : string) : string =
  let (hdr, log) = split_bar l in
  match Util.split_ws hdr with
  | [area; q] ->
    let toks = List.map parse_token (Util.split_ws log) in
    (match c21_check (area = "1") (q = "1") toks with
     | None -> "ok"
     | Some v -> "VIOLATION:" ^ violation_name v)
  | _ -> failwith "bad header"

let () =
  let mode = if Array.length Sys.argv > 1 then Sys.argv.(1) else "model" in
  Util.iter_lines (if mode = "check" then check_line else model_line)
