(* C29 validated part: runs the extracted, Coq-verified HtmlLinks.check on the anchor tokens of one real HTML file.
   in : <authored targets, \x1d separated>\x1e<tokens, \x1d separated>
        token = A\x1c<0|1 has href>\x1c<href>\x1c<id>\x1c<id>...   |   /   |   I\x1c<id>
   out: OK  |  Nested|href \x1e StrayClose \x1e Dangling|target ... *)
open Htmllinks_model
let split c s = if s = "" then [] else String.split_on_char c s
let ex = Util.explode
let parse_tok (s : string) : tok =
  match String.split_on_char '\x1c' s with
  | "A" :: has :: href :: ids -> AOpen ((if has = "1" then Some (ex href) else None), List.map ex ids)
  | ["/"] -> AClose
  | ["I"; id] -> OtherId (ex id)
  | _ -> failwith ("bad token " ^ String.escaped s)
let show = function
  | Nested h -> "Nested|" ^ Util.implode h
  | StrayClose -> "StrayClose"
  | Dangling t -> "Dangling|" ^ Util.implode t
let () =
  Util.iter_lines (fun l ->
      match String.split_on_char '\x1e' l with
      | [auth; toks] ->
         let d = { d_toks = List.map parse_tok (split '\x1d' toks); d_authored = List.map ex (split '\x1d' auth) } in
         (match check d with [] -> "OK" | es -> String.concat "\x1e" (List.map show es))
      | _ -> failwith "bad line")
