(* C19: line protocol driver for the extracted model Async/StreamOp.v.
   in : "<s|m><c|l|h> act act ..."    out: "tok tok | tok ... | END"  (one group per action) *)
open Stream_model
let rec nat_of_int (n : int) : nat = if n <= 0 then O else S (nat_of_int (n - 1))
let rec int_of_nat = function O -> 0 | S n -> 1 + int_of_nat n
let rec pos_of_int (i : int) : positive =
  if i = 1 then XH else if i land 1 = 0 then XO (pos_of_int (i lsr 1)) else XI (pos_of_int (i lsr 1))
let n_of_int (i : int) : n = if i = 0 then N0 else Npos (pos_of_int i)
let rec int_of_pos = function XH -> 1 | XO p -> 2 * int_of_pos p | XI p -> 2 * int_of_pos p + 1
let int_of_n = function N0 -> 0 | Npos p -> int_of_pos p
let si n = string_of_int (int_of_n n)
let ids l = String.concat "," (List.map si l)
let opt = function None -> "-" | Some x -> si x

let parse_ans (s : string) : n =
  let num k = int_of_string (String.sub s 1 (String.length s - 1)) * 16 + k in
  match s.[0] with
  | 'B' -> n_of_int 0xffffffff
  | 'C' -> n_of_int (num 0)
  | 'D' -> n_of_int (num 1)
  | 'X' -> n_of_int (num 2)
  | '#' -> n_of_int (int_of_string (String.sub s 1 (String.length s - 1)))
  | _ -> failwith ("bad answer " ^ s)

let split_eq (s : string) : string * n list =
  match String.index_opt s '=' with
  | None -> (s, [])
  | Some i ->
      let a = String.sub s (i + 1) (String.length s - i - 1) in
      (String.sub s 0 i, List.map parse_ans (List.filter (fun x -> x <> "") (String.split_on_char ',' a)))

let num_after (s : string) (k : int) : int = int_of_string (String.sub s k (String.length s - k))
let one = function [a] -> a | _ -> failwith "exactly one answer expected"

let parse_act (s : string) : act =
  let (h, ans) = split_eq s in
  match h with
  | "wb" -> AW AWriteBuf
  | "wo" -> AW AWriteOne
  | "pw" -> AW (AWPoll ans)
  | "ew" -> AW (AWEvent (one ans))
  | "vw" -> AW AWDeliver
  | "cw" -> AW (AWCancel ans)
  | "xw" -> AW (AWDropFut ans)
  | "bv" -> AW AWIntoVec
  | "bd" -> AW AWDropBuf
  | "dw" -> AW AWDropEnd
  | "nx" -> AR ANext
  | "col" -> AR ACollect
  | "ad" -> AR AIntoStream
  | "pr" -> AR (ARPoll ans)
  | "er" -> AR (AREvent (one ans))
  | "vr" -> AR ARDeliver
  | "cr" -> AR (ARCancel ans)
  | "xr" -> AR (ARDropFut ans)
  | "rv" -> AR ATakeVec
  | "dr" -> AR ARDropEnd
  | _ ->
      if String.length h >= 3 && String.sub h 0 2 = "wa" then AW (AWriteAll (nat_of_int (num_after h 2)))
      else if h.[0] = 'w' then AW (AWrite (nat_of_int (num_after h 1)))
      else if h.[0] = 'r' then AR (ARead (nat_of_int (num_after h 1)))
      else failwith ("bad action " ^ s)

let show_res = function SComplete n -> "C" ^ si n | SDropped -> "D" | SCancelled -> "X"

let show_tok = function
  | KWrite (l, c) -> "sw:" ^ si l ^ "=" ^ si c
  | KRead (l, c) -> "sr:" ^ si l ^ "=" ^ si c
  | KCancelW c -> "cw=" ^ si c
  | KCancelR c -> "cr=" ^ si c
  | KDropW -> "dw"
  | KDropR -> "dr"
  | KTw l -> "tw:" ^ ids l
  | KTr l -> "tr:" ^ ids l
  | KLower i -> "lo:" ^ si i
  | KDealloc i -> "de:" ^ si i
  | KLiftW i -> "li:" ^ si i
  | KLiftR i -> "lr:" ^ si i
  | KDropV i -> "dv:" ^ si i
  | KAreaNew -> "a+"
  | KAreaFree -> "a-"
  | KResW (r, rem) -> "W:" ^ show_res r ^ ":" ^ si rem
  | KResR (r, v) -> "R:" ^ show_res r ^ ":" ^ ids v
  | KRet v -> "ret:" ^ ids v
  | KAll v -> "all:" ^ ids v
  | KOne o -> "one:" ^ opt o
  | KNext o -> "nx:" ^ opt o
  | KColl v -> "col:" ^ ids v
  | KSn o -> "sn:" ^ opt o
  | KGot v -> "got:" ^ ids v

let () =
  Util.iter_lines (fun l ->
      match Util.split_ws l with
      | [] -> "EMPTY"
      | hd :: rest ->
          let strict = hd.[0] = 's' in
          let k = match hd.[1] with 'c' -> KCanon | 'l' -> KLift | 'h' -> KLists | _ -> failwith "kind" in
          let acts = List.map parse_act rest in
          let ((s, groups), o) = run strict k acts in
          let body = List.map (fun g -> String.concat " " (List.map show_tok g)) groups in
          let fin = match o with
            | OEnd ->
                let gw = s.s_w.w_lg and gr = s.s_r.r_lg in
                Printf.sprintf "END lw=%s lr=%s areas=%d err=%b" (ids gw.lg_live) (ids gr.lg_live)
                  (int_of_nat gw.lg_areas + int_of_nat gr.lg_areas) (gw.lg_err || gr.lg_err)
            | OInvalid i -> "INVALID@" ^ string_of_int (int_of_nat i)
            | OPanic -> "PANIC" in
          String.concat " | " (body @ [fin]))
