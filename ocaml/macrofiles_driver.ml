(* C32 model-side driver.  One case per line:
     <field> <field> ... | <entry> <entry> ...
   field:  P:<path>,<path>,...   (a `path:` field; each path = '/'-separated segments below the crate root,
                                  already normalised and with symbolic links resolved)
           I                     (an `inline:` field)         O   (any other field)
   entry:  D:<path>              directory
           F:<path>:<k>          file, k = w (WIT text) | p (binary-encoded WIT package) | o (other)
   (parents are created on demand; entry order = directory listing order, irrelevant for the result)
   Output: none            the model says the macro does not expand (error)
           T:<p;p;...> R:<p;p;...> C:<0|1>     tracked set, read set (sorted, '/'-joined), and whether
                                               every parsed path is deps_clean *)
open Macrofiles_model

let segs (s : string) : char list list =
  List.map Util.explode (List.filter (fun x -> x <> "") (String.split_on_char '/' s))

let show_path (p : char list list) : string = String.concat "/" (List.map Util.implode p)

(* insert an entry into the tree *)
let rec insert (fs : node list) (p : char list list) (leaf : node option) : node list =
  match p with
  | [] -> fs
  | [ last ] -> (
      let exists = List.exists (fun n -> node_name n = last) fs in
      match leaf with
      | Some n -> if exists then fs else fs @ [ n ]
      | None -> if exists then fs else fs @ [ NDir (last, []) ])
  | d :: rest ->
      let fs = if List.exists (fun n -> node_name n = d) fs then fs else fs @ [ NDir (d, []) ] in
      List.map
        (fun n ->
          match n with
          | NDir (name, ch) when name = d -> NDir (name, insert ch rest leaf)
          | other -> other)
        fs

let parse_entry (fs : node list) (t : string) : node list =
  match String.split_on_char ':' t with
  | [ "D"; p ] -> insert fs (segs p) None
  | [ "F"; p; k ] ->
      let sp = segs p in
      let name = List.nth sp (List.length sp - 1) in
      let kind = match k with "w" -> KWit | "p" -> KWasmPkg | _ -> KOther in
      insert fs sp (Some (NFile (name, kind)))
  | _ -> failwith ("bad entry " ^ t)

let parse_field (t : string) : tpath field =
  if t = "I" then FInline
  else if t = "O" then FOther
  else if String.length t >= 2 && String.sub t 0 2 = "P:" then
    FPath (List.map segs (String.split_on_char ',' (String.sub t 2 (String.length t - 2))))
  else failwith ("bad field " ^ t)

let () =
  Util.iter_lines (fun l ->
      let fields_s, entries_s =
        match String.index_opt l '|' with
        | Some i -> (String.sub l 0 i, String.sub l (i + 1) (String.length l - i - 1))
        | None -> (l, "")
      in
      let fields = List.map parse_field (Util.split_ws fields_s) in
      let fs = List.fold_left parse_entry [] (Util.split_ws entries_s) in
      match macro_tree fs fields with
      | None -> "none"
      | Some o ->
          let set l = String.concat ";" (List.sort_uniq compare (List.map show_path l)) in
          let clean = List.for_all (fun p -> deps_clean fs p) o.parsed in
          Printf.sprintf "T:%s R:%s C:%s" (set o.tracked) (set o.readf) (if clean then "1" else "0"))
