(* C28 driver.  stdin: one harness dump per line (see harness/crates/typestie/src/main.rs for the grammar):
     ok T ... W ... SEL i MAY ... @@ LIVE ... REP ... I0 ... I1 ... TOPO a b
   stdout, one line:
     MODEL <LIVE n ids REP n ids I0 n bits I1 n bits | ERR e>      -- extracted model of types.rs, input part only
     SPEC WF b POST ids; SOUND pairs; COMPLETE pairs; FIRST pairs; MERGE ids; KC b F0 n bits F0D n bits
                                                                   -- extracted specification evaluated on the REAL answers *)
open Typeseq_model

let rec nat_of_int (n : int) : nat = if n <= 0 then O else S (nat_of_int (n - 1))
let rec int_of_nat (n : nat) : int = match n with O -> 0 | S m -> 1 + int_of_nat m
let rec pos_of_int (n : int) : positive =
  if n = 1 then XH else if n land 1 = 0 then XO (pos_of_int (n lsr 1)) else XI (pos_of_int (n lsr 1))
let n_of_int (n : int) : n = if n = 0 then N0 else Npos (pos_of_int n)

exception Parse of string

let prim_of = function
  | "bool" -> Some PBool | "u8" -> Some PU8 | "u16" -> Some PU16 | "u32" -> Some PU32 | "u64" -> Some PU64
  | "s8" -> Some PS8 | "s16" -> Some PS16 | "s32" -> Some PS32 | "s64" -> Some PS64
  | "f32" -> Some PF32 | "f64" -> Some PF64 | "char" -> Some PChar | "string" -> Some PString
  | "errctx" -> Some PErrCtx | _ -> None

let run (line : string) : string =
  let toks = Array.of_list (Util.split_ws line) in
  let pos = ref 0 in
  let next () = if !pos >= Array.length toks then raise (Parse "eof") else (let t = toks.(!pos) in incr pos; t) in
  let expect s = let t = next () in if t <> s then raise (Parse ("expected " ^ s ^ " got " ^ t)) in
  let int () = let t = next () in try int_of_string t with _ -> raise (Parse ("int: " ^ t)) in
  let nat () = nat_of_int (int ()) in
  let rec times n f = if n = 0 then [] else (let x = f () in x :: times (n - 1) f) in
  let ty () =
    let t = next () in
    if String.length t > 0 && t.[0] = '#' then TId (nat_of_int (int_of_string (String.sub t 1 (String.length t - 1))))
    else match prim_of t with Some p -> TPrim p | None -> raise (Parse ("type: " ^ t)) in
  let oty () = if toks.(!pos) = "_" then (incr pos; None) else Some (ty ()) in
  let name () = Util.explode (next ()) in
  let kind () =
    match next () with
    | "rec" -> let n = int () in KRecord (times n (fun () -> let a = name () in let b = ty () in (a, b)))
    | "res" -> KResource
    | "own" -> KOwn (nat ())
    | "bor" -> KBorrow (nat ())
    | "flags" -> let n = int () in KFlags (times n name)
    | "tup" -> let n = int () in KTuple (times n ty)
    | "var" -> let n = int () in KVariant (times n (fun () -> let a = name () in let b = oty () in (a, b)))
    | "enum" -> let n = int () in KEnum (times n name)
    | "opt" -> KOption (ty ())
    | "result" -> let a = oty () in let b = oty () in KResult (a, b)
    | "list" -> KList (ty ())
    | "fixed" -> let a = ty () in let n = int () in KFixed (a, n_of_int n)
    | "map" -> let a = ty () in let b = ty () in KMap (a, b)
    | "fut" -> KFuture (oty ())
    | "stream" -> KStream (oty ())
    | "type" -> KType (ty ())
    | "unknown" -> KUnknown
    | k -> raise (Parse ("kind: " ^ k)) in
  let func () =
    let st = if toks.(!pos) = "_" then (incr pos; None) else Some (nat ()) in
    let n = int () in
    let ps = times n ty in
    let r = oty () in
    { fstatic = st; fparams = ps; fresult = r } in
  expect "ok"; expect "T";
  let n = int () in
  let table = times n (fun () -> let nm = next () in let k = kind () in { tnamed = (nm <> "_"); tkind = k }) in
  expect "W";
  let nw = int () in
  let worlds = times nw (fun () ->
    let ni = int () in
    let items = times ni (fun () ->
      match next () with
      | "IF" -> let imp = int () in let nt = int () in let ts = times nt nat in
                let nf = int () in let fs = times nf func in (imp, IInterface (ts, fs))
      | "FN" -> let imp = int () in let f = func () in (imp, IFunc f)
      | "TY" -> let imp = int () in let i = nat () in (imp, IType i)
      | k -> raise (Parse ("item: " ^ k))) in
    { wimports = List.map snd (List.filter (fun (i, _) -> i = 1) items);
      wexports = List.map snd (List.filter (fun (i, _) -> i = 0) items) }) in
  expect "SEL";
  let sel = int () in
  expect "MAY";
  let nm = int () in
  let mays = times nm nat in
  let may i = mem i mays in
  (* ------------------------------------------------------------------ model, from the input part only *)
  let ids l = string_of_int (List.length l) ^ String.concat "" (List.map (fun i -> " " ^ string_of_int (int_of_nat i)) l) in
  let b x = if x then "1" else "0" in
  let bits (i : info) = String.concat "" (List.map b [i.borrowed; i.owned; i.error; i.has_list; i.has_tuple; i.has_resource; i.has_borrow_handle; i.has_own_handle]) in
  let infos l = string_of_int (List.length l) ^ String.concat "" (List.map (fun i -> " " ^ bits i) l) in
  let errs = function EFuel -> "fuel" | EBadId -> "badid" | EUnreachable -> "unreachable" | EAssert -> "assert" | EUnwrap -> "unwrap" in
  let model =
    match run_types table worlds (nat_of_int sel) may with
    | ROk a -> "LIVE " ^ ids a.a_live ^ " REP " ^ ids a.a_rep ^ " I0 " ^ infos a.a_i0 ^ " I1 " ^ infos a.a_i1
    | RErr e -> "ERR " ^ errs e in
  (* ------------------------------------------------------------------ the real answers *)
  let spec =
    if !pos >= Array.length toks then "NONE" else begin
      expect "@@"; expect "LIVE";
      let nl = int () in let live = times nl nat in
      expect "REP";
      let nr = int () in let reps = times nr nat in
      let info_of_bits s = { borrowed = s.[0] = '1'; owned = s.[1] = '1'; error = s.[2] = '1'; has_list = s.[3] = '1';
                             has_tuple = s.[4] = '1'; has_resource = s.[5] = '1'; has_borrow_handle = s.[6] = '1';
                             has_own_handle = s.[7] = '1' } in
      expect "I0";
      let n0 = int () in let i0 = times n0 (fun () -> info_of_bits (next ())) in
      expect "I1";
      let n1 = int () in let i1 = times n1 (fun () -> info_of_bits (next ())) in
      let pairs l = String.concat "," (List.map (fun (a, c) -> string_of_int (int_of_nat a) ^ ":" ^ string_of_int (int_of_nat c)) l) in
      let idl l = String.concat "," (List.map (fun a -> string_of_int (int_of_nat a)) l) in
      let wf = wf_tableb table in
      let xs = expansions table in
      let all = (List.length mays = n) in
      let fs = all_funcs worlds in
      let d = desc_table table in
      let tids = List.init n nat_of_int in
      "WF " ^ b wf
      ^ " POST " ^ idl (check_postorder table [] live)
      ^ "; SOUND " ^ pairs (check_sound xs reps)
      ^ "; COMPLETE " ^ (if all then pairs (check_complete xs live reps) else "")
      ^ "; FIRST " ^ pairs (check_first xs may reps [] live)
      ^ "; MERGE " ^ idl (check_merge reps i0 i1)
      ^ "; KC " ^ b (aliased_error_resultb table fs)
      ^ " F0 " ^ infos (List.map (spec_info table d fs false) tids)
      ^ " F0D " ^ infos (List.map (spec_info table d fs true) tids)
    end in
  "MODEL " ^ model ^ " SPEC " ^ spec

let () = Util.iter_lines (fun l -> try run l with Parse m -> "PARSE-ERROR " ^ m)
