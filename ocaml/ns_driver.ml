open Ns_model
let parse_op (s : string) : nsop =
  let i = String.index s ':' in
  let name = Util.explode (String.sub s (i + 1) (String.length s - i - 1)) in
  match String.sub s 0 i with
  | "i" -> Insert name
  | "t" -> Tmp name
  | _ -> failwith "bad op"
let show = function
  | InsOk -> "ok"
  | InsErr -> "err"
  | TmpName s -> "=" ^ Util.implode s
  | OutOfFuel -> "FUEL"
let () =
  Util.iter_lines (fun l ->
      let ops = List.map parse_op (Util.split_ws l) in
      String.concat " " (List.map show (ns_run ns_init ops)))
