(* C34 model driver.  Encoding as in harness/crates/cfgtie: a string is `-` or hex code points joined
   by `.`; a list is `~` or strings joined by `,`.
   Usage: config_driver <engine>
     text   `<marker> <contents>`        -> `<text>`
     direct `s <str>` | `l <list>`       -> `<list>`          (to_vec)
     deps   `n` | `s <str>` | `l <list>` -> `<list>`          (dependency_worlds)
     wsset  (any line)                   -> scalar values c with splits_in_two c *)
open Config_model

let rec pos_of_int (i : int) : positive =
  if i = 1 then XH else if i land 1 = 1 then XI (pos_of_int (i lsr 1)) else XO (pos_of_int (i lsr 1))
let n_of_int (i : int) : n = if i = 0 then N0 else Npos (pos_of_int i)
let rec int_of_pos = function XH -> 1 | XO p -> 2 * int_of_pos p | XI p -> 2 * int_of_pos p + 1
let int_of_n = function N0 -> 0 | Npos p -> int_of_pos p

let dec (s : string) : n list =
  if s = "-" then [] else List.map (fun h -> n_of_int (int_of_string ("0x" ^ h))) (String.split_on_char '.' s)
let enc (l : n list) : string =
  if l = [] then "-" else String.concat "." (List.map (fun c -> Printf.sprintf "%x" (int_of_n c)) l)
let dec_list (s : string) : n list list =
  if s = "~" then [] else List.map dec (String.split_on_char ',' s)
let enc_list (l : n list list) : string =
  if l = [] then "~" else String.concat "," (List.map enc l)

let two (l : string) : string * string =
  let i = String.index l ' ' in
  (String.sub l 0 i, String.sub l (i + 1) (String.length l - i - 1))

let sl_of k v = match k with
  | "s" -> SLString (dec v)
  | "l" -> SLList (dec_list v)
  | _ -> failwith "bad kind"

let () =
  let engine = Sys.argv.(1) in
  Util.iter_lines (fun l ->
      match engine with
      | "text" -> let (m, c) = two l in enc (config_text (dec m) (dec c))
      | "direct" -> let (k, v) = two l in enc_list (to_vec (sl_of k v))
      | "deps" ->
          if l = "n" then enc_list (dependency_worlds None)
          else let (k, v) = two l in enc_list (dependency_worlds (Some (sl_of k v)))
      | "wsset" ->
          let out = ref [] in
          for u = 0x10FFFF downto 0 do
            if not (u >= 0xD800 && u <= 0xDFFF) && splits_in_two (n_of_int u) then
              out := Printf.sprintf "%x" u :: !out
          done;
          String.concat "." !out
      | _ -> failwith "unknown engine")
