(* C15: driver for the extracted model WB.Core.Determinism.   One case per line, fields separated by TAB, pairs by \x1d.
     deps     <project> TAB <k>\x1d<v> TAB …            -> render_moon_deps, newlines printed as \x1f
     exports  <realloc> TAB <export>\x1d<func> TAB …    -> render_moon_exports
     merge    <id>:<rep>:<info> <id>:<rep>:<info> …      -> `<id>:<info after>` for every id, ascending id
     lines    <l1> TAB <l2> …                            -> render_lines *)
open Determinism_model

let rec pos_of_int (i : int) : positive =
  if i = 1 then XH else if i land 1 = 0 then XO (pos_of_int (i lsr 1)) else XI (pos_of_int (i lsr 1))
let n_of_int (i : int) : n = if i = 0 then N0 else Npos (pos_of_int i)
let rec int_of_pos = function XH -> 1 | XO p -> 2 * int_of_pos p | XI p -> 2 * int_of_pos p + 1
let int_of_n = function N0 -> 0 | Npos p -> int_of_pos p

let ex = Util.explode
let im = Util.implode
let esc s = String.concat "\x1f" (String.split_on_char '\n' s)
let pair s = match String.index_opt s '\x1d' with
  | Some i -> (String.sub s 0 i, String.sub s (i + 1) (String.length s - i - 1))
  | None -> failwith "bad pair"

let () =
  let mode = Sys.argv.(1) in
  Util.iter_lines (fun l ->
      match mode with
      | "deps" ->
          (match String.split_on_char '\t' l with
           | project :: es ->
               let es = List.map (fun e -> let (k, v) = pair e in (ex k, ex v)) (List.filter (fun x -> x <> "") es) in
               esc (im (render_moon_deps (ex project) es))
           | [] -> failwith "empty")
      | "exports" ->
          (match String.split_on_char '\t' l with
           | realloc :: es ->
               let es = List.map (fun e -> let (k, v) = pair e in (ex k, (ex v, []))) (List.filter (fun x -> x <> "") es) in
               esc (im (render_moon_exports (ex realloc) es))
           | [] -> failwith "empty")
      | "merge" ->
          let es = List.map (fun t -> match String.split_on_char ':' t with
              | [a; b; c] -> (int_of_string a, int_of_string b, int_of_string c)
              | _ -> failwith "bad entry") (Util.split_ws l) in
          let tbl = Hashtbl.create 64 in
          List.iter (fun (i, r, _) -> Hashtbl.replace tbl i r) es;
          let find (x : n) : n = match Hashtbl.find_opt tbl (int_of_n x) with Some r -> n_of_int r | None -> x in
          let ents = List.map (fun (i, _, b) -> (n_of_int i, n_of_int b)) es in
          let ids = List.sort compare (List.map (fun (i, _, _) -> i) es) in
          String.concat " " (List.map (fun i ->
              match type_info_after find ents (n_of_int i) with
              | Some v -> Printf.sprintf "%d:%d" i (int_of_n v)
              | None -> Printf.sprintf "%d:none" i) ids)
      | "lines" -> esc (im (render_lines (List.map ex (String.split_on_char '\t' l))))
      | _ -> failwith "mode")
