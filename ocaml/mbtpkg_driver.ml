(* C30 tie, model side.  Same line protocol as harness/crates/mbtpkg `qualify`:
   in : this|name this|name ...      out: <answer> ... # this:name=alias,... this:... (sorted) *)
open Mbtpkg_model
let parse_call (s : string) =
  let i = String.index s '|' in
  (Util.explode (String.sub s 0 i), Util.explode (String.sub s (i + 1) (String.length s - i - 1)))
let () =
  Util.iter_lines (fun l ->
      let calls = List.map parse_call (Util.split_ws l) in
      let outs, rf = run [] calls in
      let outs = List.map (fun o -> match o with [] -> "_" | _ -> Util.implode o) outs in
      let d = List.map (fun (k, es) ->
                  let es = List.sort compare (List.map (fun (n, a) -> Util.implode n ^ "=" ^ Util.implode a) es) in
                  (Util.implode k, es)) (dump rf) in
      let d = List.sort (fun (a, _) (b, _) -> compare a b) d in
      String.concat " " outs ^ " # " ^ String.concat " " (List.map (fun (k, es) -> k ^ ":" ^ String.concat "," es) d))
