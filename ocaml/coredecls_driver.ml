(* C13 driver around the extracted Coq model (Valid/CoreDecls.v).
   One case per line, fields separated by \x1e:
     E \x1e <world tokens, tab separated (grammar: harness/crates/declscrape/src/dump.rs)>
        -> <world items> \x1e <builtin items> \x1e <required groups> \x1e <unambiguous: 1|0>
           item = dir \x1d module \x1d field \x1d sig \x1d needs, joined by \x1c; group = alternatives joined by \x1d
     C \x1e <world tokens> \x1e <decls: dir \x1d module \x1d field \x1d sig("?" = unknown) joined by \x1c>
        -> OK | errors joined by \x1c, error = kind \x1d ... (kinds: unknown nosig sig needs missing dup)
   This file is trusted glue: token parser and printers only. *)
open Coredecls_model

let ex = Util.explode
let im = Util.implode

let cty_of = function
  | 'i' -> I32 | 'I' -> I64 | 'f' -> F32 | 'F' -> F64
  | c -> failwith (Printf.sprintf "bad sig char %c" c)
let char_of = function I32 -> 'i' | I64 -> 'I' | F32 -> 'f' | F64 -> 'F'

let sig_of (s : string) : sig0 =
  match String.index_opt s '>' with
  | None -> failwith ("bad sig " ^ s)
  | Some i ->
    let p = String.sub s 0 i and r = String.sub s (i + 1) (String.length s - i - 1) in
    { s_params = List.map cty_of (ex p); s_results = List.map cty_of (ex r) }
let sig_str (s : sig0) : string =
  im (List.map char_of s.s_params) ^ ">" ^ im (List.map char_of s.s_results)

(* token stream *)
let toks : string list ref = ref []
let next () = match !toks with [] -> failwith "unexpected end of tokens" | t :: tl -> toks := tl; t
let num () = int_of_string (next ())
let rec times n f = if n <= 0 then [] else let x = f () in x :: times (n - 1) f

let parse_func () : func =
  let kind = next () in
  let res = ex (next ()) in
  let item = ex (next ()) in
  let asy = next () = "1" in
  let s1 = sig_of (next ()) in let s2 = sig_of (next ()) in let s3 = sig_of (next ()) in
  let s4 = sig_of (next ()) in let s5 = sig_of (next ()) in let s6 = sig_of (next ()) in
  let np = num () in
  let pays = times np (fun () -> let t = next () in
                        match t.[0] with 'f' -> PFuture | 's' -> PStream | _ -> failwith "bad payload") in
  let k = match kind with
    | "F" -> KFree | "M" -> KMethod res | "S" -> KStatic res | "C" -> KCtor res
    | _ -> failwith "bad kind" in
  { f_kind = k; f_item = item; f_async = asy; f_imp_sync = s1; f_imp_async = s2; f_exp_sync = s3;
    f_exp_async = s4; f_exp_stackful = s5; f_task_return = s6; f_payloads = pays }

let parse_key () : ikey =
  match next () with
  | "N" -> KName (ex (next ()))
  | "I" ->
    let ns = next () in let pkg = next () in let i = next () in let v = next () in
    KId (ex ns, ex pkg, ex i, (if v = "" then None else Some (ex v)))
  | _ -> failwith "bad key"

let parse_iface () : iface =
  let k = parse_key () in
  let nf = num () in
  let fs = times nf parse_func in
  let nr = num () in
  let rs = times nr (fun () -> ex (next ())) in
  { i_key = k; i_funcs = fs; i_resources = rs }

let parse_world (s : string) : world =
  toks := String.split_on_char '\t' s;
  if next () <> "W" then failwith "world must start with W";
  let n = num () in let ii = times n parse_iface in
  let n = num () in let fi = times n parse_func in
  let n = num () in let ri = times n (fun () -> ex (next ())) in
  let n = num () in let ie = times n parse_iface in
  let n = num () in let fe = times n parse_func in
  if !toks <> [] then failwith "trailing tokens";
  { w_imp_ifaces = ii; w_imp_funcs = fi; w_imp_resources = ri; w_exp_ifaces = ie; w_exp_funcs = fe }

let split c s = if s = "" then [] else String.split_on_char c s

let parse_decl (s : string) : decl =
  match String.split_on_char '\x1d' s with
  | d :: m :: f :: sg :: _ ->
    { d_dir = (if d = "I" then Imp else if d = "E" then Exp else failwith "bad dir");
      d_module = ex m; d_field = ex f;
      d_sig = (if sg = "?" then None else Some (sig_of sg)) }
  | _ -> failwith ("bad decl " ^ s)

let dir_s = function Imp -> "I" | Exp -> "E"
let item_s (i : core_item) =
  String.concat "\x1d" [dir_s i.ci_dir; im i.ci_module; im i.ci_field; sig_str i.ci_sig;
                        (match i.ci_needs with Some n -> im n | None -> "")]
let decl_s (d : decl) =
  String.concat "\x1d" [dir_s d.d_dir; im d.d_module; im d.d_field;
                        (match d.d_sig with Some s -> sig_str s | None -> "?")]
let err_s = function
  | EUnknown d -> "unknown\x1d" ^ decl_s d
  | ENoSig d -> "nosig\x1d" ^ decl_s d
  | ESig (d, w) -> "sig\x1d" ^ decl_s d ^ "\x1d" ^ sig_str w
  | ENeeds (d, n) -> "needs\x1d" ^ decl_s d ^ "\x1d" ^ im n
  | EMissing alts -> "missing\x1d" ^ String.concat "\x1d" (List.map im alts)
  | EDup n -> "dup\x1d" ^ im n

let rec drop n l = if n <= 0 then l else match l with [] -> [] | _ :: t -> drop (n - 1) t
let rec take n l = if n <= 0 then [] else match l with [] -> [] | x :: t -> x :: take (n - 1) t

let () =
  Util.iter_lines (fun l ->
      match String.split_on_char '\x1e' l with
      | ["E"; w] ->
        let w = parse_world w in
        let e = expected w in
        let nb = List.length builtin_items in
        let nw = List.length e - nb in
        String.concat "\x1e"
          [ String.concat "\x1c" (List.map item_s (take nw e));
            String.concat "\x1c" (List.map item_s (drop nw e));
            String.concat "\x1c" (List.map (fun a -> String.concat "\x1d" (List.map im a)) (required w));
            (if unambiguous w then "1" else "0") ]
      | ["C"; w; ds] ->
        let w = parse_world w in
        let ds = List.map parse_decl (split '\x1c' ds) in
        (match check_decls w ds with
         | [] -> "OK"
         | es -> String.concat "\x1c" (List.map err_s es))
      | _ -> failwith "bad protocol line")
