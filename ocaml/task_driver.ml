(* C22/C23 tie, model side: one scenario per line in (grammar: see harness/crates/rtmock/src/bin/tasks.rs),
   the predicted log in rtmock's token format out. *)
open Task_model

let rec pos_of_int i =
  if i = 1 then XH else if i land 1 = 1 then XI (pos_of_int (i lsr 1)) else XO (pos_of_int (i lsr 1))
let n_of_int (i : int) : n = if i = 0 then N0 else Npos (pos_of_int i)
let rec int_of_pos = function XH -> 1 | XO p -> 2 * int_of_pos p | XI p -> 2 * int_of_pos p + 1
let int_of_n = function N0 -> 0 | Npos p -> int_of_pos p
let sn x = string_of_int (int_of_n x)
let rec nat_of_int i = if i <= 0 then O else S (nat_of_int (i - 1))

let num s = n_of_int (int_of_string s)
let tail s = String.sub s 1 (String.length s - 1)

let parse_op s =
  match s with
  | "sub" -> { od_kind = KSub; od_imm = false; od_starting = false }
  | "sub0" -> { od_kind = KSub; od_imm = false; od_starting = true }
  | "subI" -> { od_kind = KSub; od_imm = true; od_starting = false }
  | "sr" -> { od_kind = KSRead; od_imm = false; od_starting = false }
  | "srI" -> { od_kind = KSRead; od_imm = true; od_starting = false }
  | "sw" -> { od_kind = KSWrite; od_imm = false; od_starting = false }
  | "swI" -> { od_kind = KSWrite; od_imm = true; od_starting = false }
  | "fr" -> { od_kind = KFRead; od_imm = false; od_starting = false }
  | "frI" -> { od_kind = KFRead; od_imm = true; od_starting = false }
  | "fw" -> { od_kind = KFWrite; od_imm = false; od_starting = false }
  | "fwI" -> { od_kind = KFWrite; od_imm = true; od_starting = false }
  | _ -> failwith ("bad op " ^ s)

let parse_step s =
  match s.[0] with
  | 'a' -> SAwait (num (tail s))
  | 'y' -> SYield
  | 's' -> SSpawn (num (tail s))
  | 'f' -> SFlag (num (tail s))
  | 'w' -> SWake (num (tail s))
  | 'c' -> SCtx
  | 'g' -> SDetach (num (tail s))
  | 'j' -> (match String.split_on_char '.' (tail s) with
            | [k; j] -> SJoin (num k, num j)
            | _ -> failwith "bad join")
  | _ -> failwith ("bad step " ^ s)

let parse_body s = if s = "-" then [] else List.map parse_step (String.split_on_char ',' s)

let parse_action s =
  match s.[0] with
  | 's' -> AStart (num (tail s))
  | 'n' -> ANone (num (tail s))
  | 'e' -> AEvent (num (tail s))
  | 'x' -> ACancel (num (tail s))
  | 'r' -> AResolve (num (tail s))
  | 'd' -> ADropPeer (num (tail s))
  | 'p' -> AProgress (num (tail s))
  | 'w' -> AWake (num (tail s))
  | 'k' -> AWakeC (num (tail s))
  | 'z' -> ACleanup
  | 'R' -> (match String.split_on_char '.' (tail s) with
            | [t; a; b; c] -> ARaw (num t, num a, num b, num c)
            | _ -> failwith "bad raw")
  | _ -> failwith ("bad action " ^ s)

let trap_name = function
  | TJoinBadWaitable -> "join:bad-waitable" | TJoinBadSet -> "join:bad-set"
  | TSetDropBad -> "wsdrop:bad-set" | TSetDropNonEmpty -> "wsdrop:nonempty"
  | TWaitBadSet -> "wait:bad-set" | TWaitDeadlock -> "wait:deadlock"
  | TSubCancelBad -> "stcancel:bad-handle" | TSubCancelResolved -> "stcancel:resolved"
  | TSubCancelTwice -> "stcancel:twice" | TSubCancelJoined -> "stcancel:joined"
  | TSubDropBad -> "stdrop:bad-handle" | TSubDropUnresolved -> "stdrop:unresolved"
  | TRwBadHandle -> "rw:bad-handle" | TRwWrongDirection -> "rw:wrong-direction"
  | TRwBusy -> "rw:busy" | TRwFutureDone -> "rw:future-done"
  | TCancelBadHandle -> "cancel:bad-handle" | TCancelWrongDirection -> "cancel:wrong-direction"
  | TCancelNotCopying -> "cancel:not-copying" | TCancelJoined -> "cancel:joined"
  | TDropBadHandle -> "drop:bad-handle" | TDropWrongDirection -> "drop:wrong-direction"
  | TDropCopying -> "drop:copying" | TDropFutureWriterUnwritten -> "drop:future-writer-unwritten"
  | TBackpressureUnderflow -> "bpdec:underflow" | TErrCtxDropBad -> "ecdrop:bad-handle"

let sf fut = if fut then "f" else "s"
let note tag args =
  let a = List.map sn args in
  let g i = List.nth a i in
  match int_of_n tag with
  | 100 -> Printf.sprintf "start:%s=%s" (g 0) (g 1)
  | 101 -> Printf.sprintf "cb:%s:%s,%s,%s=%s" (g 0) (g 1) (g 2) (g 3) (g 4)
  | 102 -> "bfin:" ^ g 0
  | 103 -> "bdrop:" ^ g 0
  | 104 -> "spawn:" ^ g 0
  | 105 -> "opdone:" ^ g 0
  | 106 -> Printf.sprintf "call:%s=%s" (g 0) (g 1)
  | 107 -> "lift:" ^ g 0
  | 108 -> "treturn:" ^ g 0
  | 109 -> "tnew:" ^ g 0
  | 110 -> "tfree:" ^ g 0
  | 111 -> "bon:" ^ g 0
  | 112 -> Printf.sprintf "fwait:%s:%s" (g 0) (g 1)
  | 113 -> "wflag:" ^ g 0
  | 114 -> "xwake:" ^ g 0
  | 115 -> ">start:" ^ g 0
  | 116 -> "ystep:" ^ g 0
  | 117 -> "op:" ^ g 0
  | 118 -> "kwake:" ^ g 0
  | t -> Printf.sprintf "note%d:%s" t (String.concat "," a)

let show = function
  | HSetNew s -> "wsnew=" ^ sn s
  | HSetDrop s -> "wsdrop:" ^ sn s
  | HJoin (w, s) -> Printf.sprintf "join:%s:%s" (sn w) (sn s)
  | HWait (s, e, w, c) -> Printf.sprintf "wswait:%s=%s,%s,%s" (sn s) (sn e) (sn w) (sn c)
  | HPoll (s, e, w, c) -> Printf.sprintf "wspoll:%s=%s,%s,%s" (sn s) (sn e) (sn w) (sn c)
  | HSubCancel (h, c) -> Printf.sprintf "stcancel:%s=%s" (sn h) (sn c)
  | HSubDrop h -> "stdrop:" ^ sn h
  | HChanNew (fut, w, r) -> Printf.sprintf "%snew=%s,%s" (sf fut) (sn w) (sn r)
  | HWrite (fut, h, len, c) ->
      if fut then Printf.sprintf "fwrite:%s=%s" (sn h) (sn c)
      else Printf.sprintf "swrite:%s:%s=%s" (sn h) (sn len) (sn c)
  | HRead (fut, h, len, c) ->
      if fut then Printf.sprintf "fread:%s=%s" (sn h) (sn c)
      else Printf.sprintf "sread:%s:%s=%s" (sn h) (sn len) (sn c)
  | HCancel (fut, wr, h, c) -> Printf.sprintf "%scancel%s:%s=%s" (sf fut) (if wr then "w" else "r") (sn h) (sn c)
  | HDropEnd (fut, wr, h) -> Printf.sprintf "%sdrop%s:%s" (sf fut) (if wr then "w" else "r") (sn h)
  | HYield b -> "yield=" ^ (if b then "1" else "0")
  | HBpInc -> "bpinc" | HBpDec -> "bpdec" | HTaskCancel -> "taskcancel"
  | HCtxGet (t, null) -> Printf.sprintf "cget:%s=%s" (sn t) (if null then "null" else "ptr")
  | HCtxSet (t, null) -> Printf.sprintf "cset:%s=%s" (sn t) (if null then "null" else "ptr")
  | HTrap t -> "TRAP:" ^ trap_name t
  | HNote (tag, args) -> note tag args

let words s = List.filter (fun x -> x <> "" && x <> "-") (String.split_on_char ' ' s)

let () =
  Util.iter_lines (fun l ->
      match List.map String.trim (String.split_on_char ';' l) with
      | [hd; ops; bodies; roots; acts] ->
          let feat, mode = (match words hd with [f; m] -> (f, m) | _ -> failwith "bad header") in
          let cfg = { cf_spawn = (feat = "s" || feat = "a"); cf_itw = (feat = "i" || feat = "a") } in
          let ops = List.map parse_op (words ops) in
          let bodies = List.map parse_body (List.filter (fun x -> x <> "") (String.split_on_char ' ' bodies)) in
          let roots = List.map num (words roots) in
          let acts = List.map parse_action (words acts) in
          let size = List.fold_left (fun a b -> a + List.length b) 0 bodies + List.length ops + List.length acts in
          let env = { e_cfg = cfg; e_start = (mode = "S"); e_ops = ops; e_bodies = bodies; e_roots = roots;
                      e_fuel = nat_of_int (64 + 16 * size) } in
          let (log, err) = run_log { sc_env = env; sc_actions = acts } in
          let toks = List.map show log in
          String.concat " " (toks @ (match err with Some c -> ["PANIC:" ^ sn c] | None -> []))
      | _ -> failwith "bad line")
