(* line protocol driver for the extracted Scalar model (lib/scalar.py).  Numbers travel in hex ("-1f").
   <kind> is c (conversion) or k (cast); <i> an index into all_conversions / all_casts.
     chk <kind> <i>            -> 1 | 0          verified checker's verdict (check_conv / check_cast)
     elab <kind> <i>           -> 1 | 0          expression is inside the modelled fragment
     b01 <i>                   -> 1 | 0          bool01_ok
     bad <kind> <i> x1 x2 ...  -> first xi with agrees_at = false, or "-"
     ev <kind> <i> x1 x2 ...   -> eval_l at each xi: hex value or N (trap / undefined)
     lower <t> x1 ...          -> spec_lower  (t = index into all_sty)
     lift <t> x1 ...           -> spec_lift   (value or N)
     count                     -> <#conversions> <#casts>                                    *)
open Scalar_model

let rec pos_bits (p : positive) : bool list = (* lsb first *)
  match p with XH -> [true] | XO q -> false :: pos_bits q | XI q -> true :: pos_bits q

let hex_of_pos p =
  let bits = pos_bits p in
  let rec nib l = match l with
    | [] -> []
    | a :: b :: c :: d :: r -> ((if a then 1 else 0) + (if b then 2 else 0) + (if c then 4 else 0) + (if d then 8 else 0)) :: nib r
    | l -> nib (l @ [false]) in
  let ns = List.rev (nib bits) in
  let s = String.concat "" (List.map (Printf.sprintf "%x") ns) in
  (* strip leading zeros *)
  let n = String.length s in
  let i = ref 0 in
  while !i < n - 1 && s.[!i] = '0' do incr i done;
  String.sub s !i (n - !i)

let hex_of_z = function Z0 -> "0" | Zpos p -> hex_of_pos p | Zneg p -> "-" ^ hex_of_pos p

let z_of_hex (s : string) : z =
  let neg = String.length s > 0 && s.[0] = '-' in
  let s = if neg then String.sub s 1 (String.length s - 1) else s in
  let acc = ref None in
  String.iter (fun ch ->
    let v = int_of_string ("0x" ^ String.make 1 ch) in
    List.iter (fun k ->
      let b = (v lsr k) land 1 = 1 in
      acc := (match !acc with
              | None -> if b then Some XH else None
              | Some p -> Some (if b then XI p else XO p))) [3; 2; 1; 0]) s;
  match !acc with None -> Z0 | Some p -> if neg then Zneg p else Zpos p

let convs = Array.of_list all_conversions
let casts = Array.of_list all_casts
let stys = Array.of_list all_sty
let b2s b = if b then "1" else "0"
let opt = function Some v -> hex_of_z v | None -> "N"

let handle (line : string) : string =
  match Util.split_ws line with
  | ["count"] -> Printf.sprintf "%d %d" (Array.length convs) (Array.length casts)
  | ["chk"; "c"; i] -> b2s (check_conv convs.(int_of_string i))
  | ["chk"; "k"; i] -> b2s (check_cast casts.(int_of_string i))
  | ["elab"; "c"; i] -> b2s (match elab (c_lex convs.(int_of_string i)) with Some _ -> true | None -> false)
  | ["elab"; "k"; i] -> b2s (match elab (k_lex casts.(int_of_string i)) with Some _ -> true | None -> false)
  | ["b01"; i] -> b2s (bool01_ok convs.(int_of_string i))
  | "bad" :: kind :: i :: xs ->
      let f = if kind = "c" then agrees_at convs.(int_of_string i) else cast_agrees_at casts.(int_of_string i) in
      (match List.find_opt (fun x -> not (f (z_of_hex x))) xs with Some x -> x | None -> "-")
  | "ev" :: kind :: i :: xs ->
      let l = if kind = "c" then c_lex convs.(int_of_string i) else k_lex casts.(int_of_string i) in
      String.concat " " (List.map (fun x -> opt (eval_l l (z_of_hex x))) xs)
  | "lower" :: t :: xs -> String.concat " " (List.map (fun x -> hex_of_z (spec_lower stys.(int_of_string t) (z_of_hex x))) xs)
  | "lift" :: t :: xs -> String.concat " " (List.map (fun x -> opt (spec_lift stys.(int_of_string t) (z_of_hex x))) xs)
  | _ -> "?"

let () = Util.iter_lines handle
