(* C29 tie, model side.
   in : <hrefs: k\x1dv\x1c k\x1dv ...>\x1e<events: S<hex dst> | E | C<hex code> | O, space separated>
   out: the model's plan, one token per event: K (keep) | W<hex dst> (wrap in a link to dst) *)
open Mdlinks_model
let unhex (s : string) : string =
  String.init (String.length s / 2) (fun i -> Char.chr (int_of_string ("0x" ^ String.sub s (2 * i) 2)))
let hex (s : string) : string =
  String.concat "" (List.map (fun c -> Printf.sprintf "%02x" (Char.code c)) (List.init (String.length s) (String.get s)))
let split c s = if s = "" then [] else String.split_on_char c s
let parse_ev (t : string) : ev =
  let rest = String.sub t 1 (String.length t - 1) in
  match t.[0] with
  | 'S' -> StartLink (Util.explode (unhex rest))
  | 'E' -> EndLink
  | 'C' -> Code (Util.explode (unhex rest))
  | _ -> Other N0
let () =
  Util.iter_lines (fun l ->
      match String.split_on_char '\x1e' l with
      | [h; evs] ->
         let h = List.map (fun e -> match String.split_on_char '\x1d' e with
                                    | [k; v] -> (Util.explode k, Util.explode v)
                                    | _ -> failwith "bad href") (split '\x1c' h) in
         let evs = List.map parse_ev (Util.split_ws evs) in
         String.concat " " (List.map (function None -> "K" | Some d -> "W" ^ hex (Util.implode d)) (plan h false evs))
      | _ -> failwith "bad line")
