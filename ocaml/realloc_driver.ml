(* C24 model-side driver: same line protocol as harness/crates/realloctie (see its main.rs).
   argv[1] = debug | release  (the build profile whose behaviour the model is asked for).
   Output: "c<0|1>" (is the history consistent in the sense of ReallocSpec.history_consistentb),
   then one token per op in the grammar of the native driver, then "| live=<n>". *)
open Realloc_model

let rec pos_of_int (i : int) : positive =
  if i = 1 then XH else if i land 1 = 0 then XO (pos_of_int (i lsr 1)) else XI (pos_of_int (i lsr 1))
let n_of_int (i : int) : n = if i = 0 then N0 else Npos (pos_of_int i)
let rec int_of_pos = function XH -> 1 | XO p -> 2 * int_of_pos p | XI p -> 2 * int_of_pos p + 1
let int_of_n = function N0 -> 0 | Npos p -> int_of_pos p
let rec nat_of_int (i : int) : nat = if i = 0 then O else S (nat_of_int (i - 1))

let nstr s = n_of_int (int_of_string s)

let parse_pref (s : string) : pref =
  let v = int_of_string (String.sub s 1 (String.length s - 1)) in
  match s.[0] with
  | 'b' -> PBlk (nat_of_int v)
  | 'l' -> PLit (n_of_int v)
  | _ -> failwith "bad pref"

let parse_op (t : string) : op =
  match String.split_on_char ':' t with
  | [ "R"; p; o; a; n ] -> ORealloc (parse_pref p, nstr o, nstr a, nstr n)
  | [ "W"; k; off; v ] -> OWrite (nat_of_int (int_of_string k), nstr off, nstr v)
  | [ "G"; k; off ] -> ORead (nat_of_int (int_of_string k), nstr off)
  | [ "N"; s; a ] -> ONew (nstr s, nstr a)
  | [ "D"; i ] -> ODrop (nat_of_int (int_of_string i))
  | [ "F"; i ] -> OForget (nat_of_int (int_of_string i))
  | [ "X"; p; s; a ] -> ODealloc (parse_pref p, nstr s, nstr a)
  | _ -> failwith ("bad op " ^ t)

(* pointer -> the name it has in the state BEFORE the op *)
let name (s : state) (ptr : n) : string =
  let p = int_of_n ptr in
  let rec find pre i = function
    | [] -> None
    | Some b :: r when int_of_n b.b_size <> 0 && int_of_n b.b_ptr = p -> Some (pre ^ string_of_int i)
    | _ :: r -> find pre (i + 1) r
  in
  match find "b" 0 (bump_tab s) with
  | Some x -> x
  | None -> ( match find "h" 0 (bump_hs s) with Some x -> x | None -> "?")

let sample (n : int) : int list =
  if n <= 96 then List.init n (fun i -> i)
  else
    List.init 32 (fun i -> i)
    @ List.init 32 (fun i -> n - 32 + i)
    @ List.init 32 (fun i -> 32 + (i * (n - 64) / 32))

let rd s a = int_of_n (bump_rd s (n_of_int a))

let all_ff (s' : state) (ptr : n) (size : n) : bool =
  let p = int_of_n ptr in
  List.for_all (fun i -> rd s' (p + i) = 255) (sample (int_of_n size))

let show_calls ?(ff = false) (s : state) (s' : state) (cs : acall list) : string =
  let nz r = if int_of_n r = 0 then "null" else "nz" in
  let i = int_of_n in
  "["
  ^ String.concat ","
      (List.map
         (function
           | ACalloc (sz, al, r) -> Printf.sprintf "alloc(%d,%d)=%s" (i sz) (i al) (nz r)
           | ACrealloc (p, o, al, nw, r) -> Printf.sprintf "realloc(%s,%d,%d,%d)=%s" (name s p) (i o) (i al) (i nw) (nz r)
           | ACdealloc (p, sz, al) ->
               Printf.sprintf "dealloc(%s,%d,%d)%s" (name s p) (i sz) (i al) (if ff && all_ff s' p sz then "ff" else ""))
         cs)
  ^ "]"

(* every block of the table (except index [except]) and of the Cleanups reads the same in s and s' *)
let others_same (s : state) (s' : state) (except : int option) : bool =
  let same b = List.for_all (fun i -> rd s (int_of_n b.b_ptr + i) = rd s' (int_of_n b.b_ptr + i)) (sample (int_of_n b.b_size)) in
  let rec go i = function
    | [] -> true
    | Some b :: r -> (Some i = except || same b) && go (i + 1) r
    | None :: r -> go (i + 1) r
  in
  go 0 (bump_tab s) && go (-1000000) (bump_hs s)

let rec int_of_nat = function O -> 0 | S k -> 1 + int_of_nat k

let b2s b = if b then "1" else "0"

let show_trap t calls =
  match t with
  | TUB UBAlign -> "trap:ub:align"
  | TUB UBNotLive -> "trap:ub:notlive"
  | TUB UBZeroSize -> "trap:ub:zerosize"
  | TDebugAssert -> "trap:debugassert" ^ calls
  | TUnreachable -> "trap:unreachable" ^ calls
  | TAllocError (sz, _) -> Printf.sprintf "trap:allocerror(%d)%s" (int_of_n sz) calls

let show_entry (((s, o), x), s') : string =
  let calls cs = show_calls s s' cs in
  match (o, x) with
  | _, XInvalid -> "invalid"
  | _, XTrap (t, cs) -> show_trap t (calls cs)
  | ORealloc (pr, old_len, align, new_len), XRet (p, cs) ->
      let o_ = int_of_n old_len and n_ = int_of_n new_len and a_ = int_of_n align and p_ = int_of_n p in
      let e = if o_ = 0 && n_ = 0 then b2s (p_ = a_) else "-" in
      let l =
        if n_ = 0 then "-" else b2s (mem_block { b_ptr = p; b_size = new_len; b_align = align } (bump_live s'))
      in
      let k_old = match pr with PBlk k when o_ <> 0 -> Some (int_of_nat k) | _ -> None in
      let pres =
        match (pr, k_old) with
        | PBlk k, Some _ -> (
            match entry (bump_tab s) k with
            | Some b when int_of_n b.b_size = o_ && int_of_n b.b_align = a_ ->
                let ptr = int_of_n b.b_ptr in
                List.for_all (fun i -> rd s' (p_ + i) = rd s (ptr + i)) (sample (min o_ n_))
            | _ -> true)
        | _ -> true
      in
      Printf.sprintf "ret:%s:m%d:e%s:l%s:p%s:o%s%s"
        (if p_ = 0 then "null" else "nz")
        (if a_ <> 0 then p_ mod a_ else 0)
        e l (b2s pres)
        (b2s (others_same s s' k_old))
        (calls cs)
  | _, XByte v -> Printf.sprintf "byte:%d" (int_of_n v)
  | ONew (size, align), XNew (p, some, cs) ->
      let p_ = int_of_n p and a_ = int_of_n align in
      let l = if not some then "-" else b2s (mem_block { b_ptr = p; b_size = size; b_align = align } (bump_live s')) in
      Printf.sprintf "new:%s:m%d:%s:l%s:o%s%s"
        (if p_ = 0 then "null" else "nz")
        (p_ mod a_)
        (if some then "some" else "none")
        l
        (b2s (others_same s s' None))
        (calls cs)
  | OWrite _, XUnit cs -> "unit" ^ calls cs
  | ODrop i, XUnit cs | OForget i, XUnit cs ->
      (* the dropped/forgotten Cleanup's own block is excluded from "others" on the native side too:
         there the handle has already been taken out of the table *)
      let s_wo = s in
      ignore i;
      let same =
        let same b = List.for_all (fun j -> rd s (int_of_n b.b_ptr + j) = rd s' (int_of_n b.b_ptr + j)) (sample (int_of_n b.b_size)) in
        let rec go j = function
          | [] -> true
          | Some b :: r -> (j = int_of_nat i || same b) && go (j + 1) r
          | None :: r -> go (j + 1) r
        in
        others_same { s_wo with st_hs = [] } s' None && go 0 (bump_hs s)
      in
      Printf.sprintf "unit:o%s%s" (b2s same) (show_calls ~ff:true s s' cs)
  | ODealloc (pr, size, _), XUnit cs ->
      let k_old = match pr with PBlk k when int_of_n size <> 0 -> Some (int_of_nat k) | _ -> None in
      Printf.sprintf "unit:o%s%s" (b2s (others_same s s' k_old)) (calls cs)
  | _ -> "MODEL-UNEXPECTED"

let () =
  let debug = match Sys.argv.(1) with "debug" -> true | "release" -> false | _ -> failwith "debug|release" in
  Util.iter_lines (fun l ->
      match Util.split_ws l with
      | [] -> "c1 | live=0"
      | f :: toks ->
          let fail = if f = "f-" then None else Some (n_of_int (int_of_string (String.sub f 1 (String.length f - 1)))) in
          let ops = List.map parse_op toks in
          let tr = bump_run debug fail ops in
          let c = bump_consistent debug fail ops in
          let live =
            match List.rev tr with
            | [] -> 0
            | (_, s') :: _ -> List.length (bump_live s')
          in
          String.concat " " (("c" ^ b2s c) :: List.map show_entry tr) ^ Printf.sprintf " | live=%d" live)
