(* Driver for the extracted model of crates/core/src/abi.rs (Abi_model).
   mode "gen":  input line  <label>\x1d<sig s-expr>   ->  the model's event dump in absdump's grammar, or "ERR <site>"
   (labels exactly as harness/crates/absdump prints them). *)
open Abi_model

(* ---------- numbers ---------- *)
let rec nat_of_int i = if i <= 0 then O else S (nat_of_int (i - 1))
let rec int_of_nat = function O -> 0 | S k -> 1 + int_of_nat k
let rec pos_of_int i = if i = 1 then XH else if i land 1 = 0 then XO (pos_of_int (i lsr 1)) else XI (pos_of_int (i lsr 1))
let n_of_int i = if i = 0 then N0 else Npos (pos_of_int i)
let rec int_of_pos = function XH -> 1 | XO p -> 2 * int_of_pos p | XI p -> 2 * int_of_pos p + 1
let int_of_n = function N0 -> 0 | Npos p -> int_of_pos p
let int_of_z = function Z0 -> 0 | Zpos p -> int_of_pos p | Zneg p -> - (int_of_pos p)

(* ---------- s-expressions ---------- *)
type sx = A of string | L of sx list
let parse_sx (s : string) : sx =
  let n = String.length s in
  let pos = ref 0 in
  let rec skip () = if !pos < n && s.[!pos] = ' ' then (incr pos; skip ()) in
  let rec one () =
    skip ();
    if !pos >= n then failwith "sx: eof"
    else if s.[!pos] = '(' then begin
      incr pos;
      let items = ref [] in
      let rec loop () =
        skip ();
        if !pos >= n then failwith "sx: unclosed"
        else if s.[!pos] = ')' then incr pos
        else (items := one () :: !items; loop ()) in
      loop (); L (List.rev !items)
    end else begin
      let st = !pos in
      while !pos < n && s.[!pos] <> ' ' && s.[!pos] <> '(' && s.[!pos] <> ')' do incr pos done;
      A (String.sub s st (!pos - st))
    end in
  one ()

let rec ty_of_sx (x : sx) : ty =
  match x with
  | A "bool" -> TBool | A "u8" -> TU8 | A "s8" -> TS8 | A "u16" -> TU16 | A "s16" -> TS16
  | A "u32" -> TU32 | A "s32" -> TS32 | A "u64" -> TU64 | A "s64" -> TS64 | A "f32" -> TF32 | A "f64" -> TF64
  | A "char" -> TChar | A "string" -> TString | A "errctx" -> TErrCtx | A "own" -> TOwn | A "borrow" -> TBorrow
  | L [A "list"; t] -> TList (ty_of_sx t)
  | L [A "fixed"; t; A n] -> TFixed (ty_of_sx t, n_of_int (int_of_string n))
  | L [A "map"; k; v] -> TMap (ty_of_sx k, ty_of_sx v)
  | L (A "record" :: ts) -> TRecord (List.map ty_of_sx ts)
  | L (A "tuple" :: ts) -> TTuple (List.map ty_of_sx ts)
  | L (A "variant" :: cs) -> TVariant (List.map opt_of_sx cs)
  | L [A "enum"; A n] -> TEnum (n_of_int (int_of_string n))
  | L [A "option"; t] -> TOption (ty_of_sx t)
  | L [A "result"; a; b] -> TResult (opt_of_sx a, opt_of_sx b)
  | L [A "flags"; A n] -> TFlags (n_of_int (int_of_string n))
  | L [A "future"; p] -> TFuture (opt_of_sx p)
  | L [A "stream"; p] -> TStream (opt_of_sx p)
  | A s -> failwith ("unknown type atom " ^ s)
  | L _ -> failwith "unknown type form"
and opt_of_sx = function A "_" -> None | x -> Some (ty_of_sx x)

let func_of_sx (x : sx) : func =
  match x with
  | L [A "sig"; L (A "params" :: ps); L [A "result"; r]; L [A "method"; A m]] ->
      { f_params = List.map ty_of_sx ps; f_result = opt_of_sx r; f_method = (m = "1") }
  | _ -> failwith "bad sig"

(* ---------- printing (must agree with harness/crates/absdump/src/main.rs) ---------- *)
let rec show_ty (t : ty) : string =
  match t with
  | TBool -> "bool" | TU8 -> "u8" | TS8 -> "s8" | TU16 -> "u16" | TS16 -> "s16" | TU32 -> "u32" | TS32 -> "s32"
  | TU64 -> "u64" | TS64 -> "s64" | TF32 -> "f32" | TF64 -> "f64" | TChar -> "char" | TString -> "string"
  | TErrCtx -> "errctx" | TOwn -> "own" | TBorrow -> "borrow"
  | TList t -> "(list " ^ show_ty t ^ ")"
  | TFixed (t, n) -> Printf.sprintf "(fixed %s %d)" (show_ty t) (int_of_n n)
  | TMap (k, v) -> Printf.sprintf "(map %s %s)" (show_ty k) (show_ty v)
  | TRecord ts -> "(record" ^ show_tys ts ^ ")"
  | TTuple ts -> "(tuple" ^ show_tys ts ^ ")"
  | TVariant cs -> "(variant" ^ show_cases cs ^ ")"
  | TEnum n -> Printf.sprintf "(enum %d)" (int_of_n n)
  | TOption t -> "(option " ^ show_ty t ^ ")"
  | TResult (a, b) -> Printf.sprintf "(result %s %s)" (show_opt a) (show_opt b)
  | TFlags n -> Printf.sprintf "(flags %d)" (int_of_n n)
  | TFuture p -> "(future " ^ show_opt p ^ ")"
  | TStream p -> "(stream " ^ show_opt p ^ ")"
and show_opt = function Some t -> show_ty t | None -> "_"
and show_tys ts = String.concat "" (List.map (fun t -> " " ^ show_ty t) ts)
and show_cases cs = String.concat "" (List.map (fun t -> " " ^ show_opt t) cs)
let bracket_tys ts = "[" ^ String.concat " " (List.map show_ty ts) ^ "]"
let bracket_cases cs = "[" ^ String.concat " " (List.map show_opt cs) ^ "]"
let show_off (o : asize) = Printf.sprintf "%d+%d" (int_of_n o.a_bytes) (int_of_n o.a_ptrs)
let show_align = function APtr -> "ptr" | ABytes n -> string_of_int (int_of_n n)
let show_wt = function WI32 -> "i32" | WI64 -> "i64" | WF32 -> "f32" | WF64 -> "f64" | WPtr -> "ptr" | WPtr64 -> "ptr64" | WLen -> "len"
let show_wts ts = "[" ^ String.concat " " (List.map show_wt ts) ^ "]"
let rec show_cast = function
  | BNone -> "None" | BF32ToI32 -> "F32ToI32" | BF64ToI64 -> "F64ToI64" | BI32ToI64 -> "I32ToI64" | BF32ToI64 -> "F32ToI64"
  | BI32ToF32 -> "I32ToF32" | BI64ToF64 -> "I64ToF64" | BI64ToI32 -> "I64ToI32" | BI64ToF32 -> "I64ToF32"
  | BP64ToI64 -> "P64ToI64" | BI64ToP64 -> "I64ToP64" | BP64ToP -> "P64ToP" | BPToP64 -> "PToP64"
  | BI32ToP -> "I32ToP" | BPToI32 -> "PToI32" | BPToL -> "PToL" | BLToP -> "LToP"
  | BI32ToL -> "I32ToL" | BLToI32 -> "LToI32" | BI64ToL -> "I64ToL" | BLToI64 -> "LToI64"
  | BSeq (a, b) -> Printf.sprintf "(Seq %s %s)" (show_cast a) (show_cast b)
let b01 b = if b then "1" else "0"
let show_ld = function
  | LI32 -> "I32Load" | LI32_8U -> "I32Load8U" | LI32_8S -> "I32Load8S" | LI32_16U -> "I32Load16U" | LI32_16S -> "I32Load16S"
  | LI64 -> "I64Load" | LF32 -> "F32Load" | LF64 -> "F64Load" | LPtr -> "PointerLoad" | LLen -> "LengthLoad"
let show_st = function
  | SI32 -> "I32Store" | SI32_8 -> "I32Store8" | SI32_16 -> "I32Store16" | SI64 -> "I64Store" | SF32 -> "F32Store"
  | SF64 -> "F64Store" | SPtr -> "PointerStore" | SLen -> "LengthStore"
let show_scalar = function
  | I32FromChar -> "I32FromChar" | I64FromU64 -> "I64FromU64" | I64FromS64 -> "I64FromS64" | I32FromU32 -> "I32FromU32"
  | I32FromS32 -> "I32FromS32" | I32FromU16 -> "I32FromU16" | I32FromS16 -> "I32FromS16" | I32FromU8 -> "I32FromU8"
  | I32FromS8 -> "I32FromS8" | CoreF32FromF32 -> "CoreF32FromF32" | CoreF64FromF64 -> "CoreF64FromF64"
  | S8FromI32 -> "S8FromI32" | U8FromI32 -> "U8FromI32" | S16FromI32 -> "S16FromI32" | U16FromI32 -> "U16FromI32"
  | S32FromI32 -> "S32FromI32" | U32FromI32 -> "U32FromI32" | S64FromI64 -> "S64FromI64" | U64FromI64 -> "U64FromI64"
  | CharFromI32 -> "CharFromI32" | F32FromCoreF32 -> "F32FromCoreF32" | F64FromCoreF64 -> "F64FromCoreF64"
  | BoolFromI32 -> "BoolFromI32" | I32FromBool -> "I32FromBool"
let own s = if s then "own" else "borrow"
let show_instr (i : instr) : string =
  match i with
  | GetArg n -> Printf.sprintf "GetArg %d" (int_of_nat n)
  | I32Const v -> Printf.sprintf "I32Const %d" (int_of_z v)
  | Bitcasts cs -> "Bitcasts [" ^ String.concat " " (List.map show_cast cs) ^ "]"
  | ConstZero tys -> "ConstZero " ^ show_wts tys
  | Load (op, o) -> show_ld op ^ " " ^ show_off o
  | Store (op, o) -> show_st op ^ " " ^ show_off o
  | Scalar op -> show_scalar op
  | ListCanonLower (t, r) -> Printf.sprintf "ListCanonLower %s %s" (show_ty t) (b01 r)
  | StringLower r -> "StringLower " ^ b01 r
  | ListLower (t, r) -> Printf.sprintf "ListLower %s %s" (show_ty t) (b01 r)
  | ListCanonLift t -> "ListCanonLift " ^ show_ty t
  | StringLift -> "StringLift"
  | ListLift t -> "ListLift " ^ show_ty t
  | MapLower (k, v, r) -> Printf.sprintf "MapLower %s %s %s" (show_ty k) (show_ty v) (b01 r)
  | MapLift (k, v) -> Printf.sprintf "MapLift %s %s" (show_ty k) (show_ty v)
  | FixedLift (t, n) -> Printf.sprintf "FixedLengthListLift %s %d" (show_ty t) (int_of_n n)
  | FixedLower (t, n) -> Printf.sprintf "FixedLengthListLower %s %d" (show_ty t) (int_of_n n)
  | FixedLowerToMemory (t, n) -> Printf.sprintf "FixedLengthListLowerToMemory %s %d" (show_ty t) (int_of_n n)
  | FixedLiftFromMemory (t, n) -> Printf.sprintf "FixedLengthListLiftFromMemory %s %d" (show_ty t) (int_of_n n)
  | IterElem t -> "IterElem " ^ show_ty t
  | IterMapKey t -> "IterMapKey " ^ show_ty t
  | IterMapValue t -> "IterMapValue " ^ show_ty t
  | IterBasePointer -> "IterBasePointer"
  | RecordLower ts -> "RecordLower " ^ bracket_tys ts
  | RecordLift ts -> "RecordLift " ^ bracket_tys ts
  | HandleLower o -> "HandleLower " ^ own o
  | HandleLift o -> "HandleLift " ^ own o
  | FutureLower p -> "FutureLower " ^ show_opt p
  | FutureLift p -> "FutureLift " ^ show_opt p
  | StreamLower p -> "StreamLower " ^ show_opt p
  | StreamLift p -> "StreamLift " ^ show_opt p
  | ErrorContextLower -> "ErrorContextLower"
  | ErrorContextLift -> "ErrorContextLift"
  | TupleLower ts -> "TupleLower " ^ bracket_tys ts
  | TupleLift ts -> "TupleLift " ^ bracket_tys ts
  | FlagsLower n -> Printf.sprintf "FlagsLower %d" (int_of_n n)
  | FlagsLift n -> Printf.sprintf "FlagsLift %d" (int_of_n n)
  | VariantPayloadName -> "VariantPayloadName"
  | VariantLower (cs, rs) -> Printf.sprintf "VariantLower %s %s" (bracket_cases cs) (show_wts rs)
  | VariantLift cs -> "VariantLift " ^ bracket_cases cs
  | EnumLower n -> Printf.sprintf "EnumLower %d" (int_of_n n)
  | EnumLift n -> Printf.sprintf "EnumLift %d" (int_of_n n)
  | OptionLower (t, rs) -> Printf.sprintf "OptionLower %s %s" (show_ty t) (show_wts rs)
  | OptionLift t -> "OptionLift " ^ show_ty t
  | ResultLower (a, b, rs) -> Printf.sprintf "ResultLower %s %s %s" (show_opt a) (show_opt b) (show_wts rs)
  | ResultLift (a, b) -> Printf.sprintf "ResultLift %s %s" (show_opt a) (show_opt b)
  | CallWasm s -> Printf.sprintf "CallWasm %s %s %s %s" (show_wts s.s_params) (show_wts s.s_results) (b01 s.s_indirect) (b01 s.s_retptr)
  | CallInterface (n, r, a) -> Printf.sprintf "CallInterface %d %s %s" (int_of_nat n) (b01 r) (b01 a)
  | Return n -> Printf.sprintf "Return %d" (int_of_nat n)
  | Malloc (s, a) -> Printf.sprintf "Malloc %s %s" (show_off s) (show_align a)
  | GuestDeallocate (s, a) -> Printf.sprintf "GuestDeallocate %s %s" (show_off s) (show_align a)
  | GuestDeallocateString -> "GuestDeallocateString"
  | GuestDeallocateList t -> "GuestDeallocateList " ^ show_ty t
  | GuestDeallocateMap (k, v) -> Printf.sprintf "GuestDeallocateMap %s %s" (show_ty k) (show_ty v)
  | GuestDeallocateVariant n -> Printf.sprintf "GuestDeallocateVariant %d" (int_of_nat n)
  | DropHandle t -> "DropHandle " ^ show_ty t
  | AsyncTaskReturn ps -> "AsyncTaskReturn " ^ show_wts ps
  | Flush n -> Printf.sprintf "Flush %d" (int_of_nat n)
let ids l = String.concat " " (List.map (fun x -> string_of_int (int_of_nat x)) l)
let show_event = function
  | EEmit (i, ops, rs) -> Printf.sprintf "e %s : %s -> %s" (show_instr i) (ids ops) (ids rs)
  | EPushBlock -> "pb"
  | EFinishBlock ops -> "fb " ^ ids ops
  | ERetPtr (s, a, id) -> Printf.sprintf "rp %s %s %d" (show_off s) (show_align a) (int_of_nat id)
let show_site = function
  | SStackUnderflow -> "StackUnderflow" | SReallocUnset -> "ReallocUnset" | SReallocSet -> "ReallocSet"
  | SFlatUnwrap -> "FlatUnwrap" | SCastUnreachable -> "CastUnreachable" | STodoAsyncImportIndirect -> "TodoAsyncImportIndirect"
  | STodoAsyncExportIndirect -> "TodoAsyncExportIndirect" | STodoStackful -> "TodoStackful"
  | SUnreachableRetptrAsync -> "UnreachableRetptrAsync" | SUnreachableLowerNoRetptr -> "UnreachableLowerNoRetptr"
  | SUnreachableAsyncImportNoReturn -> "UnreachableAsyncImportNoReturn" | SPanicFlatParam -> "PanicFlatParam"
  | SAssertStackParams -> "AssertStackParams" | SAssertResultsEmpty -> "AssertResultsEmpty"
  | SAssertStackEmpty -> "AssertStackEmpty" | SAssertRetptr -> "AssertRetptr" | SAssertOperands -> "AssertOperands"
  | STodoFixedDealloc -> "TodoFixedDealloc" | SUnreachableDealloc -> "UnreachableDealloc" | SSigPanic -> "SigPanic"
  | SRetptrUnwrap -> "RetptrUnwrap"

(* ---------- running the model ---------- *)
let canon_rule (c : string) : ty -> bool =
  if c = "0" then (fun _ -> false)
  else (fun t -> match t with TU8 | TS8 | TU16 | TS16 | TU32 | TS32 | TU64 | TS64 | TF32 | TF64 -> true | _ -> false)

(* what absdump prints after "ret": call -> nothing; lower_flat -> the final stack (bottom first);
   lift_from_memory -> the popped top *)
let finish (r : unit res) (ret_mode : [ `None | `Stack | `Top ]) : string =
  match r with
  | Err s -> "ERR " ^ show_site s
  | Ok ((), st) ->
      let evs = List.rev_map show_event st.evs in
      let ret = match ret_mode with
        | `None -> ""
        | `Stack -> ids (List.rev st.stack)
        | `Top -> (match st.stack with x :: _ -> ids [x] | [] -> "UNDERFLOW") in
      String.concat " ; " (evs @ ["ret " ^ ret])

let variant_of = function
  | "GuestImport" -> GuestImport | "GuestExport" -> GuestExport | "GuestImportAsync" -> GuestImportAsync
  | "GuestExportAsync" -> GuestExportAsync | "GuestExportAsyncStackful" -> GuestExportAsyncStackful
  | s -> failwith ("variant " ^ s)

let nth_type (fn : func) (k : int) : ty =
  let all = fn.f_params @ (match fn.f_result with Some t -> [t] | None -> []) in
  List.nth all k

let flat_len t = match flat_types t (nat_of_int 16) with Some l -> Some (List.length l) | None -> None

let run_label (label : string) (fn : func) : string =
  match String.split_on_char '.' label with
  | ["call"; v; ll; a; c] ->
      let ll = if ll = "LiftLower" then LiftArgsLowerResults else LowerArgsLiftResults in
      finish (call (canon_rule c) fn (variant_of v) ll (a = "1") gst0) `None
  | ["lower_flat"; k; c] -> finish (lower_flat0 (canon_rule c) (nth_type fn (int_of_string k)) gst0) `Stack
  | ["lower_to_memory"; k; c] -> finish (lower_to_memory (canon_rule c) (nth_type fn (int_of_string k)) gst0) `None
  | ["lift_from_memory"; k; c] -> finish (lift_from_memory (canon_rule c) (nth_type fn (int_of_string k)) gst0) `Top
  | ["post_return"; _] -> finish (post_return fn gst0) `None
  | ["dealloc"; w; mode; _] ->
      let w = if w = "own" then DListsAndOwn else DLists in
      let indirect = (mode = "indirect") in
      let n = if indirect then 1
        else List.fold_left (fun acc t -> acc + (match flat_len t with Some k -> k | None -> 0)) 0 fn.f_params in
      let m = bind (fresh (nat_of_int n)) (fun ops -> deallocate_in_types w fn.f_params ops indirect) in
      finish (m gst0) `None
  | ["facts"] ->
      Printf.sprintf "post_return=%s params_alloc=%s" (b01 (guest_export_needs_post_return fn))
        (b01 (guest_export_params_have_allocations fn))
  | _ -> failwith ("label " ^ label)

let () =
  Util.iter_lines (fun l ->
      match String.index_opt l '\x1d' with
      | None -> "BAD-INPUT"
      | Some i ->
          let label = String.sub l 0 i in
          let sx = String.sub l (i + 1) (String.length l - i - 1) in
          match String.split_on_char '.' label with
          | ["cast"; a; b] ->
              let wt_of = function "i32" -> WI32 | "i64" -> WI64 | "f32" -> WF32 | "f64" -> WF64 | "ptr" -> WPtr
                                   | "ptr64" -> WPtr64 | "len" -> WLen | s -> failwith s in
              (match cast (wt_of a) (wt_of b) with Some c -> show_cast c | None -> "PANIC")
          | ["join"; a; b] ->
              let wt_of = function "i32" -> WI32 | "i64" -> WI64 | "f32" -> WF32 | "f64" -> WF64 | "ptr" -> WPtr
                                   | "ptr64" -> WPtr64 | "len" -> WLen | s -> failwith s in
              show_wt (wjoin (wt_of a) (wt_of b))
          | _ -> run_label label (func_of_sx (parse_sx sx)))
