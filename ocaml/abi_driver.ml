(* Driver for the extracted model of crates/core/src/abi.rs (Abi_model).
   mode "gen":  input line  <label>\x1d<sig s-expr>   ->  the model's event dump in absdump's grammar, or "ERR <site>"
   (labels exactly as harness/crates/absdump prints them). *)
open Abi_model

(* ---------- numbers ---------- *)
let rec nat_of_int i = if i <= 0 then O else S (nat_of_int (i - 1))
let rec int_of_nat = function O -> 0 | S k -> 1 + int_of_nat k
let rec pos_of_int i = if i = 1 then XH else if i land 1 = 0 then XO (pos_of_int (i lsr 1)) else XI (pos_of_int (i lsr 1))
let n_of_int i = if i = 0 then N0 else Npos (pos_of_int i)
let rec int_of_pos = function XH -> 1 | XO p -> 2 * int_of_pos p | XI p -> 2 * int_of_pos p + 1
let int_of_n = function N0 -> 0 | Npos p -> int_of_pos p
let int_of_z = function Z0 -> 0 | Zpos p -> int_of_pos p | Zneg p -> - (int_of_pos p)

(* ---------- s-expressions ---------- *)
type sx = A of string | L of sx list
let parse_sx (s : string) : sx =
  let n = String.length s in
  let pos = ref 0 in
  let rec skip () = if !pos < n && s.[!pos] = ' ' then (incr pos; skip ()) in
  let rec one () =
    skip ();
    if !pos >= n then failwith "sx: eof"
    else if s.[!pos] = '(' then begin
      incr pos;
      let items = ref [] in
      let rec loop () =
        skip ();
        if !pos >= n then failwith "sx: unclosed"
        else if s.[!pos] = ')' then incr pos
        else (items := one () :: !items; loop ()) in
      loop (); L (List.rev !items)
    end else begin
      let st = !pos in
      while !pos < n && s.[!pos] <> ' ' && s.[!pos] <> '(' && s.[!pos] <> ')' do incr pos done;
      A (String.sub s st (!pos - st))
    end in
  one ()

let rec ty_of_sx (x : sx) : ty =
  match x with
  | A "bool" -> TBool | A "u8" -> TU8 | A "s8" -> TS8 | A "u16" -> TU16 | A "s16" -> TS16
  | A "u32" -> TU32 | A "s32" -> TS32 | A "u64" -> TU64 | A "s64" -> TS64 | A "f32" -> TF32 | A "f64" -> TF64
  | A "char" -> TChar | A "string" -> TString | A "errctx" -> TErrCtx | A "own" -> TOwn | A "borrow" -> TBorrow
  | L [A "list"; t] -> TList (ty_of_sx t)
  | L [A "fixed"; t; A n] -> TFixed (ty_of_sx t, n_of_int (int_of_string n))
  | L [A "map"; k; v] -> TMap (ty_of_sx k, ty_of_sx v)
  | L (A "record" :: ts) -> TRecord (List.map ty_of_sx ts)
  | L (A "tuple" :: ts) -> TTuple (List.map ty_of_sx ts)
  | L (A "variant" :: cs) -> TVariant (List.map opt_of_sx cs)
  | L [A "enum"; A n] -> TEnum (n_of_int (int_of_string n))
  | L [A "option"; t] -> TOption (ty_of_sx t)
  | L [A "result"; a; b] -> TResult (opt_of_sx a, opt_of_sx b)
  | L [A "flags"; A n] -> TFlags (n_of_int (int_of_string n))
  | L [A "future"; p] -> TFuture (opt_of_sx p)
  | L [A "stream"; p] -> TStream (opt_of_sx p)
  | A s -> failwith ("unknown type atom " ^ s)
  | L _ -> failwith "unknown type form"
and opt_of_sx = function A "_" -> None | x -> Some (ty_of_sx x)

let func_of_sx (x : sx) : func =
  match x with
  | L [A "sig"; L (A "params" :: ps); L [A "result"; r]; L [A "method"; A m]] ->
      { f_params = List.map ty_of_sx ps; f_result = opt_of_sx r; f_method = (m = "1") }
  | _ -> failwith "bad sig"

(* ---------- printing (must agree with harness/crates/absdump/src/main.rs) ---------- *)
let rec show_ty (t : ty) : string =
  match t with
  | TBool -> "bool" | TU8 -> "u8" | TS8 -> "s8" | TU16 -> "u16" | TS16 -> "s16" | TU32 -> "u32" | TS32 -> "s32"
  | TU64 -> "u64" | TS64 -> "s64" | TF32 -> "f32" | TF64 -> "f64" | TChar -> "char" | TString -> "string"
  | TErrCtx -> "errctx" | TOwn -> "own" | TBorrow -> "borrow"
  | TList t -> "(list " ^ show_ty t ^ ")"
  | TFixed (t, n) -> Printf.sprintf "(fixed %s %d)" (show_ty t) (int_of_n n)
  | TMap (k, v) -> Printf.sprintf "(map %s %s)" (show_ty k) (show_ty v)
  | TRecord ts -> "(record" ^ show_tys ts ^ ")"
  | TTuple ts -> "(tuple" ^ show_tys ts ^ ")"
  | TVariant cs -> "(variant" ^ show_cases cs ^ ")"
  | TEnum n -> Printf.sprintf "(enum %d)" (int_of_n n)
  | TOption t -> "(option " ^ show_ty t ^ ")"
  | TResult (a, b) -> Printf.sprintf "(result %s %s)" (show_opt a) (show_opt b)
  | TFlags n -> Printf.sprintf "(flags %d)" (int_of_n n)
  | TFuture p -> "(future " ^ show_opt p ^ ")"
  | TStream p -> "(stream " ^ show_opt p ^ ")"
and show_opt = function Some t -> show_ty t | None -> "_"
and show_tys ts = String.concat "" (List.map (fun t -> " " ^ show_ty t) ts)
and show_cases cs = String.concat "" (List.map (fun t -> " " ^ show_opt t) cs)
let bracket_tys ts = "[" ^ String.concat " " (List.map show_ty ts) ^ "]"
let bracket_cases cs = "[" ^ String.concat " " (List.map show_opt cs) ^ "]"
let show_off (o : asize) = Printf.sprintf "%d+%d" (int_of_n o.a_bytes) (int_of_n o.a_ptrs)
let show_align = function APtr -> "ptr" | ABytes n -> string_of_int (int_of_n n)
let show_wt = function WI32 -> "i32" | WI64 -> "i64" | WF32 -> "f32" | WF64 -> "f64" | WPtr -> "ptr" | WPtr64 -> "ptr64" | WLen -> "len"
let show_wts ts = "[" ^ String.concat " " (List.map show_wt ts) ^ "]"
let rec show_cast = function
  | BNone -> "None" | BF32ToI32 -> "F32ToI32" | BF64ToI64 -> "F64ToI64" | BI32ToI64 -> "I32ToI64" | BF32ToI64 -> "F32ToI64"
  | BI32ToF32 -> "I32ToF32" | BI64ToF64 -> "I64ToF64" | BI64ToI32 -> "I64ToI32" | BI64ToF32 -> "I64ToF32"
  | BP64ToI64 -> "P64ToI64" | BI64ToP64 -> "I64ToP64" | BP64ToP -> "P64ToP" | BPToP64 -> "PToP64"
  | BI32ToP -> "I32ToP" | BPToI32 -> "PToI32" | BPToL -> "PToL" | BLToP -> "LToP"
  | BI32ToL -> "I32ToL" | BLToI32 -> "LToI32" | BI64ToL -> "I64ToL" | BLToI64 -> "LToI64"
  | BSeq (a, b) -> Printf.sprintf "(Seq %s %s)" (show_cast a) (show_cast b)
let b01 b = if b then "1" else "0"
let show_ld = function
  | LI32 -> "I32Load" | LI32_8U -> "I32Load8U" | LI32_8S -> "I32Load8S" | LI32_16U -> "I32Load16U" | LI32_16S -> "I32Load16S"
  | LI64 -> "I64Load" | LF32 -> "F32Load" | LF64 -> "F64Load" | LPtr -> "PointerLoad" | LLen -> "LengthLoad"
let show_st = function
  | SI32 -> "I32Store" | SI32_8 -> "I32Store8" | SI32_16 -> "I32Store16" | SI64 -> "I64Store" | SF32 -> "F32Store"
  | SF64 -> "F64Store" | SPtr -> "PointerStore" | SLen -> "LengthStore"
let show_scalar = function
  | I32FromChar -> "I32FromChar" | I64FromU64 -> "I64FromU64" | I64FromS64 -> "I64FromS64" | I32FromU32 -> "I32FromU32"
  | I32FromS32 -> "I32FromS32" | I32FromU16 -> "I32FromU16" | I32FromS16 -> "I32FromS16" | I32FromU8 -> "I32FromU8"
  | I32FromS8 -> "I32FromS8" | CoreF32FromF32 -> "CoreF32FromF32" | CoreF64FromF64 -> "CoreF64FromF64"
  | S8FromI32 -> "S8FromI32" | U8FromI32 -> "U8FromI32" | S16FromI32 -> "S16FromI32" | U16FromI32 -> "U16FromI32"
  | S32FromI32 -> "S32FromI32" | U32FromI32 -> "U32FromI32" | S64FromI64 -> "S64FromI64" | U64FromI64 -> "U64FromI64"
  | CharFromI32 -> "CharFromI32" | F32FromCoreF32 -> "F32FromCoreF32" | F64FromCoreF64 -> "F64FromCoreF64"
  | BoolFromI32 -> "BoolFromI32" | I32FromBool -> "I32FromBool"
let own s = if s then "own" else "borrow"
let show_instr (i : instr) : string =
  match i with
  | GetArg n -> Printf.sprintf "GetArg %d" (int_of_nat n)
  | I32Const v -> Printf.sprintf "I32Const %d" (int_of_z v)
  | Bitcasts cs -> "Bitcasts [" ^ String.concat " " (List.map show_cast cs) ^ "]"
  | ConstZero tys -> "ConstZero " ^ show_wts tys
  | Load (op, o) -> show_ld op ^ " " ^ show_off o
  | Store (op, o) -> show_st op ^ " " ^ show_off o
  | Scalar op -> show_scalar op
  | ListCanonLower (t, r) -> Printf.sprintf "ListCanonLower %s %s" (show_ty t) (b01 r)
  | StringLower r -> "StringLower " ^ b01 r
  | ListLower (t, r) -> Printf.sprintf "ListLower %s %s" (show_ty t) (b01 r)
  | ListCanonLift t -> "ListCanonLift " ^ show_ty t
  | StringLift -> "StringLift"
  | ListLift t -> "ListLift " ^ show_ty t
  | MapLower (k, v, r) -> Printf.sprintf "MapLower %s %s %s" (show_ty k) (show_ty v) (b01 r)
  | MapLift (k, v) -> Printf.sprintf "MapLift %s %s" (show_ty k) (show_ty v)
  | FixedLift (t, n) -> Printf.sprintf "FixedLengthListLift %s %d" (show_ty t) (int_of_n n)
  | FixedLower (t, n) -> Printf.sprintf "FixedLengthListLower %s %d" (show_ty t) (int_of_n n)
  | FixedLowerToMemory (t, n) -> Printf.sprintf "FixedLengthListLowerToMemory %s %d" (show_ty t) (int_of_n n)
  | FixedLiftFromMemory (t, n) -> Printf.sprintf "FixedLengthListLiftFromMemory %s %d" (show_ty t) (int_of_n n)
  | IterElem t -> "IterElem " ^ show_ty t
  | IterMapKey t -> "IterMapKey " ^ show_ty t
  | IterMapValue t -> "IterMapValue " ^ show_ty t
  | IterBasePointer -> "IterBasePointer"
  | RecordLower ts -> "RecordLower " ^ bracket_tys ts
  | RecordLift ts -> "RecordLift " ^ bracket_tys ts
  | HandleLower o -> "HandleLower " ^ own o
  | HandleLift o -> "HandleLift " ^ own o
  | FutureLower p -> "FutureLower " ^ show_opt p
  | FutureLift p -> "FutureLift " ^ show_opt p
  | StreamLower p -> "StreamLower " ^ show_opt p
  | StreamLift p -> "StreamLift " ^ show_opt p
  | ErrorContextLower -> "ErrorContextLower"
  | ErrorContextLift -> "ErrorContextLift"
  | TupleLower ts -> "TupleLower " ^ bracket_tys ts
  | TupleLift ts -> "TupleLift " ^ bracket_tys ts
  | FlagsLower n -> Printf.sprintf "FlagsLower %d" (int_of_n n)
  | FlagsLift n -> Printf.sprintf "FlagsLift %d" (int_of_n n)
  | VariantPayloadName -> "VariantPayloadName"
  | VariantLower (cs, rs) -> Printf.sprintf "VariantLower %s %s" (bracket_cases cs) (show_wts rs)
  | VariantLift cs -> "VariantLift " ^ bracket_cases cs
  | EnumLower n -> Printf.sprintf "EnumLower %d" (int_of_n n)
  | EnumLift n -> Printf.sprintf "EnumLift %d" (int_of_n n)
  | OptionLower (t, rs) -> Printf.sprintf "OptionLower %s %s" (show_ty t) (show_wts rs)
  | OptionLift t -> "OptionLift " ^ show_ty t
  | ResultLower (a, b, rs) -> Printf.sprintf "ResultLower %s %s %s" (show_opt a) (show_opt b) (show_wts rs)
  | ResultLift (a, b) -> Printf.sprintf "ResultLift %s %s" (show_opt a) (show_opt b)
  | CallWasm s -> Printf.sprintf "CallWasm %s %s %s %s" (show_wts s.s_params) (show_wts s.s_results) (b01 s.s_indirect) (b01 s.s_retptr)
  | CallInterface (n, r, a) -> Printf.sprintf "CallInterface %d %s %s" (int_of_nat n) (b01 r) (b01 a)
  | Return n -> Printf.sprintf "Return %d" (int_of_nat n)
  | Malloc (s, a) -> Printf.sprintf "Malloc %s %s" (show_off s) (show_align a)
  | GuestDeallocate (s, a) -> Printf.sprintf "GuestDeallocate %s %s" (show_off s) (show_align a)
  | GuestDeallocateString -> "GuestDeallocateString"
  | GuestDeallocateList t -> "GuestDeallocateList " ^ show_ty t
  | GuestDeallocateMap (k, v) -> Printf.sprintf "GuestDeallocateMap %s %s" (show_ty k) (show_ty v)
  | GuestDeallocateVariant n -> Printf.sprintf "GuestDeallocateVariant %d" (int_of_nat n)
  | DropHandle t -> "DropHandle " ^ show_ty t
  | AsyncTaskReturn ps -> "AsyncTaskReturn " ^ show_wts ps
  | Flush n -> Printf.sprintf "Flush %d" (int_of_nat n)
let ids l = String.concat " " (List.map (fun x -> string_of_int (int_of_nat x)) l)
let show_event = function
  | EEmit (i, ops, rs) -> Printf.sprintf "e %s : %s -> %s" (show_instr i) (ids ops) (ids rs)
  | EPushBlock -> "pb"
  | EFinishBlock ops -> "fb " ^ ids ops
  | ERetPtr (s, a, id) -> Printf.sprintf "rp %s %s %d" (show_off s) (show_align a) (int_of_nat id)
let show_site = function
  | SStackUnderflow -> "StackUnderflow" | SReallocUnset -> "ReallocUnset" | SReallocSet -> "ReallocSet"
  | SFlatUnwrap -> "FlatUnwrap" | SCastUnreachable -> "CastUnreachable" | STodoAsyncImportIndirect -> "TodoAsyncImportIndirect"
  | STodoAsyncExportIndirect -> "TodoAsyncExportIndirect" | STodoStackful -> "TodoStackful"
  | SUnreachableRetptrAsync -> "UnreachableRetptrAsync" | SUnreachableLowerNoRetptr -> "UnreachableLowerNoRetptr"
  | SUnreachableAsyncImportNoReturn -> "UnreachableAsyncImportNoReturn" | SPanicFlatParam -> "PanicFlatParam"
  | SAssertStackParams -> "AssertStackParams" | SAssertResultsEmpty -> "AssertResultsEmpty"
  | SAssertStackEmpty -> "AssertStackEmpty" | SAssertRetptr -> "AssertRetptr" | SAssertOperands -> "AssertOperands"
  | STodoFixedDealloc -> "TodoFixedDealloc" | SUnreachableDealloc -> "UnreachableDealloc" | SSigPanic -> "SigPanic"
  | SRetptrUnwrap -> "RetptrUnwrap"

(* ---------- running the model ---------- *)
let canon_rule (c : string) : ty -> bool =
  if c = "0" then (fun _ -> false)
  else (fun t -> match t with TU8 | TS8 | TU16 | TS16 | TU32 | TS32 | TU64 | TS64 | TF32 | TF64 -> true | _ -> false)

(* what absdump prints after "ret": call -> nothing; lower_flat -> the final stack (bottom first);
   lift_from_memory -> the popped top *)
let finish (r : unit res) (ret_mode : [ `None | `Stack | `Top ]) : string =
  match r with
  | Err s -> "ERR " ^ show_site s
  | Ok ((), st) ->
      let evs = List.rev_map show_event st.evs in
      let ret = match ret_mode with
        | `None -> ""
        | `Stack -> ids (List.rev st.stack)
        | `Top -> (match st.stack with x :: _ -> ids [x] | [] -> "UNDERFLOW") in
      String.concat " ; " (evs @ ["ret " ^ ret])

let variant_of = function
  | "GuestImport" -> GuestImport | "GuestExport" -> GuestExport | "GuestImportAsync" -> GuestImportAsync
  | "GuestExportAsync" -> GuestExportAsync | "GuestExportAsyncStackful" -> GuestExportAsyncStackful
  | s -> failwith ("variant " ^ s)

let nth_type (fn : func) (k : int) : ty =
  let all = fn.f_params @ (match fn.f_result with Some t -> [t] | None -> []) in
  List.nth all k

let flat_len t = match flat_types t (nat_of_int 16) with Some l -> Some (List.length l) | None -> None

let run_label (label : string) (fn : func) : string =
  match String.split_on_char '.' label with
  | ["call"; v; ll; a; c] ->
      let ll = if ll = "LiftLower" then LiftArgsLowerResults else LowerArgsLiftResults in
      finish (call (canon_rule c) fn (variant_of v) ll (a = "1") gst0) `None
  | ["lower_flat"; k; c] -> finish (lower_flat0 (canon_rule c) (nth_type fn (int_of_string k)) gst0) `Stack
  | ["lower_to_memory"; k; c] -> finish (lower_to_memory (canon_rule c) (nth_type fn (int_of_string k)) gst0) `None
  | ["lift_from_memory"; k; c] -> finish (lift_from_memory (canon_rule c) (nth_type fn (int_of_string k)) gst0) `Top
  | ["post_return"; _] -> finish (post_return fn gst0) `None
  | ["dealloc"; w; mode; _] ->
      let w = if w = "own" then DListsAndOwn else DLists in
      let indirect = (mode = "indirect") in
      let n = if indirect then 1
        else List.fold_left (fun acc t -> acc + (match flat_len t with Some k -> k | None -> 0)) 0 fn.f_params in
      let m = bind (fresh (nat_of_int n)) (fun ops -> deallocate_in_types w fn.f_params ops indirect) in
      finish (m gst0) `None
  | ["facts"] ->
      Printf.sprintf "post_return=%s params_alloc=%s" (b01 (guest_export_needs_post_return fn))
        (b01 (guest_export_params_have_allocations fn))
  | _ -> failwith ("label " ^ label)


(* ---------- parsing a dump back into events (inverse of the printers above) ---------- *)
let sx_of_fields (s : string) : sx list =
  let b = Bytes.of_string s in
  Bytes.iteri (fun i c -> if c = '[' then Bytes.set b i '(' else if c = ']' then Bytes.set b i ')') b;
  match parse_sx ("(" ^ Bytes.to_string b ^ ")") with L l -> l | A _ -> []
let off_of_atom (a : string) : asize =
  match String.split_on_char '+' a with
  | [b; p] -> { a_bytes = n_of_int (int_of_string b); a_ptrs = n_of_int (int_of_string p) }
  | _ -> failwith ("offset " ^ a)
let align_of_atom a = if a = "ptr" then APtr else ABytes (n_of_int (int_of_string a))
let wt_of_atom = function
  | "i32" -> WI32 | "i64" -> WI64 | "f32" -> WF32 | "f64" -> WF64 | "ptr" -> WPtr | "ptr64" -> WPtr64 | "len" -> WLen
  | s -> failwith ("wt " ^ s)
let wts_of_sx = function L l -> List.map (function A a -> wt_of_atom a | _ -> failwith "wt") l | A _ -> failwith "wts"
let rec cast_of_sx = function
  | A "None" -> BNone | A "F32ToI32" -> BF32ToI32 | A "F64ToI64" -> BF64ToI64 | A "I32ToI64" -> BI32ToI64
  | A "F32ToI64" -> BF32ToI64 | A "I32ToF32" -> BI32ToF32 | A "I64ToF64" -> BI64ToF64 | A "I64ToI32" -> BI64ToI32
  | A "I64ToF32" -> BI64ToF32 | A "P64ToI64" -> BP64ToI64 | A "I64ToP64" -> BI64ToP64 | A "P64ToP" -> BP64ToP
  | A "PToP64" -> BPToP64 | A "I32ToP" -> BI32ToP | A "PToI32" -> BPToI32 | A "PToL" -> BPToL | A "LToP" -> BLToP
  | A "I32ToL" -> BI32ToL | A "LToI32" -> BLToI32 | A "I64ToL" -> BI64ToL | A "LToI64" -> BLToI64
  | L [A "Seq"; a; b] -> BSeq (cast_of_sx a, cast_of_sx b)
  | _ -> failwith "bitcast"
let tys_of_sx = function L l -> List.map ty_of_sx l | A _ -> failwith "tys"
let cases_of_sx = function L l -> List.map opt_of_sx l | A _ -> failwith "cases"
let ios = int_of_string
let z_of_int i = if i = 0 then Z0 else if i > 0 then Zpos (pos_of_int i) else Zneg (pos_of_int (-i))
let b_of = function A "1" -> true | _ -> false
let scalar_of_name = function
  | "I32FromChar" -> Some I32FromChar | "I64FromU64" -> Some I64FromU64 | "I64FromS64" -> Some I64FromS64
  | "I32FromU32" -> Some I32FromU32 | "I32FromS32" -> Some I32FromS32 | "I32FromU16" -> Some I32FromU16
  | "I32FromS16" -> Some I32FromS16 | "I32FromU8" -> Some I32FromU8 | "I32FromS8" -> Some I32FromS8
  | "CoreF32FromF32" -> Some CoreF32FromF32 | "CoreF64FromF64" -> Some CoreF64FromF64 | "S8FromI32" -> Some S8FromI32
  | "U8FromI32" -> Some U8FromI32 | "S16FromI32" -> Some S16FromI32 | "U16FromI32" -> Some U16FromI32
  | "S32FromI32" -> Some S32FromI32 | "U32FromI32" -> Some U32FromI32 | "S64FromI64" -> Some S64FromI64
  | "U64FromI64" -> Some U64FromI64 | "CharFromI32" -> Some CharFromI32 | "F32FromCoreF32" -> Some F32FromCoreF32
  | "F64FromCoreF64" -> Some F64FromCoreF64 | "BoolFromI32" -> Some BoolFromI32 | "I32FromBool" -> Some I32FromBool
  | _ -> None
let ld_of_name = function
  | "I32Load" -> Some LI32 | "I32Load8U" -> Some LI32_8U | "I32Load8S" -> Some LI32_8S | "I32Load16U" -> Some LI32_16U
  | "I32Load16S" -> Some LI32_16S | "I64Load" -> Some LI64 | "F32Load" -> Some LF32 | "F64Load" -> Some LF64
  | "PointerLoad" -> Some LPtr | "LengthLoad" -> Some LLen | _ -> None
let st_of_name = function
  | "I32Store" -> Some SI32 | "I32Store8" -> Some SI32_8 | "I32Store16" -> Some SI32_16 | "I64Store" -> Some SI64
  | "F32Store" -> Some SF32 | "F64Store" -> Some SF64 | "PointerStore" -> Some SPtr | "LengthStore" -> Some SLen | _ -> None
let instr_of (name : string) (f : sx list) : instr =
  match scalar_of_name name, ld_of_name name, st_of_name name with
  | Some op, _, _ -> Scalar op
  | _, Some op, _ -> (match f with [A o] -> Load (op, off_of_atom o) | _ -> failwith "load")
  | _, _, Some op -> (match f with [A o] -> Store (op, off_of_atom o) | _ -> failwith "store")
  | _ ->
  match name, f with
  | "GetArg", [A n] -> GetArg (nat_of_int (ios n))
  | "I32Const", [A v] -> I32Const (z_of_int (ios v))
  | "Bitcasts", [L cs] -> Bitcasts (List.map cast_of_sx cs)
  | "ConstZero", [l] -> ConstZero (wts_of_sx l)
  | "ListCanonLower", [t; r] -> ListCanonLower (ty_of_sx t, b_of r)
  | "StringLower", [r] -> StringLower (b_of r)
  | "ListLower", [t; r] -> ListLower (ty_of_sx t, b_of r)
  | "ListCanonLift", [t] -> ListCanonLift (ty_of_sx t)
  | "StringLift", [] -> StringLift
  | "ListLift", [t] -> ListLift (ty_of_sx t)
  | "MapLower", [k; v; r] -> MapLower (ty_of_sx k, ty_of_sx v, b_of r)
  | "MapLift", [k; v] -> MapLift (ty_of_sx k, ty_of_sx v)
  | "FixedLengthListLift", [t; A n] -> FixedLift (ty_of_sx t, n_of_int (ios n))
  | "FixedLengthListLower", [t; A n] -> FixedLower (ty_of_sx t, n_of_int (ios n))
  | "FixedLengthListLowerToMemory", [t; A n] -> FixedLowerToMemory (ty_of_sx t, n_of_int (ios n))
  | "FixedLengthListLiftFromMemory", [t; A n] -> FixedLiftFromMemory (ty_of_sx t, n_of_int (ios n))
  | "IterElem", [t] -> IterElem (ty_of_sx t)
  | "IterMapKey", [t] -> IterMapKey (ty_of_sx t)
  | "IterMapValue", [t] -> IterMapValue (ty_of_sx t)
  | "IterBasePointer", [] -> IterBasePointer
  | "RecordLower", [l] -> RecordLower (tys_of_sx l)
  | "RecordLift", [l] -> RecordLift (tys_of_sx l)
  | "HandleLower", [A o] -> HandleLower (o = "own")
  | "HandleLift", [A o] -> HandleLift (o = "own")
  | "FutureLower", [p] -> FutureLower (opt_of_sx p)
  | "FutureLift", [p] -> FutureLift (opt_of_sx p)
  | "StreamLower", [p] -> StreamLower (opt_of_sx p)
  | "StreamLift", [p] -> StreamLift (opt_of_sx p)
  | "ErrorContextLower", [] -> ErrorContextLower
  | "ErrorContextLift", [] -> ErrorContextLift
  | "TupleLower", [l] -> TupleLower (tys_of_sx l)
  | "TupleLift", [l] -> TupleLift (tys_of_sx l)
  | "FlagsLower", [A n] -> FlagsLower (n_of_int (ios n))
  | "FlagsLift", [A n] -> FlagsLift (n_of_int (ios n))
  | "VariantPayloadName", [] -> VariantPayloadName
  | "VariantLower", [cs; rs] -> VariantLower (cases_of_sx cs, wts_of_sx rs)
  | "VariantLift", [cs] -> VariantLift (cases_of_sx cs)
  | "EnumLower", [A n] -> EnumLower (n_of_int (ios n))
  | "EnumLift", [A n] -> EnumLift (n_of_int (ios n))
  | "OptionLower", [t; rs] -> OptionLower (ty_of_sx t, wts_of_sx rs)
  | "OptionLift", [t] -> OptionLift (ty_of_sx t)
  | "ResultLower", [a; b; rs] -> ResultLower (opt_of_sx a, opt_of_sx b, wts_of_sx rs)
  | "ResultLift", [a; b] -> ResultLift (opt_of_sx a, opt_of_sx b)
  | "CallWasm", [ps; rs; i; r] ->
      CallWasm { s_params = wts_of_sx ps; s_results = wts_of_sx rs; s_indirect = b_of i; s_retptr = b_of r }
  | "CallInterface", [A n; r; a] -> CallInterface (nat_of_int (ios n), b_of r, b_of a)
  | "Return", [A n] -> Return (nat_of_int (ios n))
  | "Malloc", [A s; A a] -> Malloc (off_of_atom s, align_of_atom a)
  | "GuestDeallocate", [A s; A a] -> GuestDeallocate (off_of_atom s, align_of_atom a)
  | "GuestDeallocateString", [] -> GuestDeallocateString
  | "GuestDeallocateList", [t] -> GuestDeallocateList (ty_of_sx t)
  | "GuestDeallocateMap", [k; v] -> GuestDeallocateMap (ty_of_sx k, ty_of_sx v)
  | "GuestDeallocateVariant", [A n] -> GuestDeallocateVariant (nat_of_int (ios n))
  | "DropHandle", [t] -> DropHandle (ty_of_sx t)
  | "AsyncTaskReturn", [ps] -> AsyncTaskReturn (wts_of_sx ps)
  | "Flush", [A n] -> Flush (nat_of_int (ios n))
  | _ -> failwith ("unknown instruction " ^ name)
let ids_of (s : string) : nat list = List.map (fun x -> nat_of_int (ios x)) (Util.split_ws s)
let split_on_str (sep : string) (s : string) : string list =
  let n = String.length sep in
  let rec go acc start i =
    if i + n > String.length s then List.rev (String.sub s start (String.length s - start) :: acc)
    else if String.sub s i n = sep then go (String.sub s start (i - start) :: acc) (i + n) (i + n)
    else go acc start (i + 1) in
  go [] 0 0
(* returns (events, ret ids) *)
let parse_dump (d : string) : event list * nat list =
  let parts = split_on_str " ; " d in
  let ret = ref [] in
  let evs = List.filter_map (fun p ->
      if p = "pb" then Some EPushBlock
      else if String.length p >= 2 && String.sub p 0 2 = "fb" then Some (EFinishBlock (ids_of (String.sub p 2 (String.length p - 2))))
      else if String.length p >= 3 && String.sub p 0 3 = "rp " then
        (match Util.split_ws p with
         | [_; s; a; id] -> Some (ERetPtr (off_of_atom s, align_of_atom a, nat_of_int (ios id)))
         | _ -> failwith "rp")
      else if String.length p >= 3 && String.sub p 0 3 = "ret" then (ret := ids_of (String.sub p 3 (String.length p - 3)); None)
      else if String.length p >= 2 && String.sub p 0 2 = "e " then begin
        match split_on_str " : " p with
        | [lhs; rhs] ->
            let lhs = String.sub lhs 2 (String.length lhs - 2) in
            let name, fields = (match String.index_opt lhs ' ' with
                | Some i -> String.sub lhs 0 i, String.sub lhs (i + 1) (String.length lhs - i - 1)
                | None -> lhs, "") in
            let ops, res = (match split_on_str "->" rhs with [a; b] -> ids_of a, ids_of b | _ -> failwith "arrow") in
            Some (EEmit (instr_of name (sx_of_fields fields), ops, res))
        | _ -> failwith ("event " ^ p)
      end else failwith ("event? " ^ p)) parts in
  evs, !ret

(* ---------- random well-typed values ---------- *)
let rs = ref 1
let rnd () = rs := (!rs * 1103515245 + 12345) land 0x3fffffff; (!rs lsr 8)
let rbelow n = if n <= 0 then 0 else rnd () mod n
let rec n_of_big (hi : int) (lo : int) (lobits : int) : n =      (* hi * 2^lobits + lo, lo < 2^lobits *)
  let rec shift (x : n) k = if k = 0 then x else shift (match x with N0 -> N0 | Npos p -> Npos (XO p)) (k - 1) in
  let rec addn (a : n) (b : int) = (* a + b with b small: build via binary of both is overkill; use N.add from model *)
    N.add a (n_of_int b) in
  addn (shift (n_of_int hi) lobits) lo
let rand_bits (bits : int) : n =
  match rbelow 6 with
  | 0 -> N0
  | 1 -> N.sub (N.pow (n_of_int 2) (n_of_int bits)) (n_of_int 1)
  | 2 -> N.pow (n_of_int 2) (n_of_int (bits - 1))
  | 3 -> N.sub (N.pow (n_of_int 2) (n_of_int (bits - 1))) (n_of_int 1)
  | _ -> if bits <= 30 then n_of_int (rbelow (1 lsl bits))
         else if bits = 32 then n_of_big (rbelow 4) (rbelow (1 lsl 30)) 30
         else n_of_big (rbelow (1 lsl 30)) (rbelow (1 lsl 30)) 34 |> fun x -> N.add x (n_of_int (rbelow 16))
let z_of_n = function N0 -> Z0 | Npos p -> Zpos p
let rand_int (bits : int) (signed : bool) : z =
  let x = rand_bits bits in
  if signed then
    let half = N.pow (n_of_int 2) (n_of_int (bits - 1)) in
    if N.ltb x half then z_of_n x else Z.sub (z_of_n x) (z_of_n (N.pow (n_of_int 2) (n_of_int bits)))
  else z_of_n x
let rand_char () : z =
  match rbelow 5 with
  | 0 -> Z0 | 1 -> z_of_int 0xD7FF | 2 -> z_of_int 0xE000 | 3 -> z_of_int 0x10FFFF
  | _ -> let c = rbelow 0x110000 in z_of_int (if c >= 0xD800 && c < 0xE000 then 65 else c)
let rand_len () = match rbelow 6 with 0 | 1 -> 0 | 2 | 3 -> 1 | 4 -> 2 | _ -> 3
let rec rand_val (t : ty) : val0 =
  match t with
  | TBool -> VBool (rbelow 2 = 1)
  | TU8 -> VNum (rand_int 8 false) | TS8 -> VNum (rand_int 8 true)
  | TU16 -> VNum (rand_int 16 false) | TS16 -> VNum (rand_int 16 true)
  | TU32 -> VNum (rand_int 32 false) | TS32 -> VNum (rand_int 32 true)
  | TU64 -> VNum (rand_int 64 false) | TS64 -> VNum (rand_int 64 true)
  | TF32 -> VFloat (rand_bits 32) | TF64 -> VFloat (rand_bits 64)
  | TChar -> VNum (rand_char ())
  | TString -> VStr (List.init (rand_len ()) (fun _ -> n_of_int (rbelow 256)))
  | TErrCtx | TOwn | TBorrow | TFuture _ | TStream _ -> VNum (z_of_int (1 + rbelow 1000))
  | TList e -> VList (List.init (rand_len ()) (fun _ -> rand_val e))
  | TFixed (e, n) -> VList (List.init (int_of_n n) (fun _ -> rand_val e))
  | TMap (k, v) -> VList (List.init (rand_len ()) (fun _ -> VRec [rand_val k; rand_val v]))
  | TRecord fs | TTuple fs -> VRec (List.map rand_val fs)
  | TVariant cs -> let i = rbelow (List.length cs) in
      VVar (n_of_int i, (match List.nth cs i with Some x -> Some (rand_val x) | None -> None))
  | TEnum n -> VVar (n_of_int (rbelow (int_of_n n)), None)
  | TOption x -> if rbelow 2 = 0 then VVar (N0, None) else VVar (n_of_int 1, Some (rand_val x))
  | TResult (a, b) ->
      let i = rbelow 2 in
      let c = if i = 0 then a else b in
      VVar (n_of_int i, (match c with Some x -> Some (rand_val x) | None -> None))
  | TFlags n -> VFlags (List.init (int_of_n n) (fun _ -> rbelow 2 = 1))
let rec show_n (x : n) : string =       (* decimal via repeated division is slow but values are small in reports *)
  let q, r = N.div_eucl x (n_of_int 1000000) in
  (match q with N0 -> string_of_int (int_of_n r) | _ -> show_n q ^ Printf.sprintf "%06d" (int_of_n r))
let show_z = function Z0 -> "0" | Zpos p -> show_n (Npos p) | Zneg p -> "-" ^ show_n (Npos p)
let rec show_val (v : val0) : string =
  match v with
  | VBool b -> if b then "true" else "false"
  | VNum z -> show_z z
  | VFloat b -> "f:" ^ show_n b
  | VStr bs -> "\"" ^ String.concat "," (List.map show_n bs) ^ "\""
  | VList vs -> "[" ^ String.concat " " (List.map show_val vs) ^ "]"
  | VRec vs -> "{" ^ String.concat " " (List.map show_val vs) ^ "}"
  | VVar (i, p) -> "#" ^ show_n i ^ (match p with Some x -> "(" ^ show_val x ^ ")" | None -> "")
  | VFlags bs -> "<" ^ String.concat "" (List.map (fun b -> if b then "1" else "0") bs) ^ ">"

(* SEM \x1d label \x1d pw \x1d nvalues \x1d seed \x1d sig \x1d dump  ->  "pass=<n> skip=<n>" | "FAIL why=<k> value=<v>" *)
let run_sem (label : string) (pw : int) (nvals : int) (seed : int) (fn : func) (dump : string) : string =
  let evs, ret = parse_dump dump in
  let pwn = n_of_int pw in
  rs := seed land 0x3fffffff;
  let pass = ref 0 and skip = ref 0 and fail = ref None in
  let one (t : ty) (chk : val0 -> verdict) =
    for _ = 1 to nvals do
      if !fail = None then begin
        let v = rand_val t in
        if not (has_type t v) then fail := Some ("generator produced an ill-typed value " ^ show_val v)
        else match chk v with
          | Pass -> incr pass
          | Skip -> incr skip
          | Fail k -> fail := Some (Printf.sprintf "why=%d value=%s" (int_of_nat k) (show_val v))
      end
    done in
  (match String.split_on_char '.' label with
   | ["lower_flat"; k; _] -> let t = nth_type fn (ios k) in one t (fun v -> check_lower_flat pwn t v evs ret)
   | ["lower_to_memory"; k; _] -> let t = nth_type fn (ios k) in one t (fun v -> check_lower_to_memory pwn t v evs)
   | ["lift_from_memory"; k; _] -> let t = nth_type fn (ios k) in one t (fun v -> check_lift_from_memory pwn t v evs ret)
   | ["dealloc"; w; mode; _] ->
       let t = TTuple fn.f_params in
       one t (fun v -> check_dealloc pwn t v (w = "own") (mode = "indirect") evs)
   | ["post_return"; _] ->
       (match fn.f_result with
        | Some t -> one t (fun v -> check_post_return pwn t v evs)
        | None -> ())
   | ["call"; v; ll; a; _] ->
       let t = TTuple fn.f_params in
       let chk (v0 : val0) : verdict =
         let args = (match v0 with VRec l -> l | _ -> []) in
         let result = (match fn.f_result with Some rt -> Some (rand_val rt) | None -> None) in
         match v, ll, a with
         | "GuestImport", "LowerLift", "0" -> check_call_import pwn fn args result evs
         | "GuestExport", "LiftLower", "0" -> check_call_export pwn fn args result false evs
         | ("GuestExport" | "GuestExportAsync"), "LiftLower", "1" -> check_call_export pwn fn args result true evs
         | _ -> Skip in
       one t chk
   | _ -> failwith ("sem label " ^ label));
  match !fail with
  | Some m -> "FAIL " ^ m
  | None -> Printf.sprintf "pass=%d skip=%d" !pass !skip


(* ---------- SPEC: the canonical-ABI oracle as a service (used by genrun: C05-C08, C10, C11) ----------
   value syntax (print = parse): true false | <decimal int> | f:<bits> | "b,b,…" | [v …] | {v …} | #i | #i(v) | <0101…>
   commands (fields separated by \x1d after "SPEC"):
     gen    <type> <seed> <count>                         -> values separated by \x1e
     layout <pw> <type>                                   -> size=<n> align=<n> flat=[i32 …]
     allocs <pw> <type> <value> flat|mem                  -> "size:align size:align …" in allocation order
     lower  <pw> <type> <value> flat|mem <addr> <presets> -> flat=<bits …>|writes=<addr:hex;…>|next=<n>
                                                            (presets: addresses realloc returns, in order; empty = bump from <addr>+size)
     lift   <pw> <type> flat|mem <bits …|addr> <segments addr:hex;…>   -> <value> | TRAP
     handles <type> <value>                               -> owned handles (own/future/stream) in order *)
let n_of_dec (s : string) : n =
  let ten = n_of_int 10 in
  let r = ref N0 in
  String.iter (fun c -> r := N.add (N.mul !r ten) (n_of_int (Char.code c - 48))) s; !r
let z_of_dec (s : string) : z =
  if String.length s > 0 && s.[0] = '-' then Z.opp (z_of_n (n_of_dec (String.sub s 1 (String.length s - 1))))
  else z_of_n (n_of_dec s)
let parse_val (s : string) : val0 =
  let n = String.length s in
  let pos = ref 0 in
  let peek () = if !pos < n then s.[!pos] else '\000' in
  let rec skip () = if peek () = ' ' then (incr pos; skip ()) in
  let token () =
    let st = !pos in
    while !pos < n && not (List.mem s.[!pos] [' '; ']'; '}'; ')'; '(']) do incr pos done;
    String.sub s st (!pos - st) in
  let rec one () : val0 =
    skip ();
    match peek () with
    | '[' -> incr pos; VList (many ']')
    | '{' -> incr pos; VRec (many '}')
    | '"' -> incr pos;
        let st = !pos in
        while peek () <> '"' do incr pos done;
        let body = String.sub s st (!pos - st) in
        incr pos;
        VStr (if body = "" then [] else List.map n_of_dec (String.split_on_char ',' body))
    | '<' -> incr pos;
        let st = !pos in
        while peek () <> '>' do incr pos done;
        let body = String.sub s st (!pos - st) in
        incr pos;
        VFlags (List.init (String.length body) (fun i -> body.[i] = '1'))
    | '#' -> incr pos;
        let i = n_of_dec (token ()) in
        if peek () = '(' then (incr pos; let v = one () in skip (); incr pos; VVar (i, Some v)) else VVar (i, None)
    | _ ->
        let t = token () in
        if t = "true" then VBool true else if t = "false" then VBool false
        else if String.length t > 2 && String.sub t 0 2 = "f:" then VFloat (n_of_dec (String.sub t 2 (String.length t - 2)))
        else VNum (z_of_dec t)
  and many (close : char) : val0 list =
    skip ();
    if peek () = close then (incr pos; []) else let v = one () in v :: many close in
  one ()
let hex_of_bytes (bs : int list) = String.concat "" (List.map (Printf.sprintf "%02x") bs)
let mem_of_segments (segs : string) : n -> n =
  let tbl = Hashtbl.create 64 in
  List.iter (fun seg ->
      if seg <> "" then
        match String.split_on_char ':' seg with
        | [a; hex] ->
            let a = n_of_dec a in
            for i = 0 to String.length hex / 2 - 1 do
              Hashtbl.replace tbl (show_n (N.add a (n_of_int i))) (n_of_int (int_of_string ("0x" ^ String.sub hex (2 * i) 2)))
            done
        | _ -> failwith "segment") (String.split_on_char ';' segs);
  fun a -> match Hashtbl.find_opt tbl (show_n a) with Some b -> b | None -> N0
let dump_range (m : n -> n) (a : n) (size : n) : string =
  show_n a ^ ":" ^ hex_of_bytes (List.init (int_of_n size) (fun i -> int_of_n (m (N.add a (n_of_int i))) land 255))
let show_ct = function CI32 -> "i32" | CI64 -> "i64" | CF32 -> "f32" | CF64 -> "f64"
let run_spec (fields : string list) : string =
  match fields with
  | ["gen"; t; seed; count] ->
      let t = ty_of_sx (parse_sx t) in
      rs := int_of_string seed land 0x3fffffff;
      String.concat "\x1e" (List.init (int_of_string count) (fun _ -> show_val (rand_val t)))
  | ["layout"; pw; t] ->
      let pw = n_of_int (int_of_string pw) and t = ty_of_sx (parse_sx t) in
      Printf.sprintf "size=%s align=%s flat=[%s]" (show_n (elem_size pw t)) (show_n (alignment pw t))
        (String.concat " " (List.map show_ct (flatten pw t)))
  | ["allocs"; pw; t; v; mode] ->
      let pw = n_of_int (int_of_string pw) and t = ty_of_sx (parse_sx t) and v = parse_val v in
      let m0 = mstate0 (n_of_int 65536) in
      let r = if mode = "flat" then (match lower_flat pw t v m0 with Some (_, m) -> Some m | None -> None)
        else store pw t v (n_of_int 4096) m0 in
      (match r with
       | Some m -> String.concat " " (List.rev_map (fun ((_, sz), al) -> show_n sz ^ ":" ^ show_n al) m.allocs)
       | None -> "ILL-TYPED")
  | ["lower"; pw; t; v; mode; addr; presets] ->
      let pw = n_of_int (int_of_string pw) and t = ty_of_sx (parse_sx t) and v = parse_val v in
      let addr = n_of_dec addr in
      let pres = List.map n_of_dec (Util.split_ws presets) in
      let m0 = { (mstate0 (N.add addr (elem_size pw t))) with presets = pres } in
      let r = if mode = "flat" then (match lower_flat pw t v m0 with Some (cs, m) -> Some (cs, m) | None -> None)
        else (match store pw t v addr m0 with Some m -> Some ([], m) | None -> None) in
      (match r with
       | Some (cs, m) ->
           let segs = List.rev_map (fun ((p, sz), _) -> dump_range m.mem p sz) m.allocs in
           let segs = if mode = "mem" then dump_range m.mem addr (elem_size pw t) :: segs else segs in
           Printf.sprintf "flat=%s|writes=%s|next=%s" (String.concat " " (List.map (fun (_, x) -> show_n x) cs))
             (String.concat ";" segs) (show_n m.next)
       | None -> "ILL-TYPED")
  | ["lift"; pw; t; mode; src; segs] ->
      let pw = n_of_int (int_of_string pw) and t = ty_of_sx (parse_sx t) in
      let m = mem_of_segments segs in
      let r = if mode = "flat" then
          (let cts = flatten pw t in
           let xs = List.map n_of_dec (Util.split_ws src) in
           if List.length xs <> List.length cts then None
           else match lift_flat pw t m (List.combine cts xs) with Some (v, _) -> Some v | None -> None)
        else load pw t m (n_of_dec src) in
      (match r with Some v -> show_val v | None -> "TRAP")
  | ["handles"; t; v] ->
      let t = ty_of_sx (parse_sx t) and v = parse_val v in
      String.concat " " (List.map show_z (owned_handles t v))
  | _ -> "BAD-SPEC-COMMAND"

let () =
  Util.iter_lines (fun l ->
      match String.index_opt l '\x1d' with
      | None -> "BAD-INPUT"
      | Some i ->
          let label = String.sub l 0 i in
          let sx = String.sub l (i + 1) (String.length l - i - 1) in
          match String.split_on_char '.' label with
          | ["SEM"] ->
              (match String.split_on_char '\x1d' sx with
               | [lab; pw; nv; seed; sg; dump] ->
                   run_sem lab (int_of_string pw) (int_of_string nv) (int_of_string seed) (func_of_sx (parse_sx sg)) dump
               | _ -> "BAD-SEM-INPUT")
          | ["SPEC"] -> run_spec (String.split_on_char '\x1d' sx)
          | ["HEAP"] -> b01 (match (func_of_sx (parse_sx sx)).f_result with Some t -> has_heap t | None -> false)
          | ["cast"; a; b] ->
              let wt_of = function "i32" -> WI32 | "i64" -> WI64 | "f32" -> WF32 | "f64" -> WF64 | "ptr" -> WPtr
                                   | "ptr64" -> WPtr64 | "len" -> WLen | s -> failwith s in
              (match cast (wt_of a) (wt_of b) with Some c -> show_cast c | None -> "PANIC")
          | ["join"; a; b] ->
              let wt_of = function "i32" -> WI32 | "i64" -> WI64 | "f32" -> WF32 | "f64" -> WF64 | "ptr" -> WPtr
                                   | "ptr64" -> WPtr64 | "len" -> WLen | s -> failwith s in
              show_wt (wjoin (wt_of a) (wt_of b))
          | _ -> run_label label (func_of_sx (parse_sx sx)))
