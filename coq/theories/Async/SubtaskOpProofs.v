(** * Async/SubtaskOpProofs.v — C21 for every CM-valid history of the model.

    Method: the product of the model state ([SubtaskOp.st], whose log is emitted per step and
    not stored) and the property monitor ([SubtaskOpSpec.mon]) has, for each of the 12 valid
    abstract configurations, a finite set of states reachable under valid actions, and valid
    actions range over a finite alphabet.  [explore] computes that set; [vm_compute] checks that
    it contains the initial state, is closed under every valid action and satisfies the wanted
    predicate everywhere; induction over the history lifts this to all histories of any length. *)
From Coq Require Import NArith ZArith List Bool Lia.
From WB Require Import Async.Host Async.SubtaskOp Async.SubtaskOpSpec.
Import ListNotations.
Local Open Scope N_scope.

(** ** Decidable equality of product states *)
Ltac deq := decide equality; auto using N.eq_dec, Z.eq_dec, bool_dec, list_eq_dec.

Definition option_eq_dec {A} (d : forall x y : A, {x = y} + {x <> y}) : forall x y : option A, {x = y} + {x <> y}.
Proof. decide equality. Defined.
Definition prod_eq_dec {A B} (da : forall x y : A, {x = y} + {x <> y}) (db : forall x y : B, {x = y} + {x <> y})
  : forall x y : A * B, {x = y} + {x <> y}.
Proof. decide equality. Defined.

Definition trap_eq_dec : forall x y : trap, {x = y} + {x <> y}. Proof. decide equality. Defined.
Definition entry_eq_dec : forall x y : entry, {x = y} + {x <> y}.
Proof. decide equality; auto using N.eq_dec, bool_dec, (option_eq_dec N.eq_dec). Defined.
Definition chan_eq_dec : forall x y : chan, {x = y} + {x <> y}.
Proof. decide equality; auto using N.eq_dec, bool_dec, (option_eq_dec N.eq_dec). Defined.
Definition hostcall_eq_dec : forall x y : hostcall, {x = y} + {x <> y}.
Proof. decide equality; auto using N.eq_dec, bool_dec, trap_eq_dec, (list_eq_dec N.eq_dec). Defined.
Definition host_eq_dec : forall x y : host, {x = y} + {x <> y}.
Proof.
  decide equality; auto using N.eq_dec,
    (list_eq_dec N.eq_dec), (list_eq_dec hostcall_eq_dec), (list_eq_dec chan_eq_dec),
    (list_eq_dec (prod_eq_dec N.eq_dec N.eq_dec)),
    (list_eq_dec (prod_eq_dec N.eq_dec (prod_eq_dec N.eq_dec N.eq_dec))),
    (list_eq_dec (prod_eq_dec N.eq_dec entry_eq_dec)).
Defined.
Definition mtask_eq_dec : forall x y : mtask, {x = y} + {x <> y}.
Proof.
  decide equality; auto using N.eq_dec, Z.eq_dec, bool_dec, (option_eq_dec N.eq_dec),
    (list_eq_dec (prod_eq_dec N.eq_dec N.eq_dec)).
Defined.
Definition ip_eq_dec : forall x y : ip, {x = y} + {x <> y}.
Proof. decide equality; auto using bool_dec, (option_eq_dec N.eq_dec). Defined.
Definition phase_eq_dec : forall x y : phase, {x = y} + {x <> y}.
Proof. decide equality; auto using ip_eq_dec. Defined.
Definition panic_eq_dec : forall x y : panic, {x = y} + {x <> y}. Proof. decide equality. Defined.
Definition resstate_eq_dec : forall x y : resstate, {x = y} + {x <> y}.
Proof. decide equality; auto using N.eq_dec. Defined.
Definition st_eq_dec : forall x y : st, {x = y} + {x <> y}.
Proof.
  decide equality; auto using N.eq_dec, bool_dec, host_eq_dec, mtask_eq_dec, phase_eq_dec, resstate_eq_dec,
    (option_eq_dec N.eq_dec), (option_eq_dec (option_eq_dec N.eq_dec)), (option_eq_dec panic_eq_dec).
Defined.
Definition violation_eq_dec : forall x y : violation, {x = y} + {x <> y}. Proof. decide equality. Defined.
Definition mon_eq_dec : forall x y : mon, {x = y} + {x <> y}.
Proof. decide equality; auto using N.eq_dec, bool_dec, (option_eq_dec N.eq_dec), (option_eq_dec violation_eq_dec). Defined.

Definition pstate := (st * mon)%type.
Definition pstate_eq_dec : forall x y : pstate, {x = y} + {x <> y} := prod_eq_dec st_eq_dec mon_eq_dec.
Definition pmem (p : pstate) (l : list pstate) : bool :=
  existsb (fun q => if pstate_eq_dec p q then true else false) l.
Lemma pmem_In p l : pmem p l = true -> In p l.
Proof.
  unfold pmem. rewrite existsb_exists. intros [q [Hq He]].
  destruct (pstate_eq_dec p q); congruence.
Qed.

(** ** The product system *)
Definition pstep (c : acfg) (p : pstate) (a : action) : pstate :=
  let (s', l) := step c (fst p) a in (s', fold_left mon_step l (snd p)).
Definition pinit (c : acfg) : pstate := (st_init c, mon_init).
Definition prun (c : acfg) (tr : list action) : pstate := fold_left (pstep c) tr (pinit c).

(** Valid actions range over this alphabet. *)
Definition actions : list action :=
  [APoll; AWait; AHost 1; AHost 2; ADrop None; ADrop (Some 2); ADrop (Some 3); ADrop (Some 4)].

Lemma valid_step_in s a : valid_step s a = true -> In a actions.
Proof.
  destruct a as [| c | | [a|]]; cbn [valid_step actions In]; intro H; auto 10.
  - destruct (first_subtask (s_h s)); try discriminate.
    destruct (alookup n (table (s_h s))) as [[]|]; try discriminate.
    apply andb_prop in H as [H _]. apply andb_prop in H as [_ H].
    apply orb_prop in H as [H|H]; apply N.eqb_eq in H; subst; cbn; auto 10.
  - apply andb_prop in H as [H _].
    apply orb_prop in H as [H|H]; [apply orb_prop in H as [H|H]|]; apply N.eqb_eq in H; subst; cbn; auto 10.
Qed.

(** Breadth-first closure under the valid actions. *)
Definition succs (c : acfg) (p : pstate) : list pstate :=
  map (pstep c p) (filter (valid_step (fst p)) actions).
Fixpoint add_new (l : list pstate) (seen : list pstate) : list pstate * list pstate :=
  match l with
  | [] => ([], seen)
  | p :: r => if pmem p seen then add_new r seen
              else let (n, s) := add_new r (p :: seen) in (p :: n, s)
  end.
Fixpoint explore (fuel : nat) (c : acfg) (frontier seen : list pstate) : list pstate :=
  match fuel with
  | O => seen
  | S f =>
      match frontier with
      | [] => seen
      | _ => let (n, s) := add_new (flat_map (succs c) frontier) seen in explore f c n s
      end
  end.
Definition reach_set (c : acfg) : list pstate := explore 64 c [pinit c] [pinit c].

Definition closed (c : acfg) (S : list pstate) : bool :=
  pmem (pinit c) S &&
  forallb (fun p => forallb (fun a => negb (valid_step (fst p) a) || pmem (pstep c p a) S) actions) S.

Definition valid_cfgs : list acfg :=
  flat_map (fun v2 => flat_map (fun area =>
    [mkAcfg v2 area 0 true; mkAcfg v2 area 1 true; mkAcfg v2 area 2 false]) [false; true]) [false; true].

Lemma valid_cfg_in c : valid_cfg c = true -> In c valid_cfgs.
Proof.
  destruct c as [v2 area cs ch]. unfold valid_cfg; cbn [a_callstatus a_callhandle]. intro H.
  assert (E : (cs = 0 /\ ch = true) \/ (cs = 1 /\ ch = true) \/ (cs = 2 /\ ch = false)).
  { apply orb_prop in H as [H|H]; [apply orb_prop in H as [H|H]|];
      apply andb_prop in H as [H1 H2]; apply N.eqb_eq in H1; subst;
      [left|right;left|right;right]; split; auto; destruct ch; auto; discriminate. }
  destruct E as [[-> ->]|[[-> ->]|[-> ->]]]; destruct v2, area; cbn; auto 20.
Qed.

Lemma closed_all : forallb (fun c => closed c (reach_set c)) valid_cfgs = true.
Proof. vm_compute. reflexivity. Qed.

Lemma closed_cfg c : In c valid_cfgs -> closed c (reach_set c) = true.
Proof. intro H. exact (proj1 (forallb_forall _ _) closed_all c H). Qed.

(** Validity along a history, stated on the product run (equivalent to [valid_from]). *)
Lemma valid_from_app c s tr a :
  valid_from c s (tr ++ [a]) = valid_from c s tr && valid_step (fst (run c s tr)) a.
Proof.
  revert s. induction tr as [|b tr IH]; intro s; cbn [app valid_from run].
  - cbn. now rewrite andb_true_r.
  - rewrite IH. destruct (step c s b) as [s1 l1] eqn:E. cbn [fst].
    destruct (run c s1 tr) as [s2 l2]. cbn [fst]. now rewrite andb_assoc.
Qed.

Lemma run_app c s tr a :
  run c s (tr ++ [a]) =
  let (s1, l1) := run c s tr in let (s2, l2) := step c s1 a in (s2, l1 ++ l2).
Proof.
  revert s. induction tr as [|b tr IH]; intro s; cbn [app run].
  - destruct (step c s a) as [s2 l2]. now rewrite app_nil_r.
  - destruct (step c s b) as [s1 l1]. rewrite IH.
    destruct (run c s1 tr) as [s2 l2]. destruct (step c s2 a) as [s3 l3]. now rewrite app_assoc.
Qed.

(** The product run is the model run paired with the monitor run over its log. *)
Lemma prun_spec c tr :
  prun c tr = (fst (run c (st_init c) tr), mon_run (snd (run c (st_init c) tr))).
Proof.
  induction tr as [|a tr IH] using rev_ind.
  - reflexivity.
  - unfold prun in *. rewrite fold_left_app. cbn [fold_left]. rewrite IH.
    rewrite run_app. destruct (run c (st_init c) tr) as [s1 l1]. cbn [fst snd].
    unfold pstep. cbn [fst snd]. destruct (step c s1 a) as [s2 l2]. cbn [fst snd].
    unfold mon_run. now rewrite fold_left_app.
Qed.

Theorem reach_invariant c tr :
  valid_trace c tr = true -> In (prun c tr) (reach_set c).
Proof.
  unfold valid_trace. intro H. apply andb_prop in H as [Hc H].
  apply valid_cfg_in in Hc. pose proof (closed_cfg c Hc) as Hcl.
  unfold closed in Hcl. apply andb_prop in Hcl as [Hinit Hstep].
  induction tr as [|a tr IH] using rev_ind.
  - apply pmem_In. exact Hinit.
  - rewrite valid_from_app in H. apply andb_prop in H as [Htr Ha].
    specialize (IH Htr).
    assert (Hfst : fst (prun c tr) = fst (run c (st_init c) tr)) by (rewrite prun_spec; reflexivity).
    rewrite <- Hfst in Ha.
    unfold prun. rewrite fold_left_app. cbn [fold_left]. fold (prun c tr).
    rewrite forallb_forall in Hstep. specialize (Hstep _ IH).
    rewrite forallb_forall in Hstep. specialize (Hstep a (valid_step_in _ _ Ha)).
    rewrite Ha in Hstep. cbn [negb orb] in Hstep. apply pmem_In. exact Hstep.
Qed.

(** Lifting a decidable predicate that holds on the whole reachable set. *)
Lemma reach_forall (P : acfg -> pstate -> bool) :
  forallb (fun c => forallb (P c) (reach_set c)) valid_cfgs = true ->
  forall c tr, valid_trace c tr = true -> P c (prun c tr) = true.
Proof.
  intros HP c tr Hv.
  assert (Hc : In c valid_cfgs).
  { unfold valid_trace in Hv. apply andb_prop in Hv as [Hc _]. now apply valid_cfg_in. }
  rewrite forallb_forall in HP. specialize (HP c Hc). rewrite forallb_forall in HP.
  apply HP. now apply reach_invariant.
Qed.

(** ** The properties *)
Definition no_violation (m : mon) : bool := match m_bad m with None => true | Some _ => false end.
Definition no_panic (s : st) : bool := match s_err s with None => true | Some _ => false end.

Definition P_safety (_ : acfg) (p : pstate) : bool := no_violation (snd p) && no_panic (fst p).
Definition P_final (c : acfg) (p : pstate) : bool :=
  negb (quiescent (fst p)) || match mon_final (a_area c) (snd p) with None => true | Some _ => false end.
(** From every reachable state a (default-answer) drop is valid and reaches quiescence. *)
Definition P_droppable (c : acfg) (p : pstate) : bool :=
  valid_step (fst p) (ADrop None) && quiescent (fst (pstep c p (ADrop None))).
(** Registration facts used by C18 as well: at quiescence nothing is registered or cloned. *)
Definition P_clean (_ : acfg) (p : pstate) : bool :=
  negb (quiescent (fst p)) ||
  (match t_map (s_t (fst p)) with [] => true | _ => false end
   && Z.eqb (t_clones (s_t (fst p))) 0
   && match joined (s_h (fst p)) with [] => true | _ => false end).

Lemma safety_all : forallb (fun c => forallb (P_safety c) (reach_set c)) valid_cfgs = true.
Proof. vm_compute. reflexivity. Qed.
Lemma final_all : forallb (fun c => forallb (P_final c) (reach_set c)) valid_cfgs = true.
Proof. vm_compute. reflexivity. Qed.
Lemma droppable_all : forallb (fun c => forallb (P_droppable c) (reach_set c)) valid_cfgs = true.
Proof. vm_compute. reflexivity. Qed.
Lemma clean_all : forallb (fun c => forallb (P_clean c) (reach_set c)) valid_cfgs = true.
Proof. vm_compute. reflexivity. Qed.

Definition final_state (c : acfg) (tr : list action) : st := fst (run c (st_init c) tr).
Definition final_log (c : acfg) (tr : list action) : list hostcall := snd (run c (st_init c) tr).

Theorem subtask_safety c tr :
  valid_trace c tr = true ->
  m_bad (mon_run (final_log c tr)) = None /\ s_err (final_state c tr) = None.
Proof.
  intro H. pose proof (reach_forall P_safety safety_all c tr H) as HP.
  rewrite prun_spec in HP. unfold P_safety, no_violation, no_panic in HP. cbn [fst snd] in HP.
  apply andb_prop in HP as [H1 H2]. unfold final_log, final_state.
  destruct (m_bad _); try discriminate. destruct (s_err _); try discriminate. auto.
Qed.

Theorem subtask_exactly_once c tr :
  valid_trace c tr = true -> quiescent (final_state c tr) = true ->
  mon_final (a_area c) (mon_run (final_log c tr)) = None.
Proof.
  intros H Hq. pose proof (reach_forall P_final final_all c tr H) as HP.
  rewrite prun_spec in HP. unfold P_final in HP. cbn [fst snd] in HP.
  unfold final_state in Hq. rewrite Hq in HP. cbn in HP. unfold final_log.
  destruct (mon_final _ _); [discriminate|reflexivity].
Qed.

Theorem subtask_check c tr :
  valid_trace c tr = true ->
  c21_check (a_area c) (quiescent (final_state c tr)) (final_log c tr) = None.
Proof.
  intro H. unfold c21_check. destruct (subtask_safety c tr H) as [Hb _]. rewrite Hb.
  destruct (quiescent (final_state c tr)) eqn:Hq; auto. now apply subtask_exactly_once.
Qed.

Theorem subtask_droppable c tr :
  valid_trace c tr = true ->
  valid_trace c (tr ++ [ADrop None]) = true /\ quiescent (final_state c (tr ++ [ADrop None])) = true.
Proof.
  intro H. pose proof (reach_forall P_droppable droppable_all c tr H) as HP.
  unfold P_droppable in HP. apply andb_prop in HP as [H1 H2].
  rewrite prun_spec in H1, H2. cbn [fst] in H1.
  unfold valid_trace in *. apply andb_prop in H as [Hc Hv]. rewrite Hc. cbn [andb].
  rewrite valid_from_app, Hv, H1. split; [reflexivity|].
  unfold final_state. rewrite run_app.
  unfold pstep in H2. cbn [fst snd] in H2.
  destruct (run c (st_init c) tr) as [s1 l1]. cbn [fst snd] in *.
  destruct (step c s1 (ADrop None)) as [s2 l2]. cbn [fst] in *. exact H2.
Qed.

Theorem subtask_clean c tr :
  valid_trace c tr = true -> quiescent (final_state c tr) = true ->
  t_map (s_t (final_state c tr)) = [] /\ t_clones (s_t (final_state c tr)) = 0%Z
  /\ joined (s_h (final_state c tr)) = [].
Proof.
  intros H Hq. pose proof (reach_forall P_clean clean_all c tr H) as HP.
  rewrite prun_spec in HP. unfold P_clean in HP. cbn [fst snd] in HP.
  unfold final_state in *. rewrite Hq in HP. cbn [negb orb] in HP.
  apply andb_prop in HP as [HP H3]. apply andb_prop in HP as [H1 H2].
  destruct (t_map _); try discriminate. destruct (joined _); try discriminate.
  apply Z.eqb_eq in H2. auto.
Qed.

(** The exactly-once conditions spelled out (what [mon_final = None] means). *)
Lemma mon_final_spec area m :
  mon_final area m = None ->
  if m_called m then
    exists r, m_resolution m = Some r
      /\ m_dl m = b2n (negb (r =? STATUS_STARTED_CANCELLED))
      /\ m_dlo m = b2n (r =? STATUS_STARTED_CANCELLED)
      /\ m_lift m = b2n (r =? STATUS_RETURNED)
      /\ m_stdrop m = b2n (m_handle m)
      /\ m_alloc m = b2n area /\ m_free m = m_alloc m /\ m_pdrop m = 0
  else m_pdrop m = 1 /\ m_lower m = 0 /\ m_alloc m = 0 /\ m_dl m = 0 /\ m_dlo m = 0 /\ m_lift m = 0
       /\ m_stdrop m = 0 /\ m_stcancel m = 0.
Proof.
  unfold mon_final. destruct (m_called m).
  - destruct (m_resolution m) as [r|]; [|discriminate]. intro H. exists r. split; [reflexivity|].
    repeat match type of H with
           | (if negb (?a =? ?b) then _ else _) = None =>
               destruct (N.eqb_spec a b); cbn [negb] in H; [|discriminate]
           end.
    repeat split; assumption.
  - intro H.
    destruct (N.eqb_spec (m_pdrop m) 1); cbn [negb] in H; [|discriminate].
    match type of H with (if negb ?b then _ else _) = None => destruct b eqn:E; cbn [negb] in H; [|discriminate] end.
    repeat (apply andb_prop in E as [E ?]).
    repeat match goal with H : (_ =? _) = true |- _ => apply N.eqb_eq in H end.
    repeat split; assumption.
Qed.

(** Non-vacuity: a valid history with a race (STARTED delivered, then cancel loses to RETURNED). *)
Example valid_example :
  let c := mkAcfg true true 0 true in
  let tr := [APoll; AHost 1; AWait; APoll; AHost 2; ADrop (Some 2)] in
  valid_trace c tr = true /\ quiescent (final_state c tr) = true
  /\ m_dl (mon_run (final_log c tr)) = 1 /\ m_lift (mon_run (final_log c tr)) = 1
  /\ m_stcancel (mon_run (final_log c tr)) = 1 /\ m_free (mon_run (final_log c tr)) = 1.
Proof. vm_compute. repeat split. Qed.

Example valid_example_cancel_before_start :
  let c := mkAcfg false false 0 true in
  let tr := [APoll; ADrop (Some 3)] in
  valid_trace c tr = true /\ quiescent (final_state c tr) = true
  /\ m_dlo (mon_run (final_log c tr)) = 1 /\ m_dl (mon_run (final_log c tr)) = 0.
Proof. vm_compute. repeat split. Qed.

(** The monitor is not trivially happy: it rejects a log that frees lists twice. *)
Example monitor_rejects :
  c21_check false true [HNote T_LOWER []; HNote T_CALL [2]; HNote T_DL []; HNote T_DL []; HNote T_LIFT [0]] = Some VDlTwice.
Proof. vm_compute. reflexivity. Qed.
