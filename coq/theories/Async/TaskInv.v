(** * Async/TaskInv.v — invariants of whole runs (proofs for C22): body futures and the task box are
    released exactly once, unfinished bodies are destroyed only by EVENT_CANCEL, context slot 0
    holds the task between callbacks and is null while one runs. *)
From Coq Require Import NArith List Bool Lia Permutation.
From WB Require Import Async.Host Async.Task Async.TaskSpec Async.TaskLemmas Async.TaskCallback
  Async.TaskLinear Async.TaskHostPrims Async.TaskHostRel Async.TaskCtx.
Import ListNotations.
Local Open Scope N_scope.

(** ** Shape of the public [callback] *)
Definition cb_entry (t : N) (w : world) : world := fst (ctx_get_logged (hostf (set_cur_task t) w)).
Definition cb_mid (t : N) (w : world) : world := ctx_set_logged None (cb_entry t w).
Definition set_last (t : N) (c : cbcode) (w : world) : world :=
  match c with CWait s => upd_task t (tk_with_lastset (Some s)) w | _ => w end.

Lemma rt_callback_cases : forall e t e0 e1 e2 w,
  (h_ctx_get (w_host (hostf (set_cur_task t) w)) = None
   /\ rt_callback e t e0 e1 e2 w = (fail E_CTX_NULL (cb_entry t w), 0))
  \/ (exists p w3 c,
        h_ctx_get (w_host (hostf (set_cur_task t) w)) = Some p
        /\ task_cb e t e0 e1 e2 (cb_mid t w) = (w3, c)
        /\ ((failed w3 = true /\ rt_callback e t e0 e1 e2 w = (w3, 0))
            \/ (failed w3 = false /\ c = CExit
                /\ rt_callback e t e0 e1 e2 w = (emit (VBoxFree t) (task_drop e t w3), 0))
            \/ (failed w3 = false /\ c <> CExit
                /\ rt_callback e t e0 e1 e2 w = (set_last t c (ctx_set_logged (Some p) w3), encode c)))).
Proof.
  intros. unfold rt_callback, cb_mid, cb_entry, ctx_get_logged. cbn [fst].
  destruct (h_ctx_get (w_host (hostf (set_cur_task t) w))) as [p|] eqn:G; [right|left; auto].
  match goal with |- context [task_cb e t e0 e1 e2 ?x] => destruct (task_cb e t e0 e1 e2 x) as [w3 c] eqn:TC end.
  exists p, w3, c. split; [reflexivity|]. split; [reflexivity|].
  destruct (failed w3) eqn:F; [left; auto|right].
  destruct c; [left|right|right]; repeat split; auto; discriminate.
Qed.

(** ** Linearity part *)
Definition InvLin (w : world) : Prop := Lin w /\ DeadEmpty w /\ NoDup (map fst (w_tasks w)).

Lemma InvLin_frame : forall w w', Frame w w' -> InvLin w -> InvLin w'.
Proof.
  intros w w' F (A & B & C). split; [eapply Frame_LinH; eauto|split; [eapply Frame_DeadEmpty; eauto|now apply (fr_keys _ _ F)]].
Qed.

Lemma InvLin_ext : forall t w w', lin_res t [] w w' -> tk_alive (get_task t w) = true -> InvLin w -> InvLin w'.
Proof.
  intros t w w' [L X] A (_ & B & C). split; [exact L|split; [eapply Ext_DeadEmpty; eauto|now apply (ex_keys _ _ _ X)]].
Qed.

Lemma InvLin_emit_box : forall x w, (forall b f, x <> VEnd b f) -> InvLin w -> InvLin (emit x w).
Proof.
  intros x w NE (A & B & C). split; [|split; auto].
  destruct A as [A1 A2]. split; auto. unfold ended in *. cbn [emit w_trace set_trace flat_map].
  destruct x; auto. exfalso. eapply NE; eauto.
Qed.

Lemma InvLin_drop : forall e t w, InvLin w -> InvLin (task_drop e t w).
Proof.
  intros e t w (A & B & C). destruct (L_task_drop e t [] w A) as [D1 D2 D3 D4 D5 D6 D7 D8 D9].
  split; [exact D1|split; [|auto]].
  intros t' H. destruct (N.eq_dec t' t) as [->|NE]; [exact D4|].
  destruct (D5 t' NE) as (I & AL & _). rewrite I. apply B. congruence.
Qed.

Lemma alive_cb_mid : forall t t' w, get_task t' (cb_mid t w) = get_task t' w.
Proof. reflexivity. Qed.

Lemma Frame_cb_mid : forall t w, Frame w (cb_mid t w).
Proof. intros. unfold cb_mid, cb_entry. fr_auto. Qed.

Lemma Frame_set_last : forall t c w w0, Frame w w0 -> Frame w (set_last t c w0).
Proof. intros. unfold set_last. destruct c; fr_auto. Qed.

Lemma InvLin_rt_callback : forall e t e0 e1 e2 w,
  tk_alive (get_task t w) = true -> InvLin w -> InvLin (fst (rt_callback e t e0 e1 e2 w)).
Proof.
  intros e t e0 e1 e2 w AL I.
  destruct (rt_callback_cases e t e0 e1 e2 w) as [[_ ->]|(p & w3 & c & _ & TC & CS)].
  - cbn [fst]. eapply InvLin_frame; [|exact I]. unfold cb_entry. fr_auto.
  - assert (I2 : InvLin (cb_mid t w)) by (eapply InvLin_frame; [apply Frame_cb_mid|exact I]).
    pose proof (L_task_cb e t e0 e1 e2 [] (cb_mid t w) (proj1 I2)) as LR. rewrite TC in LR. cbn [fst] in LR.
    assert (I3 : InvLin w3) by (eapply InvLin_ext; [exact LR|rewrite alive_cb_mid; exact AL|exact I2]).
    destruct CS as [(_ & ->)|[(_ & _ & ->)|(_ & _ & ->)]]; cbn [fst].
    + exact I3.
    + apply InvLin_emit_box; [discriminate|]. now apply InvLin_drop.
    + eapply InvLin_frame; [|exact I3]. apply Frame_set_last. fr_auto.
Qed.

(** The world after [callback] when the task survives: its life is unchanged. *)
Lemma rt_callback_alive : forall e t e0 e1 e2 w t',
  t' <> t -> InvLin w ->
  tk_alive (get_task t' (fst (rt_callback e t e0 e1 e2 w))) = tk_alive (get_task t' w)
  /\ tk_exited (get_task t' (fst (rt_callback e t e0 e1 e2 w))) = tk_exited (get_task t' w).
Proof.
  intros e t e0 e1 e2 w t' NE I.
  destruct (rt_callback_cases e t e0 e1 e2 w) as [[_ ->]|(p & w3 & c & _ & TC & CS)]; cbn [fst].
  - rewrite get_task_fail. split; reflexivity.
  - assert (I2 : InvLin (cb_mid t w)) by (eapply InvLin_frame; [apply Frame_cb_mid|exact I]).
    pose proof (L_task_cb e t e0 e1 e2 [] (cb_mid t w) (proj1 I2)) as [L3 X3]. rewrite TC in L3, X3. cbn [fst] in *.
    destruct (ex_life _ _ _ X3 t') as [A1 A2]. rewrite alive_cb_mid in A1, A2.
    destruct CS as [(_ & ->)|[(_ & _ & ->)|(_ & _ & ->)]]; cbn [fst].
    + auto.
    + rewrite get_task_emit. destruct (L_task_drop e t [] w3 L3) as [D1 D2 D3 D4 D5 D6 D7 D8 D9].
      destruct (D5 t' NE) as (_ & B1 & B2). split; congruence.
    + match goal with |- context [get_task t' ?x] => assert (F : Frame w3 x) by (apply Frame_set_last; fr_auto) end.
      rewrite (fr_alive _ _ F), (fr_exited _ _ F). auto.
Qed.

(** A callback other than EVENT_CANCEL destroys no unfinished body; when it answers Exit, the
    body futures of the task are all gone already. *)
Lemma tasks_empty_ids : forall e tk, tasks_empty e tk = true -> task_ids tk = [].
Proof.
  intros e tk H. unfold tasks_empty in H. apply is_nil_true in H.
  rewrite <- (body_ids_task_bodies e). now rewrite H.
Qed.

Lemma udrops_rt_callback : forall e t e0 e1 e2 w,
  e0 <> 6 -> InvLin w ->
  udrops (fst (rt_callback e t e0 e1 e2 w)) = udrops w.
Proof.
  intros e t e0 e1 e2 w NE I.
  destruct (rt_callback_cases e t e0 e1 e2 w) as [[_ ->]|(p & w3 & c & _ & TC & CS)]; cbn [fst].
  - apply Frame_udrops. unfold cb_entry. fr_auto.
  - assert (I2 : InvLin (cb_mid t w)) by (eapply InvLin_frame; [apply Frame_cb_mid|exact I]).
    pose proof (L_task_cb e t e0 e1 e2 [] (cb_mid t w) (proj1 I2)) as [L3 X3]. rewrite TC in L3, X3. cbn [fst] in *.
    assert (U3 : udrops w3 = udrops w).
    { rewrite (ex_udrops _ _ _ X3). apply Frame_udrops. apply Frame_cb_mid. }
    destruct CS as [(_ & ->)|[(NF & -> & ->)|(_ & _ & ->)]]; cbn [fst].
    + exact U3.
    + change (udrops (emit (VBoxFree t) ?x)) with (udrops x).
      destruct (task_cb_spec _ _ _ _ _ _ _ _ TC NF) as [(A & _)|(_ & P)]; [congruence|].
      cbn in P. destruct P as [P _].
      destruct (L_task_drop e t [] w3 L3) as [D1 D2 D3 D4 D5 D6 D7 D8 D9].
      rewrite D8; auto. eapply tasks_empty_ids; eauto.
    + rewrite <- U3. apply Frame_udrops. apply Frame_set_last. fr_auto.
Qed.

(** ** Box part (start_task / callback driver) *)
Record InvBox (w : world) : Prop := mkInvBox {
  ib_free_nodup : NoDup (boxfrees w);
  ib_free_dead : forall t, In t (boxfrees w) -> tk_alive (get_task t w) = false /\ tk_exited (get_task t w) = true;
  ib_new_nodup : NoDup (boxnews w);
  ib_new_life : forall t, In t (boxnews w) -> tk_alive (get_task t w) = true \/ tk_exited (get_task t w) = true;
  ib_alive_new : forall t, tk_alive (get_task t w) = true -> In t (boxnews w);
  ib_free_new : incl (boxfrees w) (boxnews w)
}.

Lemma InvBox_life : forall w w',
  boxfrees w' = boxfrees w -> boxnews w' = boxnews w ->
  (forall t, tk_alive (get_task t w') = tk_alive (get_task t w) /\ tk_exited (get_task t w') = tk_exited (get_task t w)) ->
  InvBox w -> InvBox w'.
Proof.
  intros w w' F N L [A B C D E G]. split; rewrite ?F, ?N; auto.
  - intros t H. destruct (L t) as [-> ->]. auto.
  - intros t H. destruct (L t) as [-> ->]. auto.
  - intros t H. destruct (L t) as [L1 _]. rewrite L1 in H. auto.
Qed.

Lemma InvBox_frame : forall w w', Frame w w' -> InvBox w -> InvBox w'.
Proof.
  intros w w' F B. apply (InvBox_life w w'); [now apply Frame_boxfrees|now apply Frame_boxnews| |exact B].
  intros t. split; [now apply fr_alive|now apply fr_exited].
Qed.

Lemma InvBox_ext : forall t w w', Ext t w w' -> InvBox w -> InvBox w'.
Proof. intros t w w' X. apply InvBox_life; [apply (ex_boxfrees _ _ _ X)|apply (ex_boxnews _ _ _ X)|apply (ex_life _ _ _ X)]. Qed.

Lemma InvBox_rt_callback : forall e t e0 e1 e2 w,
  tk_alive (get_task t w) = true -> InvLin w -> InvBox w -> InvBox (fst (rt_callback e t e0 e1 e2 w)).
Proof.
  intros e t e0 e1 e2 w AL I B.
  destruct (rt_callback_cases e t e0 e1 e2 w) as [[_ ->]|(p & w3 & c & _ & TC & CS)]; cbn [fst].
  - eapply InvBox_frame; [|exact B]. unfold cb_entry. fr_auto.
  - assert (I2 : InvLin (cb_mid t w)) by (eapply InvLin_frame; [apply Frame_cb_mid|exact I]).
    pose proof (L_task_cb e t e0 e1 e2 [] (cb_mid t w) (proj1 I2)) as [L3 X3]. rewrite TC in L3, X3. cbn [fst] in *.
    assert (B3 : InvBox w3) by (eapply InvBox_ext; [exact X3|]; eapply InvBox_frame; [apply Frame_cb_mid|exact B]).
    assert (AL3 : tk_alive (get_task t w3) = true).
    { destruct (ex_life _ _ _ X3 t) as [A1 _]. rewrite A1. exact AL. }
    destruct CS as [(_ & ->)|[(_ & _ & ->)|(_ & _ & ->)]]; cbn [fst].
    + exact B3.
    + destruct (L_task_drop e t [] w3 L3) as [D1 D2 D3 D4 D5 D6 D7 D8 D9].
      destruct B3 as [A Bd C D E G].
      assert (NI : ~ In t (boxfrees w3)).
      { intro H. destruct (Bd t H) as [H1 _]. congruence. }
      split; change (boxfrees (emit (VBoxFree t) ?x)) with (t :: boxfrees x);
        change (boxnews (emit (VBoxFree t) ?x)) with (boxnews x); rewrite ?D6, ?D7.
      * constructor; auto.
      * intros t' [<-|H]; rewrite get_task_emit; [auto|].
        destruct (N.eq_dec t' t) as [->|NE]; [auto|].
        destruct (D5 t' NE) as (_ & -> & ->). auto.
      * exact C.
      * intros t' H. rewrite get_task_emit. destruct (N.eq_dec t' t) as [->|NE]; [auto|].
        destruct (D5 t' NE) as (_ & -> & ->). auto.
      * intros t' H. rewrite get_task_emit in H. destruct (N.eq_dec t' t) as [->|NE]; [congruence|].
        destruct (D5 t' NE) as (_ & R1 & _). rewrite R1 in H. auto.
      * intros x [<-|H]; auto.
    + eapply InvBox_frame; [|exact B3]. apply Frame_set_last. fr_auto.
Qed.

(** ** Starting a task *)
Lemma new_task_ids : forall e t, task_ids (new_task e t) = [root_of e t].
Proof. intros. unfold new_task, task_ids, root_list. destruct (cf_spawn (e_cfg e)); reflexivity. Qed.

Lemma nmem_false_notin : forall x l, nmem x l = false -> ~ In x l.
Proof.
  unfold nmem. intros x l H I.
  assert (existsb (N.eqb x) l = true) by (apply existsb_exists; exists x; split; auto; apply N.eqb_refl).
  congruence.
Qed.

Lemma LinH_start : forall t x r hs w,
  task_ids x = [r] -> ~ In r (w_created w) -> task_ids (get_task t w) = [] ->
  LinH hs w -> LinH hs (set_created (r :: w_created w) (put_task t x w)).
Proof.
  intros t x r hs w IX NI I0 [H1 H2]. split.
  - cbn [w_created set_created]. constructor; auto.
  - cbn [w_created set_created].
    change (ended (set_created (r :: w_created w) (put_task t x w))) with (ended w).
    assert (E : Permutation (live_bodies (set_created (r :: w_created w) (put_task t x w))) (r :: live_bodies w)).
    { change (live_bodies (set_created (r :: w_created w) (put_task t x w))) with (live_bodies (put_task t x w)).
      rewrite live_put_split, (live_split t w), IX, I0. reflexivity. }
    rewrite E, H2. rewrite <- !Permutation_middle. reflexivity.
Qed.

Definition start_world (e : env) (t : N) (w : world) : world :=
  set_created (root_of e t :: w_created w) (put_task t (new_task e t) w).

Lemma can_start_facts : forall e t w, can_start e t w = true ->
  tk_alive (get_task t w) = false /\ tk_exited (get_task t w) = false /\ ~ In (root_of e t) (w_created w).
Proof.
  unfold can_start. intros e t w H.
  apply andb_true_iff in H as [H H3]. apply andb_true_iff in H as [H H2]. apply andb_true_iff in H as [H H1].
  apply negb_true_iff in H1, H2, H3. split; [exact H1|split; [exact H2|]]. now apply nmem_false_notin.
Qed.

Lemma InvLin_start_world : forall e t w,
  tk_alive (get_task t w) = false -> ~ In (root_of e t) (w_created w) ->
  InvLin w -> InvLin (start_world e t w).
Proof.
  intros e t w A NI (L & D & K). unfold start_world. split; [|split].
  - apply LinH_start; auto using new_task_ids.
  - intros t' H. change (get_task t' (set_created ?c ?x)) with (get_task t' x) in *.
    rewrite get_put in *. destruct (N.eqb t t') eqn:E.
    + unfold new_task in H. cbn in H. discriminate.
    + now apply D.
  - cbn [w_tasks set_created put_task set_tasks]. now apply tset_keys_nodup.
Qed.

Lemma start_world_alive : forall e t w, tk_alive (get_task t (start_world e t w)) = true.
Proof. intros. unfold start_world. change (get_task t (set_created ?c ?x)) with (get_task t x). now rewrite get_put_same. Qed.

Lemma start_world_other : forall e t t' w, t' <> t -> get_task t' (start_world e t w) = get_task t' w.
Proof. intros. unfold start_world. change (get_task t' (set_created ?c ?x)) with (get_task t' x). apply get_put_other. now apply not_eq_sym. Qed.

(** Shape of [start_task]. *)
Definition st_pre (t : N) (w : world) : world :=
  fst (ctx_get_logged (emit (VBoxNew t) (hostf (set_cur_task t) (emit (VPreStart t) w)))).
Definition st_mid (e : env) (t : N) (w : world) : world :=
  ctx_set_logged (Some (t + 1)) (start_world e t (st_pre t w)).

Lemma rt_start_cases : forall e t w,
  rt_start e t w = fail E_CTX_NOTNULL (st_pre t w)
  \/ (let r := rt_callback e t 0 0 0 (st_mid e t w) in
      rt_start e t w = if failed (fst r) then fst r else emit (VStart t (snd r)) (fst r)).
Proof.
  intros. unfold rt_start, st_mid, st_pre, start_world, ctx_get_logged. cbn [fst].
  match goal with |- context [match ?x with Some _ => _ | None => _ end] => destruct x end; [left; reflexivity|right].
  cbv zeta. match goal with |- context [rt_callback e t 0 0 0 ?x] => destruct (rt_callback e t 0 0 0 x) end.
  reflexivity.
Qed.

Lemma st_pre_task : forall t t' w, get_task t' (st_pre t w) = get_task t' w.
Proof. reflexivity. Qed.
Lemma st_pre_created : forall t w, w_created (st_pre t w) = w_created w.
Proof. reflexivity. Qed.

Lemma InvLin_st_pre : forall t w, InvLin w -> InvLin (st_pre t w).
Proof.
  intros t w I. unfold st_pre, ctx_get_logged. cbn [fst].
  set (wa := hostf (set_cur_task t) (emit (VPreStart t) w)).
  assert (Ia : InvLin wa) by (eapply InvLin_frame; [|exact I]; unfold wa; fr_auto).
  assert (Ib : InvLin (emit (VBoxNew t) wa)) by (apply InvLin_emit_box; [intros; discriminate|exact Ia]).
  eapply InvLin_frame; [|exact Ib]. fr_auto.
Qed.

Lemma InvLin_st_mid : forall e t w, can_start e t w = true -> InvLin w -> InvLin (st_mid e t w).
Proof.
  intros e t w CS I. destruct (can_start_facts _ _ _ CS) as (A & B & C).
  unfold st_mid. eapply InvLin_frame; [|apply InvLin_start_world; [| |apply InvLin_st_pre; exact I]].
  - fr_auto.
  - now rewrite st_pre_task.
  - now rewrite st_pre_created.
Qed.

Lemma st_mid_alive : forall e t w, tk_alive (get_task t (st_mid e t w)) = true.
Proof. intros. unfold st_mid. change (get_task t (ctx_set_logged ?v ?x)) with (get_task t x). apply start_world_alive. Qed.

Lemma InvLin_rt_start : forall e t w, can_start e t w = true -> InvLin w -> InvLin (rt_start e t w).
Proof.
  intros e t w CS I. destruct (rt_start_cases e t w) as [->| ->].
  - eapply InvLin_frame; [|apply InvLin_st_pre; exact I]. fr_auto.
  - cbv zeta.
    assert (I7 : InvLin (fst (rt_callback e t 0 0 0 (st_mid e t w)))).
    { apply InvLin_rt_callback; [apply st_mid_alive|now apply InvLin_st_mid]. }
    destruct (failed _); auto; try (eapply InvLin_frame; [|exact I7]; fr_auto).
Qed.

Lemma udrops_fail : forall c w, udrops (fail c w) = udrops w.
Proof. intros. unfold fail. now destruct (w_err w). Qed.

Lemma udrops_rt_start : forall e t w, can_start e t w = true -> InvLin w -> udrops (rt_start e t w) = udrops w.
Proof.
  intros e t w CS I. destruct (rt_start_cases e t w) as [->| ->].
  - rewrite udrops_fail. reflexivity.
  - cbv zeta.
    assert (U : udrops (fst (rt_callback e t 0 0 0 (st_mid e t w))) = udrops w).
    { rewrite udrops_rt_callback; [reflexivity|lia|now apply InvLin_st_mid]. }
    destruct (failed _); auto.
Qed.

Lemma InvBox_rt_start : forall e t w,
  can_start e t w = true -> failed (rt_start e t w) = false -> InvLin w -> InvBox w -> InvBox (rt_start e t w).
Proof.
  intros e t w CS NF I B. destruct (can_start_facts _ _ _ CS) as (A & X & C).
  assert (BM : InvBox (st_mid e t w)).
  { destruct B as [B1 B2 B3 B4 B5 B6].
    assert (NN : ~ In t (boxnews w)) by (intro H; destruct (B4 t H); congruence).
    assert (NFr : ~ In t (boxfrees w)) by (intro H; destruct (B2 t H); congruence).
    assert (G : forall t', t' <> t -> get_task t' (st_mid e t w) = get_task t' w).
    { intros t' NE. unfold st_mid. change (get_task t' (ctx_set_logged ?v ?x)) with (get_task t' x).
      rewrite start_world_other by auto. apply st_pre_task. }
    split; change (boxfrees (st_mid e t w)) with (boxfrees w); change (boxnews (st_mid e t w)) with (t :: boxnews w).
    - exact B1.
    - intros t' H. destruct (N.eq_dec t' t) as [->|NE]; [contradiction|]. rewrite G by auto. auto.
    - constructor; auto.
    - intros t' [<-|H]; [left; apply st_mid_alive|].
      destruct (N.eq_dec t' t) as [->|NE]; [left; apply st_mid_alive|]. rewrite G by auto. auto.
    - intros t' H. destruct (N.eq_dec t' t) as [->|NE]; [left; auto|]. rewrite G in H by auto. right. auto.
    - intros x H. right. now apply B6. }
  destruct (rt_start_cases e t w) as [E|E]; rewrite E in *.
  - now rewrite failed_fail in NF.
  - cbv zeta in *.
    assert (B7 : InvBox (fst (rt_callback e t 0 0 0 (st_mid e t w)))).
    { apply InvBox_rt_callback; [apply st_mid_alive|now apply InvLin_st_mid|exact BM]. }
    destruct (failed (fst (rt_callback e t 0 0 0 (st_mid e t w)))) eqn:F7.
    { rewrite F7 in NF. congruence. }
    eapply InvBox_frame; [|exact B7]. fr_auto.
Qed.

(** ** Pending host events stay well-kinded *)
Definition HKw (w : world) : Prop := HK (w_host w).

Lemma HK_ctx_set : forall v h, HK h -> HK (h_ctx_set v h).
Proof. intros v h H. unfold h_ctx_set. destruct v; exact H. Qed.

Lemma HKw_cb_mid : forall t w, HKw w -> HKw (cb_mid t w).
Proof. intros t w H. exact H. Qed.

Lemma host_set_last_early : forall t c p w, w_host (set_last t c (ctx_set_logged (Some p) w)) = w_host (ctx_set_logged (Some p) w).
Proof. intros. unfold set_last. now destruct c. Qed.

Lemma HKw_rt_callback : forall e t e0 e1 e2 w, HKw w -> HKw (fst (rt_callback e t e0 e1 e2 w)).
Proof.
  intros e t e0 e1 e2 w H.
  destruct (rt_callback_cases e t e0 e1 e2 w) as [[_ ->]|(p & w3 & c & _ & TC & CS)]; cbn [fst].
  - unfold HKw. rewrite host_fail. exact H.
  - assert (H3 : HKw w3).
    { pose proof (RK_task_cb e t e0 e1 e2 (cb_mid t w)) as R. rewrite TC in R. cbn [fst] in R. apply R. now apply HKw_cb_mid. }
    destruct CS as [(_ & ->)|[(_ & _ & ->)|(_ & _ & ->)]]; cbn [fst].
    + exact H3.
    + unfold HKw. cbn. apply (RK_task_drop e t w3). exact H3.
    + unfold HKw. rewrite host_set_last_early. exact H3.
Qed.

Lemma HKw_rt_start : forall e t w, HKw w -> HKw (rt_start e t w).
Proof.
  intros e t w H. destruct (rt_start_cases e t w) as [->| ->].
  - unfold HKw. rewrite host_fail. exact H.
  - cbv zeta.
    assert (H7 : HKw (fst (rt_callback e t 0 0 0 (st_mid e t w)))).
    { apply HKw_rt_callback. exact H. }
    destruct (failed _); auto.
Qed.

(** ** Context slot 0 *)
Lemma alookup_aremove_same : forall A k (l : list (N * A)), alookup k (aremove k l) = None.
Proof. induction l as [|[k' v] r IH]; cbn; auto. destruct (N.eqb k k') eqn:E; cbn; rewrite ?E; auto. Qed.
Lemma alookup_aremove_other : forall A k k' (l : list (N * A)), k <> k' -> alookup k' (aremove k l) = alookup k' l.
Proof.
  induction l as [|[k0 v] r IH]; cbn; intros NE; auto.
  destruct (N.eqb k k0) eqn:E; cbn.
  - apply N.eqb_eq in E. subst. destruct (N.eqb k' k0) eqn:E2; auto. apply N.eqb_eq in E2. congruence.
  - destruct (N.eqb k' k0); auto.
Qed.
Lemma alookup_aset_same : forall A k (v : A) l, alookup k (aset k v l) = Some v.
Proof. intros. unfold aset. cbn. now rewrite N.eqb_refl. Qed.
Lemma alookup_aset_other : forall A k k' (v : A) l, k <> k' -> alookup k' (aset k v l) = alookup k' l.
Proof.
  intros. unfold aset. cbn. destruct (N.eqb k' k) eqn:E; [apply N.eqb_eq in E; congruence|].
  now apply alookup_aremove_other.
Qed.

Definition ctx_of (t : N) (w : world) : option N := alookup t (ctx (w_host w)).
Definition InvCtx (w : world) : Prop :=
  (forall t, ctx_of t w <> None <-> tk_alive (get_task t w) = true) /\ obs_ok w.

Lemma InvCtx_frame : forall w w', Frame w w' -> Rctx (w_host w) (w_host w') -> InvCtx w -> InvCtx w'.
Proof.
  intros w w' F [R1 R2] [A B]. split.
  - intros t. unfold ctx_of. rewrite R1, (fr_alive _ _ F). apply A.
  - unfold obs_ok. now rewrite (Frame_ctx_obs _ _ F).
Qed.

Lemma obs_body_drop : forall e t bd w, ctx_obs (body_drop e t bd w) = ctx_obs w.
Proof.
  intros. unfold body_drop. change (ctx_obs (emit (VEnd ?b false) ?x)) with (ctx_obs x).
  apply Frame_ctx_obs. fr_auto.
Qed.

Lemma obs_drop_bodies : forall e t l w, ctx_obs (fold_left (fun w bd => body_drop e t bd w) l w) = ctx_obs w.
Proof. induction l as [|bd r IH]; intros w; cbn [fold_left]; auto. rewrite IH. apply obs_body_drop. Qed.

Lemma obs_task_drop : forall e t w, ctx_obs (task_drop e t w) = ctx_obs w.
Proof.
  intros. unfold task_drop. cbv zeta.
  set (w1 := cancel_itw_read e t w).
  assert (O1 : ctx_obs w1 = ctx_obs w) by (apply Frame_ctx_obs; unfold w1; fr_auto).
  set (w2 := if is_nil (task_bodies e (get_task t w1)) then w1 else _).
  assert (O2 : ctx_obs w2 = ctx_obs w1).
  { unfold w2. destruct (is_nil _); auto.
    change (ctx_obs (set_cur (w_cur w1) ?x)) with (ctx_obs x). rewrite obs_drop_bodies. reflexivity. }
  set (w3 := upd_task t (fun tk => tk_with_alive false (tk_with_exited true (tk_with_fu fu_dead tk))) w2).
  assert (O3 : ctx_obs w3 = ctx_obs w2) by reflexivity.
  match goal with |- ctx_obs ?wf = _ => assert (F : Frame w3 wf) by fr_auto end.
  rewrite (Frame_ctx_obs _ _ F). congruence.
Qed.

Lemma host_set_last : forall t c w, w_host (set_last t c w) = w_host w.
Proof. intros. unfold set_last. now destruct c. Qed.
Lemma task_set_last : forall t c w t',
  tk_alive (get_task t' (set_last t c w)) = tk_alive (get_task t' w).
Proof.
  intros. unfold set_last. destruct c; auto. rewrite get_upd. destruct (N.eqb t t') eqn:E; auto.
  apply N.eqb_eq in E. now subst.
Qed.
Lemma obs_set_last : forall t c w, ctx_obs (set_last t c w) = ctx_obs w.
Proof. intros. unfold set_last. now destruct c. Qed.

Lemma InvCtx_rt_callback : forall e t e0 e1 e2 w,
  tk_alive (get_task t w) = true -> InvLin w -> InvCtx w ->
  failed (fst (rt_callback e t e0 e1 e2 w)) = false ->
  InvCtx (fst (rt_callback e t e0 e1 e2 w)).
Proof.
  intros e t e0 e1 e2 w AL I [C O] NF.
  destruct (rt_callback_cases e t e0 e1 e2 w) as [[_ E]|(p & w3 & c & G & TC & CS)].
  { rewrite E in NF. cbn [fst] in NF. now rewrite failed_fail in NF. }
  (* the state in which TaskState::callback runs *)
  assert (CM : ctx (w_host (cb_mid t w)) = aremove t (ctx (w_host w)) /\ cur_task (w_host (cb_mid t w)) = t) by (split; reflexivity).
  destruct CM as [CM1 CM2].
  assert (SN : slot_null (cb_mid t w)).
  { unfold slot_null, h_ctx_get. rewrite CM1, CM2. apply alookup_aremove_same. }
  assert (OM : obs_ok (cb_mid t w)) by exact O.
  pose proof (CK_task_cb e t e0 e1 e2 (cb_mid t w) SN OM) as [SN3 O3]. rewrite TC in SN3, O3. cbn [fst] in *.
  pose proof (RC_task_cb e t e0 e1 e2 (cb_mid t w)) as [R1 R2]. rewrite TC in R1, R2. cbn [fst] in *.
  assert (I2 : InvLin (cb_mid t w)) by (eapply InvLin_frame; [apply Frame_cb_mid|exact I]).
  pose proof (L_task_cb e t e0 e1 e2 [] (cb_mid t w) (proj1 I2)) as [L3 X3]. rewrite TC in L3, X3. cbn [fst] in *.
  assert (AL3 : forall t', tk_alive (get_task t' w3) = tk_alive (get_task t' w)).
  { intros t'. destruct (ex_life _ _ _ X3 t') as [A1 _]. exact A1. }
  destruct CS as [(F3 & E)|[(_ & _ & E)|(_ & _ & E)]]; rewrite E in *; cbn [fst] in *.
  - congruence.
  - destruct (L_task_drop e t [] w3 L3) as [D1 D2 D3 D4 D5 D6 D7 D8 D9].
    pose proof (RC_task_drop e t w3) as [Q1 Q2].
    split.
    + intros t'. unfold ctx_of. cbn [emit w_host hostf set_host set_trace h_emit ctx].
      change (ctx (h_emit ?a ?h)) with (ctx h). rewrite Q1, R1, CM1. rewrite get_task_emit.
      destruct (N.eq_dec t' t) as [->|NE].
      * rewrite alookup_aremove_same, D2. split; [congruence|discriminate].
      * rewrite alookup_aremove_other by (now apply not_eq_sym).
        destruct (D5 t' NE) as (_ & B1 & _). rewrite B1, AL3. apply C.
    + unfold obs_ok. change (ctx_obs (emit (VBoxFree t) ?x)) with (ctx_obs x). rewrite obs_task_drop. exact O3.
  - split.
    + intros t'. unfold ctx_of. rewrite host_set_last, task_set_last.
      change (get_task t' (ctx_set_logged (Some p) w3)) with (get_task t' w3).
      assert (EC : ctx (w_host (ctx_set_logged (Some p) w3)) = aset t p (ctx (w_host w3))).
      { unfold ctx_set_logged. cbn. unfold h_ctx_set. now rewrite R2, CM2. }
      rewrite EC, R1, CM1, AL3.
      destruct (N.eq_dec t' t) as [->|NE].
      * rewrite alookup_aset_same. split; [auto|discriminate].
      * rewrite alookup_aset_other by (now apply not_eq_sym).
        rewrite alookup_aremove_other by (now apply not_eq_sym). apply C.
    + unfold obs_ok. rewrite obs_set_last. exact O3.
Qed.

Lemma InvCtx_rt_start : forall e t w,
  can_start e t w = true -> failed (rt_start e t w) = false -> InvLin w -> InvCtx w -> InvCtx (rt_start e t w).
Proof.
  intros e t w CS NF I [C O]. destruct (can_start_facts _ _ _ CS) as (A & X & NC).
  assert (CM : InvCtx (st_mid e t w)).
  { split; [|exact O]. intros t'. unfold ctx_of.
    assert (EC : ctx (w_host (st_mid e t w)) = aset t (t + 1) (ctx (w_host w))) by reflexivity.
    rewrite EC. destruct (N.eq_dec t' t) as [->|NE].
    - rewrite alookup_aset_same, st_mid_alive. split; [auto|discriminate].
    - rewrite alookup_aset_other by (now apply not_eq_sym).
      unfold st_mid. change (get_task t' (ctx_set_logged ?v ?x)) with (get_task t' x).
      rewrite start_world_other, st_pre_task by auto. apply C. }
  destruct (rt_start_cases e t w) as [E|E]; rewrite E in *.
  - now rewrite failed_fail in NF.
  - cbv zeta in *.
    destruct (failed (fst (rt_callback e t 0 0 0 (st_mid e t w)))) eqn:F7.
    { rewrite F7 in NF. congruence. }
    assert (C7 : InvCtx (fst (rt_callback e t 0 0 0 (st_mid e t w)))).
    { apply InvCtx_rt_callback; auto; [apply st_mid_alive|now apply InvLin_st_mid]. }
    eapply InvCtx_frame; [| |exact C7]; [fr_auto|split; reflexivity].
Qed.

(** ** The whole invariant of the start_task/callback driver *)
Record InvS (w : world) : Prop := mkInvS {
  is_lin : InvLin w;
  is_hk : HKw w;
  is_ok : failed w = false -> InvBox w /\ InvCtx w
}.

Lemma InvS_frame : forall w w',
  Frame w w' -> Rctx (w_host w) (w_host w') -> Rhk (w_host w) (w_host w') ->
  failed w = false -> InvS w -> InvS w'.
Proof.
  intros w w' F RC RK NF [A B C]. destruct (C NF) as [C1 C2]. split.
  - eapply InvLin_frame; eauto.
  - apply RK. exact B.
  - intros _. split; [eapply InvBox_frame; eauto|eapply InvCtx_frame; eauto].
Qed.

Lemma InvS_do_callback : forall e t e0 e1 e2 w,
  tk_alive (get_task t w) = true -> failed w = false -> InvS w -> InvS (do_callback e t e0 e1 e2 w).
Proof.
  intros e t e0 e1 e2 w AL NF [A B C]. destruct (C NF) as [C1 C2]. unfold do_callback.
  pose proof (InvLin_rt_callback e t e0 e1 e2 w AL A) as I1.
  pose proof (HKw_rt_callback e t e0 e1 e2 w B) as H1.
  pose proof (InvBox_rt_callback e t e0 e1 e2 w AL A C1) as B1.
  pose proof (InvCtx_rt_callback e t e0 e1 e2 w AL A C2) as X1.
  destruct (rt_callback e t e0 e1 e2 w) as [w1 code]. cbn [fst] in *.
  destruct (failed w1) eqn:F1.
  - split; auto. congruence.
  - split.
    + eapply InvLin_frame; [|exact I1]. fr_auto.
    + exact H1.
    + intros _. split; [eapply InvBox_frame; [|exact B1]; fr_auto|].
      eapply InvCtx_frame; [| |apply X1; auto]; [fr_auto|split; reflexivity].
Qed.

Lemma udrops_do_callback : forall e t e0 e1 e2 w,
  e0 <> 6 -> InvLin w -> udrops (do_callback e t e0 e1 e2 w) = udrops w.
Proof.
  intros e t e0 e1 e2 w NE I. unfold do_callback.
  pose proof (udrops_rt_callback e t e0 e1 e2 w NE I) as U.
  destruct (rt_callback e t e0 e1 e2 w) as [w1 code]. cbn [fst] in *.
  destruct (failed w1); auto.
Qed.

Lemma InvS_rt_start : forall e t w, can_start e t w = true -> failed w = false -> InvS w -> InvS (rt_start e t w).
Proof.
  intros e t w CS NF [A B C]. destruct (C NF) as [C1 C2]. split.
  - now apply InvLin_rt_start.
  - now apply HKw_rt_start.
  - intros NF'. split; [now apply InvBox_rt_start|now apply InvCtx_rt_start].
Qed.

Lemma hostr_poll_facts : forall b s w w1 e0 e1 e2,
  hostr (h_wait_poll b s) w = (w1, (e0, e1, e2)) -> HKw w ->
  Frame w w1 /\ Rctx (w_host w) (w_host w1) /\ Rhk (w_host w) (w_host w1) /\ e0 <= 5 /\ failed w1 = failed w.
Proof.
  intros b s w w1 e0 e1 e2 H K. unfold hostr in H.
  destruct (h_wait_poll b s (w_host w)) as [h' r] eqn:E. inversion H; subst.
  split; [apply Frame_same; reflexivity|].
  assert (EQ : h' = fst (h_wait_poll b s (w_host w))) by now rewrite E.
  split; [cbn; rewrite EQ; apply Cx_wait_poll|]. split; [cbn; rewrite EQ; apply Hk_wait_poll|].
  split; [eapply wait_poll_kind; eauto|reflexivity].
Qed.

Definition is_cancel (a : action) : bool := match a with ACancel _ => true | _ => false end.

Lemma InvS_do_action : forall e w a, is_raw a = false -> InvS w -> InvS (do_action e w a).
Proof.
  intros e w a NR I. unfold do_action. destruct (failed w) eqn:NF; [exact I|].
  destruct a; try discriminate.
  - destruct (can_start e t w) eqn:CS; [now apply InvS_rt_start|exact I].
  - destruct (tk_alive (get_task t w)) eqn:AL; [now apply InvS_do_callback|exact I].
  - destruct (tk_alive (get_task t w)) eqn:AL; [|exact I].
    destruct (tk_lastset (get_task t w)); [|now apply InvS_do_callback].
    destruct (hostr (h_wait_poll false n) w) as [w1 [[e0 e1] e2]] eqn:HP.
    destruct (hostr_poll_facts _ _ _ _ _ _ _ HP (is_hk _ I)) as (F & RC & RK & _ & FF).
    apply InvS_do_callback.
    + now rewrite (fr_alive _ _ F).
    + congruence.
    + eapply InvS_frame; eauto.
  - destruct (tk_alive (get_task t w)) eqn:AL; [now apply InvS_do_callback|exact I].
  - eapply InvS_frame; eauto; [fr_auto|apply RC_host_action|apply RK_host_action].
  - eapply InvS_frame; eauto; [fr_auto|apply RC_host_action|apply RK_host_action].
  - eapply InvS_frame; eauto; [fr_auto|apply RC_host_action|apply RK_host_action].
  - eapply InvS_frame; eauto; [fr_auto|apply RC_host_action|apply RK_host_action].
  - eapply InvS_frame; eauto; [fr_auto|apply RC_host_action|apply RK_host_action].
  - eapply InvS_frame; eauto; [fr_auto|apply RC_cleanup|apply RK_cleanup].
Qed.

Lemma udrops_do_action : forall e w a,
  is_raw a = false -> is_cancel a = false -> InvS w -> udrops (do_action e w a) = udrops w.
Proof.
  intros e w a NR NC I. unfold do_action. destruct (failed w) eqn:NF; [reflexivity|].
  destruct a; try discriminate.
  - destruct (can_start e t w) eqn:CS; [|reflexivity]. apply udrops_rt_start; auto. apply I.
  - destruct (tk_alive (get_task t w)); [|reflexivity]. apply udrops_do_callback; [lia|apply I].
  - destruct (tk_alive (get_task t w)) eqn:AL; [|reflexivity].
    destruct (tk_lastset (get_task t w)); [|apply udrops_do_callback; [lia|apply I]].
    destruct (hostr (h_wait_poll false n) w) as [w1 [[e0 e1] e2]] eqn:HP.
    destruct (hostr_poll_facts _ _ _ _ _ _ _ HP (is_hk _ I)) as (F & RC & RK & K & FF).
    rewrite udrops_do_callback; [now apply Frame_udrops|lia|].
    eapply InvLin_frame; [exact F|apply I].
  - apply Frame_udrops. fr_auto.
  - apply Frame_udrops. fr_auto.
  - apply Frame_udrops. fr_auto.
  - apply Frame_udrops. fr_auto.
  - apply Frame_udrops. fr_auto.
  - apply Frame_udrops. fr_auto.
Qed.

Lemma InvS_world0 : InvS world0.
Proof.
  split.
  - split; [|split].
    + split; [constructor|reflexivity].
    + intros t _. reflexivity.
    + constructor.
  - constructor.
  - intros _. split.
    + split.
      * constructor.
      * intros t H0. contradiction.
      * constructor.
      * intros t H0. contradiction.
      * intros t H0. discriminate.
      * intros x H0. contradiction.
    + split; [|constructor]. intros t. cbn. split; [congruence|discriminate].
Qed.

Lemma InvS_run_actions : forall e acts w, no_raw acts = true -> InvS w -> InvS (run_actions e acts w).
Proof.
  induction acts as [|a r IH]; intros w NR I; cbn [run_actions fold_left]; auto.
  cbn in NR. apply andb_true_iff in NR as [N1 N2]. apply negb_true_iff in N1.
  apply IH; auto. now apply InvS_do_action.
Qed.

Lemma udrops_run_actions : forall e acts w,
  no_raw acts = true -> forallb (fun a => negb (is_cancel a)) acts = true -> InvS w ->
  udrops (run_actions e acts w) = udrops w.
Proof.
  induction acts as [|a r IH]; intros w NR NC I; cbn [run_actions fold_left]; auto.
  cbn in NR, NC. apply andb_true_iff in NR as [N1 N2]. apply negb_true_iff in N1.
  apply andb_true_iff in NC as [C1 C2]. apply negb_true_iff in C1.
  unfold run_actions in IH. rewrite IH; auto; [now apply udrops_do_action|now apply InvS_do_action].
Qed.

(** ** block_on *)
Lemma hook_action_host : forall e w, w_host (snd (hook_action e w)) = w_host w.
Proof. intros. unfold hook_action. repeat match goal with |- context [match ?x with _ => _ end] => destruct x end; reflexivity. Qed.

Lemma bon_wait_facts : forall e s fuel w,
  HKw w ->
  Frame w (fst (bon_wait fuel e s w)) /\ HKw (fst (bon_wait fuel e s w))
  /\ fst (fst (snd (bon_wait fuel e s w))) <= 5.
Proof.
  induction fuel as [|fuel IH]; intros w K; cbn [bon_wait].
  - cbn. split; [auto with fr|split; [unfold HKw; now rewrite host_fail|lia]].
  - destruct (failed w); [cbn; split; [apply Frame_refl|split; [auto|lia]]|].
    assert (P : forall w0, HKw w0 -> Frame w w0 ->
              Frame w (fst (hostr (h_wait_poll true s) w0)) /\ HKw (fst (hostr (h_wait_poll true s) w0))
              /\ fst (fst (snd (hostr (h_wait_poll true s) w0))) <= 5).
    { intros w0 K0 F0. destruct (hostr (h_wait_poll true s) w0) as [w1 [[e0 e1] e2]] eqn:HP.
      destruct (hostr_poll_facts _ _ _ _ _ _ _ HP K0) as (F & RC & RK & KK & _). cbn.
      split; [eapply Frame_trans; eauto|split; [now apply RK|exact KK]]. }
    destruct (negb (is_set (w_host w) s) || negb (is_nil (ready_in (w_host w) s))); [apply P; auto using Frame_refl|].
    pose proof (Frame_hook_action e w w (Frame_refl w)) as FH.
    pose proof (hook_action_host e w) as HH.
    destruct (hook_action e w) as [oa w1]. cbn [snd] in *.
    assert (K1 : HKw w1) by (unfold HKw; now rewrite HH).
    destruct oa as [a|].
    + assert (K2 : HKw (host_action e a w1)) by (apply (RK_host_action e a w1); exact K1).
      destruct (IH _ K2) as (A & B & C). split; [|split; auto].
      eapply Frame_trans; [exact FH|]. eapply Frame_trans; [|exact A]. auto with fr.
    + set (w2 := set_deadlocks (w_deadlocks w1 + 1) w1).
      assert (F2 : Frame w w2) by (unfold w2; auto with fr).
      destruct (2 <=? w_deadlocks w2).
      * cbn. split; [auto with fr|split; [unfold HKw; now rewrite host_fail|lia]].
      * apply P; auto.
Qed.

Definition InvB (t : N) (w0 w : world) : Prop :=
  InvLin w /\ HKw w /\ udrops w = udrops w0.

Lemma bon_loop_inv : forall e t fuel ev w w0,
  fst (fst ev) <= 5 -> tk_alive (get_task t w) = true -> InvB t w0 w ->
  InvB t w0 (bon_loop fuel e t ev w).
Proof.
  induction fuel as [|fuel IH]; intros [[e0 e1] e2] w w0 KE AL (I & K & U); cbn [bon_loop].
  - split; [eapply InvLin_frame; [|exact I]; auto with fr|split; [unfold HKw; now rewrite host_fail|now rewrite udrops_fail]].
  - cbn [fst] in KE.
    pose proof (L_task_cb e t e0 e1 e2 [] w (proj1 I)) as [L3 X3].
    pose proof (RK_task_cb e t e0 e1 e2 w) as R3.
    destruct (task_cb e t e0 e1 e2 w) as [w3 c] eqn:TC. cbn [fst] in *.
    assert (I3 : InvLin w3) by (eapply InvLin_ext; [split; eauto|exact AL|exact I]).
    assert (K3 : HKw w3) by (apply R3; exact K).
    assert (U3 : udrops w3 = udrops w0) by (rewrite (ex_udrops _ _ _ X3); exact U).
    assert (AL3 : tk_alive (get_task t w3) = true) by (destruct (ex_life _ _ _ X3 t) as [A1 _]; congruence).
    destruct (failed w3) eqn:F3; [split; auto|].
    destruct c.
    + (* Exit *)
      split; [|split].
      * apply InvLin_emit_box; [intros; discriminate|]. now apply InvLin_drop.
      * unfold HKw. cbn. apply (RK_task_drop e t w3). exact K3.
      * change (udrops (emit (VBon t) ?x)) with (udrops x).
        destruct (task_cb_spec _ _ _ _ _ _ _ _ TC F3) as [(A & _)|(_ & P)]; [lia|].
        cbn in P. destruct P as [P _].
        destruct (L_task_drop e t [] w3 L3) as [D1 D2 D3 D4 D5 D6 D7 D8 D9].
        rewrite D8; auto. eapply tasks_empty_ids; eauto.
    + (* Yield *)
      destruct (tk_set (get_task t w3)) as [s|].
      * destruct (hostr (h_wait_poll false s) w3) as [w4 [[a b] d]] eqn:HP.
        destruct (hostr_poll_facts _ _ _ _ _ _ _ HP K3) as (F & RC & RK & KK & _).
        apply IH; [exact KK|now rewrite (fr_alive _ _ F)|].
        split; [eapply InvLin_frame; eauto|split; [now apply RK|now rewrite (Frame_udrops _ _ F)]].
      * split; [eapply InvLin_frame; [|exact I3]; auto with fr|split; [unfold HKw; now rewrite host_fail|now rewrite udrops_fail]].
    + (* Wait *)
      destruct (tk_set (get_task t w3)) as [s'|].
      * destruct (bon_wait_facts e s' (e_fuel e) w3 K3) as (F & K4 & KK).
        destruct (bon_wait (e_fuel e) e s' w3) as [w4 ev4]. cbn [fst snd] in *.
        apply IH; [exact KK|now rewrite (fr_alive _ _ F)|].
        split; [eapply InvLin_frame; eauto|split; [exact K4|now rewrite (Frame_udrops _ _ F)]].
      * split; [eapply InvLin_frame; [|exact I3]; auto with fr|split; [unfold HKw; now rewrite host_fail|now rewrite udrops_fail]].
Qed.

Lemma run_block_on_inv : forall e w,
  InvLin w -> HKw w -> tk_alive (get_task 0 w) = false -> ~ In (root_of e 0) (w_created w) ->
  InvB 0 w (run_block_on e 0 w).
Proof.
  intros e w I K A NI. unfold run_block_on.
  set (w1 := hostf (set_cur_task 0) w).
  assert (I1 : InvLin w1) by (eapply InvLin_frame; [|exact I]; unfold w1; fr_auto).
  apply bon_loop_inv; [cbn; lia|apply (start_world_alive e 0 w1)|].
  split; [apply (InvLin_start_world e 0 w1); auto|split; [exact K|reflexivity]].
Qed.

(** ** Whole runs *)
Lemma cleanup_facts : forall w, Frame w (cleanup w) /\ Rhk (w_host w) (w_host (cleanup w)).
Proof. intros. split; [fr_auto|apply RK_cleanup]. Qed.

Theorem run_linear : forall sc, no_raw (sc_actions sc) = true -> InvLin (run sc).
Proof.
  intros sc NR. unfold run.
  set (w := if e_start (sc_env sc) then _ else _).
  assert (I : InvLin w).
  { unfold w. destruct (e_start (sc_env sc)).
    - apply InvS_run_actions; auto. apply InvS_world0.
    - destruct InvS_world0 as [A B C].
      assert (R : InvB 0 (set_script (sc_actions sc) world0) (run_block_on (sc_env sc) 0 (set_script (sc_actions sc) world0))).
      { apply run_block_on_inv.
        - eapply InvLin_frame; [|exact A]. apply Frame_same; reflexivity.
        - constructor.
        - reflexivity.
        - intros H. contradiction. }
      now destruct R as (R & _ & _). }
  destruct (failed w); auto. eapply InvLin_frame; [|exact I]. fr_auto.
Qed.

(** No body future is ever destroyed twice, and only futures that were created are destroyed. *)
Theorem ended_once : forall sc, no_raw (sc_actions sc) = true ->
  NoDup (ended (run sc)) /\ incl (ended (run sc)) (w_created (run sc)).
Proof.
  intros sc NR. destruct (run_linear sc NR) as ([ND P] & _ & _). split.
  - eapply Permutation_NoDup in ND; [|exact P]. now apply nodup_app_l in ND.
  - intros x H. eapply Permutation_in; [symmetry; exact P|]. apply in_or_app. auto.
Qed.

(** Without EVENT_CANCEL no unfinished body future is ever destroyed: whatever was spawned runs to
    completion before the task exits (block_on can not be cancelled at all). *)
Theorem no_unfinished_drop_without_cancel : forall sc,
  no_raw (sc_actions sc) = true ->
  (e_start (sc_env sc) = true -> forallb (fun a => negb (is_cancel a)) (sc_actions sc) = true) ->
  udrops (run sc) = [].
Proof.
  intros sc NR NC. unfold run.
  set (w := if e_start (sc_env sc) then _ else _).
  assert (U : udrops w = []).
  { unfold w. destruct (e_start (sc_env sc)).
    - rewrite udrops_run_actions; auto. apply InvS_world0.
    - destruct InvS_world0 as [A B C].
      assert (R : InvB 0 (set_script (sc_actions sc) world0) (run_block_on (sc_env sc) 0 (set_script (sc_actions sc) world0))).
      { apply run_block_on_inv.
        - eapply InvLin_frame; [|exact A]. apply Frame_same; reflexivity.
        - constructor.
        - reflexivity.
        - intros H. contradiction. }
      destruct R as (_ & _ & R). rewrite R. reflexivity. }
  destruct (failed w); auto. rewrite (Frame_udrops _ _ (proj1 (cleanup_facts w))). exact U.
Qed.

(** start_task/callback driver: task boxes and context slot 0. *)
Theorem run_start_mode : forall sc,
  no_raw (sc_actions sc) = true -> e_start (sc_env sc) = true -> failed (run sc) = false ->
  InvBox (run sc) /\ InvCtx (run sc).
Proof.
  intros sc NR SM NF. unfold run in *. rewrite SM in *.
  pose proof (InvS_run_actions (sc_env sc) (sc_actions sc) world0 NR InvS_world0) as I.
  destruct (failed (run_actions (sc_env sc) (sc_actions sc) world0)) eqn:F; [congruence|].
  destruct (is_ok _ I F) as [B C].
  destruct (cleanup_facts (run_actions (sc_env sc) (sc_actions sc) world0)) as [FR _].
  split; [eapply InvBox_frame; eauto|eapply InvCtx_frame; eauto]. apply RC_cleanup.
Qed.
