(** * Async/WakeupProofs.v — per-transition facts about the inter-task wakeup machinery (C23).
    Every statement is for an arbitrary state [w] (hence for every interleaving that leads to it). *)
From Coq Require Import NArith List Bool Lia.
From WB Require Import Async.Host Async.Task Async.TaskSpec Async.TaskLemmas Async.TaskCallback Async.Wakeup.
Import ListNotations.
Local Open Scope N_scope.

Lemma hostr_fst_host : forall A (f : host -> host * A) w, w_host (fst (hostr f w)) = fst (f (w_host w)).
Proof. intros. unfold hostr. now destruct (f (w_host w)). Qed.

(** A wake while SLEEPING: the state becomes WOKEN and the only thing done to the host is ONE
    stream.write of one unit on the task's own writer; the runtime's assert is on its answer. *)
Theorem wake_while_sleeping : forall e t w wh,
  itw_on e -> tk_sleep (get_task t w) = SLEEPING -> tk_itw_w (get_task t w) = Some wh ->
  w_host (wake_task e t w) = fst (h_chan_write wh 1 (w_host w))
  /\ tk_sleep (get_task t (wake_task e t w)) = WOKEN
  /\ (failed (wake_task e t w) = true <-> failed w = true \/ snd (h_chan_write wh 1 (w_host w)) <> 16).
Proof.
  intros e t w wh ON S W. unfold wake_task. rewrite S. cbn [N.eqb Pos.eqb SLEEPING].
  unfold itw_wake. unfold itw_on in ON. rewrite ON. cbn [negb].
  rewrite get_upd, N.eqb_refl. cbn [tk_with_sleep tk_itw_w]. rewrite W.
  set (w1 := upd_task t (tk_with_sleep 1) w).
  assert (H1 : w_host w1 = w_host w) by reflexivity.
  unfold hostr. rewrite H1. destruct (h_chan_write wh 1 (w_host w)) as [h' rc] eqn:E. cbn [fst snd].
  destruct (N.eqb rc 16) eqn:R.
  - apply N.eqb_eq in R. subst. split; [reflexivity|]. split.
    + change (get_task t (set_host h' w1)) with (get_task t w1). unfold w1. now rewrite get_upd, N.eqb_refl.
    + change (failed (set_host h' w1)) with (failed w). split; auto. intros [F|F]; [auto|congruence].
  - apply N.eqb_neq in R. split; [now rewrite host_fail|]. split.
    + rewrite get_task_fail. change (get_task t (set_host h' w1)) with (get_task t w1). unfold w1. now rewrite get_upd, N.eqb_refl.
    + rewrite failed_fail. split; auto.
Qed.

(** A wake while POLLING or WOKEN only records WOKEN: nothing is written (repeated wakes coalesce). *)
Theorem wake_while_polling_or_woken : forall e t w,
  tk_sleep (get_task t w) <> SLEEPING ->
  wake_task e t w = upd_task t (tk_with_sleep WOKEN) w.
Proof.
  intros e t w S. unfold wake_task. destruct (N.eqb (tk_sleep (get_task t w)) 2) eqn:E; auto.
  apply N.eqb_eq in E. contradiction.
Qed.

Corollary wake_coalesces : forall e t w,
  tk_sleep (get_task t w) <> SLEEPING ->
  w_host (wake_task e t (wake_task e t w)) = w_host w
  /\ tk_sleep (get_task t (wake_task e t (wake_task e t w))) = WOKEN
  /\ failed (wake_task e t (wake_task e t w)) = failed w.
Proof.
  intros e t w S. rewrite (wake_while_polling_or_woken e t w S).
  rewrite wake_while_polling_or_woken.
  - repeat split. now rewrite get_upd, N.eqb_refl.
  - rewrite get_upd, N.eqb_refl. cbn. unfold WOKEN, SLEEPING. lia.
Qed.

(** After a wake of a sleeping task, a second wake (from anywhere) writes nothing. *)
Corollary second_wake_writes_nothing : forall e t w wh,
  itw_on e -> tk_sleep (get_task t w) = SLEEPING -> tk_itw_w (get_task t w) = Some wh ->
  w_host (wake_task e t (wake_task e t w)) = w_host (wake_task e t w).
Proof.
  intros e t w wh ON S W. destruct (wake_while_sleeping e t w wh ON S W) as (_ & S1 & _).
  rewrite (wake_while_polling_or_woken e t (wake_task e t w)); [reflexivity|].
  rewrite S1. unfold WOKEN, SLEEPING. lia.
Qed.

(** At most one read outstanding: with a read pending, [read_inter_task_stream] does nothing. *)
Theorem read_not_restarted : forall e t w r,
  itw_on e -> tk_itw_r (get_task t w) = Some r -> tk_reading (get_task t w) = true ->
  read_itw e t w = w.
Proof.
  intros e t w r ON R RD. unfold read_itw. unfold itw_on in ON. rewrite ON. cbn [negb]. cbv zeta.
  rewrite R. cbv beta iota. rewrite RD. reflexivity.
Qed.

(** Without a pending read it starts exactly one: stream.read of one unit on its own reader (the
    runtime asserts the answer BLOCKED), marks it pending, and joins the reader to the task's set. *)
Theorem read_started_once : forall e t w r,
  itw_on e -> tk_itw_r (get_task t w) = Some r -> tk_reading (get_task t w) = false ->
  exists w1 c, hostr (h_chan_read r 1) w = (w1, c)
    /\ read_itw e t w =
       add_waitable t r (upd_task t (tk_with_reading true) (if N.eqb c BLOCKED then w1 else fail E_ITW_READ w1)).
Proof.
  intros e t w r ON R RD. unfold read_itw. unfold itw_on in ON. rewrite ON. cbn [negb]. cbv zeta.
  rewrite R. cbv beta iota. rewrite RD, R.
  destruct (hostr (h_chan_read r 1) w) as [w1 c]. exists w1, c. split; reflexivity.
Qed.

Lemma reading_add_waitable : forall t t' wt w,
  tk_reading (get_task t (add_waitable t' wt w)) = tk_reading (get_task t w).
Proof.
  intros. unfold add_waitable. destruct (tk_set (get_task t' w)); [reflexivity|].
  destruct (hostr h_set_new w) as [w1 s] eqn:E. rewrite get_task_hostf, get_upd.
  destruct (N.eqb t' t) eqn:E'.
  - apply N.eqb_eq in E'. subst. cbn. now rewrite (get_task_hostr_eq _ t _ _ _ _ E).
  - now rewrite (get_task_hostr_eq _ t _ _ _ _ E).
Qed.

Corollary read_pending_afterwards : forall e t w r,
  itw_on e -> tk_itw_r (get_task t w) = Some r -> tk_reading (get_task t (read_itw e t w)) = true.
Proof.
  intros e t w r ON R. destruct (tk_reading (get_task t w)) eqn:RD.
  - now rewrite (read_not_restarted e t w r ON R RD).
  - destruct (read_started_once e t w r ON R RD) as (w1 & c & _ & ->).
    rewrite reading_add_waitable, get_upd, N.eqb_refl. reflexivity.
Qed.

(** The pending read leaves the waitable set, then is cancelled (in this order); afterwards no read
    is pending.  Without a pending read nothing happens. *)
Theorem cancel_leaves_set_then_cancels : forall e t w r,
  itw_on e -> tk_reading (get_task t w) = true -> tk_itw_r (get_task t w) = Some r ->
  w_host (cancel_itw_read e t w) = fst (h_chan_cancel r false (h_join r 0 (w_host w)))
  /\ tk_reading (get_task t (cancel_itw_read e t w)) = false
  /\ failed (cancel_itw_read e t w) = failed w.
Proof.
  intros e t w r ON RD R. unfold cancel_itw_read. unfold itw_on in ON. rewrite ON. cbn [negb]. rewrite RD, R.
  cbn [negb fst]. rewrite hostr_fst_host. split; [reflexivity|]. split.
  - rewrite get_task_hostr, get_task_hostf, get_upd, N.eqb_refl. reflexivity.
  - unfold hostr. cbn. now destruct (h_chan_cancel r false _).
Qed.

Theorem cancel_without_read_is_noop : forall e t w,
  tk_reading (get_task t w) = false -> cancel_itw_read e t w = w.
Proof. intros e t w RD. unfold cancel_itw_read. rewrite RD. now destruct (negb (cf_itw (e_cfg e))). Qed.

(** So whenever a callback starts polling, and whenever the task is destroyed, no read is pending. *)
Theorem no_read_pending_after_cancel : forall e t w,
  itw_on e -> failed (cancel_itw_read e t w) = false ->
  tk_reading (get_task t (cancel_itw_read e t w)) = false.
Proof.
  intros e t w ON NF. destruct (tk_reading (get_task t w)) eqn:RD.
  - unfold cancel_itw_read in *. unfold itw_on in ON. rewrite ON in *. cbn [negb] in *. rewrite RD in *. cbn [negb] in *.
    destruct (tk_itw_r (get_task t w)).
    + rewrite get_task_hostr, get_task_hostf, get_upd, N.eqb_refl. reflexivity.
    + now rewrite failed_fail in NF.
  - now rewrite cancel_without_read_is_noop.
Qed.

(** The event of the inter-task stream is consumed by the runtime itself: the reader leaves the set,
    the read is no longer pending, the registration map is not consulted. *)
Theorem itw_event_consumed : forall e t w r code,
  itw_on e -> tk_itw_r (get_task t w) = Some r ->
  deliver e t r code w = upd_task t (tk_with_reading false) (hostf (h_join r 0) w).
Proof.
  intros e t w r code ON R. unfold deliver. unfold itw_on in ON. rewrite ON.
  rewrite get_task_hostf, R. unfold opt_eqb. rewrite N.eqb_refl. reflexivity.
Qed.
