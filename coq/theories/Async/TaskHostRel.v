(** * Async/TaskHostRel.v — every step of the executor moves the host only through the canonical
    built-ins: a reflexive-transitive relation on hosts that every built-in respects is respected by
    every function of the model (except the two that write context slot 0 / select the component
    task, which belong to the entry points).  Instantiated in TaskCtx.v. *)
From Coq Require Import NArith List Bool Lia.
From WB Require Import Async.Host Async.Task Async.TaskSpec Async.TaskLemmas.
Import ListNotations.
Local Open Scope N_scope.

Section HostRel.
  Variable R : host -> host -> Prop.
  Hypothesis R_refl : forall h, R h h.
  Hypothesis R_trans : forall a b c, R a b -> R b c -> R a c.
  Hypothesis R_emit : forall c h, R h (h_emit c h).
  Hypothesis R_join : forall w s h, R h (h_join w s h).
  Hypothesis R_set_new : forall h, R h (fst (h_set_new h)).
  Hypothesis R_set_drop : forall s h, R h (h_set_drop s h).
  Hypothesis R_wait_poll : forall b s h, R h (fst (h_wait_poll b s h)).
  Hypothesis R_set_event : forall w c h, R h (h_set_event w c h).
  Hypothesis R_subtask_new : forall s h, R h (fst (h_subtask_new s h)).
  Hypothesis R_subtask_cancel : forall x h, R h (fst (h_subtask_cancel x h)).
  Hypothesis R_subtask_drop : forall x h, R h (h_subtask_drop x h).
  Hypothesis R_chan_new : forall f h, R h (fst (h_chan_new f h)).
  Hypothesis R_chan_read : forall x n h, R h (fst (h_chan_read x n h)).
  Hypothesis R_chan_write : forall x n h, R h (fst (h_chan_write x n h)).
  Hypothesis R_chan_cancel : forall x b h, R h (fst (h_chan_cancel x b h)).
  Hypothesis R_chan_drop : forall x b h, R h (h_chan_drop x b h).
  Hypothesis R_peer_take : forall x h, R h (h_peer_take x h).
  Hypothesis R_peer_read : forall c n h, R h (h_peer_read c n h).
  Hypothesis R_peer_write : forall c n h, R h (h_peer_write c n h).
  Hypothesis R_peer_drop_reader : forall c h, R h (h_peer_drop_reader c h).
  Hypothesis R_peer_drop_writer : forall c h, R h (h_peer_drop_writer c h).
  Hypothesis R_task_cancel : forall h, R h (h_task_cancel h).

  Definition WR (w w' : world) : Prop := R (w_host w) (w_host w').

  Lemma WR_refl : forall w, WR w w.
  Proof. intros. apply R_refl. Qed.
  Lemma WR_trans : forall a b c, WR a b -> WR b c -> WR a c.
  Proof. unfold WR. eauto. Qed.
  Lemma WR_same : forall w w0 w1, w_host w1 = w_host w0 -> WR w w0 -> WR w w1.
  Proof. unfold WR. intros. now rewrite H. Qed.
  Lemma WR_step : forall w w0 w1, R (w_host w0) (w_host w1) -> WR w w0 -> WR w w1.
  Proof. unfold WR. eauto. Qed.

  Lemma WR_fail : forall c w w0, WR w w0 -> WR w (fail c w0).
  Proof. intros. eapply WR_same; eauto. unfold fail. now destruct (w_err w0). Qed.
  Lemma WR_put_op : forall k s w w0, WR w w0 -> WR w (put_op k s w0).
  Proof. intros. eapply WR_same; eauto. Qed.
  Lemma WR_upd : forall t f w w0, WR w w0 -> WR w (upd_task t f w0).
  Proof. intros. eapply WR_same; eauto. Qed.
  Lemma WR_put_task : forall t x w w0, WR w w0 -> WR w (put_task t x w0).
  Proof. intros. eapply WR_same; eauto. Qed.
  Lemma WR_put_fu : forall t f w w0, WR w w0 -> WR w (put_fu t f w0).
  Proof. intros. eapply WR_same; eauto. Qed.
  Lemma WR_set_waiters : forall x w w0, WR w w0 -> WR w (set_waiters x w0).
  Proof. intros. eapply WR_same; eauto. Qed.
  Lemma WR_set_flags : forall x w w0, WR w w0 -> WR w (set_flags x w0).
  Proof. intros. eapply WR_same; eauto. Qed.
  Lemma WR_set_cur : forall x w w0, WR w w0 -> WR w (set_cur x w0).
  Proof. intros. eapply WR_same; eauto. Qed.
  Lemma WR_set_script : forall x w w0, WR w w0 -> WR w (set_script x w0).
  Proof. intros. eapply WR_same; eauto. Qed.
  Lemma WR_set_deadlocks : forall x w w0, WR w w0 -> WR w (set_deadlocks x w0).
  Proof. intros. eapply WR_same; eauto. Qed.
  Lemma WR_set_spawned : forall x w w0, WR w w0 -> WR w (set_spawned x w0).
  Proof. intros. eapply WR_same; eauto. Qed.
  Lemma WR_set_created : forall x w w0, WR w w0 -> WR w (set_created x w0).
  Proof. intros. eapply WR_same; eauto. Qed.
  Lemma WR_emit : forall x w w0, WR w w0 -> WR w (emit x w0).
  Proof. intros. apply (WR_step w w0); [|assumption]. cbn. apply R_emit. Qed.

  Lemma WR_hostf : forall f w w0, (forall h, R h (f h)) -> WR w w0 -> WR w (hostf f w0).
  Proof. intros. apply (WR_step w w0); [|assumption]. cbn. auto. Qed.
  Lemma WR_hostr : forall A (f : host -> host * A) w w0, (forall h, R h (fst (f h))) -> WR w w0 -> WR w (fst (hostr f w0)).
  Proof.
    intros. apply (WR_step w w0); [|assumption]. unfold hostr. specialize (H (w_host w0)).
    destruct (f (w_host w0)). cbn in *. auto.
  Qed.
  Lemma WR_of_eq : forall A (p : world * A) w w1 a, p = (w1, a) -> WR w (fst p) -> WR w w1.
  Proof. intros. subst. auto. Qed.
  Lemma WR_of_eq3 : forall A B (p : world * A * B) w w1 a b, p = (w1, a, b) -> WR w (fst (fst p)) -> WR w w1.
  Proof. intros. subst. auto. Qed.
  Lemma WR_if : forall (c : bool) w a b, WR w a -> WR w b -> WR w (if c then a else b).
  Proof. destruct c; auto. Qed.
  Lemma WR_fold : forall A (f : world -> A -> world) l,
    (forall a w w0, WR w w0 -> WR w (f w0 a)) -> forall w w0, WR w w0 -> WR w (fold_left f l w0).
  Proof. induction l; cbn; intros; auto. Qed.

  Hint Resolve WR_refl WR_fail WR_put_op WR_upd WR_put_task WR_put_fu WR_set_waiters WR_set_flags WR_set_cur
    WR_set_script WR_set_deadlocks WR_set_spawned WR_set_created WR_emit WR_if : hr.
  Hint Extern 2 (WR _ (hostf _ _)) => apply WR_hostf; [intros; auto|] : hr.
  Hint Extern 2 (WR _ (fst (hostr _ _))) => apply WR_hostr; [intros; auto|] : hr.
  Hint Extern 1 (WR _ ?w1) => match goal with H : _ = (w1, _) |- _ => eapply (WR_of_eq _ _ _ _ _ H) end : hr.
  Hint Extern 1 (WR _ ?w1) => match goal with H : _ = (w1, _, _) |- _ => eapply (WR_of_eq3 _ _ _ _ _ _ _ H) end : hr.
  Hint Resolve R_emit R_join R_set_new R_set_drop R_wait_poll R_set_event R_subtask_new R_subtask_cancel R_subtask_drop
    R_chan_new R_chan_read R_chan_write R_chan_cancel R_chan_drop R_peer_take R_peer_read R_peer_write
    R_peer_drop_reader R_peer_drop_writer R_task_cancel : hr.

  Ltac hr_auto := intros; fr_split; cbn [fst snd]; eauto 30 with hr.
  Lemma WR_itw_wake : forall e t w w0, WR w w0 -> WR w (itw_wake e t w0).
  Proof. unfold itw_wake. hr_auto. Qed.
  Hint Resolve WR_itw_wake : hr.
  Lemma WR_wake_task : forall e t w w0, WR w w0 -> WR w (wake_task e t w0).
  Proof. unfold wake_task. hr_auto. Qed.
  Hint Resolve WR_wake_task : hr.
  Lemma WR_wake_inner : forall e t b w w0, WR w w0 -> WR w (wake_inner e t b w0).
  Proof. unfold wake_inner. hr_auto. Qed.
  Hint Resolve WR_wake_inner : hr.
  Lemma WR_wake : forall e r w w0, WR w w0 -> WR w (wake e r w0).
  Proof. unfold wake. hr_auto. Qed.
  Hint Resolve WR_wake : hr.
  Lemma WR_drop_shared : forall t w w0, WR w w0 -> WR w (drop_shared t w0).
  Proof. unfold drop_shared. hr_auto. Qed.
  Hint Resolve WR_drop_shared : hr.
  Lemma WR_maybe_drop_shared : forall t w w0, WR w w0 -> WR w (maybe_drop_shared t w0).
  Proof. unfold maybe_drop_shared. hr_auto. Qed.
  Hint Resolve WR_maybe_drop_shared : hr.
  Lemma WR_after_ref_drop : forall r w w0, WR w w0 -> WR w (after_ref_drop r w0).
  Proof. unfold after_ref_drop. hr_auto. Qed.
  Hint Resolve WR_after_ref_drop : hr.
  Lemma WR_flag_wake_all : forall e j w w0, WR w w0 -> WR w (flag_wake_all e j w0).
  Proof. unfold flag_wake_all. intros. apply WR_fold; auto. hr_auto. Qed.
  Hint Resolve WR_flag_wake_all : hr.
  Lemma WR_signal_flag : forall e j w w0, WR w w0 -> WR w (signal_flag e j w0).
  Proof. unfold signal_flag. hr_auto. Qed.
  Hint Resolve WR_signal_flag : hr.
  Lemma WR_flag_poll : forall j b wr w w0, WR w w0 -> WR w (fst (flag_poll j b wr w0)).
  Proof. unfold flag_poll. hr_auto. Qed.
  Hint Resolve WR_flag_poll : hr.
  Lemma WR_add_waitable : forall t wt w w0, WR w w0 -> WR w (add_waitable t wt w0).
  Proof. unfold add_waitable. hr_auto. Qed.
  Hint Resolve WR_add_waitable : hr.
  Lemma WR_register : forall t wt k w w0, WR w w0 -> WR w (register t wt k w0).
  Proof. unfold register. hr_auto. Qed.
  Hint Resolve WR_register : hr.
  Lemma WR_unregister : forall t wt w w0, WR w w0 -> WR w (unregister t wt w0).
  Proof. unfold unregister. hr_auto. Qed.
  Hint Resolve WR_unregister : hr.
  Lemma WR_op_start : forall e k w w0, WR w w0 -> WR w (fst (fst (op_start e k w0))).
  Proof. unfold op_start. hr_auto. Qed.
  Hint Resolve WR_op_start : hr.
  Lemma WR_sub_handle_drop : forall st w w0, WR w w0 -> WR w (sub_handle_drop st w0).
  Proof. unfold sub_handle_drop. hr_auto. Qed.
  Hint Resolve WR_sub_handle_drop : hr.
  Lemma WR_deferred_write : forall wh w w0, WR w w0 -> WR w (deferred_write wh w0).
  Proof. unfold deferred_write. hr_auto. Qed.
  Hint Resolve WR_deferred_write : hr.
  Lemma WR_op_update : forall e c k st code w w0, WR w w0 -> WR w (fst (op_update e c k st code w0)).
  Proof. unfold op_update. hr_auto. Qed.
  Hint Resolve WR_op_update : hr.
  Lemma WR_op_with_code : forall e t k st oc wr w w0, WR w w0 -> WR w (fst (op_with_code e t k st oc wr w0)).
  Proof. unfold op_with_code. hr_auto. Qed.
  Hint Resolve WR_op_with_code : hr.
  Lemma WR_op_poll : forall e t k wr w w0, WR w w0 -> WR w (fst (op_poll e t k wr w0)).
  Proof. unfold op_poll. hr_auto. Qed.
  Hint Resolve WR_op_poll : hr.
  Lemma WR_op_end_drop : forall e k wt w w0, WR w w0 -> WR w (op_end_drop e k wt w0).
  Proof. unfold op_end_drop. hr_auto. Qed.
  Hint Resolve WR_op_end_drop : hr.
  Lemma WR_op_cancel_intrinsic : forall e k st w w0, WR w w0 -> WR w (fst (op_cancel_intrinsic e k st w0)).
  Proof. unfold op_cancel_intrinsic. hr_auto. Qed.
  Hint Resolve WR_op_cancel_intrinsic : hr.
  Lemma WR_op_drop : forall e t k w w0, WR w w0 -> WR w (op_drop e t k w0).
  Proof. unfold op_drop. hr_auto. Qed.
  Hint Resolve WR_op_drop : hr.
  Lemma WR_ctx_observe : forall w w0, WR w w0 -> WR w (ctx_observe w0).
  Proof. unfold ctx_observe. hr_auto. Qed.
  Hint Resolve WR_ctx_observe : hr.
  Lemma WR_ctx_get_logged : forall w w0, WR w w0 -> WR w (fst (ctx_get_logged w0)).
  Proof. unfold ctx_get_logged. hr_auto. Qed.
  Hint Resolve WR_ctx_get_logged : hr.
  Lemma WR_await_op_full : forall e t k wr w w0, WR w w0 -> WR w (fst (await_op_full e t k wr w0)).
  Proof. unfold await_op_full. hr_auto. Qed.
  Hint Resolve WR_await_op_full : hr.

  Lemma WR_run_steps : forall e t wr steps bd w w0, WR w w0 -> WR w (fst (fst (run_steps e t bd wr steps w0))).
  Proof.
    induction steps as [|s r IH]; intros; cbn [run_steps]; [|destruct s]; hr_auto.
  Qed.
  Hint Resolve WR_run_steps : hr.

  Lemma WR_poll_body : forall e t bd wr w w0, WR w w0 -> WR w (fst (fst (poll_body e t bd wr w0))).
  Proof. unfold poll_body. hr_auto. Qed.
  Hint Resolve WR_poll_body : hr.

  Lemma WR_body_drop : forall e t bd w w0, WR w w0 -> WR w (body_drop e t bd w0).
  Proof. unfold body_drop. hr_auto. Qed.
  Hint Resolve WR_body_drop : hr.

  Lemma WR_fu_poll_next : forall e t fuel len polled yielded w w0,
    WR w w0 -> WR w (fst (fu_poll_next fuel e t len polled yielded w0)).
  Proof.
    induction fuel as [|fuel IH]; intros; cbn [fu_poll_next]; hr_auto.
  Qed.
  Hint Resolve WR_fu_poll_next : hr.

  Lemma WR_fu_poll : forall e t w w0, WR w w0 -> WR w (fst (fu_poll e t w0)).
  Proof. unfold fu_poll. hr_auto. Qed.
  Hint Resolve WR_fu_poll : hr.

  Lemma WR_tasks_poll_spawn : forall e t fuel w w0, WR w w0 -> WR w (fst (tasks_poll_spawn fuel e t w0)).
  Proof.
    induction fuel as [|fuel IH]; intros; cbn [tasks_poll_spawn]; hr_auto.
  Qed.
  Hint Resolve WR_tasks_poll_spawn : hr.

  Lemma WR_tasks_poll_single : forall e t w w0, WR w w0 -> WR w (fst (tasks_poll_single e t w0)).
  Proof. unfold tasks_poll_single. hr_auto. Qed.
  Hint Resolve WR_tasks_poll_single : hr.

  Lemma WR_tasks_poll : forall e t w w0, WR w w0 -> WR w (fst (tasks_poll e t w0)).
  Proof. unfold tasks_poll. hr_auto. Qed.
  Hint Resolve WR_tasks_poll : hr.

  Lemma WR_read_itw : forall e t w w0, WR w w0 -> WR w (read_itw e t w0).
  Proof. unfold read_itw. hr_auto. Qed.
  Lemma WR_cancel_itw_read : forall e t w w0, WR w w0 -> WR w (cancel_itw_read e t w0).
  Proof. unfold cancel_itw_read. hr_auto. Qed.
  Hint Resolve WR_read_itw WR_cancel_itw_read : hr.

  Lemma WR_deliver : forall e t wt code w w0, WR w w0 -> WR w (deliver e t wt code w0).
  Proof. unfold deliver. hr_auto. Qed.
  Lemma WR_wait_code : forall t w w0, WR w w0 -> WR w (fst (wait_code t w0)).
  Proof. unfold wait_code. hr_auto. Qed.
  Hint Resolve WR_deliver WR_wait_code : hr.

  Lemma WR_cb_loop : forall e t fuel w w0, WR w w0 -> WR w (fst (cb_loop fuel e t w0)).
  Proof.
    induction fuel as [|fuel IH]; intros; cbn [cb_loop]; hr_auto.
  Qed.
  Hint Resolve WR_cb_loop : hr.

  Lemma WR_task_cb : forall e t e0 e1 e2 w w0, WR w w0 -> WR w (fst (task_cb e t e0 e1 e2 w0)).
  Proof. unfold task_cb. hr_auto. Qed.
  Hint Resolve WR_task_cb : hr.

  Lemma WR_task_drop : forall e t w w0, WR w w0 -> WR w (task_drop e t w0).
  Proof.
    unfold task_drop. intros. cbv zeta. fr_split; cbn [fst snd]; eauto 30 with hr;
      try (repeat (first [apply WR_upd | apply WR_hostf; [intros; auto with hr|] | apply WR_maybe_drop_shared | apply WR_set_cur]);
           apply WR_fold; [intros; apply WR_body_drop; auto|]; eauto 30 with hr).
  Qed.
  Hint Resolve WR_task_drop : hr.

  Lemma WR_with_pending : forall e i f w w0,
    (forall k st kd w w0, WR w w0 -> WR w (f k st kd w0)) -> WR w w0 -> WR w (with_pending e i f w0).
  Proof. unfold with_pending. hr_auto. Qed.

  Lemma WR_host_action : forall e a w w0, WR w w0 -> WR w (host_action e a w0).
  Proof.
    unfold host_action. intros. destruct a; auto; try (apply WR_with_pending; auto; hr_auto).
    all: hr_auto.
  Qed.
  Hint Resolve WR_host_action : hr.

  Lemma WR_hook_action : forall e w w0, WR w w0 -> WR w (snd (hook_action e w0)).
  Proof. unfold hook_action. hr_auto. Qed.

  Lemma WR_cleanup : forall w w0, WR w w0 -> WR w (cleanup w0).
  Proof. unfold cleanup. intros. apply WR_fold; auto. hr_auto. Qed.

  Lemma WR_bon_wait : forall e s fuel w w0, WR w w0 -> WR w (fst (bon_wait fuel e s w0)).
  Proof.
    induction fuel as [|fuel IH]; intros; cbn [bon_wait]; [hr_auto|].
    destruct (failed w0); [hr_auto|].
    destruct (negb (is_set (w_host w0) s) || negb (is_nil (ready_in (w_host w0) s))); [hr_auto|].
    pose proof (WR_hook_action e w w0 H) as HK.
    destruct (hook_action e w0) as [oa w1]. cbn [snd] in HK.
    destruct oa; [apply IH; auto with hr|]. hr_auto.
  Qed.
End HostRel.
