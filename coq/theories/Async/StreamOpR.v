(** * Async/StreamOpR.v — invariant of the reader end and its preservation by every reader action
    (for a well-behaved host, [strict = true]). *)
From Coq Require Import NArith Arith List Bool Lia Permutation Sorted.
From WB Require Import Async.AbiBuf Async.AbiBufProofs Async.StreamOp Async.StreamOpBase.
Import ListNotations.
Local Open Scope N_scope.

Ltac rsimp :=
  unfold remit, rset_done, radd_rep, rset_host, radd_taken, radd_log, radd_got, radd_dropped, rset_fut,
         rset_ad, rset_vec, rset_ans, rset_alive, rclear in *;
  cbn [r_alive r_done r_fut r_ad r_vec r_busy r_inbuf r_ev r_taken r_log r_got r_dropped r_rep r_lg r_ans r_out] in *.

Inductive rcfg := RCNone | RCOp (o : rop).

Definition rcfg_of (r : rst) : rcfg :=
  match r_cur_op r with Some o => RCOp o | None => RCNone end.
Definition held_of (r : rst) : list N :=
  match r_vec r with Some v => v_items v | None => [] end.

Definition rc_items (c : rcfg) : list N := match c with RCOp o => v_items (ro_vec o) | RCNone => [] end.
Definition rc_area (c : rcfg) : bool := match c with RCOp o => ro_area o | RCNone => false end.

Definition RBase (k : kind) (r : rst) (opitems held : list N) (area : bool) : Prop :=
  r_log r ++ r_inbuf r = r_taken r
  /\ Permutation (r_log r) (r_got r ++ r_dropped r ++ opitems ++ held)
  /\ Forall (fun p => fst p = snd p) (r_rep r)
  /\ r_lg r = mkLg (if has_lists k then r_inbuf r else []) (if area then 1 else 0)%nat false.

Definition rquiet (r : rst) : Prop := r_busy r = None /\ r_ev r = None /\ r_inbuf r = [].

Definition rcoh (r : rst) (c : rcfg) : Prop :=
  match c with
  | RCOp o =>
      if ro_inprog o then
        match ro_code o with
        | Some code => r_busy r = None /\ r_ev r = None /\ good code (N.of_nat (length (r_inbuf r)))
        | None => r_busy r = Some (v_spare (ro_vec o)) /\
                  match r_ev r with
                  | Some code => good code (N.of_nat (length (r_inbuf r)))
                  | None => r_inbuf r = []
                  end
        end
      else rquiet r /\ ro_code o = None /\ ro_area o = false
  | RCNone => rquiet r
  end.

Definition RCore (k : kind) (r : rst) (c : rcfg) (held : list N) : Prop :=
  RBase k r (rc_items c) held (rc_area c) /\ rcoh r c.

Definition RInv (k : kind) (r : rst) : Prop := RCore k r (rcfg_of r) (held_of r).

(** A read has resolved with vector [v] in hand. *)
Definition RDone (k : kind) (r : rst) (v : rvec) (held : list N) : Prop :=
  RBase k r (v_items v) held false /\ rquiet r.

(** What the reader end has taken during this action is a prefix of what was in flight. *)
Definition rgrow (r0 : rst) (avail : list N) (r : rst) : Prop :=
  exists d rest, r_taken r = r_taken r0 ++ d /\ avail = d ++ rest.

Lemma rgrow_refl r avail : rgrow r avail r.
Proof. exists [], avail. rewrite app_nil_r. split; reflexivity. Qed.

Lemma rgrow_avail r0 avail r :
  rgrow r0 avail r -> exists d, r_taken r = r_taken r0 ++ d /\ avail = d ++ r_avail (length (r_taken r0)) avail r.
Proof.
  intros (d & rest & E1 & E2). exists d. split; [exact E1|].
  unfold r_avail. rewrite E1, app_length.
  replace (length (r_taken r0) + length d - length (r_taken r0))%nat with (length d) by lia.
  rewrite E2 at 2. rewrite skipn_app, skipn_all, Nat.sub_diag. cbn. exact E2.
Qed.

Lemma rgrow_move r0 avail r r' cap mv :
  rgrow r0 avail r -> mv = firstn (length mv) (firstn cap (r_avail (length (r_taken r0)) avail r)) ->
  r_taken r' = r_taken r ++ mv -> rgrow r0 avail r'.
Proof.
  intros Hg Hmv Ht. apply rgrow_avail in Hg. destruct Hg as (d & E1 & E2).
  set (rest := r_avail (length (r_taken r0)) avail r) in *.
  rewrite firstn_firstn in Hmv.
  exists (d ++ mv), (skipn (length mv) rest). split.
  - rewrite Ht, E1, app_assoc. reflexivity.
  - rewrite <- app_assoc. rewrite E2 at 1. f_equal.
    rewrite Hmv at 1.
    rewrite <- (firstn_skipn (Nat.min (length mv) cap) rest) at 1. f_equal.
    assert (length mv <= cap)%nat.
    { rewrite Hmv. rewrite firstn_length. lia. }
    f_equal. lia.
Qed.

(** ** [in_progress_update] on a code of a well-behaved host *)
Lemma rop_update_good k v area inbuf c :
  good c (N.of_nat (length inbuf)) ->
  rop_update k v area inbuf c = RUPanic \/
  exists s v' sd,
    rop_update k v area inbuf c
    = RUOk s v' sd inbuf ((if lifted k then map KLiftR inbuf else []) ++ (if area then [KAreaFree] else []))
    /\ v_items v' = v_items v ++ inbuf /\ sres_count s = N.of_nat (length inbuf).
Proof.
  intros [Hnb [r [D C]]]. unfold rop_update. rewrite D. cbv zeta.
  assert (Hgen : forall amt, amt = N.of_nat (length inbuf) ->
     (if amt <=? N.of_nat (v_spare v)
      then RUOk (SComplete amt) (mkV (v_items v ++ firstn (N.to_nat amt) inbuf) (v_cap v)) (is_dropped r)
                (firstn (N.to_nat amt) inbuf)
                ((if lifted k then map KLiftR (firstn (N.to_nat amt) inbuf) else []) ++ (if area then [KAreaFree] else []))
      else RUPanic) = RUPanic \/
     exists s v' sd,
       (if amt <=? N.of_nat (v_spare v)
        then RUOk (SComplete amt) (mkV (v_items v ++ firstn (N.to_nat amt) inbuf) (v_cap v)) (is_dropped r)
                  (firstn (N.to_nat amt) inbuf)
                  ((if lifted k then map KLiftR (firstn (N.to_nat amt) inbuf) else []) ++ (if area then [KAreaFree] else []))
        else RUPanic)
       = RUOk s v' sd inbuf ((if lifted k then map KLiftR inbuf else []) ++ (if area then [KAreaFree] else []))
       /\ v_items v' = v_items v ++ inbuf /\ sres_count s = N.of_nat (length inbuf)).
  { intros amt ->. rewrite Nat2N.id, firstn_all.
    destruct (N.of_nat (length inbuf) <=? N.of_nat (v_spare v)); [right|left; reflexivity].
    do 3 eexists. split; [reflexivity|]. split; reflexivity. }
  destruct r as [|n|n|n]; cbn [rcode_count] in *.
  - apply decode_blocked_iff in D. contradiction.
  - apply Hgen. exact C.
  - destruct n as [|p]; [|apply Hgen; exact C].
    right. destruct inbuf; [|cbn in C; lia]. exists SDropped, v, false.
    rewrite app_nil_r. destruct (lifted k); repeat split; reflexivity.
  - destruct n as [|p]; [|apply Hgen; exact C].
    right. destruct inbuf; [|cbn in C; lia]. exists SCancelled, v, false.
    rewrite app_nil_r. destruct (lifted k); repeat split; reflexivity.
Qed.

Lemma fold_liftr k pre rest a e :
  lg_toks_r k (map KLiftR pre) (mkLg (if has_lists k then pre ++ rest else []) a e)
  = mkLg (if has_lists k then rest else []) a e.
Proof. apply (fold_release k (lg_tok_r k) KLiftR (fun g id => eq_refl)). Qed.

Lemma ledger_lift k inbuf (area : bool) :
  lg_toks_r k ((if lifted k then map KLiftR inbuf else []) ++ (if area then [KAreaFree] else []))
            (mkLg (if has_lists k then inbuf else []) (if area then 1 else 0)%nat false)
  = mkLg (if has_lists k then [] else []) 0 false.
Proof.
  rewrite lg_toks_r_app.
  assert (E : lg_toks_r k (if lifted k then map KLiftR inbuf else [])
                (mkLg (if has_lists k then inbuf else []) (if area then 1 else 0)%nat false)
              = mkLg (if has_lists k then [] else []) (if area then 1 else 0)%nat false).
  { destruct (lifted k) eqn:El.
    - rewrite <- (app_nil_r inbuf) at 2. apply fold_liftr.
    - destruct k; try discriminate. reflexivity. }
  rewrite E. destruct area; reflexivity.
Qed.

Lemma perm_into_vec {A} (l g d o h i : list A) :
  Permutation l (g ++ d ++ o ++ h) -> Permutation (l ++ i) (g ++ d ++ (o ++ i) ++ h).
Proof.
  intros H. rewrite (Permutation_app_tail i H). rewrite <- !app_assoc.
  apply Permutation_app_head. apply Permutation_app_head. apply Permutation_app_head.
  apply Permutation_app_comm.
Qed.

(** ** [poll_complete_with_code] *)
Definition rpre (k : kind) (r : rst) (v : rvec) (area : bool) (code : N) (held : list N) : Prop :=
  RBase k r (v_items v) held area /\ r_ev r = None
  /\ ((code = BLOCKED /\ r_busy r = Some (v_spare v) /\ r_inbuf r = [])
      \/ (r_busy r = None /\ good code (N.of_nat (length (r_inbuf r))))).

Lemma rop_with_code_spec k v area code r r' p held :
  rpre k r v area code held -> rop_with_code k v area code r = Ok (r', p) ->
  r_vec r' = r_vec r /\ r_fut r' = r_fut r /\ r_ad r' = r_ad r /\ r_taken r' = r_taken r /\
  match p with
  | RPending o' => RCore k r' (RCOp o') held /\ ro_inprog o' = true
  | RReady s v' => RDone k r' v' held
  end.
Proof.
  intros (HB & Hev & Hc) H. unfold rop_with_code in H.
  destruct Hc as [(-> & Hbusy & Hin) | (Hbusy & Hg)].
  - assert (E : rop_update k v area (r_inbuf r) BLOCKED = RUBlocked) by reflexivity.
    rewrite E in H. injection H as <- <-.
    do 4 (split; [reflexivity|]). split; [|reflexivity].
    split; [exact HB|]. cbn. rewrite Hbusy, Hev. split; [reflexivity|exact Hin].
  - destruct (rop_update_good k v area (r_inbuf r) code Hg) as [E|(s & v' & sd & E & Hi & Hcnt)];
      rewrite E in H; [discriminate|].
    injection H as <- <-. destruct HB as (HL & HP & HR & HG).
    assert (HR' : Forall (fun p : N * N => fst p = snd p)
                    (r_rep r ++ [(N.of_nat (length (r_inbuf r)), sres_count s)])).
    { apply Forall_app; split; [exact HR|]. constructor; [|constructor]. cbn. rewrite Hcnt. reflexivity. }
    destruct sd; rsimp;
      (do 4 (split; [reflexivity|]);
       unfold RDone, RBase, rquiet; rsimp;
       split; [|split; [exact Hbusy|split; [exact Hev|reflexivity]]];
       split; [rewrite app_nil_r; exact HL|];
       split; [rewrite Hi; apply perm_into_vec; exact HP|];
       split; [exact HR'|];
       rewrite HG; apply ledger_lift).
Qed.

Lemma rset_ans_eta r : r = rset_ans (r_ans r) r.
Proof. destruct r; reflexivity. Qed.

Lemma rpop_eq r a r1 : rpop r = (a, r1) -> exists l, r1 = rset_ans l r.
Proof.
  unfold rpop. destruct (r_ans r) eqn:E; intros [= <- <-].
  - exists (r_ans r). apply rset_ans_eta.
  - eexists; reflexivity.
Qed.

Lemma ledger_tr k mv t a e :
  match t with KTr _ | KLiftR _ | KAreaNew | KAreaFree => False | _ => True end ->
  lg_toks_r k (tr mv ++ [t]) (mkLg (if has_lists k then [] else []) a e)
  = mkLg (if has_lists k then mv else []) a e.
Proof.
  intros Ht. rewrite lg_toks_r_app.
  assert (E : lg_toks_r k (tr mv) (mkLg (if has_lists k then [] else []) a e)
              = mkLg (if has_lists k then mv else []) a e).
  { destruct mv as [|x mv]; [reflexivity|]. cbn. unfold lg_add. cbn. destruct (has_lists k); reflexivity. }
  rewrite E. destruct t; try contradiction; reflexivity.
Qed.

Lemma ledger_tr0 k mv a e :
  lg_toks_r k (tr mv) (mkLg (if has_lists k then [] else []) a e)
  = mkLg (if has_lists k then mv else []) a e.
Proof.
  destruct mv as [|x mv]; [reflexivity|]. cbn. unfold lg_add. cbn. destruct (has_lists k); reflexivity.
Qed.

Lemma rop_poll_spec k o r0 avail r r' p held :
  RCore k r (RCOp o) held -> rgrow r0 avail r ->
  rop_poll true k (length (r_taken r0)) avail o r = Ok (r', p) ->
  r_vec r' = r_vec r /\ r_fut r' = r_fut r /\ r_ad r' = r_ad r /\ rgrow r0 avail r' /\
  match p with
  | RPending o' => RCore k r' (RCOp o') held /\ ro_inprog o' = true
  | RReady s v' => RDone k r' v' held
  end.
Proof.
  intros (HB & Hc) Hgr H. unfold rop_poll in H. cbn [rcoh rc_items rc_area] in *.
  destruct (ro_inprog o) eqn:Ei.
  - destruct (ro_code o) as [c|] eqn:Ec.
    + destruct Hc as (Hb & He & Hg).
      eapply rop_with_code_spec in H.
      * destruct H as (A & B & C & D & E). split; [exact A|]. split; [exact B|]. split; [exact C|].
        split; [|exact E]. destruct Hgr as (d & rest & E1 & E2). exists d, rest. split; [congruence|exact E2].
      * split; [exact HB|]. split; [exact He|]. right. split; assumption.
    + injection H as <- <-. do 3 (split; [reflexivity|]). split; [exact Hgr|].
      split; [|exact Ei]. split; [exact HB|]. cbn [rcoh]. rewrite Ei, Ec. exact Hc.
  - destruct Hc as ((Hb & He & Hin) & Hcode & Harea). rewrite Harea in HB.
    destruct (r_done r).
    + eapply rop_with_code_spec in H.
      * destruct H as (A & B & C & D & E). split; [exact A|]. split; [exact B|]. split; [exact C|].
        split; [|exact E]. destruct Hgr as (d & rest & E1 & E2). exists d, rest. split; [congruence|exact E2].
      * split; [exact HB|]. split; [exact He|]. right. split; [exact Hb|]. rewrite Hin. exact good_dropped0.
    + set (cap := v_spare (ro_vec o)) in *.
      set (area := lifted k && negb (cap =? 0)%nat) in *.
      set (r1 := remit k (if area then [KAreaNew] else []) r) in *.
      destruct (rpop r1) as [a r2] eqn:Ep. apply rpop_eq in Ep. destruct Ep as [l ->].
      match type of H with context [host_moves true false cap ?av a] =>
        destruct (host_moves true false cap av a) as [mv|] eqn:Eh; [|discriminate] end.
      apply host_moves_strict in Eh.
      assert (Hmv : mv = firstn (length mv) (firstn cap (r_avail (length (r_taken r0)) avail r))).
      { destruct Eh as [[_ ->]|(_ & E & _)]; [reflexivity|exact E]. }
      eapply rop_with_code_spec in H.
      * destruct H as (A & B & C & D & E). subst r1. rsimp.
        split; [exact A|]. split; [exact B|]. split; [exact C|]. split; [|exact E].
        eapply rgrow_move; [exact Hgr|exact Hmv|exact D].
      * destruct HB as (HL & HP & HR & HG). subst r1. unfold rpre, RBase. rsimp.
        split.
        { split; [rewrite Hin in HL; rewrite app_nil_r in HL; rewrite HL; reflexivity|].
          split; [exact HP|]. split; [exact HR|].
          rewrite HG, Hin. rewrite lg_toks_r_app.
          assert (E1 : lg_toks_r k (if area then [KAreaNew] else [])
                         (mkLg (if has_lists k then [] else []) (if false then 1 else 0)%nat false)
                       = mkLg (if has_lists k then [] else []) (if area then 1 else 0)%nat false)
            by (destruct area; reflexivity).
          rewrite E1. apply ledger_tr. exact I. }
        split; [reflexivity|].
        destruct Eh as [[-> ->]|(Hg & _ & _)].
        { left. cbn. auto. }
        { right. destruct Hg as [Hnb Hr]. destruct (N.eqb_spec a BLOCKED); [contradiction|].
          split; [reflexivity|]. split; assumption. }
Qed.
