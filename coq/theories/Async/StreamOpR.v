(** * Async/StreamOpR.v — invariant of the reader end and its preservation by every reader action
    (for a well-behaved host, [strict = true]). *)
From Coq Require Import NArith Arith List Bool Lia Permutation Sorted.
From WB Require Import Async.AbiBuf Async.AbiBufProofs Async.StreamOp Async.StreamOpBase.
Import ListNotations.
Local Open Scope N_scope.

(** [rcbv]: to be used after the state record has been destructed (projections of a variable would
    otherwise be unfolded into matches). *)
Ltac rcbv :=
  cbv beta iota delta [remit rset_done radd_rep rset_host radd_taken radd_log radd_got radd_dropped rset_fut
         rset_ad rset_vec rset_ans rset_alive rclear
         r_alive r_done r_fut r_ad r_vec r_busy r_inbuf r_ev r_taken r_log r_got r_dropped r_rep r_lg r_ans r_out] in *.

Inductive rcfg := RCNone | RCOp (o : rop).

Definition rcfg_of (r : rst) : rcfg :=
  match r_cur_op r with Some o => RCOp o | None => RCNone end.
Definition held_of (r : rst) : list N :=
  match r_vec r with Some v => v_items v | None => [] end.

Definition rc_items (c : rcfg) : list N := match c with RCOp o => v_items (ro_vec o) | RCNone => [] end.
Definition rc_area (c : rcfg) : bool := match c with RCOp o => ro_area o | RCNone => false end.

Definition RBase (k : kind) (r : rst) (opitems held : list N) (area : bool) : Prop :=
  r_log r ++ r_inbuf r = r_taken r
  /\ Permutation (r_log r) (r_got r ++ r_dropped r ++ opitems ++ held)
  /\ Forall (fun p => fst p = snd p) (r_rep r)
  /\ r_lg r = mkLg (if has_lists k then r_inbuf r else []) (if area then 1 else 0)%nat false.

Definition rquiet (r : rst) : Prop := r_busy r = None /\ r_ev r = None /\ r_inbuf r = [].

Definition rcoh (r : rst) (c : rcfg) : Prop :=
  match c with
  | RCOp o =>
      if ro_inprog o then
        match ro_code o with
        | Some code => r_busy r = None /\ r_ev r = None /\ good code (N.of_nat (length (r_inbuf r)))
        | None => r_busy r = Some (v_spare (ro_vec o)) /\
                  match r_ev r with
                  | Some code => good code (N.of_nat (length (r_inbuf r)))
                  | None => r_inbuf r = []
                  end
        end
      else rquiet r /\ ro_code o = None /\ ro_area o = false
  | RCNone => rquiet r
  end.

Definition RCore (k : kind) (r : rst) (c : rcfg) (held : list N) : Prop :=
  RBase k r (rc_items c) held (rc_area c) /\ rcoh r c.

Definition RInv (k : kind) (r : rst) : Prop := RCore k r (rcfg_of r) (held_of r).

(** A read has resolved with vector [v] in hand. *)
Definition RDone (k : kind) (r : rst) (v : rvec) (held : list N) : Prop :=
  RBase k r (v_items v) held false /\ rquiet r.

(** What the reader end has taken during this action is a prefix of what was in flight. *)
Definition rgrow (r0 : rst) (avail : list N) (r : rst) : Prop :=
  exists d rest, r_taken r = r_taken r0 ++ d /\ avail = d ++ rest.

Lemma rgrow_refl r avail : rgrow r avail r.
Proof. exists [], avail. rewrite app_nil_r. split; reflexivity. Qed.

Lemma rgrow_avail r0 avail r :
  rgrow r0 avail r -> exists d, r_taken r = r_taken r0 ++ d /\ avail = d ++ r_avail (length (r_taken r0)) avail r.
Proof.
  intros (d & rest & E1 & E2). exists d. split; [exact E1|].
  unfold r_avail. rewrite E1, app_length.
  replace (length (r_taken r0) + length d - length (r_taken r0))%nat with (length d) by lia.
  rewrite E2 at 2. rewrite skipn_app, skipn_all, Nat.sub_diag. cbn. exact E2.
Qed.

Lemma rgrow_move r0 avail r r' cap mv :
  rgrow r0 avail r -> mv = firstn (length mv) (firstn cap (r_avail (length (r_taken r0)) avail r)) ->
  r_taken r' = r_taken r ++ mv -> rgrow r0 avail r'.
Proof.
  intros Hg Hmv Ht. apply rgrow_avail in Hg. destruct Hg as (d & E1 & E2).
  set (rest := r_avail (length (r_taken r0)) avail r) in *.
  rewrite firstn_firstn in Hmv.
  exists (d ++ mv), (skipn (length mv) rest). split.
  - rewrite Ht, E1, app_assoc. reflexivity.
  - rewrite <- app_assoc. rewrite E2 at 1. f_equal.
    rewrite Hmv at 1.
    rewrite <- (firstn_skipn (Nat.min (length mv) cap) rest) at 1. f_equal.
    assert (length mv <= cap)%nat.
    { rewrite Hmv. rewrite firstn_length. lia. }
    f_equal. lia.
Qed.

(** ** [in_progress_update] on a code of a well-behaved host *)
Lemma rop_update_good k v area inbuf c :
  good c (N.of_nat (length inbuf)) ->
  rop_update k v area inbuf c = RUPanic \/
  exists s v' sd,
    rop_update k v area inbuf c
    = RUOk s v' sd inbuf ((if lifted k then map KLiftR inbuf else []) ++ (if area then [KAreaFree] else []))
    /\ v_items v' = v_items v ++ inbuf /\ sres_count s = N.of_nat (length inbuf).
Proof.
  intros [Hnb [r [D C]]]. unfold rop_update. rewrite D. cbv zeta.
  assert (Hgen : forall amt, amt = N.of_nat (length inbuf) ->
     (if amt <=? N.of_nat (v_spare v)
      then RUOk (SComplete amt) (mkV (v_items v ++ firstn (N.to_nat amt) inbuf) (v_cap v)) (is_dropped r)
                (firstn (N.to_nat amt) inbuf)
                ((if lifted k then map KLiftR (firstn (N.to_nat amt) inbuf) else []) ++ (if area then [KAreaFree] else []))
      else RUPanic) = RUPanic \/
     exists s v' sd,
       (if amt <=? N.of_nat (v_spare v)
        then RUOk (SComplete amt) (mkV (v_items v ++ firstn (N.to_nat amt) inbuf) (v_cap v)) (is_dropped r)
                  (firstn (N.to_nat amt) inbuf)
                  ((if lifted k then map KLiftR (firstn (N.to_nat amt) inbuf) else []) ++ (if area then [KAreaFree] else []))
        else RUPanic)
       = RUOk s v' sd inbuf ((if lifted k then map KLiftR inbuf else []) ++ (if area then [KAreaFree] else []))
       /\ v_items v' = v_items v ++ inbuf /\ sres_count s = N.of_nat (length inbuf)).
  { intros amt ->. rewrite Nat2N.id, firstn_all.
    destruct (N.of_nat (length inbuf) <=? N.of_nat (v_spare v)); [right|left; reflexivity].
    do 3 eexists. split; [reflexivity|]. split; reflexivity. }
  destruct r as [|n|n|n]; cbn [rcode_count] in *.
  - apply decode_blocked_iff in D. contradiction.
  - apply Hgen. exact C.
  - destruct n as [|p]; [|apply Hgen; exact C].
    right. destruct inbuf; [|cbn in C; lia]. exists SDropped, v, false.
    rewrite app_nil_r. destruct (lifted k); repeat split; reflexivity.
  - destruct n as [|p]; [|apply Hgen; exact C].
    right. destruct inbuf; [|cbn in C; lia]. exists SCancelled, v, false.
    rewrite app_nil_r. destruct (lifted k); repeat split; reflexivity.
Qed.

Lemma fold_liftr k pre rest a e :
  lg_toks_r k (map KLiftR pre) (mkLg (if has_lists k then pre ++ rest else []) a e)
  = mkLg (if has_lists k then rest else []) a e.
Proof. apply (fold_release k (lg_tok_r k) KLiftR (fun g id => eq_refl)). Qed.

Lemma ledger_lift k inbuf (area : bool) :
  lg_toks_r k ((if lifted k then map KLiftR inbuf else []) ++ (if area then [KAreaFree] else []))
            (mkLg (if has_lists k then inbuf else []) (if area then 1 else 0)%nat false)
  = mkLg (if has_lists k then [] else []) 0 false.
Proof.
  rewrite lg_toks_r_app.
  assert (E : lg_toks_r k (if lifted k then map KLiftR inbuf else [])
                (mkLg (if has_lists k then inbuf else []) (if area then 1 else 0)%nat false)
              = mkLg (if has_lists k then [] else []) (if area then 1 else 0)%nat false).
  { destruct (lifted k) eqn:El.
    - rewrite <- (app_nil_r inbuf) at 2. apply fold_liftr.
    - destruct k; try discriminate. reflexivity. }
  rewrite E. destruct area; reflexivity.
Qed.

Lemma perm_into_vec {A} (l g d o h i : list A) :
  Permutation l (g ++ d ++ o ++ h) -> Permutation (l ++ i) (g ++ d ++ (o ++ i) ++ h).
Proof.
  intros H. rewrite (Permutation_app_tail i H). rewrite <- !app_assoc.
  apply Permutation_app_head. apply Permutation_app_head. apply Permutation_app_head.
  apply Permutation_app_comm.
Qed.

(** ** [poll_complete_with_code] *)
Definition rpre (k : kind) (r : rst) (v : rvec) (area : bool) (code : N) (held : list N) : Prop :=
  RBase k r (v_items v) held area /\ r_ev r = None
  /\ ((code = BLOCKED /\ r_busy r = Some (v_spare v) /\ r_inbuf r = [])
      \/ (r_busy r = None /\ good code (N.of_nat (length (r_inbuf r))))).

Lemma rop_with_code_spec k v area code r r' p held :
  rpre k r v area code held -> rop_with_code k v area code r = Ok (r', p) ->
  r_vec r' = r_vec r /\ r_fut r' = r_fut r /\ r_ad r' = r_ad r /\ r_taken r' = r_taken r /\
  match p with
  | RPending o' => RCore k r' (RCOp o') held /\ ro_inprog o' = true
  | RReady s v' => RDone k r' v' held
  end.
Proof.
  intros (HB & Hev & Hc) H. unfold rop_with_code in H.
  destruct Hc as [(-> & Hbusy & Hin) | (Hbusy & Hg)].
  - assert (E : rop_update k v area (r_inbuf r) BLOCKED = RUBlocked) by reflexivity.
    rewrite E in H. injection H as <- <-.
    do 4 (split; [reflexivity|]). split; [|reflexivity].
    split; [exact HB|]. cbn. rewrite Hbusy, Hev. split; [reflexivity|exact Hin].
  - destruct (rop_update_good k v area (r_inbuf r) code Hg) as [E|(s & v' & sd & E & Hi & Hcnt)];
      rewrite E in H; [discriminate|].
    injection H as <- <-. destruct HB as (HL & HP & HR & HG).
    assert (HR' : Forall (fun p : N * N => fst p = snd p)
                    (r_rep r ++ [(N.of_nat (length (r_inbuf r)), sres_count s)])).
    { apply Forall_app; split; [exact HR|]. constructor; [|constructor]. cbn. rewrite Hcnt. reflexivity. }
    clear E. destruct r. destruct sd; rcbv;
      (do 4 (split; [reflexivity|]);
       unfold RDone, RBase, rquiet; rcbv;
       split; [|split; [exact Hbusy|split; [exact Hev|reflexivity]]];
       split; [rewrite app_nil_r; exact HL|];
       split; [rewrite Hi; apply perm_into_vec; exact HP|];
       split; [exact HR'|];
       rewrite HG; apply ledger_lift).
Qed.

Lemma rset_ans_eta r : r = rset_ans (r_ans r) r.
Proof. destruct r; reflexivity. Qed.

Lemma rpop_eq r a r1 : rpop r = (a, r1) -> exists l, r1 = rset_ans l r.
Proof.
  unfold rpop. destruct (r_ans r) eqn:E; intros [= <- <-].
  - exists (r_ans r). apply rset_ans_eta.
  - eexists; reflexivity.
Qed.

Lemma ledger_tr k mv t a e :
  match t with KTr _ | KLiftR _ | KAreaNew | KAreaFree => False | _ => True end ->
  lg_toks_r k (tr mv ++ [t]) (mkLg (if has_lists k then [] else []) a e)
  = mkLg (if has_lists k then mv else []) a e.
Proof.
  intros Ht. rewrite lg_toks_r_app.
  assert (E : lg_toks_r k (tr mv) (mkLg (if has_lists k then [] else []) a e)
              = mkLg (if has_lists k then mv else []) a e).
  { destruct mv as [|x mv]; [reflexivity|]. cbn. unfold lg_add. cbn. destruct (has_lists k); reflexivity. }
  rewrite E. destruct t; try contradiction; reflexivity.
Qed.

Lemma ledger_tr0 k mv a e :
  lg_toks_r k (tr mv) (mkLg (if has_lists k then [] else []) a e)
  = mkLg (if has_lists k then mv else []) a e.
Proof.
  destruct mv as [|x mv]; [reflexivity|]. cbn. unfold lg_add. cbn. destruct (has_lists k); reflexivity.
Qed.

(** Tokens without ledger effect / an area allocation / the host storing items. *)
Lemma rbase_inert k r r2 items held area ts :
  RBase k r items held area -> (forall g, lg_toks_r k ts g = g) ->
  r_taken r2 = r_taken r -> r_log r2 = r_log r -> r_inbuf r2 = r_inbuf r ->
  r_got r2 = r_got r -> r_dropped r2 = r_dropped r -> r_rep r2 = r_rep r ->
  r_lg r2 = lg_toks_r k ts (r_lg r) ->
  RBase k r2 items held area.
Proof.
  intros (HL & HP & HR & HG) Hi E1 E2 E3 E4 E5 E6 E7.
  unfold RBase. rewrite E1, E2, E3, E4, E5, E6, E7, Hi. auto.
Qed.

Lemma rbase_area k r items held (area : bool) :
  RBase k r items held false -> RBase k (remit k (if area then [KAreaNew] else []) r) items held area.
Proof.
  intros (HL & HP & HR & HG). unfold RBase.
  change (r_log (remit k (if area then [KAreaNew] else []) r)) with (r_log r).
  change (r_inbuf (remit k (if area then [KAreaNew] else []) r)) with (r_inbuf r).
  change (r_taken (remit k (if area then [KAreaNew] else []) r)) with (r_taken r).
  change (r_got (remit k (if area then [KAreaNew] else []) r)) with (r_got r).
  change (r_dropped (remit k (if area then [KAreaNew] else []) r)) with (r_dropped r).
  change (r_rep (remit k (if area then [KAreaNew] else []) r)) with (r_rep r).
  change (r_lg (remit k (if area then [KAreaNew] else []) r))
    with (lg_toks_r k (if area then [KAreaNew] else []) (r_lg r)).
  split; [exact HL|]. split; [exact HP|]. split; [exact HR|].
  rewrite HG. destruct area; reflexivity.
Qed.

Lemma rbase_move k r r5 items held (area : bool) mv t :
  RBase k r items held area -> r_inbuf r = [] ->
  match t with KTr _ | KLiftR _ | KAreaNew | KAreaFree => False | _ => True end ->
  r_taken r5 = r_taken r ++ mv -> r_log r5 = r_log r -> r_inbuf r5 = mv ->
  r_got r5 = r_got r -> r_dropped r5 = r_dropped r -> r_rep r5 = r_rep r ->
  r_lg r5 = lg_toks_r k (tr mv ++ [t]) (r_lg r) ->
  RBase k r5 items held area.
Proof.
  intros (HL & HP & HR & HG) Hin Ht E1 E2 E3 E4 E5 E6 E7.
  unfold RBase. rewrite E1, E2, E3, E4, E5, E6, E7.
  split; [rewrite Hin, app_nil_r in HL; rewrite HL; reflexivity|].
  split; [exact HP|]. split; [exact HR|].
  rewrite HG, Hin. apply ledger_tr. exact Ht.
Qed.

Lemma rbase_swap k r o h o' h' area :
  RBase k r o h area -> Permutation (o ++ h) (o' ++ h') -> RBase k r o' h' area.
Proof.
  intros (HL & HP & HR & HG) Hp. split; [exact HL|]. split; [|split; assumption].
  eapply Permutation_trans; [exact HP|]. do 2 apply Permutation_app_head. exact Hp.
Qed.

Lemma rgrow_same r0 avail r r' : rgrow r0 avail r -> r_taken r' = r_taken r -> rgrow r0 avail r'.
Proof. intros (d & rest & E1 & E2) E. exists d, rest. split; [congruence|exact E2]. Qed.

Lemma rop_poll_spec k o r0 avail r r' p held :
  RCore k r (RCOp o) held -> rgrow r0 avail r ->
  rop_poll true k (length (r_taken r0)) avail o r = Ok (r', p) ->
  r_vec r' = r_vec r /\ r_fut r' = r_fut r /\ r_ad r' = r_ad r /\ rgrow r0 avail r' /\
  match p with
  | RPending o' => RCore k r' (RCOp o') held /\ ro_inprog o' = true
  | RReady s v' => RDone k r' v' held
  end.
Proof.
  intros (HB & Hc) Hgr H. unfold rop_poll in H. cbn [rcoh rc_items rc_area] in *.
  destruct (ro_inprog o) eqn:Ei.
  - destruct (ro_code o) as [c|] eqn:Ec.
    + destruct Hc as (Hb & He & Hg).
      eapply rop_with_code_spec in H.
      * destruct H as (A & B & C & D & E). split; [exact A|]. split; [exact B|]. split; [exact C|].
        split; [|exact E]. eapply rgrow_same; eassumption.
      * split; [exact HB|]. split; [exact He|]. right. split; assumption.
    + injection H as <- <-. do 3 (split; [reflexivity|]). split; [exact Hgr|].
      split; [|exact Ei]. split; [exact HB|]. cbn [rcoh]. rewrite Ei, Ec. exact Hc.
  - destruct Hc as ((Hb & He & Hin) & Hcode & Harea). rewrite Harea in HB.
    destruct (r_done r).
    + eapply rop_with_code_spec in H.
      * destruct H as (A & B & C & D & E). split; [exact A|]. split; [exact B|]. split; [exact C|].
        split; [|exact E]. eapply rgrow_same; eassumption.
      * split; [exact HB|]. split; [exact He|]. right. split; [exact Hb|]. rewrite Hin. exact good_dropped0.
    + set (cap := v_spare (ro_vec o)) in *.
      set (area := lifted k && negb (cap =? 0)%nat) in *.
      set (r1 := remit k (if area then [KAreaNew] else []) r) in *.
      destruct (rpop r1) as [a r2] eqn:Ep. apply rpop_eq in Ep. destruct Ep as [l ->].
      match type of H with context [host_moves true false cap ?av a] =>
        destruct (host_moves true false cap av a) as [mv|] eqn:Eh; [|discriminate] end.
      apply host_moves_strict in Eh.
      assert (Hmv : mv = firstn (length mv) (firstn cap (r_avail (length (r_taken r0)) avail r))).
      { destruct Eh as [[_ ->]|(_ & E & _)]; [reflexivity|exact E]. }
      eapply rop_with_code_spec in H.
      * destruct H as (A & B & C & D & E).
        split; [exact A|]. split; [exact B|]. split; [exact C|]. split; [|exact E].
        eapply rgrow_move; [exact Hgr|exact Hmv|exact D].
      * split.
        { eapply (rbase_move k r1 _ _ _ area mv); [apply rbase_area; exact HB|exact Hin| | | | | | | | ]; try reflexivity. exact I. }
        split; [reflexivity|].
        destruct Eh as [[-> ->]|(Hg & _ & _)].
        { left. split; [reflexivity|]. split; reflexivity. }
        { right. destruct Hg as [Hnb Hr]. split.
          - change (r_busy (rset_host (if N.eqb a BLOCKED then Some cap else None) mv None
                              (radd_taken mv (remit k (tr mv ++ [KRead (min_len cap) a]) (rset_ans l r1)))))
              with (if N.eqb a BLOCKED then Some cap else @None nat).
            destruct (N.eqb_spec a BLOCKED); [contradiction|reflexivity].
          - split; assumption. }
Qed.

Lemma rop_cancel_spec k o r0 avail r r' s v' held :
  RCore k r (RCOp o) held -> rgrow r0 avail r ->
  rop_cancel true k (length (r_taken r0)) avail o r = Ok (r', s, v') ->
  r_vec r' = r_vec r /\ r_fut r' = r_fut r /\ r_ad r' = r_ad r /\ rgrow r0 avail r' /\ RDone k r' v' held.
Proof.
  intros (HB & Hc) Hgr H. unfold rop_cancel in H. cbn [rcoh rc_items rc_area] in *.
  destruct (ro_inprog o) eqn:Ei; cbn [negb] in H.
  2:{ injection H as <- <- <-. do 3 (split; [reflexivity|]). split; [exact Hgr|].
      destruct Hc as (Hq & Hcode & Harea). rewrite Harea in HB. split; [exact HB|exact Hq]. }
  destruct (ro_code o) as [c|] eqn:Ec.
  - destruct Hc as (Hb & He & Hg).
    destruct (rop_with_code k (ro_vec o) (ro_area o) c r) as [[r3 [o3|s3 v3]]| |] eqn:E; try discriminate.
    injection H as <- <- <-.
    eapply rop_with_code_spec in E.
    + destruct E as (A & B & C & D & F). split; [exact A|]. split; [exact B|]. split; [exact C|].
      split; [|exact F]. eapply rgrow_same; eassumption.
    + split; [exact HB|]. split; [exact He|]. right. split; assumption.
  - destruct Hc as (Hb & Hev). rewrite Hb in H.
    destruct (r_ev r) as [c|] eqn:Ee.
    + match type of H with context [rop_with_code ?k ?v ?ar ?c ?r2] =>
        destruct (rop_with_code k v ar c r2) as [[r3 [o3|s3 v3]]| |] eqn:E; try discriminate end.
      injection H as <- <- <-.
      eapply rop_with_code_spec in E.
      * destruct E as (A & B & C & D & F). split; [exact A|]. split; [exact B|]. split; [exact C|].
        split; [|exact F]. eapply rgrow_same; [exact Hgr|exact D].
      * split.
        { eapply (rbase_inert k r _ _ _ _ [KCancelR c]); [exact HB|intros g; reflexivity| | | | | | | ]; reflexivity. }
        split; [reflexivity|]. right. split; [reflexivity|exact Hev].
    + set (aw := match r_ans r with [] => (CANCELLED, r) | a :: t => (a, rset_ans t r) end) in H.
      assert (Haw : exists l, snd aw = rset_ans l r).
      { unfold aw. destruct (r_ans r) eqn:El; cbn [snd]; [exists (r_ans r); apply rset_ans_eta|eexists; reflexivity]. }
      destruct aw as [a r1]. cbn [snd] in Haw. destruct Haw as [l ->].
      cbn [andb] in H. destruct (N.eqb_spec a BLOCKED) as [|Hnb]; [discriminate|].
      match type of H with context [host_moves true true ?cap ?av a] =>
        destruct (host_moves true true cap av a) as [mv|] eqn:Eh; [|discriminate] end.
      apply host_moves_strict in Eh. destruct Eh as [[-> _]|(Hg & Hmv & Hlen)]; [contradiction|].
      match type of H with context [rop_with_code ?k ?v ?ar ?c ?r2] =>
        destruct (rop_with_code k v ar c r2) as [[r3 [o3|s3 v3]]| |] eqn:E; try discriminate end.
      injection H as <- <- <-.
      eapply rop_with_code_spec in E.
      * destruct E as (A & B & C & D & F). split; [exact A|]. split; [exact B|]. split; [exact C|].
        split; [|exact F]. eapply rgrow_move; [exact Hgr|exact Hmv|exact D].
      * split.
        { eapply (rbase_move k r _ _ _ _ mv); [exact HB|exact Hev| | | | | | | | ]; try reflexivity. exact I. }
        split; [reflexivity|]. right. split; [reflexivity|exact Hg].
Qed.

(** ** Disposing of a resolved read *)
Lemma drop_vals_inert_r k v g : lg_toks_r k (drop_vals k v) g = g.
Proof.
  apply lg_r_inert. intros t Ht. unfold drop_vals in Ht. destruct (lifted k); [|contradiction].
  apply in_map_iff in Ht. destruct Ht as (x & <- & _). exact I.
Qed.

Lemma perm_drop_items {A} (g d o h : list A) :
  Permutation (g ++ d ++ o ++ h) (g ++ (d ++ o) ++ [] ++ h).
Proof. cbn. rewrite <- app_assoc. reflexivity. Qed.

Lemma perm_next {A} (g d a h : list A) (y : A) :
  Permutation (g ++ d ++ (a ++ [y]) ++ h) ((g ++ [y]) ++ (d ++ a) ++ [] ++ h).
Proof.
  cbn [app]. rewrite <- !app_assoc. apply Permutation_app_head.
  rewrite (app_assoc d a). rewrite (app_assoc d a). apply Permutation_app_swap_app.
Qed.

Lemma r_drop_vec_spec k v r held :
  RDone k r v held -> RCore k (r_drop_vec k v r) RCNone held.
Proof.
  intros ((HL & HP & HR & HG) & Hq). split; [|exact Hq].
  unfold RBase, r_drop_vec.
  change (r_lg (radd_dropped (v_items v) (remit k (drop_vals k (v_items v)) r)))
    with (lg_toks_r k (drop_vals k (v_items v)) (r_lg r)).
  rewrite drop_vals_inert_r.
  split; [exact HL|]. split; [|split; [exact HR|exact HG]].
  eapply Permutation_trans; [exact HP|]. apply perm_drop_items.
Qed.

Lemma rdone_none k r held : RDone k r (mkV [] 0) held <-> RCore k r RCNone held.
Proof. split; intros H; exact H. Qed.

Lemma next_done_spec k v r r' x held :
  RDone k r v held -> next_done k v r = (r', x) ->
  RCore k r' RCNone held /\ r_vec r' = r_vec r /\ r_fut r' = r_fut r /\ r_ad r' = r_ad r /\ r_taken r' = r_taken r.
Proof.
  intros HD H. unfold next_done in H. destruct (rev (v_items v)) as [|y rest] eqn:Er.
  - injection H as <- <-. split; [|auto]. destruct HD as (HB & Hq). split; [|exact Hq].
    assert (v_items v = []) by (rewrite <- (rev_involutive (v_items v)), Er; reflexivity).
    rewrite H in HB. exact HB.
  - injection H as <- <-. split; [|auto].
    assert (Hv : v_items v = rev rest ++ [y]) by (rewrite <- (rev_involutive (v_items v)), Er; reflexivity).
    destruct HD as ((HL & HP & HR & HG) & Hq). split; [|exact Hq].
    unfold RBase, r_drop_vec.
    change (r_lg (radd_got [y] (radd_dropped (v_items (mkV (rev rest) (v_cap v)))
                  (remit k (drop_vals k (v_items (mkV (rev rest) (v_cap v)))) r))))
      with (lg_toks_r k (drop_vals k (rev rest)) (r_lg r)).
    rewrite drop_vals_inert_r.
    split; [exact HL|]. split; [|split; [exact HR|exact HG]].
    eapply Permutation_trans; [exact HP|]. rewrite Hv. cbn [rc_items v_items app].
    change (r_got (radd_got [y] (radd_dropped (rev rest) (remit k (drop_vals k (rev rest)) r))))
      with (r_got r ++ [y]).
    change (r_dropped (radd_got [y] (radd_dropped (rev rest) (remit k (drop_vals k (rev rest)) r))))
      with (r_dropped r ++ rev rest).
    apply perm_next.
Qed.

Lemma rcore_inert k r c held ts :
  (forall g, lg_toks_r k ts g = g) -> RCore k r c held -> RCore k (remit k ts r) c held.
Proof.
  intros Hi (HB & Hc). split.
  - eapply (rbase_inert k r _ _ _ _ ts); [exact HB|exact Hi| | | | | | | ]; reflexivity.
  - destruct c; exact Hc.
Qed.

Lemma rcore_drop_end k r c held : RCore k r c held -> RCore k (r_drop_end k r) c held.
Proof.
  intros H. unfold r_drop_end. apply rcore_inert; [intros g; reflexivity|].
  destruct H as (HB & Hc). split; [exact HB|destruct c; exact Hc].
Qed.

Lemma rdone_op k r v held :
  RDone k r v held -> forall v', v_items v' = v_items v -> RCore k r (RCOp (mkRop false v' false None)) held.
Proof.
  intros (HB & Hq) v' E. split.
  - cbn [rc_items rc_area ro_vec ro_area]. rewrite E. exact HB.
  - cbn. auto.
Qed.

Lemma v_reserve1_items k v : v_items (v_reserve1 k v) = v_items v.
Proof. unfold v_reserve1. destruct (Nat.eqb _ _); reflexivity. Qed.

Lemma perm_got {A} (g d o h : list A) :
  Permutation (g ++ d ++ o ++ h) ((g ++ o) ++ d ++ [] ++ h).
Proof.
  cbn [app]. rewrite <- app_assoc. apply Permutation_app_head.
  rewrite (app_assoc d o). rewrite (app_assoc o d). apply Permutation_app_tail. apply Permutation_app_comm.
Qed.

(** ** [collect]'s loop *)
Lemma coll_loop_spec k fuel : forall r0 avail s v r r' f held,
  RDone k r v held -> rgrow r0 avail r ->
  coll_loop fuel true k (length (r_taken r0)) avail s v r = Ok (r', f) ->
  r_vec r' = r_vec r /\ r_ad r' = r_ad r /\ rgrow r0 avail r' /\
  match f with
  | Some (RFColl o) => RCore k r' (RCOp o) held
  | None => RCore k r' RCNone held
  | _ => False
  end.
Proof.
  induction fuel as [|fuel IH]; intros r0 avail s v r r' f held HD Hgr H; cbn [coll_loop] in H.
  - destruct s; try discriminate. injection H as <- <-.
    do 2 (split; [reflexivity|]). split; [eapply rgrow_same; [exact Hgr|reflexivity]|].
    destruct HD as ((HL & HP & HR & HG) & Hq). split; [|exact Hq].
    split; [exact HL|]. split; [|split; [exact HR|exact HG]].
    eapply Permutation_trans; [exact HP|]. apply perm_got.
  - destruct s; try discriminate.
    + destruct (rop_poll true k (length (r_taken r0)) avail
                  (mkRop false (v_reserve1 k v) false None) r) as [[r1 [o1|s1 v1]]| |] eqn:Ep; try discriminate.
      * injection H as <- <-. eapply rop_poll_spec in Ep; [|eapply rdone_op; [exact HD|apply v_reserve1_items]|exact Hgr].
        destruct Ep as (A & B & C & D & E & _). auto.
      * eapply rop_poll_spec in Ep; [|eapply rdone_op; [exact HD|apply v_reserve1_items]|exact Hgr].
        destruct Ep as (A & B & C & D & E).
        eapply IH in H; [|exact E|exact D]. destruct H as (H1 & H2 & H3 & H4).
        split; [congruence|]. split; [congruence|]. split; [exact H3|exact H4].
    + injection H as <- <-.
      do 2 (split; [reflexivity|]). split; [eapply rgrow_same; [exact Hgr|reflexivity]|].
      destruct HD as ((HL & HP & HR & HG) & Hq). split; [|exact Hq].
      split; [exact HL|]. split; [|split; [exact HR|exact HG]].
      eapply Permutation_trans; [exact HP|]. apply perm_got.
Qed.

(** ** Every reader action preserves the invariant *)
Definition RInv' (k : kind) (r : rst) : Prop :=
  RInv k r /\ (r_fut r <> None -> r_ad r = None) /\ (forall o, r_fut r = Some (RFOp o) -> r_vec r = None).

Definition rgrows (r : rst) (avail : list N) (r' : rst) : Prop :=
  exists d rest, r_taken r' = r_taken r ++ d /\ avail = d ++ rest.

Lemma rcore_fresh_op k r held cap :
  RCore k r RCNone held -> RCore k r (RCOp (mkRop false (mkV [] cap) false None)) held.
Proof. intros (HB & Hq). split; [exact HB|]. cbn. auto. Qed.

Lemma rdone_held k r v :
  RDone k r v [] -> RCore k r RCNone (v_items v).
Proof.
  intros (HB & Hq). split; [|exact Hq]. eapply rbase_swap; [exact HB|].
  cbn [rc_items app]. rewrite app_nil_r. reflexivity.
Qed.

Lemma r_poll_spec k avail r r' :
  RInv' k r -> r_poll true k avail r = Ok r' -> RInv' k r' /\ rgrows r avail r'.
Proof.
  intros (HI & Hex & Hvec) H. unfold r_poll in H. unfold RInv, rcfg_of, r_cur_op in HI.
  pose proof (rgrow_refl r avail) as Hg0.
  destruct (r_fut r) as [[o| |o| |o]|] eqn:Ef; [| | | | |discriminate];
    assert (Had : r_ad r = None) by (apply Hex; discriminate); cbn [rfut_op] in HI; cbn [lift_res] in H.
  - (* StreamRead *)
    assert (Hv : r_vec r = None) by (eapply Hvec; reflexivity).
    assert (Hh : held_of r = []) by (unfold held_of; rewrite Hv; reflexivity). rewrite Hh in HI.
    destruct (rop_poll true k (length (r_taken r)) avail o r) as [[r1 [o1|s1 v1]]| |] eqn:Ep; try discriminate;
      cbn [lift_res] in H; injection H as <-;
      eapply rop_poll_spec in Ep; try exact HI; try exact Hg0; destruct Ep as (A & B & C & D & E).
    + split; [|exact D]. split; [|split].
      * unfold RInv, rcfg_of, r_cur_op, held_of. cbn. rewrite A, Hv. exact (proj1 E).
      * intros _. cbn. congruence.
      * intros o' _. cbn. congruence.
    + split; [|exact D]. split; [|split].
      * unfold RInv, rcfg_of, r_cur_op, held_of. cbn. rewrite C, Had.
        apply rcore_inert; [intros g; reflexivity|]. apply rdone_held in E.
        destruct E as (HB & Hq). split; [exact HB|exact Hq].
      * intros Hn. exfalso. apply Hn. reflexivity.
      * intros o' Hn. discriminate Hn.
  - (* next, first poll *)
    try rewrite Had in HI.
    destruct (rop_poll true k (length (r_taken r)) avail (mkRop false (mkV [] 1) false None) r)
      as [[r1 [o1|s1 v1]]| |] eqn:Ep; try discriminate; cbn [lift_res] in H;
      eapply rop_poll_spec in Ep; try (apply rcore_fresh_op; exact HI); try exact Hg0;
      destruct Ep as (A & B & C & D & E).
    + injection H as <-. split; [|exact D]. split; [|split].
      * unfold RInv, rcfg_of, r_cur_op, held_of. cbn. rewrite A. exact (proj1 E).
      * intros _. cbn. congruence.
      * intros o' Hn. discriminate Hn.
    + destruct (next_done k v1 r1) as [r2 x] eqn:En. injection H as <-.
      eapply next_done_spec in En; [|exact E]. destruct En as (F & G1 & G2 & G3 & G4).
      split; [|eapply rgrow_same; [exact D|exact G4]]. split; [|split].
      * unfold RInv, rcfg_of, r_cur_op, held_of. cbn. rewrite G3, C, Had, G1, A.
        apply rcore_inert; [intros g; reflexivity|]. destruct F as (HB & Hq). split; [exact HB|exact Hq].
      * intros Hn. exfalso. apply Hn. reflexivity.
      * intros o' Hn. discriminate Hn.
  - (* next, resumed *)
    destruct (rop_poll true k (length (r_taken r)) avail o r) as [[r1 [o1|s1 v1]]| |] eqn:Ep; try discriminate;
      cbn [lift_res] in H;
      eapply rop_poll_spec in Ep; try exact HI; try exact Hg0; destruct Ep as (A & B & C & D & E).
    + injection H as <-. split; [|exact D]. split; [|split].
      * unfold RInv, rcfg_of, r_cur_op, held_of. cbn. rewrite A. exact (proj1 E).
      * intros _. cbn. congruence.
      * intros o' Hn. discriminate Hn.
    + destruct (next_done k v1 r1) as [r2 x] eqn:En. injection H as <-.
      eapply next_done_spec in En; [|exact E]. destruct En as (F & G1 & G2 & G3 & G4).
      split; [|eapply rgrow_same; [exact D|exact G4]]. split; [|split].
      * unfold RInv, rcfg_of, r_cur_op, held_of. cbn. rewrite G3, C, Had, G1, A.
        apply rcore_inert; [intros g; reflexivity|]. destruct F as (HB & Hq). split; [exact HB|exact Hq].
      * intros Hn. exfalso. apply Hn. reflexivity.
      * intros o' Hn. discriminate Hn.
  - (* collect, first poll *)
    try rewrite Had in HI.
    destruct (coll_loop (S (coll_fuel r)) true k (length (r_taken r)) avail (SComplete 0) (mkV [] 0) r)
      as [[r1 f]| |] eqn:El; try discriminate. cbn [lift_res] in H. injection H as <-.
    eapply coll_loop_spec in El; [|exact HI|exact Hg0]. destruct El as (A & C & D & E).
    split; [|exact D]. split; [|split].
    + unfold RInv, rcfg_of, r_cur_op, held_of. cbn. rewrite A.
      destruct f as [[| | | |]|]; try contradiction; cbn [rfut_op]; [exact E|rewrite C, Had; exact E].
    + intros _. cbn. congruence.
    + intros o' Hn. cbn in Hn. destruct f as [[| | | |]|]; try contradiction; discriminate Hn.
  - (* collect, resumed *)
    destruct (rop_poll true k (length (r_taken r)) avail o r) as [[r1 [o1|s1 v1]]| |] eqn:Ep; try discriminate;
      cbn [lift_res] in H;
      eapply rop_poll_spec in Ep; try exact HI; try exact Hg0; destruct Ep as (A & B & C & D & E).
    + injection H as <-. split; [|exact D]. split; [|split].
      * unfold RInv, rcfg_of, r_cur_op, held_of. cbn. rewrite A. exact (proj1 E).
      * intros _. cbn. congruence.
      * intros o' Hn. discriminate Hn.
    + destruct (coll_loop (coll_fuel r1) true k (length (r_taken r)) avail s1 v1 r1) as [[r2 f]| |] eqn:El;
        try discriminate. cbn [lift_res] in H. injection H as <-.
      eapply coll_loop_spec in El; [|exact E|exact D]. destruct El as (A' & C' & D' & E').
      split; [|exact D']. split; [|split].
      * unfold RInv, rcfg_of, r_cur_op, held_of. cbn. rewrite A', A.
        destruct f as [[| | | |]|]; try contradiction; cbn [rfut_op]; [exact E'|rewrite C', C, Had; exact E'].
      * intros _. cbn. congruence.
      * intros o' Hn. cbn in Hn. destruct f as [[| | | |]|]; try contradiction; discriminate Hn.
Qed.

Lemma ad_poll_spec k avail r r' :
  RInv' k r -> r_fut r = None -> ad_poll true k avail r = Ok r' -> RInv' k r' /\ rgrows r avail r'.
Proof.
  intros (HI & Hex & Hvec) Hf H. unfold ad_poll in H. unfold RInv, rcfg_of, r_cur_op in HI. rewrite Hf in HI.
  pose proof (rgrow_refl r avail) as Hg0.
  assert (Hrun : forall o, RCore k r (RCOp o) (held_of r) ->
            lift_res (rop_poll true k (length (r_taken r)) avail o r)
              (fun '(r, p) =>
                 match p with
                 | RPending o => Ok (rset_ad (Some (AdReading o)) r)
                 | RReady _ v =>
                     let (r, x) := next_done k v r in
                     match x with
                     | Some _ => Ok (remit k [KSn x] (rset_ad (Some AdIdle) r))
                     | None => Ok (remit k [KSn None] (r_drop_end k (rset_ad (Some AdComplete) r)))
                     end
                 end) = Ok r' -> RInv' k r' /\ rgrows r avail r').
  { intros o HC H1.
    destruct (rop_poll true k (length (r_taken r)) avail o r) as [[r1 [o1|s1 v1]]| |] eqn:Ep; try discriminate;
      cbn [lift_res] in H1;
      eapply rop_poll_spec in Ep; try exact HC; try exact Hg0; destruct Ep as (A & B & C & D & E).
    - injection H1 as <-. split; [|exact D]. split; [|split].
      + unfold RInv, rcfg_of, r_cur_op, held_of. cbn. rewrite B, Hf, A. exact (proj1 E).
      + intros Hn. exfalso. apply Hn. cbn. congruence.
      + intros o' Hn. cbn in Hn. congruence.
    - destruct (next_done k v1 r1) as [r2 x] eqn:En.
      eapply next_done_spec in En; [|exact E]. destruct En as (F & G1 & G2 & G3 & G4).
      destruct x as [x|]; injection H1 as <-.
      + split; [|eapply rgrow_same; [exact D|exact G4]]. split; [|split].
        * unfold RInv, rcfg_of, r_cur_op, held_of. cbn. rewrite G2, B, Hf, G1, A.
          apply rcore_inert; [intros g; reflexivity|]. destruct F as (HB & Hq). split; [exact HB|exact Hq].
        * intros Hn. exfalso. apply Hn. cbn. congruence.
        * intros o' Hn. cbn in Hn. congruence.
      + split; [|eapply rgrow_same; [exact D|exact G4]]. split; [|split].
        * unfold RInv, rcfg_of, r_cur_op, held_of. cbn. rewrite G2, B, Hf, G1, A.
          apply rcore_inert; [intros g; reflexivity|]. apply rcore_inert; [intros g; reflexivity|].
          destruct F as (HB & Hq). split; [exact HB|exact Hq].
        * intros Hn. exfalso. apply Hn. cbn. congruence.
        * intros o' Hn. cbn in Hn. congruence. }
  destruct (r_ad r) as [[|o| |]|] eqn:Ea; try discriminate.
  - apply (Hrun (mkRop false (mkV [] 1) false None)); [|exact H]. apply rcore_fresh_op. exact HI.
  - apply (Hrun o); [|exact H]. exact HI.
  - injection H as <-. split; [|eapply rgrow_same; [apply rgrow_refl|reflexivity]]. split; [|split].
    + unfold RInv, rcfg_of, r_cur_op, held_of. cbn. rewrite Hf, Ea.
      apply rcore_inert; [intros g; reflexivity|]. exact HI.
    + intros Hn. exfalso. apply Hn. exact Hf.
    + intros o' Hn. cbn in Hn. congruence.
Qed.

Lemma rinv_init k : RInv' k r_init.
Proof.
  split; [|split; [intros _; reflexivity|intros o Hn; discriminate Hn]].
  split; [|cbn; unfold rquiet; auto].
  split; [reflexivity|]. split; [constructor|]. split; [constructor|]. destruct k; reflexivity.
Qed.

Lemma is_some_false' {A} (o : option A) : is_some o = false -> o = None.
Proof. destruct o; [discriminate|reflexivity]. Qed.

Lemma r_cur_put o o' r : r_cur_op r = Some o -> r_cur_op (r_put_op o' r) = Some o'.
Proof.
  unfold r_cur_op, r_put_op. destruct (r_fut r) as [f|] eqn:Ef.
  - intros H. cbn. destruct f; cbn in *; congruence.
  - destruct (r_ad r) as [[|o1| |]|] eqn:Ea; try discriminate. intros _. cbn. rewrite Ef. reflexivity.
Qed.

Lemma perm_take {A} (g d o h : list A) :
  Permutation (g ++ d ++ o ++ h) ((g ++ h) ++ d ++ o ++ []).
Proof.
  rewrite app_nil_r. rewrite <- app_assoc. apply Permutation_app_head.
  rewrite (app_assoc d o h). apply Permutation_app_comm.
Qed.

Theorem rstep_inv k avail a r r' :
  RInv' k r -> rstep true k avail a r = Ok r' -> RInv' k r' /\ rgrows r avail r'.
Proof.
  intros HI H. unfold rstep in H.
  assert (HI0 : RInv' k (rclear r)) by exact HI. clear HI.
  change (RInv' k r' /\ rgrows (rclear r) avail r').
  set (r0 := rclear r) in *. clearbody r0. clear r.
  assert (Hgs : forall r2, rgrows r0 avail r2 -> rgrows r0 avail r2) by auto.
  assert (Hsame : forall r2, r_taken r2 = r_taken r0 -> rgrows r0 avail r2).
  { intros r2 E. eapply rgrow_same; [apply rgrow_refl|exact E]. }
  destruct a.
  - (* read cap *)
    destruct HI0 as (HC & Hex & Hvec). unfold RInv, rcfg_of, r_cur_op in HC.
    destruct (r_alive r0); [|discriminate]. cbn [andb] in H.
    destruct (is_some (r_ad r0)) eqn:E1; [discriminate|]. destruct (is_some (r_fut r0)) eqn:E2; [discriminate|].
    apply is_some_false' in E1. apply is_some_false' in E2. rewrite E1, E2 in HC. cbn [negb andb] in H.
    injection H as <-. split; [|apply Hgs, Hsame; reflexivity]. split; [|split].
    + unfold RInv, rcfg_of, r_cur_op, held_of. cbn. destruct HC as (HB & Hq). split; [|cbn; auto].
      eapply rbase_swap; [exact HB|]. unfold held_of. cbn. rewrite app_nil_r. destruct (r_vec r0); reflexivity.
    + intros _. exact E1.
    + intros o _. reflexivity.
  - (* next *)
    destruct HI0 as (HC & Hex & Hvec). unfold RInv, rcfg_of, r_cur_op in HC.
    destruct (r_alive r0); [|discriminate]. cbn [andb] in H.
    destruct (is_some (r_ad r0)) eqn:E1; [discriminate|]. destruct (is_some (r_fut r0)) eqn:E2; [discriminate|].
    apply is_some_false' in E1. apply is_some_false' in E2. rewrite E1, E2 in HC. cbn [negb andb] in H.
    injection H as <-. split; [|apply Hgs, Hsame; reflexivity]. split; [|split].
    + unfold RInv, rcfg_of, r_cur_op, held_of. cbn. exact HC.
    + intros _. exact E1.
    + intros o Hn. discriminate Hn.
  - (* collect *)
    destruct HI0 as (HC & Hex & Hvec). unfold RInv, rcfg_of, r_cur_op in HC.
    destruct (r_alive r0); [|discriminate]. cbn [andb] in H.
    destruct (is_some (r_ad r0)) eqn:E1; [discriminate|]. destruct (is_some (r_fut r0)) eqn:E2; [discriminate|].
    apply is_some_false' in E1. apply is_some_false' in E2. rewrite E1, E2 in HC. cbn [negb andb] in H.
    injection H as <-. split; [|apply Hgs, Hsame; reflexivity]. split; [|split].
    + unfold RInv, rcfg_of, r_cur_op, held_of. cbn. exact HC.
    + intros _. exact E1.
    + intros o Hn. discriminate Hn.
  - (* into_stream *)
    destruct HI0 as (HC & Hex & Hvec). unfold RInv, rcfg_of, r_cur_op in HC.
    destruct (r_alive r0); [|discriminate]. cbn [andb] in H.
    destruct (is_some (r_ad r0)) eqn:E1; [discriminate|]. destruct (is_some (r_fut r0)) eqn:E2; [discriminate|].
    apply is_some_false' in E1. apply is_some_false' in E2. rewrite E1, E2 in HC. cbn [negb andb] in H.
    injection H as <-. split; [|apply Hgs, Hsame; reflexivity]. split; [|split].
    + unfold RInv, rcfg_of, r_cur_op, held_of. cbn. rewrite E2. exact HC.
    + intros Hn. exfalso. apply Hn. exact E2.
    + intros o Hn. cbn in Hn. congruence.
  - (* poll *)
    assert (HI1 : RInv' k (rset_ans ans r0)) by exact HI0.
    destruct (is_some (r_fut (rset_ans ans r0))) eqn:E1.
    + apply r_poll_spec in H; [|exact HI1]. destruct H as [A B]. split; [exact A|apply Hgs; exact B].
    + destruct (is_some (r_ad (rset_ans ans r0))); [|discriminate].
      apply is_some_false' in E1.
      apply ad_poll_spec in H; [|exact HI1|exact E1]. destruct H as [A B]. split; [exact A|apply Hgs; exact B].
  - (* host event *)
    destruct HI0 as (HC & Hex & Hvec). unfold RInv, rcfg_of in HC.
    destruct (r_busy r0) as [cap|] eqn:Eb; [|discriminate]. destruct (r_ev r0) eqn:Ee; [discriminate|].
    destruct (N.eqb_spec code BLOCKED) as [|Hnb]; [discriminate|].
    destruct (host_moves true false cap (firstn cap avail) code) as [mv|] eqn:Eh; [|discriminate].
    injection H as <-. apply host_moves_strict in Eh. destruct Eh as [[-> _]|(Hg & Hmv & Hlen)]; [contradiction|].
    destruct (r_cur_op r0) as [o|] eqn:Eo.
    2:{ destruct HC as (_ & Hq & _). congruence. }
    destruct HC as (HB & Hc). cbn [rcoh] in Hc.
    destruct (ro_inprog o) eqn:Ei; [|destruct Hc as ((? & _) & _); congruence].
    destruct (ro_code o) eqn:Ec; [destruct Hc as (? & _); congruence|].
    rewrite Ee, Eb in Hc. destruct Hc as ([= Hcap] & Hin).
    split.
    2:{ apply Hgs. exists mv, (skipn (length mv) avail). split; [reflexivity|].
        rewrite Hmv at 1. rewrite firstn_firstn.
        assert (length mv <= cap)%nat by (rewrite Hmv, firstn_length, firstn_length; lia).
        replace (Nat.min (length mv) cap) with (length mv) by lia.
        symmetry. apply firstn_skipn. }
    split; [|split; [exact Hex|exact Hvec]].
    unfold RInv, rcfg_of.
    change (r_cur_op (rset_host (Some cap) mv (Some code) (radd_taken mv (remit k (tr mv) r0))))
      with (r_cur_op r0).
    rewrite Eo. split.
    + unfold RBase.
      destruct HB as (HL & HP & HR & HG).
      change (r_lg (rset_host (Some cap) mv (Some code) (radd_taken mv (remit k (tr mv) r0))))
        with (lg_toks_r k (tr mv) (r_lg r0)).
      rewrite HG, Hin, ledger_tr0.
      split; [cbn; rewrite Hin, app_nil_r in HL; rewrite HL; reflexivity|].
      split; [exact HP|]. split; [exact HR|reflexivity].
    + cbn [rcoh]. rewrite Ei, Ec. cbn. rewrite Hcap. split; [reflexivity|exact Hg].
  - (* delivery *)
    destruct HI0 as (HC & Hex & Hvec). unfold RInv, rcfg_of in HC.
    destruct (r_ev r0) as [c|] eqn:Ee; [|discriminate].
    destruct (r_cur_op r0) as [o|] eqn:Eo; [|discriminate]. injection H as <-.
    destruct HC as (HB & Hc). cbn [rcoh] in Hc.
    destruct (ro_inprog o) eqn:Ei; [|destruct Hc as ((_ & ? & _) & _); congruence].
    destruct (ro_code o) eqn:Ec; [destruct Hc as (_ & ? & _); congruence|].
    rewrite Ee in Hc. destruct Hc as (Hb & Hg).
    set (r1 := rset_host None (r_inbuf r0) None r0).
    assert (Eo1 : r_cur_op r1 = Some o) by exact Eo.
    split.
    2:{ apply Hgs, Hsame. unfold r_put_op. destruct (r_fut r1); [reflexivity|]. destruct (r_ad r1) as [[| | |]|]; reflexivity. }
    split; [|split].
    + unfold RInv, rcfg_of. rewrite (r_cur_put o _ r1 Eo1).
      assert (Hcore : forall r2, r_taken r2 = r_taken r0 -> r_log r2 = r_log r0 -> r_inbuf r2 = r_inbuf r0 ->
                r_got r2 = r_got r0 -> r_dropped r2 = r_dropped r0 -> r_rep r2 = r_rep r0 -> r_lg r2 = r_lg r0 ->
                r_busy r2 = None -> r_ev r2 = None -> held_of r2 = held_of r0 ->
                RCore k r2 (RCOp (mkRop true (ro_vec o) (ro_area o) (Some c))) (held_of r2)).
      { intros r2 E1 E2 E3 E4 E5 E6 E7 E8 E9 E10. rewrite E10. split.
        - eapply (rbase_inert k r0 r2 _ _ _ []); [exact HB|intros g; reflexivity| | | | | | | ]; assumption.
        - cbn. rewrite E3. auto. }
      unfold r_put_op. destruct (r_fut r1) eqn:Ef1.
      * apply Hcore; reflexivity.
      * destruct (r_ad r1) as [[|o1| |]|] eqn:Ea1; try (unfold r_cur_op in Eo1; rewrite Ef1, Ea1 in Eo1; discriminate).
        apply Hcore; reflexivity.
    + unfold r_put_op. destruct (r_fut r1) eqn:Ef1.
      * intros _. cbn. apply Hex. change (r_fut r0) with (r_fut r1). congruence.
      * destruct (r_ad r1) as [[|o1| |]|] eqn:Ea1; cbn; intros Hn; exfalso; apply Hn; exact Ef1.
    + unfold r_put_op. destruct (r_fut r1) as [f|] eqn:Ef1.
      * intros o' Hn. cbn in Hn. destruct f; cbn in Hn; try discriminate.
        cbn. eapply Hvec. change (r_fut r0) with (r_fut r1). rewrite Ef1. reflexivity.
      * destruct (r_ad r1) as [[|o1| |]|] eqn:Ea1; intros o' Hn; cbn in Hn; change (r_fut r0) with (r_fut r1) in Hn; congruence.
  - (* cancel *)
    destruct HI0 as (HC & Hex & Hvec). unfold RInv, rcfg_of, r_cur_op in HC.
    destruct (r_fut r0) as [[o| |o| |o]|] eqn:Ef; try discriminate.
    assert (Had : r_ad r0 = None) by (apply Hex; discriminate).
    assert (Hv : r_vec r0 = None) by (eapply Hvec; reflexivity).
    assert (Hh : held_of r0 = []) by (unfold held_of; rewrite Hv; reflexivity). rewrite Hh in HC. cbn [rfut_op] in HC.
    destruct (rop_cancel true k (length (r_taken r0)) avail o (rset_ans ans r0)) as [[[r1 s1] v1]| |] eqn:Ep;
      try discriminate. cbn [lift_res] in H. injection H as <-.
    change (length (r_taken r0)) with (length (r_taken (rset_ans ans r0))) in Ep.
    eapply rop_cancel_spec in Ep; [|exact HC|apply rgrow_refl]. destruct Ep as (A & B & C & D & E).
    split; [|apply Hgs; exact D]. split; [|split].
    + unfold RInv, rcfg_of, r_cur_op, held_of. cbn. cbn in C. rewrite C, Had.
      apply rcore_inert; [intros g; reflexivity|]. apply rdone_held in E.
      destruct E as (HB & Hq). split; [exact HB|exact Hq].
    + intros Hn. exfalso. apply Hn. reflexivity.
    + intros o' Hn. discriminate Hn.
  - (* drop the future / the adapter *)
    assert (HI1 : RInv' k (rset_ans ans r0)) by exact HI0. clear HI0.
    change (RInv' k r' /\ rgrows (rset_ans ans r0) avail r').
    change (length (r_taken r0)) with (length (r_taken (rset_ans ans r0))) in H.
    set (r1 := rset_ans ans r0) in *. clearbody r1. clear r0 Hgs Hsame.
    destruct HI1 as (HC & Hex & Hvec). unfold RInv, rcfg_of, r_cur_op in HC.
    (* cancel + drop of the vector, then any wrapper that keeps the core and clears the future/adapter *)
    assert (Hcancel : forall o (fin : rst -> rst),
              RCore k r1 (RCOp o) (held_of r1) ->
              (forall r2, r_fut r2 = r_fut r1 ->
                          r_taken (fin r2) = r_taken r2 /\ r_vec (fin r2) = r_vec r2 /\ r_fut (fin r2) = None) ->
              (forall r2 held, RCore k r2 RCNone held -> RCore k (fin r2) RCNone held) ->
              (forall r2, r_ad r2 = r_ad r1 -> r_ad (fin r2) = None \/ r_ad (fin r2) = Some AdGone) ->
              lift_res (rop_cancel true k (length (r_taken r1)) avail o r1)
                       (fun '(r, _, v) => Ok (fin (r_drop_vec k v r))) = Ok r' ->
              RInv' k r' /\ rgrows r1 avail r').
    { intros o fin HCo Hft Hfc Hfa H1.
      destruct (rop_cancel true k (length (r_taken r1)) avail o r1) as [[[r2 s2] v2]| |] eqn:Ep; try discriminate.
      cbn [lift_res] in H1. injection H1 as <-.
      eapply rop_cancel_spec in Ep; [|exact HCo|apply rgrow_refl]. destruct Ep as (A & B & C & D & E).
      destruct (Hft (r_drop_vec k v2 r2) B) as (F1 & F2 & F3).
      assert (Hcur : r_cur_op (fin (r_drop_vec k v2 r2)) = None).
      { unfold r_cur_op. rewrite F3. destruct (Hfa (r_drop_vec k v2 r2) C) as [-> | ->]; reflexivity. }
      split.
      - split; [|split].
        + unfold RInv, rcfg_of, held_of. rewrite Hcur, F2.
          apply Hfc. change (r_vec (r_drop_vec k v2 r2)) with (r_vec r2). rewrite A.
          apply r_drop_vec_spec. exact E.
        + intros Hn. exfalso. apply Hn. exact F3.
        + intros o' Hn. congruence.
      - eapply rgrow_same; [exact D|]. rewrite F1. reflexivity. }
    assert (Hsame1 : forall r2, r_taken r2 = r_taken r1 -> rgrows r1 avail r2).
    { intros r2 E. eapply rgrow_same; [apply rgrow_refl|exact E]. }
    destruct (r_fut r1) as [[o| |o| |o]|] eqn:Ef; cbn [rfut_op] in HC.
    + (* StreamRead *)
      assert (Had : r_ad r1 = None) by (apply Hex; discriminate).
      apply (Hcancel o (fun r => rset_fut None r)); [exact HC| | | |exact H].
      * intros r2 _. auto.
      * intros r2 held X. exact X.
      * intros r2 E. left. cbn. congruence.
    + (* next, never polled *)
      assert (Had : r_ad r1 = None) by (apply Hex; discriminate).
      injection H as <-. split; [|apply Hsame1; reflexivity]. split; [|split].
      * unfold RInv, rcfg_of, r_cur_op, held_of. cbn. rewrite Had. exact HC.
      * intros Hn. exfalso. apply Hn. reflexivity.
      * intros o' Hn. discriminate Hn.
    + (* next *)
      assert (Had : r_ad r1 = None) by (apply Hex; discriminate).
      apply (Hcancel o (fun r => rset_fut None r)); [exact HC| | | |exact H].
      * intros r2 _. auto.
      * intros r2 held X. exact X.
      * intros r2 E. left. cbn. congruence.
    + (* collect, never polled *)
      assert (Had : r_ad r1 = None) by (apply Hex; discriminate).
      injection H as <-. split; [|apply Hsame1; reflexivity]. split; [|split].
      * unfold RInv, rcfg_of, r_cur_op, held_of. cbn. rewrite Had. apply rcore_drop_end. exact HC.
      * intros Hn. exfalso. apply Hn. reflexivity.
      * intros o' Hn. discriminate Hn.
    + (* collect *)
      assert (Had : r_ad r1 = None) by (apply Hex; discriminate).
      apply (Hcancel o (fun r => r_drop_end k (rset_fut None r))); [exact HC| | | |exact H].
      * intros r2 _. auto.
      * intros r2 held X. apply rcore_drop_end. exact X.
      * intros r2 E. left. cbn. congruence.
    + (* the adapter *)
      destruct (r_ad r1) as [[|o| |]|] eqn:Ea; try discriminate.
      * injection H as <-. split; [|apply Hsame1; reflexivity]. split; [|split].
        -- unfold RInv, rcfg_of, r_cur_op, held_of. cbn. rewrite Ef. apply rcore_drop_end. exact HC.
        -- intros Hn. exfalso. apply Hn. exact Ef.
        -- intros o' Hn. cbn in Hn. congruence.
      * apply (Hcancel o (fun r => r_drop_end k (rset_ad (Some AdGone) r))); [exact HC| | | |exact H].
        -- intros r2 E. split; [reflexivity|]. split; [reflexivity|]. cbn. congruence.
        -- intros r2 held X. apply rcore_drop_end. exact X.
        -- intros r2 E. right. reflexivity.
      * injection H as <-. split; [|apply Hsame1; reflexivity]. split; [|split].
        -- unfold RInv, rcfg_of, r_cur_op, held_of. cbn. rewrite Ef. exact HC.
        -- intros Hn. exfalso. apply Hn. exact Ef.
        -- intros o' Hn. cbn in Hn. congruence.
  - (* take the vector *)
    destruct HI0 as (HC & Hex & Hvec). unfold RInv in HC.
    destruct (r_vec r0) as [v|] eqn:Ev; [|discriminate]. injection H as <-.
    split; [|apply Hgs, Hsame; reflexivity]. split; [|split].
    + unfold RInv.
      change (rcfg_of (radd_got (v_items v) (remit k [KGot (v_items v)] (rset_vec None r0)))) with (rcfg_of r0).
      change (held_of (radd_got (v_items v) (remit k [KGot (v_items v)] (rset_vec None r0)))) with (@nil N).
      unfold held_of in HC. rewrite Ev in HC.
      destruct HC as ((HL & HP & HR & HG) & Hc). split.
      * split; [exact HL|]. split; [|split; [exact HR|exact HG]].
        eapply Permutation_trans; [exact HP|]. apply perm_take.
      * destruct (rcfg_of r0); exact Hc.
    + exact Hex.
    + intros o _. reflexivity.
  - (* drop the reader *)
    destruct HI0 as (HC & Hex & Hvec). unfold RInv, rcfg_of, r_cur_op in HC.
    destruct (r_alive r0); [|discriminate]. cbn [andb] in H.
    destruct (is_some (r_ad r0)) eqn:E1; [discriminate|]. destruct (is_some (r_fut r0)) eqn:E2; [discriminate|].
    apply is_some_false' in E1. apply is_some_false' in E2. rewrite E1, E2 in HC. cbn [negb andb] in H.
    injection H as <-. split; [|apply Hgs, Hsame; reflexivity]. split; [|split].
    + unfold RInv, rcfg_of, r_cur_op, held_of. cbn. rewrite E1, E2. apply rcore_drop_end. exact HC.
    + intros _. exact E1.
    + intros o Hn. cbn in Hn. congruence.
Qed.
