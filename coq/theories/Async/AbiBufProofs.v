(** * Async/AbiBufProofs.v — facts about the [AbiBuffer] model: the 7 pinned unit tests of
    abi_buffer.rs as [Example]s, [ReturnCode::decode] vs the host encoding, ledger lemmas. *)
From Coq Require Import NArith ZArith List Bool Lia.
From WB Require Import Async.AbiBuf.
Import ListNotations.
Local Open Scope N_scope.

(** ** The pinned tests of crates/guest-rust/src/rt/async_support/abi_buffer.rs *)
Definition adv (k : kind) (b : abuf) (n : nat) : abuf :=
  match ab_advance k b n with Some (b', _) => b' | None => b end.
Definition adv_toks (k : kind) (b : abuf) (n : nat) : list tok :=
  match ab_advance k b n with Some (_, t) => t | None => [] end.

(* blank_advance_to_end *)
Example blank_advance_to_end :
  let b0 := fst (ab_new KCanon [1;2;3;4]) in
  let b1 := adv KCanon b0 1 in let b2 := adv KCanon b1 2 in let b3 := adv KCanon b2 1 in
  (ab_remaining b0, ab_remaining b1, ab_remaining b2, ab_remaining b3, fst (ab_take_vec KCanon b3))
  = (4%nat, 3%nat, 1%nat, 0%nat, []).
Proof. reflexivity. Qed.

(* blank_advance_partial *)
Example blank_advance_partial :
  let b0 := fst (ab_new KCanon [1;2;3;4]) in
  (fst (ab_take_vec KCanon b0),
   fst (ab_take_vec KCanon (adv KCanon b0 1)),
   fst (ab_take_vec KCanon (adv KCanon (adv KCanon b0 1) 2)))
  = ([1;2;3;4], [2;3;4], [4]).
Proof. reflexivity. Qed.

(* blank_ptr_eq: the (pointer, length) pair is (cursor, items from the cursor on) *)
Example blank_ptr_eq :
  let b0 := fst (ab_new KCanon [1;2;3;4]) in
  let b1 := adv KCanon b0 1 in let b2 := adv KCanon b1 2 in
  (ab_cur b0, ab_offered b0, ab_cur b1, ab_offered b1, ab_cur b2, ab_offered b2, fst (ab_take_vec KCanon b2))
  = (0%nat, [1;2;3;4], 1%nat, [2;3;4], 3%nat, [4], [4]).
Proof. reflexivity. Qed.

(* op_advance_to_end *)
Example op_advance_to_end :
  let b0 := fst (ab_new KLists [1;2;3;4]) in
  let b1 := adv KLists b0 1 in let b2 := adv KLists b1 2 in let b3 := adv KLists b2 1 in
  (ab_remaining b0, ab_remaining b1, ab_remaining b2, ab_remaining b3, fst (ab_take_vec KLists b3))
  = (4%nat, 3%nat, 1%nat, 0%nat, []).
Proof. reflexivity. Qed.

(* op_advance_partial *)
Example op_advance_partial :
  let b0 := fst (ab_new KLists [1;2;3;4]) in
  (fst (ab_take_vec KLists b0),
   fst (ab_take_vec KLists (adv KLists b0 1)),
   fst (ab_take_vec KLists (adv KLists (adv KLists b0 1) 2)))
  = ([1;2;3;4], [2;3;4], [4]).
Proof. reflexivity. Qed.

(* op_ptrs: the lowered area is distinct from the vector ([ab_area]), offsets follow the cursor *)
Example op_ptrs :
  let b0 := fst (ab_new KLists [1;2;3;4]) in
  let b1 := adv KLists b0 1 in let b2 := adv KLists b1 2 in
  (ab_area b0, ab_cur b0, ab_offered b0, ab_cur b1, ab_offered b1, ab_cur b2, ab_offered b2,
   ab_take_vec KLists b2)
  = (true, 0%nat, [1;2;3;4], 1%nat, [2;3;4], 3%nat, [4], ([4], [KLiftW 4; KAreaFree])).
Proof. reflexivity. Qed.

(* dealloc_lists: the callback runs once per advanced item, in order, never from into_vec *)
Example dealloc_lists_test :
  let (b0, t0) := ab_new KLists [1;2;3;4] in
  let b1 := adv KLists b0 1 in let b2 := adv KLists b1 2 in
  (t0, adv_toks KLists b0 1, adv_toks KLists b1 2, snd (ab_take_vec KLists b2))
  = ([KAreaNew; KLower 1; KLower 2; KLower 3; KLower 4],
     [KDealloc 1], [KDealloc 2; KDealloc 3], [KLiftW 4; KAreaFree]).
Proof. reflexivity. Qed.

(* the assert in [advance] *)
Example advance_past_end_panics : ab_advance KLists (fst (ab_new KLists [1;2])) 3 = None.
Proof. reflexivity. Qed.

(** ** [ReturnCode::decode] inverts the host's encoding *)
Lemma lor_small (c n : N) : c < 16 -> N.lor c (N.shiftl n 4) = c + 16 * n.
Proof.
  intros Hc.
  rewrite N.shiftl_mul_pow2. change (2 ^ 4) with 16.
  assert (Hl : N.land c (n * 16) = 0).
  { apply N.bits_inj_0. intros i. rewrite N.land_spec.
    destruct (N.ltb_spec i 4).
    - replace (n * 16) with (n * 2 ^ 4) by reflexivity.
      rewrite N.mul_pow2_bits_low by assumption. apply andb_false_r.
    - assert (N.testbit c i = false).
      { destruct c as [|p]; [apply N.bits_0|].
        apply N.bits_above_log2. apply N.lt_le_trans with 4; [|assumption].
        apply N.log2_lt_pow2; [lia|]. change (2 ^ 4) with 16. assumption. }
      rewrite H0. reflexivity. }
  rewrite <- N.lxor_lor by assumption. rewrite <- N.add_nocarry_lxor by assumption. lia.
Qed.

Ltac Zify.zify_post_hook ::= Z.div_mod_to_equations.

Lemma decode_small (c n : N) :
  c < 3 -> n < 268435456 ->
  decode (c + 16 * n) =
  Some (if N.eqb c 0 then RCompleted n else if N.eqb c 1 then RDropped n else RCancelled n).
Proof.
  intros Hc Hn. unfold decode, BLOCKED, COMPLETED, DROPPED, CANCELLED.
  assert (E : N.eqb (c + 16 * n) 4294967295 = false) by (apply N.eqb_neq; lia).
  rewrite E.
  rewrite N.shiftr_div_pow2. change (2 ^ 4) with 16.
  change 15 with (N.ones 4). rewrite N.land_ones. change (2 ^ 4) with 16.
  assert (D : (c + 16 * n) / 16 = n).
  { replace (c + 16 * n) with (n * 16 + c) by lia. rewrite N.div_add_l by lia.
    rewrite N.div_small by lia. lia. }
  assert (M : (c + 16 * n) mod 16 = c).
  { replace (c + 16 * n) with (c + n * 16) by lia. rewrite N.mod_add by lia.
    apply N.mod_small. lia. }
  rewrite D, M.
  destruct (N.eqb_spec c 0); [reflexivity|].
  destruct (N.eqb_spec c 1); [reflexivity|].
  destruct (N.eqb_spec c 2); [reflexivity|lia].
Qed.

Theorem decode_encode (r : rcode) : rcode_count r < 268435456 -> decode (encode r) = Some r.
Proof.
  destruct r as [|n|n|n]; cbn [rcode_count encode]; intros H.
  - reflexivity.
  - unfold COMPLETED. rewrite lor_small by lia. rewrite decode_small by lia. reflexivity.
  - unfold DROPPED. rewrite lor_small by lia. rewrite decode_small by lia. reflexivity.
  - unfold CANCELLED. rewrite lor_small by lia. rewrite decode_small by lia. reflexivity.
Qed.

(** [decode] panics exactly on the words no host produces. *)
Theorem decode_none_iff (v : N) : decode v = None <-> v <> BLOCKED /\ 3 <= N.land v 15.
Proof.
  unfold decode, BLOCKED, COMPLETED, DROPPED, CANCELLED.
  destruct (N.eqb_spec v 4294967295).
  - split; [discriminate|]. intros [H _]. contradiction.
  - destruct (N.eqb_spec (N.land v 15) 0); [split; [discriminate|lia]|].
    destruct (N.eqb_spec (N.land v 15) 1); [split; [discriminate|lia]|].
    destruct (N.eqb_spec (N.land v 15) 2); [split; [discriminate|lia]|].
    split; [intros _; split; [assumption|lia]|reflexivity].
Qed.

Example decode_examples :
  (decode 4294967295, decode 32, decode 17, decode 2, decode 35, encode (RCancelled 3))
  = (Some RBlocked, Some (RCompleted 2), Some (RDropped 1), Some (RCancelled 0), None, 50).
Proof. reflexivity. Qed.

(** ** Ledger lemmas *)
Lemma lg_toks_w_app k a b g : lg_toks_w k (a ++ b) g = lg_toks_w k b (lg_toks_w k a g).
Proof. unfold lg_toks_w. apply fold_left_app. Qed.
Lemma lg_toks_r_app k a b g : lg_toks_r k (a ++ b) g = lg_toks_r k b (lg_toks_r k a g).
Proof. unfold lg_toks_r. apply fold_left_app. Qed.

Lemma remove1_head x l : remove1 x (x :: l) = Some l.
Proof. cbn. rewrite N.eqb_refl. reflexivity. Qed.

Lemma release_front k x l a e :
  lg_release k x (mkLg (if has_lists k then x :: l else []) a e) = mkLg (if has_lists k then l else []) a e.
Proof. unfold lg_release. destruct (has_lists k); cbn [lg_live lg_areas lg_err]; [rewrite remove1_head|]; reflexivity. Qed.

Section Fold.
  Variable k : kind.
  Variable f : ledger -> tok -> ledger.
  Variable mk : N -> tok.
  Hypothesis Hf : forall g id, f g (mk id) = lg_release k id g.

  Lemma fold_release pre rest a e :
    fold_left f (map mk pre) (mkLg (if has_lists k then pre ++ rest else []) a e)
    = mkLg (if has_lists k then rest else []) a e.
  Proof.
    induction pre as [|x pre IH]; cbn [map fold_left app]; [reflexivity|].
    rewrite Hf.
    replace (if has_lists k then x :: pre ++ rest else []) with (if has_lists k then x :: (pre ++ rest) else [])
      by reflexivity.
    rewrite release_front. apply IH.
  Qed.
End Fold.

Section FoldAdd.
  Variable k : kind.
  Variable f : ledger -> tok -> ledger.
  Variable mk : N -> tok.
  Hypothesis Hf : forall g id, f g (mk id) = lg_add k [id] g.
  Lemma fold_add ids l a e :
    fold_left f (map mk ids) (mkLg (if has_lists k then l else []) a e)
    = mkLg (if has_lists k then l ++ ids else []) a e.
  Proof.
    revert l. induction ids as [|x ids IH]; intros l; cbn [map fold_left].
    - rewrite app_nil_r. reflexivity.
    - rewrite Hf. unfold lg_add at 1. cbn [lg_live lg_areas lg_err].
      destruct (has_lists k) eqn:E.
      + rewrite (IH (l ++ [x])). rewrite <- app_assoc. reflexivity.
      + exact (IH []).
  Qed.
End FoldAdd.

Lemma fold_inert (f : ledger -> tok -> ledger) (ts : list tok) g :
  (forall t g, In t ts -> f g t = g) -> fold_left f ts g = g.
Proof.
  revert g. induction ts as [|t ts IH]; intros g H; cbn; [reflexivity|].
  rewrite H by (left; reflexivity). apply IH. intros; apply H; right; assumption.
Qed.
