(** * Async/TaskHostPrims.v — the canonical built-ins of [Host.v] change the host only through its
    field setters: a reflexive-transitive relation respected by the setters is respected by every
    built-in.  (Used with "context slots and selected task unchanged" and with "pending events have
    a kind in 1..5".) *)
From Coq Require Import NArith List Bool Lia.
From WB Require Import Async.Host.
Import ListNotations.
Local Open Scope N_scope.

Section HostPrims.
  Variable R : host -> host -> Prop.
  Hypothesis R_refl : forall h, R h h.
  Hypothesis R_trans : forall a b c, R a b -> R b c -> R a c.
  Hypothesis S_table : forall x h, R h (set_table x h).
  Hypothesis S_free : forall x h, R h (set_free x h).
  Hypothesis S_next : forall x h, R h (set_next x h).
  Hypothesis S_joined : forall x h, R h (set_joined x h).
  Hypothesis S_chans : forall x h, R h (set_chans x h).
  Hypothesis S_answers : forall x h, R h (set_answers x h).
  Hypothesis S_picks : forall x h, R h (set_picks x h).
  Hypothesis S_emit : forall c h, R h (h_emit c h).
  Hypothesis S_ready_remove : forall w h, R h (set_ready (aremove w (ready h)) h).
  Hypothesis S_ready_event : forall w c h, R h (set_ready (aset w (event_kind_of h w, c) (ready h)) h).

  Lemma T_table : forall x h h0, R h h0 -> R h (set_table x h0). Proof. eauto. Qed.
  Lemma T_free : forall x h h0, R h h0 -> R h (set_free x h0). Proof. eauto. Qed.
  Lemma T_next : forall x h h0, R h h0 -> R h (set_next x h0). Proof. eauto. Qed.
  Lemma T_joined : forall x h h0, R h h0 -> R h (set_joined x h0). Proof. eauto. Qed.
  Lemma T_chans : forall x h h0, R h h0 -> R h (set_chans x h0). Proof. eauto. Qed.
  Lemma T_answers : forall x h h0, R h h0 -> R h (set_answers x h0). Proof. eauto. Qed.
  Lemma T_picks : forall x h h0, R h h0 -> R h (set_picks x h0). Proof. eauto. Qed.
  Lemma T_emit : forall c h h0, R h h0 -> R h (h_emit c h0). Proof. eauto. Qed.
  Lemma T_ready_remove : forall w h h0, R h h0 -> R h (set_ready (aremove w (ready h0)) h0). Proof. eauto. Qed.
  Lemma T_ready_event : forall w c h h0, R h h0 -> R h (set_ready (aset w (event_kind_of h0 w, c) (ready h0)) h0). Proof. eauto. Qed.
  Lemma T_if : forall (c : bool) h a b, R h a -> R h b -> R h (if c then a else b). Proof. destruct c; auto. Qed.
  Lemma T_of_eq : forall A (p : host * A) h h1 a, p = (h1, a) -> R h (fst p) -> R h h1.
  Proof. intros. subst. auto. Qed.
  Lemma T_of_eq_snd : forall A (p : A * host) h h1 a, p = (a, h1) -> R h (snd p) -> R h h1.
  Proof. intros. subst. auto. Qed.

  Hint Resolve T_table T_free T_next T_joined T_chans T_answers T_picks T_emit T_ready_remove T_ready_event T_if : hp.
  Hint Extern 1 (R _ ?h1) => match goal with H : _ = (h1, _) |- _ => eapply (T_of_eq _ _ _ _ _ H) end : hp.

  Ltac hp_split :=
    repeat match goal with
    | |- context [match ?x with _ => _ end] =>
        lazymatch x with
        | context [match _ with _ => _ end] => fail
        | _ => destruct x eqn:?
        end
    end.
  Ltac hp_auto := intros; hp_split; cbn [fst snd]; eauto 40 with hp.

  Lemma T_trap : forall t h h0, R h h0 -> R h (h_trap t h0).
  Proof. unfold h_trap. hp_auto. Qed.
  Hint Resolve T_trap : hp.
  Lemma T_trap_if : forall b t h h0, R h h0 -> R h (h_trap_if b t h0).
  Proof. unfold h_trap_if. hp_auto. Qed.
  Hint Resolve T_trap_if : hp.
  Lemma T_pop_answer : forall h h0, R h h0 -> R h (snd (h_pop_answer h0)).
  Proof. unfold h_pop_answer. hp_auto. Qed.
  Hint Resolve T_pop_answer : hp.
  Hint Extern 1 (R _ ?h1) => match goal with H : h_pop_answer _ = (_, h1) |- _ => eapply (T_of_eq_snd _ _ _ _ _ H) end : hp.
  Lemma T_alloc : forall e h h0, R h h0 -> R h (fst (h_alloc e h0)).
  Proof. unfold h_alloc. hp_auto. Qed.
  Hint Resolve T_alloc : hp.
  Lemma T_release : forall i h h0, R h h0 -> R h (h_release i h0).
  Proof. unfold h_release. hp_auto. Qed.
  Hint Resolve T_release : hp.
  Lemma T_consume_event : forall w h h0, R h h0 -> R h (fst (consume_event w h0)).
  Proof. unfold consume_event. hp_auto. Qed.
  Hint Resolve T_consume_event : hp.
  Lemma T_choose_ready : forall s h h0, R h h0 -> R h (fst (choose_ready s h0)).
  Proof. unfold choose_ready. hp_auto. Qed.
  Hint Resolve T_choose_ready : hp.
  Lemma T_put_chan : forall c x h h0, R h h0 -> R h (put_chan c x h0).
  Proof. unfold put_chan. hp_auto. Qed.
  Hint Resolve T_put_chan : hp.
  Lemma T_finish_rw : forall a b c h h0, R h h0 -> R h (finish_rw a b c h0).
  Proof. unfold finish_rw. hp_auto. Qed.
  Hint Resolve T_finish_rw : hp.

  Lemma P_emit : forall c h, R h (h_emit c h). Proof. auto. Qed.
  Lemma P_set_new : forall h, R h (fst (h_set_new h)).
  Proof. unfold h_set_new. hp_auto. Qed.
  Lemma P_set_drop : forall s h, R h (h_set_drop s h).
  Proof. unfold h_set_drop. hp_auto. Qed.
  Lemma P_join : forall w s h, R h (h_join w s h).
  Proof. unfold h_join. hp_auto. Qed.
  Lemma P_wait_poll : forall b s h, R h (fst (h_wait_poll b s h)).
  Proof. unfold h_wait_poll. hp_auto. Qed.
  Lemma P_set_event : forall w c h, R h (h_set_event w c h).
  Proof. unfold h_set_event. hp_auto. Qed.
  Lemma P_subtask_new : forall s h, R h (fst (h_subtask_new s h)).
  Proof. unfold h_subtask_new. hp_auto. Qed.
  Lemma P_subtask_cancel : forall x h, R h (fst (h_subtask_cancel x h)).
  Proof. unfold h_subtask_cancel. hp_auto. Qed.
  Lemma P_subtask_drop : forall x h, R h (h_subtask_drop x h).
  Proof. unfold h_subtask_drop. hp_auto. Qed.
  Lemma P_chan_new : forall f h, R h (fst (h_chan_new f h)).
  Proof. unfold h_chan_new. hp_auto. Qed.
  Lemma P_chan_write : forall x n h, R h (fst (h_chan_write x n h)).
  Proof. unfold h_chan_write. hp_auto. Qed.
  Lemma P_chan_read : forall x n h, R h (fst (h_chan_read x n h)).
  Proof. unfold h_chan_read. hp_auto. Qed.
  Lemma P_chan_cancel : forall x b h, R h (fst (h_chan_cancel x b h)).
  Proof. unfold h_chan_cancel. hp_auto. Qed.
  Lemma P_chan_drop : forall x b h, R h (h_chan_drop x b h).
  Proof. unfold h_chan_drop. hp_auto. Qed.
  Lemma P_peer_take : forall x h, R h (h_peer_take x h).
  Proof. unfold h_peer_take. hp_auto. Qed.
  Lemma P_peer_read : forall c n h, R h (h_peer_read c n h).
  Proof. unfold h_peer_read. hp_auto. Qed.
  Lemma P_peer_write : forall c n h, R h (h_peer_write c n h).
  Proof. unfold h_peer_write. hp_auto. Qed.
  Lemma P_peer_drop_reader : forall c h, R h (h_peer_drop_reader c h).
  Proof. unfold h_peer_drop_reader. hp_auto. Qed.
  Lemma P_peer_drop_writer : forall c h, R h (h_peer_drop_writer c h).
  Proof. unfold h_peer_drop_writer. hp_auto. Qed.
  Lemma P_task_cancel : forall h, R h (h_task_cancel h).
  Proof. unfold h_task_cancel. hp_auto. Qed.
End HostPrims.
