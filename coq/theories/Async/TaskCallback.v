(** * Async/TaskCallback.v — what a callback answers, in terms of the state it returns in
    (proofs for C22: Exit / Wait / Yield). *)
From Coq Require Import NArith List Bool Lia.
From WB Require Import Async.Host Async.Task Async.TaskSpec Async.TaskLemmas.
Import ListNotations.
Local Open Scope N_scope.

(** ** [encode] *)
Lemma encode_injective : forall c1 c2, encode c1 = encode c2 -> c1 = c2.
Proof.
  intros [| |s1] [| |s2]; unfold encode; intros H; try reflexivity; try (exfalso; lia).
  f_equal. lia.
Qed.

Lemma encode_values : forall c,
  (c = CExit /\ encode c = 0) \/ (c = CYield /\ encode c = 1) \/ (exists s, c = CWait s /\ encode c = 2 + 16 * s).
Proof. intros [| |s]; unfold encode; eauto. Qed.

(** ** [get_task] through the updates that do not touch the task table *)
Lemma failed_fail : forall c w, failed (fail c w) = true.
Proof. intros. unfold failed, fail. destruct (w_err w) eqn:E; cbn; now rewrite ?E. Qed.

Lemma get_task_fail : forall t c w, get_task t (fail c w) = get_task t w.
Proof. intros. unfold fail. now destruct (w_err w). Qed.
Lemma host_fail : forall c w, w_host (fail c w) = w_host w.
Proof. intros. unfold fail. now destruct (w_err w). Qed.
Lemma get_task_hostf : forall t f w, get_task t (hostf f w) = get_task t w.
Proof. reflexivity. Qed.
Lemma get_task_hostr : forall A t (f : host -> host * A) w, get_task t (fst (hostr f w)) = get_task t w.
Proof. intros. unfold hostr. now destruct (f (w_host w)). Qed.
Lemma get_task_hostr_eq : forall A t (f : host -> host * A) w w1 a, hostr f w = (w1, a) -> get_task t w1 = get_task t w.
Proof. intros. rewrite <- (get_task_hostr _ t f w). now rewrite H. Qed.
Lemma get_task_set_cur : forall t x w, get_task t (set_cur x w) = get_task t w.
Proof. reflexivity. Qed.
Lemma get_task_emit' : forall t x w, get_task t (emit x w) = get_task t w.
Proof. reflexivity. Qed.

(** The sleep state of [t] is only written by [wake_task]/the callback loop; reading the
    inter-task stream and computing the Wait code keep it. *)
Lemma sleep_add_waitable : forall t t' wt w,
  tk_sleep (get_task t (add_waitable t' wt w)) = tk_sleep (get_task t w).
Proof.
  intros. unfold add_waitable. destruct (tk_set (get_task t' w)); [reflexivity|].
  destruct (hostr h_set_new w) as [w1 s] eqn:E. rewrite get_task_hostf, get_upd.
  destruct (N.eqb t' t) eqn:E'.
  - apply N.eqb_eq in E'. subst. cbn. now rewrite (get_task_hostr_eq _ t _ _ _ _ E).
  - now rewrite (get_task_hostr_eq _ t _ _ _ _ E).
Qed.

Lemma sleep_read_itw : forall e t w,
  tk_sleep (get_task t (read_itw e t w)) = tk_sleep (get_task t w).
Proof.
  intros. unfold read_itw.
  destruct (negb (cf_itw (e_cfg e))).
  { destruct (is_nil _); now rewrite ?get_task_fail. }
  set (w1 := match tk_itw_r (get_task t w) with Some _ => w | None => _ end).
  assert (S1 : tk_sleep (get_task t w1) = tk_sleep (get_task t w)).
  { unfold w1. destruct (tk_itw_r (get_task t w)); auto.
    destruct (hostr (h_chan_new false) _) as [w2 wr] eqn:E.
    rewrite get_upd, N.eqb_refl. cbn.
    destruct (is_none _); rewrite ?get_task_fail, (get_task_hostr_eq _ _ _ _ _ _ E);
      destruct (tk_reading _); now rewrite ?get_task_fail. }
  destruct (tk_reading (get_task t w1)); auto.
  destruct (tk_itw_r (get_task t w1)); [|now rewrite get_task_fail].
  destruct (hostr (h_chan_read n 1) w1) as [w2 c] eqn:E.
  rewrite sleep_add_waitable, get_upd, N.eqb_refl. cbn.
  destruct (N.eqb c BLOCKED); now rewrite ?get_task_fail, (get_task_hostr_eq _ _ _ _ _ _ E).
Qed.

Lemma wait_code_task : forall t t' w, get_task t' (fst (wait_code t w)) = get_task t' w.
Proof. intros. unfold wait_code. destruct (tk_set (get_task t w)); cbn; now rewrite ?get_task_fail. Qed.

Lemma tasks_empty_frame : forall e t w w', Frame w w' ->
  tasks_empty e (get_task t w') = tasks_empty e (get_task t w).
Proof.
  intros. unfold tasks_empty, task_bodies. now rewrite (fr_root _ _ H), (fr_fuall _ _ H).
Qed.

(** The answer of [poll] is the last thing in the log. *)
Lemma h_wait_poll_log : forall wt s h h' e0 w1 c,
  h_wait_poll wt s h = (h', (e0, w1, c)) ->
  exists l, hlog h' = (if wt then HWait s e0 w1 c else HPoll s e0 w1 c) :: l.
Proof.
  intros wt s h h' e0 w1 c H. unfold h_wait_poll in H.
  repeat match type of H with
  | context [match ?x with _ => _ end] =>
      lazymatch x with
      | context [match _ with _ => _ end] => fail
      | _ => destruct x eqn:?
      end
  end; inversion H; subst; cbn; eauto.
Qed.

(** ** The callback loop *)
Definition cb_post (e : env) (t : N) (w' : world) (c : cbcode) : Prop :=
  let tk := get_task t w' in
  match c with
  | CExit => tasks_empty e tk = true /\ tk_waitables tk = []
  | CWait s =>
      tk_set tk = Some s /\
      ((tasks_empty e tk = true /\ tk_waitables tk <> []) \/ (tasks_empty e tk = false /\ tk_sleep tk = 2))
  | CYield =>
      tasks_empty e tk = false /\ tk_sleep tk = 1 /\
      (tk_waitables tk = [] \/
       exists s a b l, tk_set tk = Some s /\ hlog (w_host w') = HPoll s 0 a b :: l)
  end.

Lemma is_nil_true : forall A (l : list A), is_nil l = true -> l = [].
Proof. now destruct l. Qed.
Lemma is_nil_false : forall A (l : list A), is_nil l = false -> l <> [].
Proof. now destruct l. Qed.

Lemma wait_code_spec : forall t w w' c,
  wait_code t w = (w', c) -> failed w' = false ->
  exists s, c = CWait s /\ tk_set (get_task t w) = Some s /\ w' = w.
Proof.
  intros t w w' c H NF. unfold wait_code in H. destruct (tk_set (get_task t w)) eqn:S.
  - inversion H; subst. eauto.
  - inversion H; subst. now rewrite failed_fail in NF.
Qed.

Lemma cb_loop_spec : forall e t fuel w w' c,
  cb_loop fuel e t w = (w', c) -> failed w' = false -> cb_post e t w' c.
Proof.
  induction fuel as [|fuel IH]; intros w w' c H NF; cbn [cb_loop] in H.
  - inversion H; subst. now rewrite failed_fail in NF.
  - destruct (tasks_poll e t (upd_task t (tk_with_sleep 0) w)) as [w1 rdy] eqn:TP.
    destruct (failed w1) eqn:F1; [inversion H; subst; congruence|].
    destruct rdy.
    + destruct (negb (tasks_empty e (get_task t w1))) eqn:TE.
      { inversion H; subst. now rewrite failed_fail in NF. }
      apply negb_false_iff in TE.
      destruct (is_nil (tk_waitables (get_task t w1))) eqn:WN.
      * inversion H; subst. cbn. split; auto. now apply is_nil_true.
      * destruct (wait_code_spec _ _ _ _ H NF) as (s & -> & S & ->).
        cbn. split; auto. left. split; auto. now apply is_nil_false.
    + destruct (tasks_empty e (get_task t w1)) eqn:TE.
      { inversion H; subst. now rewrite failed_fail in NF. }
      destruct (N.eqb (tk_sleep (get_task t w1)) 1) eqn:SL.
      * apply N.eqb_eq in SL.
        destruct (is_nil (tk_waitables (get_task t w1))) eqn:WN.
        { inversion H; subst. cbn. repeat split; auto. left. now apply is_nil_true. }
        destruct (tk_set (get_task t w1)) as [s|] eqn:S.
        2:{ inversion H; subst. now rewrite failed_fail in NF. }
        destruct (hostr (h_wait_poll false s) w1) as [w2 [[e0 wt] cc]] eqn:HP.
        destruct (N.eqb e0 0) eqn:E0.
        -- apply N.eqb_eq in E0. subst e0. inversion H; subst.
           pose proof (get_task_hostr_eq _ t _ _ _ _ HP) as G.
           unfold cb_post. rewrite G. split; [auto|]. split; [auto|]. right.
           unfold hostr in HP. destruct (h_wait_poll false s (w_host w1)) as [h' r] eqn:HW.
           inversion HP; subst. destruct (h_wait_poll_log _ _ _ _ _ _ _ HW) as [l Hl].
           exists s, wt, cc, l. split; [exact S|exact Hl].
        -- eapply IH; eauto.
      * set (w2 := read_itw e t (upd_task t (tk_with_sleep 2) w1)) in *.
        destruct (failed w2) eqn:F2; [inversion H; subst; congruence|].
        destruct (wait_code_spec _ _ _ _ H NF) as (s & -> & S & ->).
        cbn. split; auto. right.
        assert (FR : Frame w1 w2) by (unfold w2; fr_auto).
        split.
        -- now rewrite (tasks_empty_frame _ _ _ _ FR).
        -- unfold w2. rewrite sleep_read_itw, get_upd, N.eqb_refl. reflexivity.
Qed.

(** ** [TaskState::callback] *)
Theorem task_cb_spec : forall e t e0 e1 e2 w w' c,
  task_cb e t e0 e1 e2 w = (w', c) -> failed w' = false ->
  (e0 = 6 /\ c = CExit /\ w' = w) \/ (e0 <> 6 /\ cb_post e t w' c).
Proof.
  intros e t e0 e1 e2 w w' c H NF. unfold task_cb in H.
  destruct (N.eqb e0 6) eqn:E6.
  - apply N.eqb_eq in E6. inversion H; subst. auto.
  - apply N.eqb_neq in E6. right. split; auto.
    destruct (6 <? e0); [inversion H; subst; now rewrite failed_fail in NF|].
    match type of H with context [failed ?x] => set (wa := x) in * end.
    destruct (failed wa) eqn:FA; [inversion H; subst; congruence|].
    destruct (cb_loop (e_fuel e) e t wa) as [w2 c2] eqn:CL.
    inversion H; subst.
    assert (NF2 : failed w2 = false) by exact NF.
    pose proof (cb_loop_spec _ _ _ _ _ _ CL NF2) as P.
    destruct c; exact P.
Qed.

(** Exit <-> EVENT_CANCEL, or neither Rust work nor registered waitables remain. *)
Corollary exit_iff : forall e t e0 e1 e2 w w' c,
  task_cb e t e0 e1 e2 w = (w', c) -> failed w' = false ->
  (c = CExit <-> e0 = 6 \/ (tasks_empty e (get_task t w') = true /\ tk_waitables (get_task t w') = [])).
Proof.
  intros e t e0 e1 e2 w w' c H NF.
  destruct (task_cb_spec _ _ _ _ _ _ _ _ H NF) as [(A & B & C)|(A & P)].
  - subst. split; auto.
  - split.
    + intros ->. right. exact P.
    + intros [X|[TE WN]]; [congruence|].
      destruct c; auto; cbn in P.
      * destruct P as (P1 & _). congruence.
      * destruct P as (_ & [[_ P]|[P _]]); congruence.
Qed.

(** Wait names the task's own set; it is the answer whenever something is pending and no wake
    occurred during the last poll (the sleep state went POLLING -> SLEEPING). *)
Corollary wait_own_set : forall e t e0 e1 e2 w w' s,
  task_cb e t e0 e1 e2 w = (w', CWait s) -> failed w' = false ->
  tk_set (get_task t w') = Some s.
Proof.
  intros e t e0 e1 e2 w w' s H NF.
  destruct (task_cb_spec _ _ _ _ _ _ _ _ H NF) as [(A & B & C)|(A & P)]; [discriminate|].
  now destruct P.
Qed.

Corollary wait_when_pending : forall e t e0 e1 e2 w w' c,
  task_cb e t e0 e1 e2 w = (w', c) -> failed w' = false -> e0 <> 6 ->
  (tasks_empty e (get_task t w') = true /\ tk_waitables (get_task t w') <> []) \/
  (tasks_empty e (get_task t w') = false /\ tk_sleep (get_task t w') <> 1) ->
  exists s, c = CWait s.
Proof.
  intros e t e0 e1 e2 w w' c H NF NE X.
  destruct (task_cb_spec _ _ _ _ _ _ _ _ H NF) as [(A & B & C)|(A & P)]; [congruence|].
  destruct c; cbn in P; eauto.
  - destruct P as [P1 P2]. destruct X as [[_ X]|[X _]]; congruence.
  - destruct P as (P1 & P2 & _). destruct X as [[X _]|[_ X]]; congruence.
Qed.

(** Yield: only with Rust work left, woken during the poll (WOKEN), and nothing ready: no
    waitable registered, or [poll] just answered "no event". *)
Corollary yield_only_when_woken : forall e t e0 e1 e2 w w',
  task_cb e t e0 e1 e2 w = (w', CYield) -> failed w' = false ->
  tasks_empty e (get_task t w') = false /\ tk_sleep (get_task t w') = 1 /\
  (tk_waitables (get_task t w') = [] \/
   exists s a b l, tk_set (get_task t w') = Some s /\ hlog (w_host w') = HPoll s 0 a b :: l).
Proof.
  intros e t e0 e1 e2 w w' H NF.
  destruct (task_cb_spec _ _ _ _ _ _ _ _ H NF) as [(A & B & C)|(A & P)]; [discriminate|].
  exact P.
Qed.
