(** Reachable-set check (closure + invariant + boundedness) of the one-operation configurations with task
    ABIs (v2_0, v2_1) = (false, false), kinds half 1; computed by the VM once, at [Qed]. *)
From Coq Require Import List Bool.
From WB Require Import Async.Host Async.WaitOp Async.WaitOpProofs.
Lemma check_A1 : forallb check_cfg (cfgs1 false false true) = true.
Proof. vm_cast_no_check (eq_refl true). Qed.
