(** * Async/StreamOpBase.v — list / permutation / host-answer lemmas shared by the proofs about
    the writer end (StreamOpW.v) and the reader end (StreamOpR.v). *)
From Coq Require Import NArith List Bool Lia Permutation Sorted.
From WB Require Import Async.AbiBuf Async.AbiBufProofs Async.StreamOp.
Import ListNotations.
Local Open Scope N_scope.

(** A code [c] that is not BLOCKED, decodes, and carries count [m]. *)
Definition good (c m : N) : Prop :=
  c <> BLOCKED /\ exists r, decode c = Some r /\ rcode_count r = m.

Lemma decode_blocked_iff c : decode c = Some RBlocked <-> c = BLOCKED.
Proof.
  unfold decode. destruct (N.eqb_spec c BLOCKED) as [->|n].
  - split; reflexivity.
  - split; [|contradiction].
    destruct (N.land c 15 =? COMPLETED); [discriminate|].
    destruct (N.land c 15 =? DROPPED); [discriminate|].
    destruct (N.land c 15 =? CANCELLED); discriminate.
Qed.

Lemma good_dropped0 : good DROPPED 0.
Proof. split; [discriminate|]. exists (RDropped 0). split; reflexivity. Qed.

(** What a well-behaved host moves. *)
Lemma host_moves_strict incancel limit avail a mv :
  host_moves true incancel limit avail a = Some mv ->
  (a = BLOCKED /\ mv = []) \/
  (good a (N.of_nat (length mv)) /\ mv = firstn (length mv) avail /\ (length mv <= length avail)%nat).
Proof.
  unfold host_moves. destruct (N.eqb_spec a BLOCKED) as [->|n].
  - intros [= <-]. left. split; reflexivity.
  - destruct (decode a) as [r|] eqn:D; [|discriminate].
    destruct (true && is_cancelled r && negb incancel); [discriminate|].
    destruct (N.leb_spec (rcode_count r) (N.of_nat (length avail))); [|discriminate].
    intros [= <-]. right.
    assert (L : length (firstn (N.to_nat (rcode_count r)) avail) = N.to_nat (rcode_count r))
      by (apply firstn_length_le; lia).
    rewrite L. repeat split.
    + assumption.
    + exists r. split; [assumption|lia].
    + lia.
Qed.

(** ** Lists *)
Lemma skipn_add {A} (a b : nat) (l : list A) : skipn (a + b) l = skipn b (skipn a l).
Proof.
  revert l. induction a as [|a IH]; intros l; cbn [Nat.add skipn]; [reflexivity|].
  destruct l; [rewrite skipn_nil; reflexivity|apply IH].
Qed.

Lemma skipn_split {A} (a b : nat) (l : list A) :
  skipn a l = firstn b (skipn a l) ++ skipn (a + b) l.
Proof. rewrite skipn_add. symmetry. apply firstn_skipn. Qed.

Lemma nseq_app s n m : nseq s (n + m) = nseq s n ++ nseq (s + N.of_nat n) m.
Proof.
  revert s. induction n as [|n IH]; intros s.
  - cbn. f_equal. lia.
  - cbn [Nat.add nseq app]. f_equal. rewrite IH. f_equal. f_equal. lia.
Qed.

Lemma nseq_in s n x : In x (nseq s n) <-> s <= x < s + N.of_nat n.
Proof.
  revert s. induction n as [|n IH]; intros s; cbn [nseq In].
  - lia.
  - rewrite IH. lia.
Qed.

Lemma nseq_sorted s n : StronglySorted N.lt (nseq s n).
Proof.
  revert s. induction n as [|n IH]; intros s; cbn [nseq]; constructor.
  - apply IH.
  - apply Forall_forall. intros x Hx. apply nseq_in in Hx. lia.
Qed.

Lemma nseq_length s n : length (nseq s n) = n.
Proof. revert s. induction n; intros; cbn; [reflexivity|f_equal; auto]. Qed.

(** ** Permutations of the accounting equation *)
Lemma perm_to_sent {A} (s r d p q : list A) :
  Permutation (s ++ r ++ d ++ (p ++ q)) ((s ++ p) ++ r ++ d ++ q).
Proof.
  rewrite <- (app_assoc s p). apply Permutation_app_head.
  rewrite !app_assoc. apply Permutation_app_tail.
  rewrite <- !app_assoc. rewrite (app_assoc r d p). apply Permutation_app_comm.
Qed.

Lemma perm_to_ret {A} (s r d p : list A) :
  Permutation (s ++ r ++ d ++ p) (s ++ (r ++ p) ++ d ++ []).
Proof.
  apply Permutation_app_head. rewrite app_nil_r. rewrite <- app_assoc.
  apply Permutation_app_head. apply Permutation_app_comm.
Qed.

Lemma perm_to_drop {A} (s r d p : list A) :
  Permutation (s ++ r ++ d ++ p) (s ++ r ++ (d ++ p) ++ []).
Proof. rewrite app_nil_r. reflexivity. Qed.

Lemma perm_new {A} (x s r d n : list A) :
  Permutation x (s ++ r ++ d ++ []) -> Permutation (x ++ n) (s ++ r ++ d ++ n).
Proof.
  intros H. rewrite app_nil_r in H. rewrite !app_assoc. apply Permutation_app_tail.
  rewrite <- !app_assoc. exact H.
Qed.

(** ** Sortedness *)
Lemma sorted_app_inv_l (a b : list N) : StronglySorted N.lt (a ++ b) -> StronglySorted N.lt a.
Proof.
  induction a as [|x a IH]; cbn; intros H; [constructor|].
  inversion H; subst. constructor; [auto|]. apply Forall_app in H3. tauto.
Qed.

Lemma sorted_app_new (a : list N) (s : N) (n : nat) :
  StronglySorted N.lt a -> Forall (fun x => x < s) a -> StronglySorted N.lt (a ++ nseq s n).
Proof.
  induction a as [|x a IH]; cbn; intros H F; [apply nseq_sorted|].
  inversion H; subst. inversion F; subst. constructor; [auto|].
  apply Forall_app. split; [assumption|].
  apply Forall_forall. intros y Hy. apply nseq_in in Hy. lia.
Qed.

Lemma sorted_nodup (a : list N) : StronglySorted N.lt a -> NoDup a.
Proof.
  induction 1; constructor; [|assumption].
  intros Hin. rewrite Forall_forall in H0. specialize (H0 _ Hin). lia.
Qed.

(** ** Ledger tokens that do not matter *)
Lemma lg_w_inert k ts g :
  (forall t, In t ts -> match t with KLower _ | KDealloc _ | KLiftW _ | KAreaNew | KAreaFree => False | _ => True end) ->
  lg_toks_w k ts g = g.
Proof.
  intros H. apply fold_inert. intros t g' Hin. specialize (H t Hin). destruct t; cbn; try reflexivity; contradiction.
Qed.
Lemma lg_r_inert k ts g :
  (forall t, In t ts -> match t with KTr _ | KLiftR _ | KAreaNew | KAreaFree => False | _ => True end) ->
  lg_toks_r k ts g = g.
Proof.
  intros H. apply fold_inert. intros t g' Hin. specialize (H t Hin). destruct t; cbn; try reflexivity; contradiction.
Qed.
