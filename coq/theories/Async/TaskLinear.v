(** * Async/TaskLinear.v — body futures are linear resources of the executor (proofs for C22).

    Invariant [Lin]: the body futures ever created are, up to permutation, the destroyed ones
    followed by the ones that still exist (in some task's [Tasks] or in [SPAWNED]), and no id
    occurs twice.  Consequences: no body future is destroyed twice; a callback other than
    EVENT_CANCEL never destroys an unfinished body; after the task is dropped none of its bodies
    exists. *)
From Coq Require Import NArith List Bool Lia Permutation.
From WB Require Import Async.Host Async.Task Async.TaskSpec Async.TaskLemmas Async.TaskCallback.
Import ListNotations.
Local Open Scope N_scope.

(** ** Trace projections only see non-quiet events *)
Lemma proj_quiet : forall A (g : tev -> list A),
  (forall x, quiet x = true -> g x = []) ->
  forall l tr, forallb quiet l = true -> flat_map g (l ++ tr) = flat_map g tr.
Proof.
  induction l as [|x l IH]; cbn; intros tr H0; auto.
  apply andb_true_iff in H0 as [H1 H2]. rewrite H by auto. cbn. auto.
Qed.

Lemma Frame_ended : forall w w', Frame w w' -> ended w' = ended w.
Proof. intros w w' [_ [l [E Q]] _ _ _ _]. unfold ended. rewrite E. apply proj_quiet; auto. now destruct x. Qed.
Lemma Frame_udrops : forall w w', Frame w w' -> udrops w' = udrops w.
Proof. intros w w' [_ [l [E Q]] _ _ _ _]. unfold udrops. rewrite E. apply proj_quiet; auto. now destruct x. Qed.
Lemma Frame_boxfrees : forall w w', Frame w w' -> boxfrees w' = boxfrees w.
Proof. intros w w' [_ [l [E Q]] _ _ _ _]. unfold boxfrees. rewrite E. apply proj_quiet; auto. now destruct x. Qed.
Lemma Frame_boxnews : forall w w', Frame w w' -> boxnews w' = boxnews w.
Proof. intros w w' [_ [l [E Q]] _ _ _ _]. unfold boxnews. rewrite E. apply proj_quiet; auto. now destruct x. Qed.

(** ** What every step of the executor working for task [t], other than its destruction, preserves *)
Record Ext (t : N) (w w' : world) : Prop := mkExt {
  ex_udrops : udrops w' = udrops w;
  ex_boxfrees : boxfrees w' = boxfrees w;
  ex_boxnews : boxnews w' = boxnews w;
  ex_life : forall t', tk_alive (get_task t' w') = tk_alive (get_task t' w)
                       /\ tk_exited (get_task t' w') = tk_exited (get_task t' w);
  ex_ids : forall t', t' <> t -> task_ids (get_task t' w') = task_ids (get_task t' w);
  ex_keys : NoDup (map fst (w_tasks w)) -> NoDup (map fst (w_tasks w'))
}.

Lemma Ext_refl : forall t w, Ext t w w.
Proof. split; auto. Qed.
Lemma Ext_trans : forall t a b c, Ext t a b -> Ext t b c -> Ext t a c.
Proof.
  intros t a b c [A1 A2 A3 A4 A5 A6] [B1 B2 B3 B4 B5 B6]. split; try congruence; auto.
  - intros t'. destruct (A4 t'), (B4 t'). split; congruence.
  - intros t' NE. rewrite B5, A5; auto.
Qed.
Lemma Frame_Ext : forall t w w', Frame w w' -> Ext t w w'.
Proof.
  intros t w w' F. split.
  - now apply Frame_udrops.
  - now apply Frame_boxfrees.
  - now apply Frame_boxnews.
  - intros t'. split; [now apply fr_alive|now apply fr_exited].
  - intros t' _. now apply fr_ids.
  - now apply fr_keys.
Qed.

(** A task that does not exist owns no body future. *)
Definition DeadEmpty (w : world) : Prop :=
  forall t, tk_alive (get_task t w) = false -> task_ids (get_task t w) = [].

Lemma Ext_DeadEmpty : forall t w w',
  Ext t w w' -> tk_alive (get_task t w) = true -> DeadEmpty w -> DeadEmpty w'.
Proof.
  intros t w w' E A D t' H. destruct (ex_life _ _ _ E t') as [L1 _].
  destruct (N.eq_dec t' t) as [->|NE]; [congruence|].
  rewrite (ex_ids _ _ _ E t' NE). apply D. congruence.
Qed.

Lemma Frame_DeadEmpty : forall w w', Frame w w' -> DeadEmpty w -> DeadEmpty w'.
Proof.
  intros w w' F D t H. rewrite (fr_ids _ _ F). apply D. rewrite <- (fr_alive _ _ F). exact H.
Qed.

(** ** Linearity with some body futures "in hand" (taken out of the world while they are polled
    or destroyed) *)
Definition LinH (hs : list N) (w : world) : Prop :=
  NoDup (w_created w) /\ Permutation (w_created w) (ended w ++ hs ++ live_bodies w).
Definition Lin := LinH [].

Lemma Frame_LinH : forall hs w w', Frame w w' -> LinH hs w -> LinH hs w'.
Proof.
  intros hs w w' F [H1 H2]. unfold LinH.
  rewrite (fr_created _ _ F), (Frame_ended _ _ F), (fr_live _ _ F). auto.
Qed.

Lemma LinH_perm : forall hs hs' w, Permutation hs hs' -> LinH hs w -> LinH hs' w.
Proof. intros hs hs' w P [H1 H2]. split; auto. now rewrite <- P. Qed.

Lemma emit_fields : forall x w,
  w_tasks (emit x w) = w_tasks w /\ w_spawned (emit x w) = w_spawned w /\
  w_created (emit x w) = w_created w /\ w_trace (emit x w) = x :: w_trace w.
Proof. intros. repeat split. Qed.

Lemma get_task_emit : forall t x w, get_task t (emit x w) = get_task t w.
Proof. reflexivity. Qed.

Lemma LinH_end : forall b f hs w, LinH (b :: hs) w -> LinH hs (emit (VEnd b f) w).
Proof.
  intros b f hs w [H1 H2]. split; [exact H1|].
  unfold ended, live_bodies in *. cbn [emit w_trace w_tasks w_spawned w_created set_trace hostf set_host flat_map] in *.
  rewrite H2. cbn. rewrite <- Permutation_middle. reflexivity.
Qed.

Lemma Ext_end_true : forall t b w, Ext t w (emit (VEnd b true) w).
Proof. intros. split; auto. Qed.

Lemma LinH_spawn : forall e b hs w,
  nmem b (w_created w) = false -> LinH hs w ->
  LinH hs (set_spawned (w_spawned w ++ [mk_body b false e]) (set_created (b :: w_created w) w)).
Proof.
  intros e b hs w NM [H1 H2]. unfold LinH, ended, live_bodies in *.
  cbn [w_created w_trace w_tasks w_spawned set_spawned set_created].
  split.
  - constructor; auto. intro I. unfold nmem in NM.
    assert (existsb (N.eqb b) (w_created w) = true) by (apply existsb_exists; exists b; split; auto; apply N.eqb_refl).
    congruence.
  - unfold body_ids. rewrite map_app. cbn [map mk_body b_id].
    rewrite H2. rewrite !app_assoc. rewrite <- Permutation_cons_append. reflexivity.
Qed.

Lemma Frame_spawn : forall w x c, Frame w (set_created c (emit x w)) -> True.
Proof. auto. Qed.

(** Ext of the two updates of a spawn *)
Lemma Ext_set_spawned_created : forall t s c w, Ext t w (set_spawned s (set_created c w)).
Proof. intros. split; auto. Qed.

(** An observation of the context slot moves nothing. *)
Lemma LinH_ctx_observe : forall hs w, LinH hs w -> LinH hs (ctx_observe w).
Proof. intros hs w L. exact L. Qed.
Lemma Ext_ctx_observe : forall t w, Ext t w (ctx_observe w).
Proof. intros. split; auto. Qed.

(** ** Bodies *)
Definition body_res (t : N) (hs : list N) (b : N) (w : world) (r : world * body * bool) : Prop :=
  let '(w', bd', rdy) := r in
  b_id bd' = b /\ (if rdy then LinH hs w' else LinH (b :: hs) w') /\ Ext t w w'
  /\ (tk_root (get_task t w') = tk_root (get_task t w)
      /\ fu_all (tk_fu (get_task t w')) = fu_all (tk_fu (get_task t w))).

Lemma body_res_frame : forall t hs b w w1 r,
  Frame w w1 -> body_res t hs b w1 r -> body_res t hs b w r.
Proof.
  intros t hs b w w1 [[w' bd'] rdy] F (A & B & C & D). split; [exact A|split; [exact B|split]].
  - eapply Ext_trans; [apply Frame_Ext; exact F|exact C].
  - destruct D as [D1 D2]. rewrite D1, D2. split; [now apply fr_root|now apply fr_fuall].
Qed.

Lemma body_res_ext : forall t hs b w w1 r,
  Ext t w w1 -> get_task t w1 = get_task t w ->
  body_res t hs b w1 r -> body_res t hs b w r.
Proof.
  intros t hs b w w1 [[w' bd'] rdy] F I (A & B & C & D). split; [exact A|split; [exact B|split]].
  - eapply Ext_trans; eauto.
  - now rewrite <- I.
Qed.

Lemma body_res_stop : forall t hs b bd' w w1,
  b_id bd' = b -> Frame w w1 -> LinH (b :: hs) w -> body_res t hs b w (w1, bd', false).
Proof.
  intros. split; [auto|split; [eapply Frame_LinH; eauto|split]].
  - now apply Frame_Ext.
  - split; [now apply fr_root|now apply fr_fuall].
Qed.

Ltac frame_of H := eapply Frame_of_eq; [exact H|]; auto with fr.

Lemma L_run_steps : forall e t wr steps bd w hs,
  LinH (b_id bd :: hs) w ->
  body_res t hs (b_id bd) w (run_steps e t bd wr steps w).
Proof.
  induction steps as [|s r IH]; intros bd w hs L.
  - cbn [run_steps]. unfold body_res.
    match goal with |- context [emit (VEnd ?b true) ?x] => assert (F : Frame w x) by fr_auto end.
    split; [reflexivity|]. split; [|split].
    + apply LinH_end. eapply Frame_LinH; [|exact L]. exact F.
    + eapply Ext_trans; [|apply Ext_end_true]. now apply Frame_Ext.
    + rewrite get_task_emit. split; [now apply fr_root|now apply fr_fuall].
  - destruct s; cbn [run_steps].
    + (* SAwait *)
      destruct (negb (op_fresh e k w)); [now apply IH|].
      destruct (await_op_full e t k wr w) as [w1 rdy1] eqn:A.
      assert (F : Frame w w1) by frame_of A.
      destruct rdy1.
      * eapply body_res_frame; [exact F|]. apply IH. eapply Frame_LinH; eauto.
      * apply body_res_stop; auto.
    + (* SYield *)
      apply body_res_stop; auto. fr_auto.
    + (* SSpawn *)
      destruct (nmem b (w_created w) || negb (cf_spawn (e_cfg e))) eqn:G; [now apply IH|].
      apply orb_false_iff in G as [G _].
      set (w1 := emit (VSpawn b) w).
      assert (F : Frame w w1) by (unfold w1; fr_auto).
      eapply body_res_frame; [exact F|].
      match goal with |- body_res _ _ _ _ (run_steps _ _ _ _ _ ?wx) => apply (body_res_ext _ _ _ _ wx) end.
      { split; auto. }
      { reflexivity. }
      apply IH. apply (LinH_spawn e b _ w1); auto; try (eapply Frame_LinH; eauto).
    + (* SFlag *)
      destruct (flag_poll j (b_id bd) wr w) as [w1 rdy1] eqn:A.
      assert (F : Frame w w1) by frame_of A.
      destruct rdy1.
      * eapply body_res_frame; [exact F|]. apply IH. eapply Frame_LinH; eauto.
      * apply body_res_stop; auto.
    + (* SWake *)
      assert (F : Frame w (signal_flag e j (emit (VWflag j) w))) by fr_auto.
      eapply body_res_frame; [exact F|]. apply IH. eapply Frame_LinH; eauto.
    + (* SJoin *)
      destruct (if op_fresh e k w then await_op_full e t k wr w else (w, true)) as [w1 od] eqn:A.
      assert (F1 : Frame w w1).
      { destruct (op_fresh e k w); [frame_of A|inversion A; subst; apply Frame_refl]. }
      destruct (flag_poll j (b_id bd) wr w1) as [w2 fd] eqn:B.
      assert (F2 : Frame w w2) by (eapply Frame_trans; [exact F1|frame_of B]).
      destruct (od && fd).
      * eapply body_res_frame; [exact F2|]. apply IH. eapply Frame_LinH; eauto.
      * apply body_res_stop; auto.
    + (* SCtx *)
      eapply body_res_ext; [apply Ext_ctx_observe|reflexivity|]. apply IH. now apply LinH_ctx_observe.
    + (* SDetach *)
      destruct (negb (op_fresh e k w)); [now apply IH|].
      destruct (await_op_full e t k wr w) as [w1 rdy1] eqn:A.
      assert (F : Frame w w1) by frame_of A.
      match goal with |- body_res _ _ _ _ (run_steps _ _ _ _ _ ?wx) => assert (F2 : Frame w wx) by (destruct rdy1; [exact F|fr_auto]) end.
      eapply body_res_frame; [exact F2|]. apply IH. eapply Frame_LinH; eauto.
Qed.

Lemma L_poll_body : forall e t wr bd w hs,
  LinH (b_id bd :: hs) w ->
  body_res t hs (b_id bd) w (poll_body e t bd wr w).
Proof.
  intros e t wr bd w hs L. unfold poll_body. destruct (b_cur bd) eqn:C.
  - now apply L_run_steps.
  - now apply L_run_steps.
  - destruct (await_op_full e t k wr w) as [w1 rdy1] eqn:A.
    assert (F : Frame w w1) by frame_of A.
    destruct rdy1.
    + eapply body_res_frame; [exact F|]. apply L_run_steps. eapply Frame_LinH; eauto.
    + apply body_res_stop; auto.
  - destruct (flag_poll j (b_id bd) wr w) as [w1 rdy1] eqn:A.
    assert (F : Frame w w1) by frame_of A.
    destruct rdy1.
    + eapply body_res_frame; [exact F|]. apply L_run_steps. eapply Frame_LinH; eauto.
    + apply body_res_stop; auto.
  - destruct (if opdone then (w, true) else await_op_full e t k wr w) as [w1 od] eqn:A.
    assert (F1 : Frame w w1).
    { destruct opdone; [inversion A; subst; apply Frame_refl|frame_of A]. }
    destruct (if flagdone then (w1, true) else flag_poll j (b_id bd) wr w1) as [w2 fd] eqn:B.
    assert (F2 : Frame w w2).
    { eapply Frame_trans; [exact F1|]. destruct flagdone; [inversion B; subst; apply Frame_refl|frame_of B]. }
    destruct (od && fd).
    + eapply body_res_frame; [exact F2|]. apply L_run_steps. eapply Frame_LinH; eauto.
    + apply body_res_stop; auto.
Qed.

(** Destruction of an unfinished body: linear, but it is an unfinished drop. *)
Lemma L_body_drop : forall e t bd w hs,
  LinH (b_id bd :: hs) w -> LinH hs (body_drop e t bd w).
Proof.
  intros. unfold body_drop. apply LinH_end. eapply Frame_LinH; [|eassumption]. fr_auto.
Qed.

Lemma body_drop_life : forall e t bd w t',
  tk_alive (get_task t' (body_drop e t bd w)) = tk_alive (get_task t' w)
  /\ tk_exited (get_task t' (body_drop e t bd w)) = tk_exited (get_task t' w).
Proof.
  intros. unfold body_drop. rewrite get_task_emit.
  match goal with |- context [get_task t' ?x] => assert (F : Frame w x) by fr_auto end.
  split; [now apply fr_alive|now apply fr_exited].
Qed.

(** ** Moving body futures between the world and the hand *)
Lemma nodup_app_r : forall (l l' : list N), NoDup (l ++ l') -> NoDup l'.
Proof. induction l; cbn; intros; auto. inversion H; subst. auto. Qed.
Lemma nodup_app_l : forall (l l' : list N), NoDup (l ++ l') -> NoDup l.
Proof.
  induction l; cbn; intros; [constructor|]. inversion H; subst. constructor; eauto.
  intro. apply H2. apply in_or_app. auto.
Qed.

Lemma LinH_nodup_live : forall hs w, LinH hs w -> NoDup (hs ++ live_bodies w).
Proof.
  intros hs w [H1 H2]. eapply Permutation_NoDup in H1; [|exact H2].
  now apply nodup_app_r in H1.
Qed.

Lemma LinH_nodup_task : forall hs t w, LinH hs w -> NoDup (task_ids (get_task t w)).
Proof.
  intros hs t w L. apply LinH_nodup_live in L. apply nodup_app_r in L.
  eapply Permutation_NoDup in L; [|apply (live_split t)].
  now apply nodup_app_l in L.
Qed.

Lemma LinH_move_sp : forall t x sp hs hs' w,
  Permutation (hs ++ task_ids (get_task t w) ++ body_ids (w_spawned w)) (hs' ++ task_ids x ++ body_ids sp) ->
  LinH hs w -> LinH hs' (set_spawned sp (put_task t x w)).
Proof.
  intros t x sp hs hs' w P [H1 H2]. split; [exact H1|].
  change (w_created (set_spawned sp (put_task t x w))) with (w_created w).
  change (ended (set_spawned sp (put_task t x w))) with (ended w).
  rewrite H2. apply Permutation_app_head.
  assert (E1 : Permutation (live_bodies w) (others t (w_tasks w) ++ task_ids (get_task t w) ++ body_ids (w_spawned w))).
  { rewrite (live_split t). rewrite !app_assoc. apply Permutation_app_tail. apply Permutation_app_comm. }
  assert (E2 : Permutation (live_bodies (set_spawned sp (put_task t x w))) (others t (w_tasks w) ++ task_ids x ++ body_ids sp)).
  { unfold live_bodies. cbn [w_tasks w_spawned set_spawned put_task set_tasks].
    rewrite (tasks_ids_split t). rewrite alookup_tset_same, others_tset.
    rewrite !app_assoc. apply Permutation_app_tail. apply Permutation_app_comm. }
  rewrite E1, E2.
  rewrite !app_assoc.
  rewrite (Permutation_app_comm hs), (Permutation_app_comm hs').
  rewrite <- !app_assoc. apply Permutation_app_head.
  exact P.
Qed.

Lemma LinH_move : forall t x hs hs' w,
  Permutation (hs ++ task_ids (get_task t w)) (hs' ++ task_ids x) ->
  LinH hs w -> LinH hs' (put_task t x w).
Proof.
  intros t x hs hs' w P L.
  assert (E : put_task t x w = set_spawned (w_spawned w) (put_task t x w)) by reflexivity.
  rewrite E. eapply LinH_move_sp; [|exact L].
  rewrite !app_assoc. now apply Permutation_app_tail.
Qed.

Lemma Ext_put_task : forall t x w,
  tk_alive x = tk_alive (get_task t w) -> tk_exited x = tk_exited (get_task t w) ->
  Ext t w (put_task t x w).
Proof.
  intros t x w A B. split; auto.
  - intros t'. rewrite get_put. destruct (N.eqb t t') eqn:E; auto.
    apply N.eqb_eq in E. subst. auto.
  - intros t' NE. rewrite get_put. destruct (N.eqb t t') eqn:E; auto.
    apply N.eqb_eq in E. congruence.
  - intros. unfold put_task. cbn [w_tasks set_tasks]. now apply tset_keys_nodup.
Qed.

Lemma find_body_id : forall b l bd, find_body b l = Some bd -> b_id bd = b.
Proof. unfold find_body. intros b l bd H. apply find_some in H as [_ H]. now apply N.eqb_eq in H. Qed.

Lemma remove_body_notin : forall b l, ~ In b (body_ids l) -> remove_body b l = l.
Proof.
  unfold remove_body. induction l as [|x l IH]; cbn; intros H; auto.
  destruct (N.eqb (b_id x) b) eqn:E; cbn.
  - apply N.eqb_eq in E. exfalso. apply H. auto.
  - f_equal. apply IH. intro. apply H. auto.
Qed.

Lemma remove_body_perm : forall b l bd,
  NoDup (body_ids l) -> find_body b l = Some bd ->
  Permutation (body_ids l) (b :: body_ids (remove_body b l)).
Proof.
  induction l as [|x l IH]; intros bd ND H; [discriminate|].
  cbn in ND. inversion ND as [|? ? NI ND']; subst.
  unfold find_body in H. cbn [find] in H.
  unfold remove_body. cbn [filter]. fold (remove_body b l).
  destruct (N.eqb (b_id x) b) eqn:E; cbn [negb body_ids map].
  - apply N.eqb_eq in E. subst b. rewrite remove_body_notin; auto.
  - fold (body_ids l). fold (body_ids (remove_body b l)).
    rewrite (IH bd ND' H). apply perm_swap.
Qed.

Lemma task_ids_with_fu : forall f tk, task_ids (tk_with_fu f tk) = body_ids (root_list tk) ++ body_ids (fu_all f).
Proof. reflexivity. Qed.

Lemma LinH_unlink : forall t f b bd hs w,
  fu_all f = remove_body b (fu_all (get_fu t w)) ->
  find_body b (fu_all (get_fu t w)) = Some bd ->
  LinH hs w -> LinH (b :: hs) (put_fu t f w).
Proof.
  intros t f b bd hs w E F L. unfold put_fu, upd_task. eapply LinH_move; [|exact L].
  rewrite task_ids_with_fu, E.
  assert (ND : NoDup (body_ids (fu_all (get_fu t w)))).
  { pose proof (LinH_nodup_task _ t _ L) as ND. unfold task_ids in ND. now apply nodup_app_r in ND. }
  unfold task_ids, get_fu in *. rewrite (remove_body_perm b _ bd ND F).
  cbn. rewrite <- !Permutation_middle. reflexivity.
Qed.

Lemma LinH_link : forall t bd f hs w,
  fu_all f = bd :: fu_all (get_fu t w) ->
  LinH (b_id bd :: hs) w -> LinH hs (put_fu t f w).
Proof.
  intros t bd f hs w E L. unfold put_fu, upd_task. eapply LinH_move; [|exact L].
  rewrite task_ids_with_fu, E. unfold task_ids, get_fu. cbn.
  rewrite <- !Permutation_middle. reflexivity.
Qed.

Lemma Ext_put_fu : forall t f w, Ext t w (put_fu t f w).
Proof. intros. unfold put_fu, upd_task. apply Ext_put_task; reflexivity. Qed.

Lemma put_fu_same_Frame : forall t f w, fu_all f = fu_all (get_fu t w) -> Frame w (put_fu t f w).
Proof. intros. apply Frame_put_fu; auto. apply Frame_refl. Qed.

(** ** FuturesUnordered *)
Definition lin_res (t : N) (hs : list N) (w w' : world) : Prop := LinH hs w' /\ Ext t w w'.

Lemma lin_res_frame : forall t hs w w1 w', Frame w w1 -> lin_res t hs w1 w' -> lin_res t hs w w'.
Proof. intros t hs w w1 w' F [A B]. split; auto. eapply Ext_trans; [apply Frame_Ext; eauto|auto]. Qed.
Lemma lin_res_ext : forall t hs w w1 w', Ext t w w1 -> lin_res t hs w1 w' -> lin_res t hs w w'.
Proof. intros t hs w w1 w' F [A B]. split; auto. eapply Ext_trans; eauto. Qed.
Lemma lin_res_of_frame : forall t hs w w', Frame w w' -> LinH hs w -> lin_res t hs w w'.
Proof. intros. split; [eapply Frame_LinH; eauto|now apply Frame_Ext]. Qed.

Lemma L_fu_poll_next : forall e t fuel len polled yielded hs w,
  LinH hs w -> lin_res t hs w (fst (fu_poll_next fuel e t len polled yielded w)).
Proof.
  induction fuel as [|fuel IH]; intros len polled yielded hs w L; cbn [fu_poll_next].
  - cbn. apply lin_res_of_frame; auto with fr.
  - destruct (fu_q (get_fu t w)) as [|b q'] eqn:Q.
    + destruct (is_nil (fu_all (get_fu t w))); cbn; apply lin_res_of_frame; auto with fr.
    + set (f1 := fu_with_q q' (get_fu t w)).
      change (fu_all f1) with (fu_all (get_fu t w)).
      destruct (find_body b (fu_all (get_fu t w))) as [bd|] eqn:FB.
      * destruct (negb (nmem b (fu_queued f1))); [cbn; apply lin_res_of_frame; auto with fr|].
        match goal with |- context [poll_body e t bd (WInner t b) (put_fu t ?ff w)] => set (f3 := ff) end.
        pose proof (find_body_id _ _ _ FB) as ID.
        assert (L1 : LinH (b_id bd :: hs) (put_fu t f3 w)).
        { rewrite ID. eapply LinH_unlink; eauto. }
        pose proof (L_poll_body e t (WInner t b) bd _ hs L1) as R.
        destruct (poll_body e t bd (WInner t b) (put_fu t f3 w)) as [[w2 bd'] rdy].
        destruct R as (ID' & R2 & R3 & R4).
        assert (X : Ext t w w2) by (eapply Ext_trans; [apply Ext_put_fu|exact R3]).
        destruct rdy.
        -- cbn [fst]. split.
           ++ eapply Frame_LinH; [|exact R2]. apply put_fu_same_Frame. reflexivity.
           ++ eapply Ext_trans; [exact X|]. apply Frame_Ext. apply put_fu_same_Frame. reflexivity.
        -- match goal with |- context [put_fu t ?ff w2] => set (f4 := ff) end.
           assert (L3 : LinH hs (put_fu t f4 w2)).
           { eapply (LinH_link t bd'); [reflexivity|]. rewrite ID'. exact R2. }
           assert (X3 : Ext t w (put_fu t f4 w2)) by (eapply Ext_trans; [exact X|apply Ext_put_fu]).
           match goal with |- context [if ?c then _ else _] => destruct c end.
           ++ cbn [fst]. eapply lin_res_ext; [exact X3|]. apply lin_res_of_frame; auto with fr.
           ++ eapply lin_res_ext; [exact X3|]. apply IH. exact L3.
      * eapply lin_res_frame; [apply (put_fu_same_Frame t f1 w); reflexivity|].
        apply IH. eapply Frame_LinH; [|exact L]. apply put_fu_same_Frame. reflexivity.
Qed.

Lemma L_fu_poll : forall e t hs w, LinH hs w -> lin_res t hs w (fst (fu_poll e t w)).
Proof.
  intros. unfold fu_poll.
  eapply lin_res_frame; [apply (put_fu_same_Frame t (fu_with_outer true (get_fu t w)) w); reflexivity|].
  apply L_fu_poll_next. eapply Frame_LinH; [|eassumption]. apply put_fu_same_Frame. reflexivity.
Qed.

Lemma fu_all_push_fold : forall sp f,
  Permutation (body_ids (fu_all (fold_left (fun f bd => fu_push bd f) sp f))) (body_ids sp ++ body_ids (fu_all f)).
Proof.
  induction sp as [|x sp IH]; intros f; cbn [fold_left]; [reflexivity|].
  rewrite IH. cbn. rewrite <- Permutation_middle. reflexivity.
Qed.

Lemma LinH_drain : forall t hs w,
  LinH hs w ->
  LinH hs (set_spawned [] (put_fu t (fold_left (fun f bd => fu_push bd f) (w_spawned w) (get_fu t w)) w)).
Proof.
  intros t hs w L. unfold put_fu, upd_task. eapply LinH_move_sp; [|exact L].
  apply Permutation_app_head. rewrite task_ids_with_fu. cbn [body_ids map]. rewrite app_nil_r.
  rewrite fu_all_push_fold. unfold task_ids, get_fu. rewrite <- app_assoc.
  apply Permutation_app_head. apply Permutation_app_comm.
Qed.

Lemma Ext_drain : forall t f w, Ext t w (set_spawned [] (put_fu t f w)).
Proof.
  intros. eapply Ext_trans; [apply Ext_put_fu|]. split; intros; try split; try reflexivity. assumption.
Qed.

Lemma L_tasks_poll_spawn : forall e t fuel hs w,
  LinH hs w -> lin_res t hs w (fst (tasks_poll_spawn fuel e t w)).
Proof.
  induction fuel as [|fuel IH]; intros hs w L; cbn [tasks_poll_spawn].
  - cbn. apply lin_res_of_frame; auto with fr.
  - pose proof (L_fu_poll e t hs w L) as [L1 X1].
    destruct (fu_poll e t w) as [w1 p]. cbn [fst] in *.
    set (w2 := if negb (is_nil (w_spawned w1)) then _ else w1).
    assert (R2 : lin_res t hs w w2).
    { unfold w2. destruct (negb (is_nil (w_spawned w1))).
      - split; [now apply LinH_drain|]. eapply Ext_trans; [exact X1|apply Ext_drain].
      - split; auto. }
    destruct R2 as [L2 X2].
    destruct (failed w2); [cbn; split; auto|].
    destruct p; destruct (negb (is_nil (w_spawned w1))); cbn [fst];
      try (split; auto; fail);
      try (eapply lin_res_ext; [exact X2|]; apply IH; exact L2).
    eapply lin_res_ext; [exact X2|]. apply lin_res_of_frame; auto with fr.
Qed.

(** ** spawn_disabled::Tasks *)
Lemma root_ids : forall tk, task_ids tk = body_ids (root_list tk) ++ body_ids (fu_all (tk_fu tk)).
Proof. reflexivity. Qed.

Lemma L_tasks_poll_single : forall e t hs w,
  LinH hs w -> lin_res t hs w (fst (tasks_poll_single e t w)).
Proof.
  intros e t hs w L. unfold tasks_poll_single.
  destruct (tk_root (get_task t w)) as [bd|] eqn:R; [|cbn; split; auto; apply Ext_refl].
  assert (L1 : LinH (b_id bd :: hs) (upd_task t (tk_with_root None) w)).
  { unfold upd_task. eapply LinH_move; [|exact L].
    unfold task_ids, root_list. cbn [tk_with_root tk_root tk_fu]. rewrite R. cbn.
    rewrite <- Permutation_middle. reflexivity. }
  assert (X1 : Ext t w (upd_task t (tk_with_root None) w)) by (apply Ext_put_task; reflexivity).
  pose proof (L_poll_body e t (WTask t) bd _ hs L1) as RES.
  destruct (poll_body e t bd (WTask t) (upd_task t (tk_with_root None) w)) as [[w2 bd'] rdy].
  destruct RES as (ID & R2 & R3 & R4 & R5).
  destruct rdy; cbn [fst].
  - split; auto. eapply Ext_trans; eauto.
  - split.
    + unfold upd_task. eapply LinH_move; [|exact R2].
      unfold upd_task in R4. rewrite get_put_same in R4. cbn [tk_with_root tk_root] in R4.
      unfold task_ids, root_list. cbn [tk_with_root tk_root tk_fu body_ids map]. rewrite R4, ID.
      cbn. rewrite <- Permutation_middle. reflexivity.
    + eapply Ext_trans; [exact X1|]. eapply Ext_trans; [exact R3|]. apply Ext_put_task; reflexivity.
Qed.

Lemma L_tasks_poll : forall e t hs w, LinH hs w -> lin_res t hs w (fst (tasks_poll e t w)).
Proof.
  intros. unfold tasks_poll. destruct (cf_spawn (e_cfg e)); [now apply L_tasks_poll_spawn|now apply L_tasks_poll_single].
Qed.

(** ** The callback loop and the callback *)
Lemma L_cb_loop : forall e t fuel hs w,
  LinH hs w -> lin_res t hs w (fst (cb_loop fuel e t w)).
Proof.
  induction fuel as [|fuel IH]; intros hs w L; cbn [cb_loop].
  - cbn. apply lin_res_of_frame; auto with fr.
  - set (w0 := upd_task t (tk_with_sleep 0) w).
    assert (F0 : Frame w w0) by (unfold w0; fr_auto).
    pose proof (L_tasks_poll e t hs w0 (Frame_LinH _ _ _ F0 L)) as [L1 X1].
    destruct (tasks_poll e t w0) as [w1 rdy]. cbn [fst] in *.
    assert (X : Ext t w w1) by (eapply Ext_trans; [apply Frame_Ext; exact F0|exact X1]).
    assert (K : forall w', Frame w1 w' -> lin_res t hs w w').
    { intros w' F. split; [eapply Frame_LinH; eauto|eapply Ext_trans; [exact X|now apply Frame_Ext]]. }
    assert (KR : forall w', Frame w1 w' -> lin_res t hs w (fst (cb_loop fuel e t w'))).
    { intros w' F. eapply lin_res_ext; [eapply Ext_trans; [exact X|apply Frame_Ext; exact F]|].
      apply IH. eapply Frame_LinH; eauto. }
    repeat match goal with
    | |- lin_res _ _ _ (fst (cb_loop _ _ _ _)) => apply KR; fr_auto
    | |- lin_res _ _ _ (fst (wait_code _ _)) => apply K; fr_auto
    | |- lin_res _ _ _ (fst (_, _)) => cbn [fst]; apply K; fr_auto
    | |- lin_res _ _ _ (fst (match ?c with _ => _ end)) => destruct c eqn:?
    end.
Qed.

Lemma L_task_cb : forall e t e0 e1 e2 hs w,
  LinH hs w -> lin_res t hs w (fst (task_cb e t e0 e1 e2 w)).
Proof.
  intros e t e0 e1 e2 hs w L. unfold task_cb.
  destruct (N.eqb e0 6); [cbn; split; auto; apply Ext_refl|].
  destruct (6 <? e0); [cbn; apply lin_res_of_frame; auto with fr|].
  match goal with |- context [failed ?x] => set (wa := x) end.
  assert (FA : Frame w wa) by (unfold wa; fr_auto).
  destruct (failed wa); [cbn; now apply lin_res_of_frame|].
  pose proof (L_cb_loop e t (e_fuel e) hs wa (Frame_LinH _ _ _ FA L)) as [L1 X1].
  destruct (cb_loop (e_fuel e) e t wa) as [w2 c]. cbn [fst] in *.
  split.
  - eapply Frame_LinH; [|exact L1]. auto with fr.
  - eapply Ext_trans; [apply Frame_Ext; exact FA|]. eapply Ext_trans; [exact X1|]. apply Frame_Ext. auto with fr.
Qed.

(** ** Destruction of the task *)
Lemma body_ids_task_bodies : forall e tk, body_ids (task_bodies e tk) = task_ids tk.
Proof. intros. unfold task_bodies, task_ids, root_list, body_ids. now rewrite map_app. Qed.

Lemma L_drop_bodies : forall e t bodies hs w,
  LinH (body_ids bodies ++ hs) w ->
  LinH hs (fold_left (fun w bd => body_drop e t bd w) bodies w).
Proof.
  induction bodies as [|bd r IH]; intros hs w L; cbn [fold_left]; auto.
  apply IH. cbn in L. now apply L_body_drop.
Qed.

Definition same_but (t : N) (w w' : world) : Prop :=
  forall t', t' <> t ->
    task_ids (get_task t' w') = task_ids (get_task t' w)
    /\ tk_alive (get_task t' w') = tk_alive (get_task t' w)
    /\ tk_exited (get_task t' w') = tk_exited (get_task t' w).

Lemma Frame_same_but : forall t w w', Frame w w' -> same_but t w w'.
Proof. intros t w w' F t' _. split; [now apply fr_ids|split; [now apply fr_alive|now apply fr_exited]]. Qed.

Lemma same_but_trans : forall t a b c, same_but t a b -> same_but t b c -> same_but t a c.
Proof.
  intros t a b c A B t' NE. destruct (A t' NE) as (?&?&?), (B t' NE) as (?&?&?). split; [congruence|split; congruence].
Qed.

Lemma same_but_put : forall t x w, same_but t w (put_task t x w).
Proof. intros t x w t' NE. rewrite get_put_other; auto. Qed.

Lemma Frame_drop_bodies : forall e t bodies w,
  same_but t w (fold_left (fun w bd => body_drop e t bd w) bodies w)
  /\ task_ids (get_task t (fold_left (fun w bd => body_drop e t bd w) bodies w)) = task_ids (get_task t w)
  /\ boxfrees (fold_left (fun w bd => body_drop e t bd w) bodies w) = boxfrees w
  /\ boxnews (fold_left (fun w bd => body_drop e t bd w) bodies w) = boxnews w
  /\ (NoDup (map fst (w_tasks w)) -> NoDup (map fst (w_tasks (fold_left (fun w bd => body_drop e t bd w) bodies w)))).
Proof.
  intros e t bodies. induction bodies as [|bd r IH]; intros w; cbn [fold_left].
  - split; [|split; [|split; [|split]]]; auto. intros t' _. auto.
  - destruct (IH (body_drop e t bd w)) as (A & B & C & D & KK).
    assert (F : exists x, Frame w x /\ body_drop e t bd w = emit (VEnd (b_id bd) false) x).
    { unfold body_drop. eexists. split; [|reflexivity]. fr_auto. }
    destruct F as (x & F & E).
    assert (G : forall t', get_task t' (body_drop e t bd w) = get_task t' x) by (intros; now rewrite E).
    split; [|split; [|split; [|split]]].
    5:{ intros ND. apply KK. rewrite E. change (w_tasks (emit ?a x)) with (w_tasks x). now apply (fr_keys _ _ F). }
    + eapply same_but_trans; [|exact A]. intros t' NE. rewrite !G.
      split; [now apply fr_ids|split; [now apply fr_alive|now apply fr_exited]].
    + rewrite B, G. now apply fr_ids.
    + rewrite C, E. unfold boxfrees. cbn. fold (boxfrees x). now apply Frame_boxfrees.
    + rewrite D, E. unfold boxnews. cbn. fold (boxnews x). now apply Frame_boxnews.
Qed.

Record DropRes (e : env) (t : N) (hs : list N) (w w' : world) : Prop := mkDropRes {
  dr_lin : LinH hs w';
  dr_alive : tk_alive (get_task t w') = false;
  dr_exited : tk_exited (get_task t w') = true;
  dr_ids : task_ids (get_task t w') = [];
  dr_others : same_but t w w';
  dr_boxfrees : boxfrees w' = boxfrees w;
  dr_boxnews : boxnews w' = boxnews w;
  dr_udrops : task_ids (get_task t w) = [] -> udrops w' = udrops w;
  dr_keys : NoDup (map fst (w_tasks w)) -> NoDup (map fst (w_tasks w'))
}.

Lemma L_task_drop : forall e t hs w, LinH hs w -> DropRes e t hs w (task_drop e t w).
Proof.
  intros e t hs w L. unfold task_drop. cbv zeta.
  set (w1 := cancel_itw_read e t w).
  assert (F1 : Frame w w1) by (unfold w1; fr_auto).
  assert (L1 : LinH hs w1) by (eapply Frame_LinH; eauto).
  set (bodies := task_bodies e (get_task t w1)).
  assert (BI : body_ids bodies = task_ids (get_task t w)).
  { unfold bodies. rewrite body_ids_task_bodies. now apply fr_ids. }
  set (w2 := if is_nil bodies then w1 else _).
  assert (R2 : LinH hs w2 /\ same_but t w w2 /\ task_ids (get_task t w2) = []
               /\ boxfrees w2 = boxfrees w /\ boxnews w2 = boxnews w
               /\ (task_ids (get_task t w) = [] -> udrops w2 = udrops w)
               /\ (NoDup (map fst (w_tasks w)) -> NoDup (map fst (w_tasks w2)))).
  { unfold w2. destruct (is_nil bodies) eqn:NB.
    - apply is_nil_true in NB. rewrite NB in BI. cbn in BI.
      split; [|split; [|split; [|split; [|split; [|split]]]]]; auto.
      all: try (now apply (fr_keys _ _ F1)).
      + now apply Frame_same_but.
      + rewrite (fr_ids _ _ F1). auto.
      + now apply Frame_boxfrees.
      + now apply Frame_boxnews.
      + intros _. now apply Frame_udrops.
    - set (wc := set_cur (Some t) w1).
      set (wd := upd_task t (fun tk => tk_with_root None (tk_with_fu fu_dead tk)) wc).
      assert (Ld : LinH (body_ids bodies ++ hs) wd).
      { unfold wd, upd_task. eapply LinH_move; [|exact L1].
        change (get_task t wc) with (get_task t w1).
        unfold bodies. rewrite body_ids_task_bodies. cbn. rewrite app_nil_r.
        apply Permutation_app_comm. }
      assert (Ids : task_ids (get_task t wd) = []).
      { unfold wd. rewrite get_upd, N.eqb_refl. reflexivity. }
      destruct (Frame_drop_bodies e t bodies wd) as (A & B & C & D & KK).
      split; [|split; [|split; [|split; [|split; [|split]]]]].
      7:{ intros ND. change (w_tasks (set_cur (w_cur w1) ?x)) with (w_tasks x). apply KK.
          unfold wd, upd_task, put_task. cbn [w_tasks set_tasks]. apply tset_keys_nodup.
          change (w_tasks wc) with (w_tasks w1). now apply (fr_keys _ _ F1). }
      + eapply Frame_LinH; [|apply L_drop_bodies; exact Ld]. auto with fr.
      + intros t' NE. change (get_task t' (set_cur (w_cur w1) ?x)) with (get_task t' x).
        destruct (A t' NE) as (A1 & A2 & A3). rewrite A1, A2, A3.
        assert (G : get_task t' wd = get_task t' w1).
        { unfold wd, upd_task. rewrite get_put_other by auto. reflexivity. }
        rewrite G. split; [now apply fr_ids|split; [now apply fr_alive|now apply fr_exited]].
      + change (get_task t (set_cur (w_cur w1) ?x)) with (get_task t x). now rewrite B.
      + change (boxfrees (set_cur (w_cur w1) ?x)) with (boxfrees x). rewrite C.
        change (boxfrees wd) with (boxfrees w1). now apply Frame_boxfrees.
      + change (boxnews (set_cur (w_cur w1) ?x)) with (boxnews x). rewrite D.
        change (boxnews wd) with (boxnews w1). now apply Frame_boxnews.
      + intros Z. rewrite Z in BI. destruct bodies; [discriminate|discriminate]. }
  destruct R2 as (L2 & S2 & I2 & BF2 & BN2 & U2 & K2).
  set (w3 := upd_task t (fun tk => tk_with_alive false (tk_with_exited true (tk_with_fu fu_dead tk))) w2).
  assert (RT : root_list (get_task t w2) = []).
  { unfold task_ids in I2. apply app_eq_nil in I2 as [I2 _]. unfold body_ids in I2. now apply map_eq_nil in I2. }
  assert (I3 : task_ids (get_task t w3) = []).
  { unfold w3. rewrite get_upd, N.eqb_refl.
    change (task_ids (tk_with_alive false (tk_with_exited true (tk_with_fu fu_dead (get_task t w2)))))
      with (body_ids (root_list (get_task t w2)) ++ body_ids []).
    now rewrite RT. }
  assert (L3 : LinH hs w3).
  { unfold w3, upd_task. eapply LinH_move; [|exact L2]. fold (upd_task t (fun tk => tk_with_alive false (tk_with_exited true (tk_with_fu fu_dead tk))) w2).
    unfold w3 in I3. unfold upd_task in I3. rewrite get_put_same in I3. rewrite I3, I2. reflexivity. }
  set (w4 := maybe_drop_shared t w3).
  assert (F4 : Frame w3 w4) by (unfold w4; fr_auto).
  match goal with |- DropRes _ _ _ _ ?wf => assert (F5 : Frame w4 wf) by fr_auto end.
  assert (F35 := Frame_trans _ _ _ F4 F5).
  split.
  - eapply Frame_LinH; eauto.
  - rewrite (fr_alive _ _ F35). unfold w3. rewrite get_upd, N.eqb_refl. reflexivity.
  - rewrite (fr_exited _ _ F35). unfold w3. rewrite get_upd, N.eqb_refl. reflexivity.
  - rewrite (fr_ids _ _ F35). exact I3.
  - eapply same_but_trans; [exact S2|]. eapply same_but_trans; [|apply Frame_same_but; exact F35].
    unfold w3, upd_task. apply same_but_put.
  - rewrite (Frame_boxfrees _ _ F35). exact BF2.
  - rewrite (Frame_boxnews _ _ F35). exact BN2.
  - intros Z. rewrite (Frame_udrops _ _ F35). change (udrops w3) with (udrops w2). auto.
  - intros ND. apply (fr_keys _ _ F35). unfold w3, upd_task, put_task. cbn [w_tasks set_tasks].
    apply tset_keys_nodup. auto.
Qed.
