(** * Async/FutureOpReach.v — the per-future state space of the FutureOp core is finite: it is
    computed here by a breadth-first search ([reach v2], one list per task-ABI version), and the
    facts the property theorems need are established by evaluating boolean checks over it with
    [vm_compute] (every state x every action x both values of "the task's waitable set exists").
    Soundness of the boolean state equality used for membership is proved below ([fut_eqb_eq]). *)
From Coq Require Import NArith ZArith List Bool Lia.
From WB Require Import Async.FutureOp.
Import ListNotations.

(** ** Boolean equality on states (lazy conjunction: [vm_compute] is call-by-value) *)
Notation "a &&& b" := (if a then b else false) (at level 40, left associativity).
Definition sval_eqb (a b : sval) : bool :=
  match a, b with VUser, VUser | VDefault, VDefault | VPeer, VPeer | VJunk, VJunk => true | _, _ => false end.
Definition opt_eqb {A} (e : A -> A -> bool) (a b : option A) : bool :=
  match a, b with Some x, Some y => e x y | None, None => true | _, _ => false end.
Fixpoint list_eqb {A} (e : A -> A -> bool) (a b : list A) : bool :=
  match a, b with
  | [], [] => true
  | x :: r, y :: s => e x y &&& list_eqb e r s
  | _, _ => false
  end.
Definition hend_eqb (a b : hend) : bool :=
  Bool.eqb (e_live a) (e_live b) &&& Bool.eqb (e_copying a) (e_copying b) &&& Bool.eqb (e_done a) (e_done b)
  &&& Bool.eqb (e_joined a) (e_joined b) &&& opt_eqb N.eqb (e_ready a) (e_ready b) &&& sval_eqb (e_buf a) (e_buf b).
Definition hostf_eqb (a b : hostf) : bool :=
  hend_eqb (hw a) (hw b) &&& hend_eqb (hr a) (hr b) &&& Bool.eqb (r_dropped a) (r_dropped b)
  &&& Bool.eqb (w_dropped a) (w_dropped b) &&& Bool.eqb (peer_read a) (peer_read b)
  &&& opt_eqb sval_eqb (peer_write a) (peer_write b) &&& list_eqb sval_eqb (peer_recv a) (peer_recv b)
  &&& Bool.eqb (moved a) (moved b).
Definition opst_eqb (a b : opst) : bool :=
  match a, b with OStart, OStart | OInProg, OInProg | ODone, ODone => true | _, _ => false end.
Definition opc_eqb (a b : opc) : bool :=
  opst_eqb (o_st a) (o_st b) &&& opt_eqb N.eqb (o_code a) (o_code b) &&& Bool.eqb (o_cl a) (o_cl b)
  &&& Bool.eqb (o_treg a) (o_treg b).
Definition wop_eqb (a b : opc * sval) : bool := opc_eqb (fst a) (fst b) &&& sval_eqb (snd a) (snd b).
Definition rtf_eqb (a b : rtf) : bool :=
  Bool.eqb (regw a) (regw b) &&& Bool.eqb (regr a) (regr b) &&& Bool.eqb (writer a) (writer b)
  &&& opt_eqb wop_eqb (write a) (write b) &&& opt_eqb wop_eqb (deferred a) (deferred b)
  &&& Bool.eqb (reader a) (reader b) &&& opt_eqb opc_eqb (read a) (read b).
Definition ghost_eqb (a b : ghost) : bool :=
  Z.eqb (g_low a) (g_low b) &&& Z.eqb (g_area a) (g_area b) &&& Z.eqb (g_live a) (g_live b)
  &&& Nat.eqb (n_dropw a) (n_dropw b) &&& Nat.eqb (n_dropr a) (n_dropr b) &&& Nat.eqb (n_taker a) (n_taker b)
  &&& list_eqb sval_eqb (got a) (got b) &&& list_eqb sval_eqb (sent a) (sent b)
  &&& Bool.eqb (wv_user a) (wv_user b) &&& Bool.eqb (wv_dflt a) (wv_dflt b)
  &&& list_eqb sval_eqb (xfer a) (xfer b) &&& Nat.eqb (n_default a) (n_default b)
  &&& Bool.eqb (r_gaveup a) (r_gaveup b).
Definition fut_eqb (a b : fut) : bool :=
  Bool.eqb (f_heap a) (f_heap b) &&& Bool.eqb (f_imp a) (f_imp b) &&& hostf_eqb (fh a) (fh b)
  &&& rtf_eqb (fr a) (fr b) &&& ghost_eqb (fg a) (fg b).

Ltac split_andb :=
  repeat match goal with
         | H : (if ?a then _ else false) = true |- _ => destruct a eqn:?; [ | discriminate H]
         end.

Lemma sval_eqb_eq : forall a b, sval_eqb a b = true -> a = b.
Proof. destruct a, b; cbn; congruence. Qed.
Lemma opt_eqb_eq : forall {A} (e : A -> A -> bool), (forall x y, e x y = true -> x = y) ->
  forall a b, opt_eqb e a b = true -> a = b.
Proof. intros A e He [x|] [y|]; cbn; intros; try congruence. f_equal; auto. Qed.
Lemma list_eqb_eq : forall {A} (e : A -> A -> bool), (forall x y, e x y = true -> x = y) ->
  forall a b, list_eqb e a b = true -> a = b.
Proof.
  intros A e He; induction a as [|x r IH]; destruct b as [|y s]; cbn; intros H; try congruence.
  split_andb. f_equal; auto.
Qed.
Ltac fld :=
  first [ apply eqb_prop | apply N.eqb_eq | apply Z.eqb_eq | apply Nat.eqb_eq ]; assumption.
Lemma N_eqb_eq' : forall x y, N.eqb x y = true -> x = y. Proof. intros; now apply N.eqb_eq. Qed.
Lemma Z_eqb_eq' : forall x y, Z.eqb x y = true -> x = y. Proof. intros; now apply Z.eqb_eq. Qed.
Lemma Nat_eqb_eq' : forall x y, Nat.eqb x y = true -> x = y. Proof. intros; now apply Nat.eqb_eq. Qed.
Lemma bool_eqb_eq' : forall x y, Bool.eqb x y = true -> x = y. Proof. intros; now apply eqb_prop. Qed.

Ltac to_eqs L :=
  repeat match goal with
         | H : Bool.eqb _ _ = true |- _ => apply eqb_prop in H
         | H : N.eqb _ _ = true |- _ => apply N.eqb_eq in H
         | H : Z.eqb _ _ = true |- _ => apply Z.eqb_eq in H
         | H : Nat.eqb _ _ = true |- _ => apply Nat.eqb_eq in H
         | H : sval_eqb _ _ = true |- _ => apply sval_eqb_eq in H
         | H : opt_eqb N.eqb _ _ = true |- _ => apply (opt_eqb_eq N.eqb N_eqb_eq') in H
         | H : opt_eqb sval_eqb _ _ = true |- _ => apply (opt_eqb_eq sval_eqb sval_eqb_eq) in H
         | H : list_eqb sval_eqb _ _ = true |- _ => apply (list_eqb_eq sval_eqb sval_eqb_eq) in H
         | H : _ = true |- _ => L H
         end; subst; reflexivity.
Ltac nol H := fail.

Lemma hend_eqb_eq : forall a b, hend_eqb a b = true -> a = b.
Proof.
  intros [] []; unfold hend_eqb; cbn; intros H; split_andb.
  to_eqs ltac:(nol).
Qed.
Lemma hostf_eqb_eq : forall a b, hostf_eqb a b = true -> a = b.
Proof.
  intros [] []; unfold hostf_eqb; cbn; intros H; split_andb.
  to_eqs ltac:(fun H => apply hend_eqb_eq in H).
Qed.
Lemma opst_eqb_eq : forall a b, opst_eqb a b = true -> a = b.
Proof. destruct a, b; cbn; congruence. Qed.
Lemma opc_eqb_eq : forall a b, opc_eqb a b = true -> a = b.
Proof.
  intros [] []; unfold opc_eqb; cbn; intros H; split_andb.
  to_eqs ltac:(fun H => apply opst_eqb_eq in H).
Qed.
Lemma wop_eqb_eq : forall a b, wop_eqb a b = true -> a = b.
Proof.
  intros [] []; unfold wop_eqb; cbn; intros H; split_andb.
  to_eqs ltac:(fun H => apply opc_eqb_eq in H).
Qed.
Lemma rtf_eqb_eq : forall a b, rtf_eqb a b = true -> a = b.
Proof.
  intros [] []; unfold rtf_eqb; cbn; intros H; split_andb.
  to_eqs ltac:(fun H => first [apply (opt_eqb_eq wop_eqb wop_eqb_eq) in H | apply (opt_eqb_eq opc_eqb opc_eqb_eq) in H]).
Qed.
Lemma ghost_eqb_eq : forall a b, ghost_eqb a b = true -> a = b.
Proof.
  intros [] []; unfold ghost_eqb; cbn; intros H; split_andb.
  to_eqs ltac:(nol).
Qed.
Lemma fut_eqb_eq : forall a b, fut_eqb a b = true -> a = b.
Proof.
  intros [] []; unfold fut_eqb; cbn; intros H; split_andb.
  to_eqs ltac:(fun H => first [apply hostf_eqb_eq in H | apply rtf_eqb_eq in H | apply ghost_eqb_eq in H]).
Qed.

Definition memb (c : fut) (l : list fut) : bool := existsb (fut_eqb c) l.
Lemma memb_In : forall c l, memb c l = true -> In c l.
Proof.
  unfold memb; intros c l H. apply existsb_exists in H. destruct H as (x & Hx & He).
  apply fut_eqb_eq in He. now subst.
Qed.

(** ** Hashed sets of states ([PositiveMap] from a hash key to a bucket) *)
Definition bit (b : bool) (k : N) : N := (if b then 1 else 0) + 2 * k.
Definition bits (l : list bool) : N := fold_right bit 0%N l.
Definition end_bits (e : hend) : list bool :=
  [e_live e; e_copying e; e_done e; e_joined e; is_some (e_ready e);
   match e_ready e with Some 0%N => true | _ => false end].
Definition op_bits (o : option opc) : list bool :=
  match o with
  | None => [false; false; false; false; false]
  | Some o => [true; match o_st o with OStart => true | _ => false end;
               match o_st o with ODone => true | _ => false end; is_some (o_code o); o_cl o]
  end.
Definition pkey (c : fut) : positive :=
  N.succ_pos (bits ([f_heap c; f_imp c] ++ end_bits (hw (fh c)) ++ end_bits (hr (fh c))
    ++ [r_dropped (fh c); w_dropped (fh c); peer_read (fh c); is_some (peer_write (fh c)); moved (fh c);
        regw (fr c); regr (fr c); writer (fr c); reader (fr c)]
    ++ op_bits (option_map fst (write (fr c))) ++ op_bits (option_map fst (deferred (fr c))) ++ op_bits (read (fr c))
    ++ [r_gaveup (fg c); wv_user (fg c); wv_dflt (fg c)])).

From Coq Require Import FMapPositive.
Definition hset := PositiveMap.t (list fut).
Definition hmem (c : fut) (m : hset) : bool :=
  match PositiveMap.find (pkey c) m with Some l => memb c l | None => false end.
Definition hadd (c : fut) (m : hset) : hset :=
  PositiveMap.add (pkey c) (c :: match PositiveMap.find (pkey c) m with Some l => l | None => [] end) m.
Definition index (l : list fut) : hset := fold_right hadd (PositiveMap.empty _) l.

Lemma hmem_hadd : forall c x m, hmem c (hadd x m) = true -> c = x \/ hmem c m = true.
Proof.
  unfold hmem, hadd; intros c x m H.
  destruct (Pos.eq_dec (pkey c) (pkey x)) as [E | E].
  - rewrite E in *. rewrite PositiveMap.gss in H. cbn in H.
    destruct (fut_eqb c x) eqn:Q; [left; now apply fut_eqb_eq | right].
    cbn in H. destruct (PositiveMap.find (pkey x) m); [exact H | discriminate].
  - rewrite PositiveMap.gso in H by exact E. right; exact H.
Qed.
Lemma hmem_index : forall c l, hmem c (index l) = true -> In c l.
Proof.
  induction l as [|x r IH]; cbn; intros H.
  - unfold hmem in H. rewrite PositiveMap.gempty in H. discriminate.
  - apply hmem_hadd in H. destruct H as [-> | H]; auto.
Qed.

(** ** Breadth-first search *)
Definition facts : list fact :=
  [FWrite; FWPoll; FWCancel; FWDropOp; FDropWriter; FRead; FRPoll; FRCancel; FRDropOp; FDropReader;
   FTransfer; FPeerRead; FPeerDrop; FPeerWrite; FDeliver EW; FDeliver ER].
Lemma facts_all : forall a, In a facts.
Proof. destruct a as [| | | | | | | | | | | | | | []]; cbn; tauto. Qed.

Definition succs (v2 : bool) (c : fut) : list fut :=
  flat_map (fun s => flat_map (fun a =>
     let '(ok, c', _, _) := cstep v2 s c a in if ok then [c'] else []) facts) [true; false].

Fixpoint add_new (xs : list fut) (seen : hset) (all acc : list fut) : hset * list fut * list fut :=
  match xs with
  | [] => (seen, all, acc)
  | x :: r => if hmem x seen then add_new r seen all acc else add_new r (hadd x seen) (x :: all) (x :: acc)
  end.

Fixpoint bfs (fuel : nat) (v2 : bool) (seen : hset) (all work : list fut) : list fut :=
  match fuel with
  | O => all
  | S k =>
      match work with
      | [] => all
      | c :: w => let '(seen, all, new) := add_new (succs v2 c) seen all [] in bfs k v2 seen all (w ++ new)
      end
  end.

Definition inits : list fut := [fut0 false false; fut0 false true; fut0 true false; fut0 true true].

Definition reach_v2 : list fut := Eval vm_compute in bfs 4000 true (index inits) inits inits.
Definition reach_v1 : list fut := Eval vm_compute in bfs 4000 false (index inits) inits inits.
Definition reach (v2 : bool) : list fut := if v2 then reach_v2 else reach_v1.
Definition idx_v2 : hset := Eval vm_compute in index reach_v2.
Definition idx_v1 : hset := Eval vm_compute in index reach_v1.
Definition ridx (v2 : bool) : hset := if v2 then idx_v2 else idx_v1.
Lemma ridx_index : forall v2, ridx v2 = index (reach v2).
Proof. destruct v2; vm_compute; reflexivity. Qed.
Lemma hmem_reach : forall v2 c, hmem c (ridx v2) = true -> In c (reach v2).
Proof. intros v2 c H. rewrite ridx_index in H. now apply hmem_index. Qed.
Definition nstates : nat * nat := Eval vm_compute in (length reach_v2, length reach_v1).
Print nstates.
