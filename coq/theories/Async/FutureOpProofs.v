(** * Async/FutureOpProofs.v — from the per-future facts (FutureOpChecks.v) to every trace of the system:
    induction over arbitrary action lists with the invariant "every future's core state is in the
    verified reachable set, the log has no trap token, a registered future implies the task's set". *)
From Coq Require Import NArith ZArith List Bool Lia.
From WB Require Import Async.FutureOp Async.FutureOpReach Async.FutureOpChecks.
Import ListNotations.

(** ** Lists *)
Lemma nth_error_list_set : forall {A} (l : list A) i j x,
  nth_error (list_set i x l) j = if Nat.eqb j i then (if Nat.ltb i (length l) then Some x else None) else nth_error l j.
Proof.
  induction l as [|y r IH]; intros i j x.
  - destruct i; cbn; destruct j; cbn; try reflexivity; destruct (Nat.eqb _ _); reflexivity.
  - destruct i, j; cbn; try reflexivity.
    rewrite IH. destruct (Nat.eqb j i); [ | reflexivity].
    change (S i <? S (length r))%nat with (i <? length r)%nat. reflexivity.
Qed.
Lemma length_list_set : forall {A} (l : list A) i x, length (list_set i x l) = length l.
Proof. induction l; destruct i; cbn; auto. Qed.
Lemma Forall_list_set : forall {A} (P : A -> Prop) l i x, Forall P l -> P x -> Forall P (list_set i x l).
Proof.
  induction l as [|y r IH]; intros i x Hl Hx; destruct i; cbn; auto; inversion Hl; subst; constructor; auto.
Qed.
Lemma Forall_nth_error : forall {A} (P : A -> Prop) l, (forall i x, nth_error l i = Some x -> P x) <-> Forall P l.
Proof.
  intros A P l; split.
  - induction l as [|y r IH]; intros H; constructor.
    + apply (H 0%nat); reflexivity.
    + apply IH. intros i x Hi. apply (H (S i)). exact Hi.
  - intros H i x Hi. rewrite Forall_forall in H. apply H. eapply nth_error_In; eauto.
Qed.

(** ** Tokens *)
Lemma bad_tok_tmap : forall {V W} (g : V -> W) (t : tok V), bad_tok (tmap g t) = bad_tok t.
Proof. intros V W g t; destruct t; try reflexivity. destruct o; reflexivity. Qed.

Definition entry_bad (e : entry) : bool := match e with ETok _ t => bad_tok t | EAct _ => false end.
Lemma clean_log_app : forall a b, clean_log (a ++ b) = clean_log a && clean_log b.
Proof.
  intros a b. unfold clean_log. rewrite existsb_app. destruct (existsb _ a), (existsb _ b); reflexivity.
Qed.
Lemma existsb_map' : forall {A B} (f : A -> B) (p : B -> bool) l, existsb p (map f l) = existsb (fun x => p (f x)) l.
Proof. induction l; cbn; congruence. Qed.
Lemma existsb_ext' : forall {A} (p q : A -> bool) l, (forall x, p x = q x) -> existsb p l = existsb q l.
Proof. intros A p q l H; induction l; cbn; congruence. Qed.
Lemma clean_entries : forall i sf toks, clean_toks toks = true -> clean_log (entries i sf toks) = true.
Proof.
  intros i sf toks H. unfold clean_log, entries, clean_toks in *. rewrite existsb_map'.
  erewrite existsb_ext'; [exact H | ]. intros t; cbn. apply bad_tok_tmap.
Qed.

(** ** The system invariant *)
Record SInv (s : st) : Prop := mkSInv {
  si_clean : clean_log (s_log s) = true;
  si_reach : s_ok s = true -> Forall (fun sf => In (core sf) (reach (s_v2 s))) (futs s);
  si_set : s_ok s = true -> Forall (fun sf => needs_set (core sf) = true -> s_set s = true) (futs s) }.

Lemma remember_core : forall sf a ov, core (remember sf a ov) = core sf.
Proof.
  intros sf a ov; unfold remember.
  destruct a; try reflexivity; destruct ov; try reflexivity;
    match goal with |- context [if ?b then _ else _] => destruct b end; reflexivity.
Qed.

Ltac lazy_split H :=
  repeat match type of H with
         | (if ?a then _ else false) = true => let E := fresh "E" in destruct a eqn:E; [ | discriminate H]
         end.

(** What a step on future [i] does, in terms of the core. *)
Lemma step_fact : forall s a i fa ov sf,
  s_ok s = true -> fact_of a = Some (i, fa, ov) -> nth_error (futs s) i = Some sf ->
  let sf1 := remember sf fa ov in
  let '(ok, c, set, toks) := cstep (s_v2 s) (s_set s) (core sf1) fa in
  step s a = mkSt (list_set i (mkSfut c (uval sf1) (pval sf1)) (futs s)) set (s_v2 s) ok
                  (entries i sf1 toks ++ EAct a :: s_log s).
Proof.
  intros s a i fa ov sf Hok Hf Hn. cbv zeta. unfold step. rewrite Hok. cbn [negb].
  destruct a; try discriminate Hf; rewrite Hf, Hn;
    destruct (cstep (s_v2 s) (s_set s) (core (remember sf fa ov)) fa) as [[[ok c] set] toks]; reflexivity.
Qed.

Lemma trans_facts : forall v2 c s a ok c1 s1 toks,
  In c (reach v2) -> cstep v2 s c a = (ok, c1, s1, toks) ->
  clean_toks toks = true /\ (s = true -> s1 = true) /\
  (ok = true -> In c1 (reach v2) /\ ((needs_set c = true -> s = true) -> needs_set c1 = true -> s1 = true)).
Proof.
  intros v2 c s a ok c1 s1 toks Hc E.
  pose proof (trans_ok_reach v2 c s a Hc) as T. unfold trans_ok in T. rewrite E in T.
  destruct (clean_toks toks); [ | discriminate T].
  destruct (implb s s1) eqn:M; [ | discriminate T].
  split; [reflexivity | split].
  - intros ->. destruct s1; [reflexivity | discriminate M].
  - intros ->. destruct (hmem c1 (ridx v2)) eqn:Hm; [ | discriminate T].
    split; [now apply hmem_reach | ].
    intros Hadm Hn. destruct (needs_set c) eqn:Q.
    + rewrite (Hadm eq_refl) in *. cbn in T. rewrite Hn in T. cbn in T.
      destruct s1; [reflexivity | discriminate T].
    + cbn in T. rewrite Hn in T. cbn in T. destruct s1; [reflexivity | discriminate T].
Qed.

Lemma step_v2 : forall s a, s_v2 (step s a) = s_v2 s.
Proof.
  intros s a. unfold step. destruct (negb (s_ok s)); [reflexivity | ].
  destruct a; cbn; try reflexivity;
    match goal with |- context [nth_error ?l ?i] => destruct (nth_error l i) end; cbn; try reflexivity;
    match goal with |- context [cstep ?a ?b ?c ?d] => destruct (cstep a b c d) as [[[? ?] ?] ?] end; reflexivity.
Qed.

Lemma step_inv : forall s a, SInv s -> SInv (step s a).
Proof.
  intros s a [HC HR HS].
  destruct (s_ok s) eqn:Hok; [ | unfold step; rewrite Hok; cbn; constructor; rewrite ?Hok; auto; discriminate].
  specialize (HR eq_refl). specialize (HS eq_refl).
  destruct (fact_of a) as [[[i fa] ov] | ] eqn:Hf.
  - destruct (nth_error (futs s) i) as [sf | ] eqn:Hn.
    + pose proof (step_fact s a i fa ov sf Hok Hf Hn) as Hs. cbv zeta in Hs.
      assert (Hc : In (core (remember sf fa ov)) (reach (s_v2 s))).
      { rewrite remember_core. rewrite Forall_forall in HR. apply HR. eapply nth_error_In; eauto. }
      assert (Hadm : needs_set (core (remember sf fa ov)) = true -> s_set s = true).
      { rewrite remember_core. rewrite Forall_forall in HS. intros Q.
        apply (HS sf); [eapply nth_error_In; eauto | exact Q]. }
      destruct (cstep (s_v2 s) (s_set s) (core (remember sf fa ov)) fa) as [[[ok c] set] toks] eqn:E.
      destruct (trans_facts _ _ _ _ _ _ _ _ Hc E) as (Hcl & Hmono & Hok').
      rewrite Hs.
      constructor; cbn [futs s_v2 s_log s_set s_ok].
      * rewrite clean_log_app. rewrite clean_entries by assumption. cbn. exact HC.
      * intros ->. destruct (Hok' eq_refl) as [Hin _]. apply Forall_list_set; [exact HR | ]. exact Hin.
      * intros ->. destruct (Hok' eq_refl) as [_ Hns]. apply Forall_list_set.
        -- eapply Forall_impl; [ | exact HS]. cbn. intros x Hx Q. auto.
        -- cbn. intros Q. apply Hns; assumption.
    + unfold step. rewrite Hok. cbn [negb]. destruct a; try discriminate Hf; rewrite Hf, Hn;
        constructor; cbn; auto.
  - destruct a; try discriminate Hf; unfold step; rewrite Hok; cbn [negb].
    all: constructor; cbn [futs s_v2 s_log s_set s_ok]; try exact HC; intros _.
    all: apply Forall_app; split; try assumption; constructor; [ | constructor]; cbn.
    all: try apply inits_ok.
    all: intros Q; vm_compute in Q; discriminate Q.
Qed.

Lemma exec_app : forall v2 a b, exec v2 (a ++ b) = fold_left step b (exec v2 a).
Proof. intros; unfold exec; apply fold_left_app. Qed.

Lemma fold_inv : forall tr s, SInv s -> SInv (fold_left step tr s).
Proof. induction tr; cbn; intros; auto using step_inv. Qed.

Lemma fold_v2 : forall tr s, s_v2 (fold_left step tr s) = s_v2 s.
Proof. induction tr; cbn; intros; auto. rewrite IHtr. apply step_v2. Qed.

Lemma init_inv : forall v2, SInv (init v2).
Proof. intros; constructor; cbn; auto. Qed.

Theorem exec_inv : forall v2 tr, SInv (exec v2 tr).
Proof. intros; apply fold_inv, init_inv. Qed.

Lemma exec_v2 : forall v2 tr, s_v2 (exec v2 tr) = v2.
Proof. intros; unfold exec; rewrite fold_v2; reflexivity. Qed.

(** ** Per-state facts of every trace *)
Theorem exec_state_ok : forall v2 tr sf,
  s_ok (exec v2 tr) = true -> In sf (futs (exec v2 tr)) -> state_ok (core sf) = true.
Proof.
  intros v2 tr sf Hok Hin. destruct (exec_inv v2 tr) as [_ HR _]. specialize (HR Hok).
  rewrite exec_v2 in HR. rewrite Forall_forall in HR. eapply state_ok_In; eauto.
Qed.

Theorem exec_reach : forall v2 tr sf,
  s_ok (exec v2 tr) = true -> In sf (futs (exec v2 tr)) -> In (core sf) (reach v2).
Proof.
  intros v2 tr sf Hok Hin. destruct (exec_inv v2 tr) as [_ HR _]. specialize (HR Hok).
  rewrite exec_v2 in HR. rewrite Forall_forall in HR. auto.
Qed.

(** ** Cancel *)
Theorem exec_cancel : forall v2 tr i sf,
  s_ok (exec v2 tr) = true -> nth_error (futs (exec v2 tr)) i = Some sf ->
  forall s,
  let '(ok, c1, _, toks) := cstep v2 s (core sf) FWCancel in
  wcancel_spec (core sf) toks = true /\ (ok = true -> wcancel_writer_back (core sf) c1 toks = true).
Proof.
  intros v2 tr i sf Hok Hn s.
  assert (Hc : In (core sf) (reach v2)) by (eapply exec_reach; eauto; eapply nth_error_In; eauto).
  pose proof (trans_ok_reach v2 _ s FWCancel Hc) as T. unfold trans_ok in T.
  destruct (cstep v2 s (core sf) FWCancel) as [[[ok c1] s1] toks].
  destruct (clean_toks toks); [ | discriminate T]. destruct (implb s s1); [ | discriminate T].
  destruct ok.
  - destruct (hmem c1 (ridx v2) &&& (if implb (needs_set (core sf)) s then implb (needs_set c1) s1 else true)); [ | discriminate T].
    destruct (wcancel_spec (core sf) toks); [ | discriminate T]. split; auto.
  - destruct (wcancel_spec (core sf) toks); [ | discriminate T]. split; [reflexivity | discriminate].
Qed.

Theorem exec_rcancel : forall v2 tr i sf,
  s_ok (exec v2 tr) = true -> nth_error (futs (exec v2 tr)) i = Some sf ->
  forall s,
  let '(_, c1, _, toks) := cstep v2 s (core sf) FRCancel in rcancel_spec (core sf) c1 toks = true.
Proof.
  intros v2 tr i sf Hok Hn s.
  assert (Hc : In (core sf) (reach v2)) by (eapply exec_reach; eauto; eapply nth_error_In; eauto).
  pose proof (trans_ok_reach v2 _ s FRCancel Hc) as T. unfold trans_ok in T.
  destruct (cstep v2 s (core sf) FRCancel) as [[[ok c1] s1] toks].
  destruct (clean_toks toks); [ | discriminate T]. destruct (implb s s1); [ | discriminate T].
  destruct ok.
  - destruct (hmem c1 (ridx v2) &&& (if implb (needs_set (core sf)) s then implb (needs_set c1) s1 else true)); [ | discriminate T].
    exact T.
  - exact T.
Qed.

(** ** The clean-up suffix *)
Definition valueless (fa : fact) : bool := match fa with FWrite | FPeerWrite => false | _ => true end.
Definition mk_act (i : nat) (fa : fact) : act :=
  match fa with
  | FWrite => AWrite i 0 | FWPoll => AWPoll i | FWCancel => AWCancel i | FWDropOp => AWDropOp i
  | FDropWriter => ADropWriter i | FRead => ARead i | FRPoll => ARPoll i | FRCancel => ARCancel i
  | FRDropOp => ARDropOp i | FDropReader => ADropReader i | FTransfer => ATransfer i
  | FPeerRead => APeerRead i | FPeerDrop => APeerDrop i | FPeerWrite => APeerWrite i 0
  | FDeliver e => ADeliver i e
  end.
Lemma fact_of_mk : forall i fa, valueless fa = true -> fact_of (mk_act i fa) = Some (i, fa, None).
Proof. intros i fa H; destruct fa; try discriminate H; reflexivity. Qed.
Lemma remember_none : forall sf fa, remember sf fa None = sf.
Proof. intros sf fa; destruct fa; reflexivity. Qed.

Lemma map_flat : forall {A B} (f : A -> B) l, map f l = flat_map (fun x => [f x]) l.
Proof. induction l; cbn; congruence. Qed.

Definition acts_of (blk : list fact) (k m : nat) : list act := flat_map (fun i => map (mk_act i) blk) (seq k m).

Lemma cleanup_eq : forall n,
  cleanup n = acts_of blk1 0 n ++ acts_of blk2 0 n ++ acts_of blk3 0 n ++ acts_of blk4 0 n ++ acts_of blk3 0 n.
Proof. intros n. unfold cleanup, acts_of. rewrite !map_flat. reflexivity. Qed.

Lemma list_set_twice : forall {A} (l : list A) i x y, list_set i x (list_set i y l) = list_set i x l.
Proof. induction l; destruct i; cbn; intros; try reflexivity. f_equal; auto. Qed.
Lemma list_set_same : forall {A} (l : list A) i x, nth_error l i = Some x -> list_set i x l = l.
Proof. induction l; destruct i; cbn; intros x H; try discriminate; try (injection H as ->; reflexivity). f_equal; auto. Qed.
Lemma nth_error_lt : forall {A} (l : list A) i x, nth_error l i = Some x -> (i <? length l)%nat = true.
Proof. intros A l i x H. apply Nat.ltb_lt. apply nth_error_Some. congruence. Qed.

Lemma run_block_sys : forall blk s i sf,
  forallb valueless blk = true -> s_ok s = true -> nth_error (futs s) i = Some sf ->
  forall c2 s2 cl, run_block (s_v2 s) (s_set s) (core sf) blk = Some (c2, s2, cl) ->
  let s' := fold_left step (map (mk_act i) blk) s in
  s_ok s' = true /\ futs s' = list_set i (mkSfut c2 (uval sf) (pval sf)) (futs s) /\ s_set s' = s2 /\ s_v2 s' = s_v2 s.
Proof.
  induction blk as [|fa r IH]; intros s i sf Hv Hok Hn c2 s2 cl Hr; cbn in *.
  - injection Hr as <- <- <-. repeat split; auto. symmetry. apply list_set_same. destruct sf; exact Hn.
  - apply andb_prop in Hv. destruct Hv as [Hv1 Hv2].
    pose proof (step_fact s (mk_act i fa) i fa None sf Hok (fact_of_mk i fa Hv1) Hn) as Hs. cbv zeta in Hs.
    rewrite remember_none in Hs.
    destruct (cstep (s_v2 s) (s_set s) (core sf) fa) as [[[ok c1] s1] toks].
    destruct ok; [ | discriminate Hr].
    destruct (run_block (s_v2 s) s1 c1 r) as [[[c2' s2'] cl'] | ] eqn:Hr2; [ | discriminate Hr].
    injection Hr as <- <- <-.
    rewrite Hs.
    set (s1st := mkSt _ _ _ _ _).
    assert (Hn1 : nth_error (futs s1st) i = Some (mkSfut c1 (uval sf) (pval sf))).
    { unfold s1st; cbn. rewrite nth_error_list_set, Nat.eqb_refl, (nth_error_lt _ _ _ Hn). reflexivity. }
    specialize (IH s1st i (mkSfut c1 (uval sf) (pval sf)) Hv2 eq_refl Hn1 c2' s2' cl').
    cbn [s_v2 s_set core s1st] in IH. specialize (IH Hr2). cbv zeta in IH.
    destruct IH as (A & B & C & D). repeat split; auto.
    rewrite B. unfold s1st; cbn. apply list_set_twice.
Qed.

Definition PhaseInv (v2 : bool) (R R' : list fut) (k : nat) (s : st) : Prop :=
  s_ok s = true /\ s_v2 s = v2 /\
  forall j sf, nth_error (futs s) j = Some sf ->
    (needs_set (core sf) = true -> s_set s = true) /\ In (core sf) (if (j <? k)%nat then R' else R).

Lemma phase : forall v2 R R' blk,
  block_ok v2 R (index R') blk = true -> forallb valueless blk = true ->
  forall m k s, PhaseInv v2 R R' k s -> (k + m = length (futs s))%nat ->
  let s' := fold_left step (acts_of blk k m) s in
  PhaseInv v2 R R' (k + m) s' /\ length (futs s') = length (futs s).
Proof.
  intros v2 R R' blk Hb Hv. induction m as [|m IH]; intros k s HP Hlen; cbn.
  - rewrite Nat.add_0_r. auto.
  - unfold acts_of in *. cbn [seq flat_map]. rewrite fold_left_app.
    destruct HP as (Hok & Hv2 & HF).
    destruct (nth_error (futs s) k) as [sf | ] eqn:Hn;
      [ | apply nth_error_None in Hn; lia].
    destruct (HF k sf Hn) as [Hadm HinR]. rewrite Nat.ltb_irrefl in HinR.
    unfold block_ok in Hb. rewrite forallb_forall in Hb. specialize (Hb _ HinR).
    rewrite forallb_forall in Hb.
    assert (Hs : In (s_set s) [true; false]) by (destruct (s_set s); cbn; tauto).
    specialize (Hb _ Hs).
    assert (Hi : implb (needs_set (core sf)) (s_set s) = true).
    { destruct (needs_set (core sf)); [rewrite Hadm by reflexivity | ]; reflexivity. }
    rewrite Hi in Hb. rewrite <- Hv2 in Hb.
    destruct (run_block (s_v2 s) (s_set s) (core sf) blk) as [[[c2 s2] cl] | ] eqn:Hr; [ | discriminate Hb].
    destruct cl; [ | discriminate Hb]. destruct (hmem c2 (index R')) eqn:Hm; [ | discriminate Hb].
    destruct (implb (s_set s) s2) eqn:Hmono; [ | discriminate Hb].
    pose proof (run_block_sys blk s k sf Hv Hok Hn c2 s2 true Hr) as Q. cbv zeta in Q.
    destruct Q as (A & B & C & D).
    set (s1 := fold_left step (map (mk_act k) blk) s) in *.
    assert (HP1 : PhaseInv v2 R R' (S k) s1).
    { split; [exact A | split; [congruence | ]].
      intros j sf' Hj. rewrite B, nth_error_list_set in Hj.
      destruct (Nat.eqb j k) eqn:Ejk.
      - apply Nat.eqb_eq in Ejk. subst j. rewrite (nth_error_lt _ _ _ Hn) in Hj. injection Hj as <-. cbn [core].
        split.
        + intros Q. rewrite C. rewrite Q in Hb. cbn in Hb. destruct s2; [reflexivity | discriminate Hb].
        + assert ((k <? S k)%nat = true) as -> by (apply Nat.ltb_lt; lia). now apply hmem_index.
      - apply Nat.eqb_neq in Ejk. destruct (HF j sf' Hj) as [X Y]. split.
        + intros Q. rewrite C. specialize (X Q). rewrite X in Hmono. destruct s2; [reflexivity | discriminate Hmono].
        + destruct (j <? k)%nat eqn:L1.
          * apply Nat.ltb_lt in L1. assert ((j <? S k)%nat = true) as -> by (apply Nat.ltb_lt; lia). exact Y.
          * apply Nat.ltb_ge in L1. assert ((j <? S k)%nat = false) as -> by (apply Nat.ltb_ge; lia). exact Y. }
    assert (Hl1 : length (futs s1) = length (futs s)) by (rewrite B; apply length_list_set).
    specialize (IH (S k) s1 HP1). rewrite Hl1 in IH. specialize (IH ltac:(lia)).
    cbv zeta in IH. destruct IH as [I1 I2].
    replace (k + S m)%nat with (S k + m)%nat by lia. split; [exact I1 | congruence].
Qed.

Lemma phase_next : forall v2 R R' R'' n s,
  PhaseInv v2 R R' n s -> length (futs s) = n -> PhaseInv v2 R' R'' 0 s.
Proof.
  intros v2 R R' R'' n s (A & B & C) Hl. split; [exact A | split; [exact B | ]].
  intros j sf Hj. destruct (C j sf Hj) as [X Y]. split; [exact X | ].
  assert (j < n)%nat by (rewrite <- Hl; apply nth_error_Some; congruence).
  assert ((j <? n)%nat = true) as E by (now apply Nat.ltb_lt). rewrite E in Y. exact Y.
Qed.

(** A run that has not panicked executed every action: one future per [N]/[I] action. *)
Lemma ok_false_fold : forall tr s, s_ok s = false -> fold_left step tr s = s.
Proof. induction tr; cbn; intros s H; auto. unfold step at 2. rewrite H. cbn. auto. Qed.

Lemma length_step : forall s a, s_ok s = true ->
  length (futs (step s a)) = (length (futs s) + match a with ANew _ | AImp _ => 1 | _ => 0 end)%nat.
Proof.
  intros s a Hok. unfold step. rewrite Hok. cbn [negb].
  destruct a; cbn [fact_of]; try (cbn; rewrite app_length; cbn; lia);
    match goal with |- context [nth_error ?l ?i] => destruct (nth_error l i) end; cbn; try lia;
    match goal with |- context [cstep ?a ?b ?c ?d] => destruct (cstep a b c d) as [[[? ?] ?] ?] end;
    cbn; rewrite length_list_set; lia.
Qed.

Lemma length_fold : forall tr s, s_ok (fold_left step tr s) = true ->
  length (futs (fold_left step tr s)) = (length (futs s) + count_new tr)%nat.
Proof.
  induction tr as [|a tr IH]; intros s H; cbn in *.
  - unfold count_new; cbn; lia.
  - destruct (s_ok s) eqn:Hok.
    + rewrite IH by exact H. rewrite length_step by exact Hok. unfold count_new; cbn.
      destruct a; cbn; lia.
    + assert (step s a = s) as E by (unfold step; rewrite Hok; reflexivity).
      rewrite E in *. rewrite ok_false_fold in H by exact Hok. congruence.
Qed.

Theorem exec_cleanup : forall v2 tr,
  s_ok (exec v2 tr) = true ->
  let s' := exec v2 (tr ++ cleanup (count_new tr)) in
  s_ok s' = true /\ Forall (fun sf => final_ok (core sf) = true) (futs s').
Proof.
  intros v2 tr Hok. cbv zeta. rewrite exec_app, cleanup_eq.
  set (s0 := exec v2 tr) in *. set (n := count_new tr).
  assert (Hlen : length (futs s0) = n).
  { unfold s0, exec in *. rewrite length_fold by exact Hok. cbn. reflexivity. }
  destruct (exec_inv v2 tr) as [_ HR HS]. fold s0 in HR, HS. specialize (HR Hok). specialize (HS Hok).
  assert (P0 : PhaseInv v2 (Rk 0 v2) (Rk 1 v2) 0 s0).
  { split; [exact Hok | split; [apply exec_v2 | ]]. intros j sf Hj. split.
    - rewrite Forall_forall in HS. apply HS. eapply nth_error_In; eauto.
    - cbn. unfold s0 in HR. rewrite exec_v2 in HR. rewrite Forall_forall in HR. apply HR. eapply nth_error_In; eauto. }
  rewrite !fold_left_app.
  pose proof (phase v2 (Rk 0 v2) (Rk 1 v2) blk1 (blocks_ok v2 0 ltac:(lia)) eq_refl n 0 s0 P0 ltac:(lia)) as [Q1 L1]. cbn [Nat.add] in Q1.
  set (s1 := fold_left step (acts_of blk1 0 n) s0) in *.
  apply (phase_next _ _ _ (Rk 2 v2)) in Q1; [ | congruence].
  pose proof (phase v2 (Rk 1 v2) (Rk 2 v2) blk2 (blocks_ok v2 1 ltac:(lia)) eq_refl n 0 s1 Q1 ltac:(lia)) as [Q2 L2]. cbn [Nat.add] in Q2.
  set (s2 := fold_left step (acts_of blk2 0 n) s1) in *.
  apply (phase_next _ _ _ (Rk 3 v2)) in Q2; [ | congruence].
  pose proof (phase v2 (Rk 2 v2) (Rk 3 v2) blk3 (blocks_ok v2 2 ltac:(lia)) eq_refl n 0 s2 Q2 ltac:(lia)) as [Q3 L3]. cbn [Nat.add] in Q3.
  set (s3 := fold_left step (acts_of blk3 0 n) s2) in *.
  apply (phase_next _ _ _ (Rk 4 v2)) in Q3; [ | congruence].
  pose proof (phase v2 (Rk 3 v2) (Rk 4 v2) blk4 (blocks_ok v2 3 ltac:(lia)) eq_refl n 0 s3 Q3 ltac:(lia)) as [Q4 L4]. cbn [Nat.add] in Q4.
  set (s4 := fold_left step (acts_of blk4 0 n) s3) in *.
  apply (phase_next _ _ _ (Rk 5 v2)) in Q4; [ | congruence].
  pose proof (phase v2 (Rk 4 v2) (Rk 5 v2) blk3 (blocks_ok v2 4 ltac:(lia)) eq_refl n 0 s4 Q4 ltac:(lia)) as [Q5 L5]. cbn [Nat.add] in Q5.
  set (s5 := fold_left step (acts_of blk3 0 n) s4) in *.
  destruct Q5 as (A & B & C). split; [exact A | ].
  apply Forall_nth_error. intros j sf Hj. destruct (C j sf Hj) as [_ Y].
  assert (j < n)%nat by (replace n with (length (futs s5)) by congruence; apply nth_error_Some; congruence).
  assert ((j <? n)%nat = true) as E by (now apply Nat.ltb_lt). rewrite E in Y.
  pose proof (final_ok_R5 v2) as F. rewrite forallb_forall in F. apply F. exact Y.
Qed.

(** ** Readable restatements *)
Lemma lazy_and : forall a b : bool, (if a then b else false) = true -> a = true /\ b = true.
Proof. intros [] []; cbn; auto. Qed.

Lemma prefix1_spec : forall l x, prefix1 l x = true -> l = [] \/ l = x.
Proof.
  intros l x H. unfold prefix1 in H. destruct l; [left; reflexivity | right].
  cbn [is_nil] in H. now apply (list_eqb_eq sval_eqb sval_eqb_eq).
Qed.

(** No host trap and no "unreachable" panic token in the log. *)
Theorem no_trap_entry : forall v2 tr f t, ~ In (ETok f (KTrap t)) (s_log (exec v2 tr)).
Proof.
  intros v2 tr f t Hin. destruct (exec_inv v2 tr) as [HC _ _]. unfold clean_log in HC.
  apply negb_true_iff in HC.
  assert (existsb (fun e => match e with ETok _ t => bad_tok t | EAct _ => false end) (s_log (exec v2 tr)) = true).
  { apply existsb_exists. exists (ETok f (KTrap t)). split; [exact Hin | reflexivity]. }
  congruence.
Qed.

Theorem no_bad_panic_entry : forall v2 tr f p,
  In (ETok f (KOut (OPanic p))) (s_log (exec v2 tr)) -> p = PRepoll \/ p = PRecancel.
Proof.
  intros v2 tr f p Hin. destruct (exec_inv v2 tr) as [HC _ _]. unfold clean_log in HC.
  apply negb_true_iff in HC.
  destruct p; auto; exfalso;
    match goal with
    | |- False =>
        assert (existsb (fun e => match e with ETok _ t => bad_tok t | EAct _ => false end) (s_log (exec v2 tr)) = true)
          by (apply existsb_exists; eexists; split; [exact Hin | reflexivity]); congruence
    end.
Qed.

Theorem exec_exactly_once : forall v2 tr sf,
  s_ok (exec v2 tr) = true -> In sf (futs (exec v2 tr)) ->
  let c := core sf in
  let yielded := got (fg c) ++ peer_recv (fh c) in
  (length (xfer (fg c)) <= 1)%nat
  /\ (yielded = [] \/ yielded = xfer (fg c))
  /\ (sent (fg c) = [] \/ sent (fg c) = xfer (fg c))
  /\ (forall v, In v (xfer (fg c)) -> provenance_ok c v = true)
  /\ (write_ready c = true -> xfer (fg c) = []).
Proof.
  intros v2 tr sf Hok Hin. pose proof (exec_state_ok v2 tr sf Hok Hin) as H. unfold state_ok in H.
  cbv zeta in *.
  repeat match type of H with (if _ then _ else false) = true => apply lazy_and in H; destruct H as [H ?] end.
  repeat split.
  - now apply Nat.leb_le.
  - now apply prefix1_spec.
  - now apply prefix1_spec.
  - intros v Hv. match goal with Q : forallb _ _ = true |- _ => rewrite forallb_forall in Q; auto end.
  - intros W. match goal with Q : (if write_ready _ then _ else true) = true |- _ => rewrite W in Q end.
    destruct (xfer (fg (core sf))); [reflexivity | discriminate].
Qed.

Theorem exec_handles : forall v2 tr sf,
  s_ok (exec v2 tr) = true -> In sf (futs (exec v2 tr)) ->
  let c := core sf in
  (n_dropw (fg c) + b2n (e_live (hw (fh c))) = b2n (negb (f_imp c)))%nat
  /\ (n_dropr (fg c) + n_taker (fg c) + b2n (e_live (hr (fh c))) = 1)%nat
  /\ (0 <= g_low (fg c))%Z /\ (0 <= g_area (fg c))%Z /\ (0 <= g_live (fg c))%Z
  /\ (n_default (fg c) <= 1)%nat.
Proof.
  intros v2 tr sf Hok Hin. pose proof (exec_state_ok v2 tr sf Hok Hin) as H. unfold state_ok in H.
  cbv zeta in *.
  repeat match type of H with (if _ then _ else false) = true => apply lazy_and in H; destruct H as [H ?] end.
  repeat split; try (now apply Nat.eqb_eq); try (now apply Z.leb_le); now apply Nat.leb_le.
Qed.
