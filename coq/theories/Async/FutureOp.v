(** * Async/FutureOp.v — model of crates/guest-rust/src/rt/async_support/future_support.rs
    (definitions only; proofs are in FutureOpInv.v / FutureOpProofs.v, property theorems in Props/C20.v).

    What is transcribed, from the code as it IS:
    - [FutureWriter::{write, Drop}] (the default-value closure, [should_write_default_value] is [true]
      in every [FutureWriter] the code ever constructs, so [Drop] always takes the [write_and_forget]
      branch), [FutureWrite::{poll, cancel, Drop}], [RawFutureWriter::{write_and_forget, Drop}] with the
      self-waking [DeferredWrite], [FutureWriteOp] / [FutureReadOp] ([start], [in_progress_update],
      [in_progress_cancel], [start_cancelled], [result_into_cancel]), [RawFutureReader::{into_future,
      take_handle, Drop}], [RawFutureRead::{poll, cancel}];
    - the [WaitableOperation] contract these plug into (waitable.rs: [poll_complete],
      [poll_complete_with_code], [register_waker], [unregister_waker], [cancel], [Drop], [CabiTask]) for
      ONE task whose C-ABI version (v1 / v2) is a parameter;
    - the task side as rtmock's [MockTask] implements it (registration map, lazily created waitable set,
      [join] on register, [join 0] on unregister / deliver) — the same thing [SharedTaskState] does;
    - the host future, per future: two guest ends (live / copying / done / joined / pending event /
      the memory the host was handed), reader or writer possibly owned by the scripted peer, the
      Component Model's traps (logged, not raised, exactly like rtmock: in particular dropping a
      writable end that never wrote while the readable end is alive).  This is the future part of
      [harness/crates/rtmock/src/host.rs] with handles symbolised as (future index, end); [Async/Host.v]
      is the numeric-handle twin of the same file — it is not used here because C20 is independent of
      handle numbering (the driver symbolises handles before printing) and a per-future state makes the
      unbounded proofs tractable.  Default answers only: the host's freedom (rendezvous order, when the
      reader is dropped, whether a cancel races a completion) is exercised by the peer / delivery
      actions of the trace, so the host stays self-consistent.

    Every payload value is moved, never inspected, so the per-future core ([fut], [cstep]) carries
    payloads SYMBOLICALLY ([sval]: the value of the latest accepted user write on this future, the
    default closure's value, the value the peer wrote, or uninitialised memory); the system wrapper
    ([sfut], [step]) remembers the concrete numbers and resolves the symbols when it appends an action's
    tokens to the log ([resolve]).  That makes the per-future state space finite, which is what the
    proofs exploit (verified reachability computation, FutureOpReach.v); [C20_user_value_stable]
    (no user write is accepted once a value has been moved) is what justifies naming "the user's value"
    by a single symbol.  The ledger (ghost fields, updated exactly where the corresponding token is
    emitted) counts lowered buffers, [Cleanup] areas and live Rust values as [Z] so that a double free
    would go negative instead of being absorbed. *)
From Coq Require Import NArith ZArith List Bool.
Import ListNotations.
Local Open Scope N_scope.

(** ** Codes *)
Definition BLOCKED : N := 4294967295.
Definition COMPLETED : N := 0.
Definition DROPPED : N := 1.
Definition CANCELLED : N := 2.
Definition EV_FUTURE_READ : N := 4.
Definition EV_FUTURE_WRITE : N := 5.
Definition DEFAULT_VAL : N := 777.

(** Symbolic payload values. *)
Inductive sval := VUser | VDefault | VPeer | VJunk.
Definition resolve (uval pval : N) (v : sval) : N :=
  match v with VUser => uval | VDefault => DEFAULT_VAL | VPeer => pval | VJunk => 0 end.

Inductive endk := EW | ER.

(** ** Actions of a trace (rtmock driver [futures]: same words) *)
Inductive act :=
| ANew (heap : bool)                 (* N:u / N:h   future_new *)
| AImp (heap : bool)                 (* I:u / I:h   imported future: the peer keeps the writable end *)
| AWrite (f : nat) (v : N)           (* W:F:V       FutureWriter::write (not polled yet) *)
| AWPoll (f : nat)                   (* Wp:F *)
| AWCancel (f : nat)                 (* Wc:F *)
| AWDropOp (f : nat)                 (* Wd:F        drop the FutureWrite *)
| ADropWriter (f : nat)              (* Dw:F        drop the FutureWriter *)
| ARead (f : nat)                    (* R:F         into_future *)
| ARPoll (f : nat)                   (* Rp:F *)
| ARCancel (f : nat)                 (* Rc:F *)
| ARDropOp (f : nat)                 (* Rd:F *)
| ADropReader (f : nat)              (* Dr:F *)
| ATransfer (f : nat)                (* T:F         readable end goes to the peer (take_handle) *)
| APeerRead (f : nat)                (* Pr:F *)
| APeerDrop (f : nat)                (* Pd:F        peer drops its readable end *)
| APeerWrite (f : nat) (v : N)       (* Pw:F:V *)
| ADeliver (f : nat) (e : endk).     (* E:Fw / E:Fr the task is handed the pending event of that end *)

(** The same, per future and without the payload (what the core sees). *)
Inductive fact :=
| FWrite | FWPoll | FWCancel | FWDropOp | FDropWriter
| FRead | FRPoll | FRCancel | FRDropOp | FDropReader
| FTransfer | FPeerRead | FPeerDrop | FPeerWrite | FDeliver (e : endk).

(** ** Observable tokens *)
Inductive trapk :=
| TrWriteBad | TrWriteBusy | TrWriteDone
| TrReadBad | TrReadBusy | TrReadDone
| TrCancelBad | TrCancelNotCopying | TrCancelJoined
| TrDropBad | TrDropCopying | TrDropUnwritten
| TrJoinBad
| TrStaleCallback.     (* not a CM trap: the task would call a completion callback of an operation
                          that no longer exists (a dangling pointer in the real runtime) *)

Inductive panick :=
| PRepoll              (* "cannot re-poll after operation completes"   — documented API misuse *)
| PRecancel            (* "cannot cancel operation after completing it" — documented API misuse *)
| PUnexpectedCode      (* unreachable!/panic!("unexpected code …")      — must be unreachable *)
| PPollAfterCancel     (* "cannot poll after cancelling"                — must be unreachable *)
| PCancelPending.      (* unreachable!() in WaitableOperation::cancel   — must be unreachable *)

Section Tok.
  Variable V : Type.
  Inductive outcome :=
  | OOk | OSkip | OPending
  | OWOk | OWErr (v : V)
  | OAlreadySent | ODropped (v : V) | OCancelled (v : V)
  | OVal (v : V) | OROk (v : V) | ORErr
  | OPanic (p : panick).

  (** Tokens of one action on one future (the future's index is added by the system wrapper). *)
  Inductive tok :=
  | KOut (o : outcome)
  | KFnew | KTake (e : endk)
  | KWrite (c : N) | KRead (c : N)
  | KCancel (e : endk) (c : N) | KDropEnd (e : endk)
  | KJoin (e : endk) (s : bool) | KWsnew | KWspoll (e : endk) (ev c : N)
  | KTreg (e : endk) | KTunreg (e : endk) | KTclone | KTdrop
  | KTdeliver (e : endk) (c : N)
  | KLower (v : V) | KLift (v : V) | KRelift (v : V) | KDealloc (v : V) | KVdrop (v : V)
  | KDefault | KAreaP | KAreaM | KWake
  | KTrap (t : trapk).
End Tok.
Arguments OOk {V}. Arguments OSkip {V}. Arguments OPending {V}. Arguments OWOk {V}. Arguments OWErr {V} v.
Arguments OAlreadySent {V}. Arguments ODropped {V} v. Arguments OCancelled {V} v. Arguments OVal {V} v.
Arguments OROk {V} v. Arguments ORErr {V}. Arguments OPanic {V} p.
Arguments KOut {V} o. Arguments KFnew {V}. Arguments KTake {V} e. Arguments KWrite {V} c. Arguments KRead {V} c.
Arguments KCancel {V} e c. Arguments KDropEnd {V} e. Arguments KJoin {V} e s. Arguments KWsnew {V}.
Arguments KWspoll {V} e ev c. Arguments KTreg {V} e. Arguments KTunreg {V} e. Arguments KTclone {V}.
Arguments KTdrop {V}. Arguments KTdeliver {V} e c. Arguments KLower {V} v. Arguments KLift {V} v.
Arguments KRelift {V} v. Arguments KDealloc {V} v. Arguments KVdrop {V} v. Arguments KDefault {V}.
Arguments KAreaP {V}. Arguments KAreaM {V}. Arguments KWake {V}. Arguments KTrap {V} t.

Definition omap {V W} (g : V -> W) (o : outcome V) : outcome W :=
  match o with
  | OOk => OOk | OSkip => OSkip | OPending => OPending | OWOk => OWOk | OWErr v => OWErr (g v)
  | OAlreadySent => OAlreadySent | ODropped v => ODropped (g v) | OCancelled v => OCancelled (g v)
  | OVal v => OVal (g v) | OROk v => OROk (g v) | ORErr => ORErr | OPanic p => OPanic p
  end.
Definition tmap {V W} (g : V -> W) (t : tok V) : tok W :=
  match t with
  | KOut o => KOut (omap g o)
  | KFnew => KFnew | KTake e => KTake e | KWrite c => KWrite c | KRead c => KRead c
  | KCancel e c => KCancel e c | KDropEnd e => KDropEnd e | KJoin e s => KJoin e s | KWsnew => KWsnew
  | KWspoll e ev c => KWspoll e ev c | KTreg e => KTreg e | KTunreg e => KTunreg e | KTclone => KTclone
  | KTdrop => KTdrop | KTdeliver e c => KTdeliver e c
  | KLower v => KLower (g v) | KLift v => KLift (g v) | KRelift v => KRelift (g v)
  | KDealloc v => KDealloc (g v) | KVdrop v => KVdrop (g v)
  | KDefault => KDefault | KAreaP => KAreaP | KAreaM => KAreaM | KWake => KWake | KTrap x => KTrap x
  end.

(** An entry of the system log: the action word, or a token of the action running on future [f]. *)
Inductive entry := EAct (a : act) | ETok (f : nat) (t : tok N).

(** ** State of one future *)
(** One guest end as the host sees it (rtmock [End] + [joined] + [ready]); [e_buf] is the memory the
    host was handed by the outstanding read/write (writer: the lowered value, reader: what the host
    copied in). *)
Record hend := mkEnd {
  e_live : bool; e_copying : bool; e_done : bool; e_joined : bool;
  e_ready : option N; e_buf : sval }.

Record hostf := mkHost {
  hw : hend; hr : hend;
  r_dropped : bool; w_dropped : bool;
  peer_read : bool;               (* the peer has a read pending *)
  peer_write : option sval;       (* the peer has a write pending *)
  peer_recv : list sval;          (* everything the peer has received *)
  moved : bool                    (* rtmock [transferred] > 0 *) }.

Inductive opst := OStart | OInProg | ODone.

(** [WaitableOperation] minus its payload: state, [completion_status.code], [task: Option<CabiTask>]
    (present / [registered]). *)
Record opc := mkOp { o_st : opst; o_code : option N; o_cl : bool; o_treg : bool }.

Record rtf := mkRt {
  regw : bool; regr : bool;            (* the task's registration map *)
  writer : bool;                       (* a FutureWriter is held by the user *)
  write : option (opc * sval);         (* a FutureWrite is held by the user; with its value (Start) / its
                                          lowered buffer (InProgress) *)
  deferred : option (opc * sval);         (* a DeferredWrite is alive (kept by its own waker) *)
  reader : bool;                       (* a FutureReader is held by the user *)
  read : option opc }.                 (* a FutureRead is held by the user *)

(** Ghost ledger. *)
Record ghost := mkGhost {
  g_low : Z;                (* buffers holding a lowered value whose lists this side owns *)
  g_area : Z;               (* live Cleanup allocations *)
  g_live : Z;               (* live Rust payload values (counted for both payload kinds) *)
  n_dropw : nat; n_dropr : nat;   (* future.drop-writable / drop-readable calls *)
  n_taker : nat;            (* times the readable end was handed to the peer (take_handle) *)
  got : list sval;          (* values the guest's readable end lifted out of the future *)
  sent : list sval;         (* values whose write was reported successful to the writing side *)
  wv_user : bool;           (* a user value / a default value has been handed to a write on the guest's *)
  wv_dflt : bool;           (*   writable end *)
  xfer : list sval;         (* values the host moved writer -> reader (rendezvous) *)
  n_default : nat;
  r_gaveup : bool }.        (* the readable end was dropped (by the guest or by the peer) before any value had been moved *)

Record fut := mkFut { f_heap : bool; f_imp : bool; fh : hostf; fr : rtf; fg : ghost }.

(** Machine state while one action runs on a future ([mlog]: this action's tokens, newest first). *)
Record ms := mkMs { mv2 : bool; mf : fut; mset : bool; mlog : list (tok sval) }.

(** *** setters *)
Definition set_live b e := mkEnd b (e_copying e) (e_done e) (e_joined e) (e_ready e) (e_buf e).
Definition set_copying b e := mkEnd (e_live e) b (e_done e) (e_joined e) (e_ready e) (e_buf e).
Definition set_done b e := mkEnd (e_live e) (e_copying e) b (e_joined e) (e_ready e) (e_buf e).
Definition set_joined b e := mkEnd (e_live e) (e_copying e) (e_done e) b (e_ready e) (e_buf e).
Definition set_ready r e := mkEnd (e_live e) (e_copying e) (e_done e) (e_joined e) r (e_buf e).
Definition set_buf v e := mkEnd (e_live e) (e_copying e) (e_done e) (e_joined e) (e_ready e) v.
Definition end_idle : hend := mkEnd true false false false None VJunk.
Definition end_gone : hend := mkEnd false false false false None VJunk.

Definition set_hw x h := mkHost x (hr h) (r_dropped h) (w_dropped h) (peer_read h) (peer_write h) (peer_recv h) (moved h).
Definition set_hr x h := mkHost (hw h) x (r_dropped h) (w_dropped h) (peer_read h) (peer_write h) (peer_recv h) (moved h).
Definition set_r_dropped x h := mkHost (hw h) (hr h) x (w_dropped h) (peer_read h) (peer_write h) (peer_recv h) (moved h).
Definition set_w_dropped x h := mkHost (hw h) (hr h) (r_dropped h) x (peer_read h) (peer_write h) (peer_recv h) (moved h).
Definition set_peer_read x h := mkHost (hw h) (hr h) (r_dropped h) (w_dropped h) x (peer_write h) (peer_recv h) (moved h).
Definition set_peer_write x h := mkHost (hw h) (hr h) (r_dropped h) (w_dropped h) (peer_read h) x (peer_recv h) (moved h).
Definition set_peer_recv x h := mkHost (hw h) (hr h) (r_dropped h) (w_dropped h) (peer_read h) (peer_write h) x (moved h).
Definition set_moved x h := mkHost (hw h) (hr h) (r_dropped h) (w_dropped h) (peer_read h) (peer_write h) (peer_recv h) x.

Definition hend_of (e : endk) (h : hostf) : hend := match e with EW => hw h | ER => hr h end.
Definition set_hend (e : endk) (x : hend) (h : hostf) : hostf := match e with EW => set_hw x h | ER => set_hr x h end.
Definition other (e : endk) : endk := match e with EW => ER | ER => EW end.

Definition set_regw x r := mkRt x (regr r) (writer r) (write r) (deferred r) (reader r) (read r).
Definition set_regr x r := mkRt (regw r) x (writer r) (write r) (deferred r) (reader r) (read r).
Definition set_writer x r := mkRt (regw r) (regr r) x (write r) (deferred r) (reader r) (read r).
Definition set_write x r := mkRt (regw r) (regr r) (writer r) x (deferred r) (reader r) (read r).
Definition set_deferred x r := mkRt (regw r) (regr r) (writer r) (write r) x (reader r) (read r).
Definition set_reader x r := mkRt (regw r) (regr r) (writer r) (write r) (deferred r) x (read r).
Definition set_read x r := mkRt (regw r) (regr r) (writer r) (write r) (deferred r) (reader r) x.
Definition reg_of (e : endk) (r : rtf) : bool := match e with EW => regw r | ER => regr r end.
Definition set_reg (e : endk) (x : bool) (r : rtf) : rtf := match e with EW => set_regw x r | ER => set_regr x r end.

Definition set_o_st x o := mkOp x (o_code o) (o_cl o) (o_treg o).
Definition set_o_code x o := mkOp (o_st o) x (o_cl o) (o_treg o).
Definition set_o_cl x o := mkOp (o_st o) (o_code o) x (o_treg o).
Definition set_o_treg x o := mkOp (o_st o) (o_code o) (o_cl o) x.
Definition op_new : opc := mkOp OStart None false false.

Definition add_low d g := mkGhost (g_low g + d) (g_area g) (g_live g) (n_dropw g) (n_dropr g) (n_taker g) (got g) (sent g) (wv_user g) (wv_dflt g) (xfer g) (n_default g) (r_gaveup g).
Definition add_area d g := mkGhost (g_low g) (g_area g + d) (g_live g) (n_dropw g) (n_dropr g) (n_taker g) (got g) (sent g) (wv_user g) (wv_dflt g) (xfer g) (n_default g) (r_gaveup g).
Definition add_live d g := mkGhost (g_low g) (g_area g) (g_live g + d) (n_dropw g) (n_dropr g) (n_taker g) (got g) (sent g) (wv_user g) (wv_dflt g) (xfer g) (n_default g) (r_gaveup g).
Definition inc_dropw g := mkGhost (g_low g) (g_area g) (g_live g) (S (n_dropw g)) (n_dropr g) (n_taker g) (got g) (sent g) (wv_user g) (wv_dflt g) (xfer g) (n_default g) (r_gaveup g).
Definition inc_dropr g := mkGhost (g_low g) (g_area g) (g_live g) (n_dropw g) (S (n_dropr g)) (n_taker g) (got g) (sent g) (wv_user g) (wv_dflt g) (xfer g) (n_default g) (r_gaveup g).
Definition inc_taker g := mkGhost (g_low g) (g_area g) (g_live g) (n_dropw g) (n_dropr g) (S (n_taker g)) (got g) (sent g) (wv_user g) (wv_dflt g) (xfer g) (n_default g) (r_gaveup g).
Definition add_got v g := mkGhost (g_low g) (g_area g) (g_live g) (n_dropw g) (n_dropr g) (n_taker g) (got g ++ [v]) (sent g) (wv_user g) (wv_dflt g) (xfer g) (n_default g) (r_gaveup g).
Definition add_sent v g := mkGhost (g_low g) (g_area g) (g_live g) (n_dropw g) (n_dropr g) (n_taker g) (got g) (sent g ++ [v]) (wv_user g) (wv_dflt g) (xfer g) (n_default g) (r_gaveup g).
Definition set_wv_user g := mkGhost (g_low g) (g_area g) (g_live g) (n_dropw g) (n_dropr g) (n_taker g) (got g) (sent g) (true) (wv_dflt g) (xfer g) (n_default g) (r_gaveup g).
Definition set_wv_dflt g := mkGhost (g_low g) (g_area g) (g_live g) (n_dropw g) (n_dropr g) (n_taker g) (got g) (sent g) (wv_user g) (true) (xfer g) (n_default g) (r_gaveup g).
Definition add_xfer v g := mkGhost (g_low g) (g_area g) (g_live g) (n_dropw g) (n_dropr g) (n_taker g) (got g) (sent g) (wv_user g) (wv_dflt g) (xfer g ++ [v]) (n_default g) (r_gaveup g).
Definition inc_default g := mkGhost (g_low g) (g_area g) (g_live g) (n_dropw g) (n_dropr g) (n_taker g) (got g) (sent g) (wv_user g) (wv_dflt g) (xfer g) (S (n_default g)) (r_gaveup g).
Definition set_gaveup g := mkGhost (g_low g) (g_area g) (g_live g) (n_dropw g) (n_dropr g) (n_taker g) (got g) (sent g) (wv_user g) (wv_dflt g) (xfer g) (n_default g) (true).
Definition ghost0 : ghost := mkGhost 0 0 0 0 0 0 [] [] false false [] 0 false.

Definition on_host (g : hostf -> hostf) (m : ms) : ms :=
  mkMs (mv2 m) (mkFut (f_heap (mf m)) (f_imp (mf m)) (g (fh (mf m))) (fr (mf m)) (fg (mf m))) (mset m) (mlog m).
Definition on_rt (g : rtf -> rtf) (m : ms) : ms :=
  mkMs (mv2 m) (mkFut (f_heap (mf m)) (f_imp (mf m)) (fh (mf m)) (g (fr (mf m))) (fg (mf m))) (mset m) (mlog m).
Definition on_ghost (g : ghost -> ghost) (m : ms) : ms :=
  mkMs (mv2 m) (mkFut (f_heap (mf m)) (f_imp (mf m)) (fh (mf m)) (fr (mf m)) (g (fg (mf m)))) (mset m) (mlog m).
Definition on_end (e : endk) (g : hend -> hend) (m : ms) : ms :=
  on_host (fun h => set_hend e (g (hend_of e h)) h) m.
Definition set_mset (b : bool) (m : ms) : ms := mkMs (mv2 m) (mf m) b (mlog m).
Definition emit (t : tok sval) (m : ms) : ms := mkMs (mv2 m) (mf m) (mset m) (t :: mlog m).
Definition trap_if (b : bool) (t : trapk) (m : ms) : ms := if b then emit (KTrap t) m else m.
Definition mh (m : ms) : hostf := fh (mf m).
Definition mr (m : ms) : rtf := fr (mf m).
Definition mend (e : endk) (m : ms) : hend := hend_of e (mh m).

(** ** The host (future part of rtmock host.rs, default answers) *)
Definition is_some {A} (o : option A) : bool := match o with Some _ => true | None => false end.
Definition is_none {A} (o : option A) : bool := match o with Some _ => false | None => true end.

(** An outstanding guest operation on end [x] that the host has not completed yet. *)
Definition pending_op (x : hend) : bool := e_live x && e_copying x && is_none (e_ready x).

(** After the intrinsic decided on [code]: BLOCKED = the end is now COPYING with buffer [v]. *)
Definition finish_rw (e : endk) (v : sval) (code : N) (m : ms) : ms :=
  if N.eqb code BLOCKED then on_end e (fun x => set_buf v (set_copying true x)) m
  else if N.eqb code COMPLETED then on_end e (set_done true) m
  else m.

(** [future.write(handle, ptr)] with [*ptr = v]. *)
Definition h_write (v : sval) (m : ms) : N * ms :=
  let x := mend EW m in
  if negb (e_live x) then (DROPPED, emit (KTrap TrWriteBad) m)
  else
    let m := trap_if (e_copying x) TrWriteBusy m in
    let m := trap_if (e_done x) TrWriteDone m in
    let h := mh m in
    let '(code, m) :=
      if r_dropped h then (DROPPED, m)
      else if peer_read h then
        (COMPLETED,
         on_ghost (add_xfer v)
           (on_host (fun h => set_moved true (set_peer_read false (set_peer_recv (peer_recv h ++ [v]) h))) m))
      else if pending_op (hr h) then
        (COMPLETED,
         on_ghost (add_xfer v)
           (on_host (set_moved true) (on_end ER (fun y => set_ready (Some COMPLETED) (set_buf v y)) m)))
      else (BLOCKED, m) in
    let m := finish_rw EW v code m in
    (code, emit (KWrite code) m).

(** [future.read(handle, ptr)]; the value lands in the readable end's [e_buf]. *)
Definition h_read (m : ms) : N * ms :=
  let x := mend ER m in
  if negb (e_live x) then (DROPPED, emit (KTrap TrReadBad) m)
  else
    let m := trap_if (e_copying x) TrReadBusy m in
    let m := trap_if (e_done x) TrReadDone m in
    let h := mh m in
    let '(code, m) :=
      match peer_write h with
      | Some v =>
          (COMPLETED,
           on_ghost (add_xfer v)
             (on_host (fun h => set_moved true (set_peer_write None h)) (on_end ER (set_buf v) m)))
      | None =>
          if w_dropped h then (DROPPED, m)
          else if pending_op (hw h) then
            let v := e_buf (hw h) in
            (COMPLETED,
             on_ghost (add_xfer v)
               (on_host (set_moved true)
                  (on_end EW (set_ready (Some COMPLETED)) (on_end ER (set_buf v) m))))
          else (BLOCKED, m)
      end in
    let m := finish_rw ER (e_buf (mend ER m)) code m in
    (code, emit (KRead code) m).

(** The guest is handed the pending event of end [e] (wait/poll or a cancel intrinsic). *)
Definition consume_event (e : endk) (m : ms) : option N * ms :=
  match e_ready (mend e m) with
  | None => (None, m)
  | Some c =>
      let m := on_end e (set_ready None) m in
      let m := if N.eqb c BLOCKED then m
               else on_end e (fun x => set_done (e_done x || N.eqb c COMPLETED) (set_copying false x)) m in
      (Some c, m)
  end.

(** [future.cancel-read / cancel-write] (synchronous). *)
Definition h_cancel (e : endk) (m : ms) : N * ms :=
  let x := mend e m in
  if negb (e_live x) then (CANCELLED, emit (KTrap TrCancelBad) m)
  else
    let m := trap_if (negb (e_copying x)) TrCancelNotCopying m in
    let m := trap_if (e_joined x) TrCancelJoined m in
    let '(pending, m) := consume_event e m in
    let code := match pending with Some c => c | None => CANCELLED end in
    let m := on_end e (fun x => set_done (e_done x || N.eqb code COMPLETED) (set_copying false x)) m in
    (code, emit (KCancel e code) m).

(** [future.drop-readable / drop-writable]. *)
Definition h_drop (e : endk) (m : ms) : ms :=
  let x := mend e m in
  if negb (e_live x) then emit (KTrap TrDropBad) m
  else
    let m := trap_if (e_copying x) TrDropCopying m in
    let m := trap_if (match e with EW => negb (e_done x) && negb (r_dropped (mh m)) | ER => false end) TrDropUnwritten m in
    let m := emit (KDropEnd e) m in
    let m := on_ghost (match e with EW => inc_dropw | ER => inc_dropr end) m in
    let m := match e with ER => if moved (mh m) then m else on_ghost set_gaveup m | EW => m end in
    let m := on_end e (fun _ => end_gone) m in
    let m := on_host (match e with EW => set_w_dropped true | ER => set_r_dropped true end) m in
    if pending_op (mend (other e) m) then on_end (other e) (set_ready (Some DROPPED)) m else m.

(** [waitable.join(w, set)] ([s = false]: leave). *)
Definition h_join (e : endk) (s : bool) (m : ms) : ms :=
  let m := emit (KJoin e s) m in
  if negb (e_live (mend e m)) then emit (KTrap TrJoinBad) m
  else on_end e (set_joined s) m.

(** The peer takes a guest end (the handle leaves the guest's table). *)
Definition h_peer_take (e : endk) (m : ms) : ms :=
  on_ghost (match e with ER => inc_taker | EW => fun g => g end) (on_end e (fun _ => end_gone) (emit (KTake e) m)).

Definition h_peer_read (m : ms) : ms :=
  let h := mh m in
  if pending_op (hw h) then
    let v := e_buf (hw h) in
    on_ghost (add_xfer v)
      (on_host (fun h => set_moved true (set_peer_recv (peer_recv h ++ [v]) h))
         (on_end EW (set_ready (Some COMPLETED)) m))
  else on_host (set_peer_read true) m.

Definition h_peer_write (v : sval) (m : ms) : ms :=
  let h := mh m in
  if pending_op (hr h) then
    on_ghost (add_xfer v)
      (on_host (set_moved true) (on_end ER (fun y => set_ready (Some COMPLETED) (set_buf v y)) m))
  else on_host (set_peer_write (Some v)) m.

Definition h_peer_drop_reader (m : ms) : ms :=
  let m := if moved (mh m) then m else on_ghost set_gaveup m in
  let m := on_host (fun h => set_peer_read false (set_r_dropped true h)) m in
  if pending_op (hw (mh m)) then on_end EW (set_ready (Some DROPPED)) m else m.

(** ** The task (MockTask = SharedTaskState): registration map + lazily created waitable set *)
Definition t_register (e : endk) (m : ms) : ms :=
  let m := emit (KTreg e) m in
  let m := if mset m then m else set_mset true (emit KWsnew m) in
  let m := h_join e true m in
  on_rt (set_reg e true) m.

Definition t_unregister (e : endk) (m : ms) : ms :=
  let m := emit (KTunreg e) m in
  let m := h_join e false m in
  on_rt (set_reg e false) m.

(** ** WaitableOperation (waitable.rs) *)
(** [register_waker]: v2 clones the task into the operation the first time. *)
Definition register_waker (e : endk) (o : opc) (m : ms) : opc * ms :=
  let '(o, m) :=
    if mv2 m then
      let '(o, m) := if o_cl o then (o, m) else (set_o_cl true o, emit KTclone m) in
      (set_o_treg true o, m)
    else (o, m) in
  (o, t_register e m).

Definition unregister_waker (e : endk) (o : opc) (m : ms) : opc * ms :=
  (if o_cl o then set_o_treg false o else o, t_unregister e m).

(** Fields of a dropped [WaitableOperation]: [CabiTask::drop]. *)
Definition drop_cabi_task (e : endk) (o : opc) (m : ms) : ms :=
  if o_cl o then
    let m := if o_treg o then t_unregister e m else m in
    emit KTdrop m
  else m.

(** *** FutureWriteOp *)
Inductive wres := WWritten | WDropped (v : sval) | WCancelled (v : sval).

Definition do_vdrop (v : sval) (m : ms) : ms :=
  let m := on_ghost (add_live (-1)) m in
  if f_heap (mf m) then emit (KVdrop v) m else m.
Definition do_lower (v : sval) (m : ms) : ms := emit (KLower v) (on_ghost (fun g => add_low 1 (add_live (-1) g)) m).
Definition do_relift (v : sval) (m : ms) : ms := emit (KRelift v) (on_ghost (fun g => add_low (-1) (add_live 1 g)) m).
Definition do_dealloc (v : sval) (m : ms) : ms := emit (KDealloc v) (on_ghost (add_low (-1)) m).
Definition do_lift (v : sval) (m : ms) : ms := emit (KLift v) (on_ghost (add_live 1) m).
Definition do_area_new (m : ms) : ms := emit KAreaP (on_ghost (add_area 1) m).
Definition do_area_free (m : ms) : ms := emit KAreaM (on_ghost (add_area (-1)) m).
Definition do_panic (p : panick) (m : ms) : ms := emit (KOut (OPanic p)) m.

(** [in_progress_update]: [inl res] = completed, [inr tt] = still in progress, [None] = panic. *)
Definition w_update (v : sval) (code : N) (m : ms) : option (wres + unit) * ms :=
  if N.eqb code BLOCKED then (Some (inr tt), m)
  else if N.eqb code DROPPED then (Some (inl (WDropped v)), do_area_free (do_relift v m))
  else if N.eqb code CANCELLED then (Some (inl (WCancelled v)), do_area_free (do_relift v m))
  else if N.eqb code COMPLETED then (Some (inl WWritten), do_area_free (do_dealloc v m))
  else (None, do_panic PUnexpectedCode m).

Inductive pollr (R : Type) := PReady (r : R) | PPending | PPanic.
Arguments PReady {R} r. Arguments PPending {R}. Arguments PPanic {R}.

(** [poll_complete_with_code(cx, Some(code))] for a write; [cx]: a waker is supplied. *)
Definition w_with_code (cx : bool) (o : opc) (v : sval) (code : N) (m : ms) : pollr wres * opc * ms :=
  let o := if o_cl o then set_o_treg false o else o in
  let '(u, m) := w_update v code m in
  match u with
  | None => (PPanic, set_o_st ODone o, m)
  | Some (inl r) => (PReady r, set_o_st ODone o, m)
  | Some (inr _) =>
      if cx then let '(o, m) := register_waker EW o m in (PPending, o, m)
      else (PPending, o, m)
  end.

(** [poll_complete] of the write operation (o, v). *)
Definition w_poll (o : opc) (v : sval) (m : ms) : pollr wres * opc * ms :=
  match o_st o with
  | OStart =>
      let m := do_area_new m in
      let m := do_lower v m in
      let '(code, m) := h_write v m in
      w_with_code true (set_o_st OInProg o) v code m
  | OInProg =>
      match o_code o with
      | Some c => w_with_code true (set_o_code None o) v c m
      | None => let '(o, m) := register_waker EW o m in (PPending, o, m)
      end
  | ODone => (PPanic, o, do_panic PRepoll m)
  end.

Inductive wcancel := WCAlreadySent | WCDropped (v : sval) | WCCancelled (v : sval).

(** [result_into_cancel]; the [RawFutureWriter] is dropped unless it is handed back. *)
Definition w_into_cancel (v : sval) (r : wres) (m : ms) : wcancel * ms :=
  match r with
  | WWritten => (WCAlreadySent, on_ghost (add_sent v) (h_drop EW m))
  | WDropped v => (WCDropped v, h_drop EW m)
  | WCancelled v => (WCCancelled v, m)
  end.

(** [WaitableOperation::cancel] of the write operation. *)
Definition w_cancel (o : opc) (v : sval) (m : ms) : option wcancel * opc * ms :=
  match o_st o with
  | OStart => (Some (WCCancelled v), set_o_st ODone o, m)
  | ODone => (None, o, do_panic PRecancel m)
  | OInProg =>
      let fin (x : pollr wres * opc * ms) : option (option wcancel * opc * ms) :=
        let '(p, o, m) := x in
        match p with
        | PReady r => let '(c, m) := w_into_cancel v r m in Some (Some c, o, m)
        | PPanic => Some (None, o, m)
        | PPending => None
        end in
      let go_cancel (o : opc) (m : ms) :=
        let '(code, m) := h_cancel EW m in
        match fin (w_with_code false o v code m) with
        | Some x => x
        | None => (None, o, do_panic PCancelPending m)
        end in
      match o_code o with
      | Some c =>
          match fin (w_with_code false (set_o_code None o) v c m) with
          | Some x => x
          | None => go_cancel (set_o_code None o) m
          end
      | None => let '(o, m) := unregister_waker EW o m in go_cancel o m
      end
  end.

(** *** FutureWriter::drop — default value, write_and_forget, DeferredWrite::wake *)
(** One [DeferredWrite::wake]: poll the inner write with the Arc itself as the waker. *)
Definition deferred_wake (o : opc) (v : sval) (m : ms) : ms :=
  let '(p, o, m) := w_poll o v m in
  match p with
  | PPending => on_rt (set_deferred (Some (o, v))) m
  | PPanic => on_rt (set_deferred None) m
  | PReady r =>
      (* RawFutureWrite::poll's closure drops the RawFutureWriter; the result lives to the end of wake *)
      let m := h_drop EW m in
      let m := match r with
               | WWritten => on_ghost (add_sent v) m
               | WDropped x | WCancelled x => do_vdrop x m
               end in
      on_rt (set_deferred None) (drop_cabi_task EW o m)
  end.

Definition writer_drop (m : ms) : ms :=
  let m := emit KDefault (on_ghost (fun g => inc_default (add_live 1 (set_wv_dflt g))) m) in
  deferred_wake op_new VDefault m.

(** *** FutureReadOp *)
Inductive rres := RValue (v : sval) | RCancelled.

Definition r_update (code : N) (m : ms) : option (rres + unit) * ms :=
  if N.eqb code BLOCKED then (Some (inr tt), m)
  else if N.eqb code CANCELLED then (Some (inl RCancelled), do_area_free m)
  else if N.eqb code COMPLETED then
    let v := e_buf (mend ER m) in
    (Some (inl (RValue v)), do_area_free (do_lift v m))
  else (None, do_panic PUnexpectedCode m).

Definition r_with_code (cx : bool) (o : opc) (code : N) (m : ms) : pollr rres * opc * ms :=
  let o := if o_cl o then set_o_treg false o else o in
  let '(u, m) := r_update code m in
  match u with
  | None => (PPanic, set_o_st ODone o, m)
  | Some (inl r) => (PReady r, set_o_st ODone o, m)
  | Some (inr _) =>
      if cx then let '(o, m) := register_waker ER o m in (PPending, o, m)
      else (PPending, o, m)
  end.

Definition r_poll (o : opc) (m : ms) : pollr rres * opc * ms :=
  match o_st o with
  | OStart =>
      let m := do_area_new m in
      let '(code, m) := h_read m in
      r_with_code true (set_o_st OInProg o) code m
  | OInProg =>
      match o_code o with
      | Some c => r_with_code true (set_o_code None o) c m
      | None => let '(o, m) := register_waker ER o m in (PPending, o, m)
      end
  | ODone => (PPanic, o, do_panic PRepoll m)
  end.

(** [Ok v] = the value arrived ([inl]); [Err reader] = cancelled, the reader is handed back ([inr]). *)
Definition r_into_cancel (r : rres) (m : ms) : (sval + unit) * ms :=
  match r with
  | RValue v => (inl v, on_ghost (add_got v) (h_drop ER m))
  | RCancelled => (inr tt, m)
  end.

Definition r_cancel (o : opc) (m : ms) : option (sval + unit) * opc * ms :=
  match o_st o with
  | OStart => (Some (inr tt), set_o_st ODone o, m)
  | ODone => (None, o, do_panic PRecancel m)
  | OInProg =>
      let fin (x : pollr rres * opc * ms) : option (option (sval + unit) * opc * ms) :=
        let '(p, o, m) := x in
        match p with
        | PReady r => let '(c, m) := r_into_cancel r m in Some (Some c, o, m)
        | PPanic => Some (None, o, m)
        | PPending => None
        end in
      let go_cancel (o : opc) (m : ms) :=
        let '(code, m) := h_cancel ER m in
        match fin (r_with_code false o code m) with
        | Some x => x
        | None => (None, o, do_panic PCancelPending m)
        end in
      match o_code o with
      | Some c =>
          match fin (r_with_code false (set_o_code None o) c m) with
          | Some x => x
          | None => go_cancel (set_o_code None o) m
          end
      | None => let '(o, m) := unregister_waker ER o m in go_cancel o m
      end
  end.

(** ** Actions on one future.  Result: [true] = the run goes on, [false] = the action panicked. *)
Definition out (o : outcome sval) (m : ms) : ms := emit (KOut o) m.
Definition skip (m : ms) : bool * ms := (true, out OSkip m).
Definition okm (m : ms) : bool * ms := (true, out OOk m).

(** [FutureWriter::write(value)]: accepted iff the user holds the writer and no FutureWrite object. *)
Definition write_ready (f : fut) : bool := writer (fr f) && is_none (write (fr f)).
Definition a_write (m : ms) : bool * ms :=
  if write_ready (mf m) then
    okm (on_ghost (fun g => add_live 1 (set_wv_user g)) (on_rt (fun r => set_write (Some (op_new, VUser)) (set_writer false r)) m))
  else skip m.

Definition a_wpoll (m : ms) : bool * ms :=
  match write (mr m) with
  | None => skip m
  | Some (o, v) =>
      let '(p, o, m) := w_poll o v m in
      let m := on_rt (set_write (Some (o, v))) m in
      match p with
      | PPending => (true, out OPending m)
      | PPanic => (false, m)
      | PReady r =>
          let m := h_drop EW m in
          match r with
          | WWritten => (true, out OWOk (on_ghost (add_sent v) m))
          | WDropped x | WCancelled x => (true, do_vdrop x (out (OWErr x) m))
          end
      end
  end.

Definition a_wcancel (m : ms) : bool * ms :=
  match write (mr m) with
  | None => skip m
  | Some (o, v) =>
      let '(c, o, m) := w_cancel o v m in
      let m := on_rt (set_write (Some (o, v))) m in
      match c with
      | None => (false, m)
      | Some WCAlreadySent => (true, out OAlreadySent m)
      | Some (WCDropped x) => (true, do_vdrop x (out (ODropped x) m))
      | Some (WCCancelled x) => (true, do_vdrop x (on_rt (set_writer true) (out (OCancelled x) m)))
      end
  end.

(** [Drop for FutureWrite]. *)
Definition a_wdropop (m : ms) : bool * ms :=
  match write (mr m) with
  | None => skip m
  | Some (o, v) =>
      match o_st o with
      | ODone => okm (on_rt (set_write None) (drop_cabi_task EW o m))
      | _ =>
          let '(c, o, m) := w_cancel o v m in
          let m := on_rt (set_write None) m in
          match c with
          | None => (false, m)
          | Some WCAlreadySent => okm (drop_cabi_task EW o m)
          | Some (WCDropped x) => okm (drop_cabi_task EW o (do_vdrop x m))
          | Some (WCCancelled x) => okm (drop_cabi_task EW o (writer_drop (do_vdrop x m)))
          end
      end
  end.

Definition a_dropwriter (m : ms) : bool * ms :=
  if writer (mr m) then okm (writer_drop (on_rt (set_writer false) m)) else skip m.

Definition a_read (m : ms) : bool * ms :=
  let r := mr m in
  if reader r && is_none (read r) then okm (on_rt (fun r => set_read (Some op_new) (set_reader false r)) m)
  else skip m.

Definition a_rpoll (m : ms) : bool * ms :=
  match read (mr m) with
  | None => skip m
  | Some o =>
      let '(p, o, m) := r_poll o m in
      let m := on_rt (set_read (Some o)) m in
      match p with
      | PPending => (true, out OPending m)
      | PPanic => (false, m)
      | PReady (RValue v) => (true, do_vdrop v (out (OVal v) (on_ghost (add_got v) (h_drop ER m))))
      | PReady RCancelled => (false, do_panic PPollAfterCancel (h_drop ER m))
      end
  end.

Definition a_rcancel (m : ms) : bool * ms :=
  match read (mr m) with
  | None => skip m
  | Some o =>
      let '(c, o, m) := r_cancel o m in
      let m := on_rt (set_read (Some o)) m in
      match c with
      | None => (false, m)
      | Some (inl v) => (true, do_vdrop v (out (OROk v) m))
      | Some (inr _) => (true, out ORErr (on_rt (set_reader true) m))
      end
  end.

(** Drop of a [RawFutureRead] = [Drop for WaitableOperation] (cancel, drop the result), then its fields. *)
Definition a_rdropop (m : ms) : bool * ms :=
  match read (mr m) with
  | None => skip m
  | Some o =>
      match o_st o with
      | ODone => okm (on_rt (set_read None) (drop_cabi_task ER o m))
      | _ =>
          let '(c, o, m) := r_cancel o m in
          let m := on_rt (set_read None) m in
          match c with
          | None => (false, m)
          | Some (inl v) => okm (drop_cabi_task ER o (do_vdrop v m))
          | Some (inr _) => okm (drop_cabi_task ER o (h_drop ER m))
          end
      end
  end.

Definition a_dropreader (m : ms) : bool * ms :=
  if reader (mr m) then okm (h_drop ER (on_rt (set_reader false) m)) else skip m.

Definition a_transfer (m : ms) : bool * ms :=
  if reader (mr m) then okm (h_peer_take ER (on_rt (set_reader false) m)) else skip m.

Definition r_at_peer (h : hostf) : bool := negb (e_live (hr h)) && negb (r_dropped h).
Definition w_at_peer (h : hostf) : bool := negb (e_live (hw h)) && negb (w_dropped h).

Definition a_peer_read (m : ms) : bool * ms :=
  let h := mh m in
  if r_at_peer h && negb (peer_read h) && negb (moved h) then okm (h_peer_read m) else skip m.
Definition a_peer_drop (m : ms) : bool * ms :=
  if r_at_peer (mh m) then okm (h_peer_drop_reader m) else skip m.
Definition peer_write_ready (f : fut) : bool :=
  let h := fh f in w_at_peer h && is_none (peer_write h) && negb (moved h).
Definition a_peer_write (m : ms) : bool * ms :=
  if peer_write_ready (mf m) then okm (h_peer_write VPeer m) else skip m.

(** [E:Fe]: [waitable-set.poll] hands the task the event of end [e]; the task delivers it
    ([join 0], remove the map entry, call the operation's completion callback [cabi_wake]). *)
Definition a_deliver (e : endk) (m : ms) : bool * ms :=
  let x := mend e m in
  if mset m && e_live x && e_joined x && is_some (e_ready x) then
    let '(oc, m) := consume_event e m in
    let c := match oc with Some c => c | None => 0 end in
    let m := emit (KWspoll e (match e with EW => EV_FUTURE_WRITE | ER => EV_FUTURE_READ end) c) m in
    let m := emit (KTdeliver e c) m in
    let m := h_join e false m in
    if reg_of e (mr m) then
      let m := on_rt (set_reg e false) m in
      match e with
      | EW =>
          match deferred (mr m), write (mr m) with
          | Some (o, v), _ => okm (deferred_wake (set_o_code (Some c) o) v m)
          | None, Some (o, v) => okm (emit KWake (on_rt (set_write (Some (set_o_code (Some c) o, v))) m))
          | None, None => okm (emit (KTrap TrStaleCallback) m)
          end
      | ER =>
          match read (mr m) with
          | Some o => okm (emit KWake (on_rt (set_read (Some (set_o_code (Some c) o))) m))
          | None => okm (emit (KTrap TrStaleCallback) m)
          end
      end
    else okm m
  else skip m.

(** ** One action of the core on one future *)
Definition host0 (imp : bool) : hostf :=
  mkHost (if imp then end_gone else end_idle) end_idle false false false None [] false.
Definition rt0 (imp : bool) : rtf := mkRt false false (negb imp) None None true None.
Definition fut0 (heap imp : bool) : fut := mkFut heap imp (host0 imp) (rt0 imp) ghost0.

Definition fact_fn (a : fact) : ms -> bool * ms :=
  match a with
  | FWrite => a_write | FWPoll => a_wpoll | FWCancel => a_wcancel | FWDropOp => a_wdropop
  | FDropWriter => a_dropwriter | FRead => a_read | FRPoll => a_rpoll | FRCancel => a_rcancel
  | FRDropOp => a_rdropop | FDropReader => a_dropreader | FTransfer => a_transfer
  | FPeerRead => a_peer_read | FPeerDrop => a_peer_drop | FPeerWrite => a_peer_write
  | FDeliver e => a_deliver e
  end.

(** [cstep v2 s c a]: run action [a] on the future [c]; [s] = the task's waitable set exists.
    Result: (did not panic, the future afterwards, the set exists afterwards, this action's tokens
    newest first). *)
Definition cstep (v2 s : bool) (c : fut) (a : fact) : bool * fut * bool * list (tok sval) :=
  let '(ok, m) := fact_fn a (mkMs v2 c s []) in (ok, mf m, mset m, mlog m).

(** ** The system: a list of futures (each with the concrete numbers behind its symbols), one task *)
Record sfut := mkSfut { core : fut; uval : N; pval : N }.
Record st := mkSt { futs : list sfut; s_set : bool; s_v2 : bool; s_ok : bool; s_log : list entry }.

Definition init (v2 : bool) : st := mkSt [] false v2 true [].

Fixpoint list_set {A} (n : nat) (x : A) (l : list A) : list A :=
  match n, l with
  | _, [] => []
  | O, _ :: r => x :: r
  | S n, y :: r => y :: list_set n x r
  end.

(** The future an action addresses, the core action, and the payload it carries (if any). *)
Definition fact_of (a : act) : option (nat * fact * option N) :=
  match a with
  | ANew _ | AImp _ => None
  | AWrite f v => Some (f, FWrite, Some v)
  | AWPoll f => Some (f, FWPoll, None)
  | AWCancel f => Some (f, FWCancel, None)
  | AWDropOp f => Some (f, FWDropOp, None)
  | ADropWriter f => Some (f, FDropWriter, None)
  | ARead f => Some (f, FRead, None)
  | ARPoll f => Some (f, FRPoll, None)
  | ARCancel f => Some (f, FRCancel, None)
  | ARDropOp f => Some (f, FRDropOp, None)
  | ADropReader f => Some (f, FDropReader, None)
  | ATransfer f => Some (f, FTransfer, None)
  | APeerRead f => Some (f, FPeerRead, None)
  | APeerDrop f => Some (f, FPeerDrop, None)
  | APeerWrite f v => Some (f, FPeerWrite, Some v)
  | ADeliver f e => Some (f, FDeliver e, None)
  end.

(** An accepted user write / peer write defines what [VUser] / [VPeer] stand for from now on. *)
Definition remember (sf : sfut) (a : fact) (ov : option N) : sfut :=
  match a, ov with
  | FWrite, Some v => if write_ready (core sf) then mkSfut (core sf) v (pval sf) else sf
  | FPeerWrite, Some v => if peer_write_ready (core sf) then mkSfut (core sf) (uval sf) v else sf
  | _, _ => sf
  end.

Definition entries (i : nat) (sf : sfut) (toks : list (tok sval)) : list entry :=
  map (fun t => ETok i (tmap (resolve (uval sf) (pval sf)) t)) toks.

(** One action.  After a panic the run has stopped: further actions do nothing. *)
Definition step (s : st) (a : act) : st :=
  if negb (s_ok s) then s
  else
    let lg := EAct a :: s_log s in
    match a with
    | ANew heap =>
        let i := length (futs s) in
        mkSt (futs s ++ [mkSfut (fut0 heap false) 0 0]) (s_set s) (s_v2 s) true
             (ETok i (KOut OOk) :: ETok i KFnew :: lg)
    | AImp heap =>
        let i := length (futs s) in
        mkSt (futs s ++ [mkSfut (fut0 heap true) 0 0]) (s_set s) (s_v2 s) true
             (ETok i (KOut OOk) :: ETok i (KTake EW) :: ETok i KFnew :: lg)
    | _ =>
        match fact_of a with
        | None => s
        | Some (i, fa, ov) =>
            match nth_error (futs s) i with
            | None => mkSt (futs s) (s_set s) (s_v2 s) true (ETok i (KOut OSkip) :: lg)
            | Some sf =>
                let sf := remember sf fa ov in
                let '(ok, c, set, toks) := cstep (s_v2 s) (s_set s) (core sf) fa in
                mkSt (list_set i (mkSfut c (uval sf) (pval sf)) (futs s)) set (s_v2 s) ok
                     (entries i sf toks ++ lg)
            end
        end
    end.

Definition exec (v2 : bool) (tr : list act) : st := fold_left step tr (init v2).

(** The clean-up suffix every complete scenario ends with (appended by the generator, and by the
    quiescence theorems): drop whatever the user still holds, let the peer read and then drop its end,
    deliver every pending event. *)
Definition cleanup (n : nat) : list act :=
  let fs := seq 0 n in
  flat_map (fun f => [AWDropOp f; ADropWriter f; ARDropOp f; ADropReader f]) fs
  ++ map APeerRead fs
  ++ flat_map (fun f => [ADeliver f EW; ADeliver f ER]) fs
  ++ map APeerDrop fs
  ++ flat_map (fun f => [ADeliver f EW; ADeliver f ER]) fs.

Definition count_new (tr : list act) : nat :=
  length (filter (fun a => match a with ANew _ | AImp _ => true | _ => false end) tr).

(** ** Summary of a final state (what the driver measures on the real side) *)
Definition b2n (b : bool) : nat := if b then 1%nat else 0%nat.
Definition opc_clones (o : option opc) : nat := match o with Some o => b2n (o_cl o) | None => 0%nat end.
Definition slots_of (f : fut) : nat :=
  let r := fr f in (b2n (writer r) + b2n (is_some (write r)) + b2n (reader r) + b2n (is_some (read r)))%nat.
Definition ends_of (f : fut) : nat := (b2n (e_live (hw (fh f))) + b2n (e_live (hr (fh f))))%nat.
Definition map_of (f : fut) : nat := (b2n (regw (fr f)) + b2n (regr (fr f)))%nat.
Definition clones_of (f : fut) : nat :=
  (opc_clones (option_map fst (write (fr f))) + opc_clones (option_map fst (deferred (fr f))) + opc_clones (read (fr f)))%nat.
Definition sum_nat (l : list nat) : nat := fold_right Nat.add 0%nat l.
Definition sum_Z (l : list Z) : Z := fold_right Z.add 0%Z l.

Record summary := mkSum {
  su_panicked : bool; su_slots : nat; su_live : Z; su_low : Z; su_area : Z; su_ends : nat;
  su_map : nat; su_clones : nat; su_defaults : nat; su_peer : list (list N) }.

Definition summarise (s : st) : summary :=
  let fs := map core (futs s) in
  mkSum (negb (s_ok s))
        (sum_nat (map slots_of fs))
        (sum_Z (map (fun f => if f_heap f then g_live (fg f) else 0%Z) fs))
        (sum_Z (map (fun f => g_low (fg f)) fs))
        (sum_Z (map (fun f => g_area (fg f)) fs))
        (sum_nat (map ends_of fs))
        (sum_nat (map map_of fs))
        (sum_nat (map clones_of fs))
        (sum_nat (map (fun f => n_default (fg f)) fs))
        (map (fun sf => map (resolve (uval sf) (pval sf)) (peer_recv (fh (core sf)))) (futs s)).

Definition run (v2 : bool) (tr : list act) : list entry * summary :=
  let s := exec v2 tr in (rev (s_log s), summarise s).

(** ** The property's predicates on a log / state *)
Definition is_trap {V} (t : tok V) : bool := match t with KTrap _ => true | _ => false end.
Definition is_bad_panic {V} (t : tok V) : bool :=
  match t with
  | KOut (OPanic PUnexpectedCode) | KOut (OPanic PPollAfterCancel) | KOut (OPanic PCancelPending) => true
  | _ => false
  end.
Definition bad_tok {V} (t : tok V) : bool := is_trap t || is_bad_panic t.
Definition clean_toks {V} (l : list (tok V)) : bool := negb (existsb bad_tok l).
Definition clean_log (l : list entry) : bool :=
  negb (existsb (fun e => match e with ETok _ t => bad_tok t | EAct _ => false end) l).

(** Nothing left on a future: both handles gone from the guest's table, nothing registered, no
    operation alive, ledger at zero. *)
Definition quiescent_fut (f : fut) : bool :=
  negb (e_live (hw (fh f))) && negb (e_live (hr (fh f)))
  && negb (regw (fr f)) && negb (regr (fr f))
  && negb (writer (fr f)) && is_none (write (fr f)) && is_none (deferred (fr f))
  && negb (reader (fr f)) && is_none (read (fr f))
  && Z.eqb (g_low (fg f)) 0 && Z.eqb (g_area (fg f)) 0 && Z.eqb (g_live (fg f)) 0.
